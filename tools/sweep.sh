#!/bin/bash
# tools/sweep.sh <tier> <seed>...  : run every claimed check, print one line each
tier=$1; shift
cd "$(dirname "$0")/.."
for seed in "$@"; do
  for c in C01 C02 C03 C04 C05 C06 C07 C08 C09 C10 C11 C12 C13 C14 C15 C16 C17 C18 C19 C20; do
    out=$(VERIF_SEED=$seed ./check $c $tier 2>&1); rc=$?
    echo "seed=$seed $c rc=$rc $(echo "$out" | grep -E "$tier:" | tail -1) known=$(echo "$out" | grep -c '^KNOWN-FINDING') viol=$(echo "$out" | grep -c '^VIOLATION')"
    if [ $rc -ne 0 ]; then echo "$out" | grep -E "violated|VIOLATION|INCONCLUSIVE" | head -5 | cut -c1-400; fi
  done
done
