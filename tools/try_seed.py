#!/usr/bin/env python3
"""Confirm a seeded breaking change and run the check against it.

  tools/try_seed.py <Cxx> <label> <patch.diff> <demo_test.go> [--needs "..."] [--tier quick|thorough] [--keep]

Everything happens in a scratch git worktree of /repo outside /repo and /verif (removed afterwards):
  1. the patch applies and gorm still builds;
  2. gorm's own suites (root module and tests/) pass with the patch;
  3. the demonstration test fails with the patch and passes without it;
  4. `VERIF_REPO=<worktree> ./check <Cxx> <tier>` is run against the patched tree.
The outcome is written to /verif/seeded/<Cxx>-<label>/ (patch.diff, demo_test.go.txt, meta.json).
"""
import json, os, re, shutil, subprocess, sys, tempfile, time

ROOT = os.path.dirname(os.path.dirname(os.path.abspath(__file__)))
ENV = dict(os.environ, GOFLAGS="-mod=mod", GOPROXY="off", GOSUMDB="off", GOTOOLCHAIN="local")


def sh(cmd, cwd=None, env=None, timeout=3600):
    p = subprocess.run(cmd, shell=True, cwd=cwd, env=env or ENV, stdout=subprocess.PIPE, stderr=subprocess.STDOUT, text=True, timeout=timeout)
    return p.returncode, p.stdout


def suites(wt, env):
    """gorm's own suites. tests/ has load-dependent flakes on the unchanged tree (TestPreparedStmtConcurrentClose/Reset:
    a nil-pointer panic in the test's own helper): a failure that names only those is retried, up to 4 runs."""
    res = {}
    for name, d in (("root", wt), ("tests", os.path.join(wt, "tests"))):
        outs, ok = [], False
        for attempt in range(4):
            rc, out = sh("go test -vet=off -count=1 ./... 2>&1 | tail -60", cwd=d, env=env)
            outs.append(out)
            ok = "FAIL" not in out and "panic:" not in out
            failed = set(re.findall(r"--- FAIL: (\w+)", out))
            if ok or not failed or not all(f.startswith("TestPreparedStmtConcurrent") for f in failed):
                if ok or attempt >= 1:
                    break
        res[name] = dict(ok=ok, tail="\n--- retry ---\n".join(o[-1500:] for o in outs)[-4000:], runs=len(outs))
    return res


def demo(wt, env, demo_src, testname):
    dst = os.path.join(wt, "tests", "zz_seed_demo_test.go")
    shutil.copy(demo_src, dst)
    race = "-race " if re.search(r"go test[^\n]*-race", open(demo_src).read()) else ""  # the demo says it needs the race detector
    rc, out = sh("go test %s-vet=off -count=1 -run '^%s$' . 2>&1 | tail -30" % (race, testname), cwd=os.path.join(wt, "tests"), env=env)
    os.remove(dst)
    passed = re.search(r"^ok\s", out, re.M) is not None and "FAIL" not in out
    return passed, out[-1500:]


def main():
    a = sys.argv[1:]
    cid, label, patch, demo_src = a[0], a[1], os.path.abspath(a[2]), os.path.abspath(a[3])
    needs, tier, keep = "", "quick", False
    if "--suites-only" in a:
        return suites_only(cid, label, patch)
    i = 4
    while i < len(a):
        if a[i] == "--needs":
            needs = a[i + 1]; i += 2
        elif a[i] == "--tier":
            tier = a[i + 1]; i += 2
        elif a[i] == "--keep":
            keep = True; i += 1
        else:
            i += 1
    m = re.search(r"func (TestSeed\w*)\(", open(demo_src).read())
    testname = m.group(1) if m else "TestSeed"
    base = tempfile.mkdtemp(prefix="seedtry-%s-%s-" % (cid, label), dir="/tmp")
    wt = os.path.join(base, "repo")
    tmpd = os.path.join(base, "tmp"); os.makedirs(tmpd)
    env = dict(ENV, TMPDIR=tmpd)
    meta = dict(property=cid, label=label, needs_to_manifest=needs, base_commit=sh("git -C /repo rev-parse --short HEAD")[1].strip(), ran=[])
    try:
        rc, out = sh("git -C /repo worktree add -q %s HEAD" % wt)
        assert rc == 0, out
        # unchanged tree: the demo passes
        ok0, out0 = demo(wt, env, demo_src, testname)
        meta["demo_passes_without_change"] = ok0
        meta["ran"].append("demo on unchanged worktree: %s" % ("pass" if ok0 else "FAIL\n" + out0))
        rc, out = sh("git apply %s" % patch, cwd=wt)
        meta["patch_applies"] = rc == 0
        if rc != 0:
            meta["ran"].append("git apply failed: " + out)
            return finish(meta, patch, demo_src, keep)
        rc, out = sh("go build ./... 2>&1 | tail -20", cwd=wt, env=env)
        meta["compiles"] = "error" not in out.lower() and rc == 0 and out.strip() == ""
        meta["ran"].append("go build ./...: %s" % (out.strip() or "ok"))
        ok1, out1 = demo(wt, env, demo_src, testname)
        meta["demo_fails_with_change"] = not ok1
        meta["ran"].append("demo with change: %s" % ("pass (NOT a demonstration)" if ok1 else "fails as intended"))
        meta["demo_failure_tail"] = out1[-800:] if not ok1 else ""
        st = suites(wt, env)
        meta["existing_suites_pass_with_change"] = all(v["ok"] for v in st.values())
        meta["ran"].append("existing suites with change: " + ", ".join("%s=%s" % (k, "pass" if v["ok"] else "FAIL") for k, v in st.items()))
        if not meta["existing_suites_pass_with_change"]:
            meta["suite_tails"] = {k: v["tail"] for k, v in st.items() if not v["ok"]}
        # the check
        t0 = time.time()
        rc, out = sh("./check %s %s 2>&1" % (cid, tier), cwd=ROOT, env=dict(ENV, VERIF_REPO=wt), timeout=7200)
        viol = re.findall(r"^VIOLATION .*$", out, re.M)
        msgs = re.findall(r"^.*C\d\d violated[^\n]*", out, re.M)
        meta["check"] = dict(cmd="VERIF_REPO=<worktree> ./check %s %s" % (cid, tier), exit=rc, wall_s=round(time.time() - t0, 1),
                             violation_lines=viol[:4], first_messages=[m.strip()[:400] for m in msgs[:3]])
        meta["caught"] = rc == 1 and bool(viol)
        meta["ran"].append("check exit %d, %d VIOLATION line(s)" % (rc, len(viol)))
    finally:
        sh("git -C /repo worktree remove --force %s" % wt)
        shutil.rmtree(base, ignore_errors=True)
        # replays written by this run belong to the patched tree
    return finish(meta, patch, demo_src, keep)


def suites_only(cid, label, patch):
    """Re-run only gorm's own suites with the patch (after a run spoiled by the load-dependent flakes) and update meta.json."""
    d = os.path.join(ROOT, "seeded", "%s-%s" % (cid, label))
    meta = json.load(open(os.path.join(d, "meta.json")))
    base = tempfile.mkdtemp(prefix="seedtry-%s-%s-" % (cid, label), dir="/tmp")
    wt = os.path.join(base, "repo")
    tmpd = os.path.join(base, "tmp"); os.makedirs(tmpd)
    env = dict(ENV, TMPDIR=tmpd)
    try:
        rc, out = sh("git -C /repo worktree add -q %s HEAD" % wt)
        assert rc == 0, out
        rc, out = sh("git apply %s" % patch, cwd=wt)
        assert rc == 0, out
        st = suites(wt, env)
    finally:
        sh("git -C /repo worktree remove --force %s" % wt)
        shutil.rmtree(base, ignore_errors=True)
    ok = all(v["ok"] for v in st.values())
    meta["existing_suites_pass_with_change"] = ok
    meta["ran"].append("%s suites re-run alone: %s" % (time.strftime("%Y-%m-%d %H:%M"), ", ".join("%s=%s (%d run(s))" % (k, "pass" if v["ok"] else "FAIL", v["runs"]) for k, v in st.items())))
    if ok:
        meta.pop("suite_tails", None)
    else:
        meta["suite_tails"] = {k: v["tail"] for k, v in st.items() if not v["ok"]}
    meta["qualifies"] = all(meta.get(k) for k in ("patch_applies", "compiles", "demo_passes_without_change", "demo_fails_with_change", "existing_suites_pass_with_change"))
    json.dump(meta, open(os.path.join(d, "meta.json"), "w"), indent=1)
    print(cid, label, "suites", "pass" if ok else "FAIL", "qualifies", meta["qualifies"])
    return 0


def finish(meta, patch, demo_src, keep):
    qualifies = all(meta.get(k) for k in ("patch_applies", "compiles", "demo_passes_without_change", "demo_fails_with_change", "existing_suites_pass_with_change"))
    meta["qualifies"] = bool(qualifies)
    d = os.path.join(ROOT, "seeded", "%s-%s" % (meta["property"], meta["label"]))
    old = {}
    if os.path.exists(os.path.join(d, "meta.json")):
        try:
            old = json.load(open(os.path.join(d, "meta.json")))
        except ValueError:
            old = {}
    if not meta.get("needs_to_manifest") and old.get("needs_to_manifest"):
        meta["needs_to_manifest"] = old["needs_to_manifest"]
    hist = old.get("check_history", [])
    if old.get("check") and not hist:
        hist = [dict(when="first run", caught=old.get("caught"), messages=old["check"].get("first_messages", [])[:1])]
    if meta.get("check"):
        hist.append(dict(when=time.strftime("%Y-%m-%d %H:%M"), caught=meta.get("caught"), messages=meta["check"].get("first_messages", [])[:1]))
    meta["check_history"] = hist
    if qualifies or keep:
        os.makedirs(d, exist_ok=True)
        for src, name in ((patch, "patch.diff"), (demo_src, "demo_test.go.txt")):
            if os.path.abspath(src) != os.path.abspath(os.path.join(d, name)):
                shutil.copy(src, os.path.join(d, name))
        json.dump(meta, open(os.path.join(d, "meta.json"), "w"), indent=1)
    print(json.dumps({k: meta.get(k) for k in ("property", "label", "qualifies", "patch_applies", "compiles", "demo_passes_without_change",
                                                 "demo_fails_with_change", "existing_suites_pass_with_change", "caught")}, indent=None))
    if meta.get("check"):
        print("  check:", meta["check"]["exit"], meta["check"]["first_messages"][:1])
    return 0


if __name__ == "__main__":
    sys.exit(main())
