#!/usr/bin/env python3
"""Regenerate the marker-delimited tables of DESIGN.md (findings, seeded changes)."""
import glob, json, os, re
ROOT = os.path.dirname(os.path.dirname(os.path.abspath(__file__)))
p = os.path.join(ROOT, "DESIGN.md")
s = open(p).read()

WHY = {
 'replace-star': 'needs a rewrite of sortCallbacks (its orders are pinned by an existing test)',
 'forward-reference': 'same: the ad-hoc sorter rewrites the callbacks\' own constraints; a fix is a redesign', 'star-as-anchor': 'same', 'replace-between-stars': 'same',
 'save-fallback-second-transaction': 'Save is update-then-upsert in two pipelines by design', 'save-condition-miss': 'same design: the fallback upsert ignores chain conditions',
 'idkey-collision': '`utils.ToStringKey` format is pinned by an existing unit test and used as map key in several packages', 'idkey-nil-collision': 'same', 'idkey-zero-part': 'same',
 'assoc-inline-conds-concat': 'which condition should win is not documented',
 'maps-byvalue-model-returning': 'gorm.Scan has no destination case for map slices created through Model(); not a local patch', 'maps-pointer-model-returning': 'same',
 'map-read-serializer': 'prepareValues would need serializer-aware holders for map destinations',
 'nil-embedded-gob-unixtime': 'serializer contract for nil embedded pointers is unspecified (json writes NULL)',
 'pluck-pointer-null': 'Scan\'s slice branch hands the element itself to database/sql; needs a second indirection through the whole branch',
 'belongsto-unscoped-replace': 'the Unscoped branches of association.go reuse the owner statement / a foreign-key pointer that is overwritten later; four related defects that want one redesign of that branch',
 'belongsto-unscoped-replace-newtarget': 'same', 'belongsto-unscoped-references-nonprimary': 'same (the Unscoped branch compares with the target\'s primary key instead of the referenced column)', 'belongsto-unscoped-replace-same': 'same', 'belongsto-unscoped-delete-unnamed': 'same',
 'm2m-slice-replace-union': 'Replace on slices builds one NOT IN list for all owners', 'belongsto-clear-slice-other-fk': 'UpdateColumns on the owner slice writes every foreign key of the last element',
 'rescan-bytes': 'rendered fragments are re-scanned as templates in two places; needs a different composition of sub-statements',
 'close-stale-session-handle': 'Session copies PreparedStmtDB by value; a fix shares one object and changes how a public struct is used',
 'default-noncanonical-number': 'compares the database\'s text with the raw tag text; needs value-level comparison per type',
 'cold-related-first-use': 'schema publication protocol (schema cached before its relations are parsed)',
 'owner-first-use-target-in-use': 'same publication protocol: an owner\'s first parse writes into the already-published target schema',
 'donothing-unreadable-default': 'RETURNING rows are matched to elements by position; skipping needs a key to match on, which is exactly what is unreadable here',
 'returning-single-unreadable-default': 'the single-column RETURNING shortcut assumes that column is the key; choosing the field needs a wider change of the create callback',
 'unique-name-collision': 'NamingStrategy.UniqueName is public naming behaviour; changing generated constraint names breaks existing databases',
 'nested-context-cancelled': 'which context the ROLLBACK TO of a failed nested block runs under is a design decision: C18 wants the caller\'s, and with it cancelled database/sql refuses the statement; reporting the refused rollback would at least need the deferred function to return it',
 'hook-write-block-in-association-save': 'association saves run under Session{DisableNestedTransaction: true} and the hooks of the associated records inherit that session; restoring the caller\'s setting for hooks needs the original value carried along',
 'selfappend-byvalue-assignback': 'saveAssociation\'s assign-back copies the appended element (a copy of the owner taken before its relation field was set) over the argument, which is the owner itself; avoiding it needs an identity check in the assign-back loop of all relation kinds',
 'scope-returns-session-handle': 'tried: continuing Execute on an instance of the returned handle repairs the transaction bookkeeping, but callers that ignore Execute\'s return value (CreateInBatches reads subtx.Error) then lose errors - what a scope may return needs a decision first; reverted',
 'shared-child-in-partly-new-slice': 'the re-create of a partly seen slice is also what writes the foreign keys of the seen has-one/has-many elements (upsert with DoUpdates); skipping seen elements loses that write, so hooks-once needs the insert split from the link update',
 'shared-child-across-batches': 'each batch of CreateInBatches is a Create of its own with its own visit map; sharing the map across batches has to be done from package gorm, where its type is not visible (4606f7f repairs the case inside one batch)',
 'scope-session-open-tx': 'same root as C05 `scope-returns-session-handle` (Execute continues on the handle a scope returned; the transaction bookkeeping stays on the statement it started with); the repair tried there was reverted',
 'preparestmt-bounded-pool': 'documented trade-off in prepare() (it cannot hold the lock while waiting for a connection)',
}

def short(t, n=170):
    t = t.replace('|', '\\|')
    return t if len(t) <= n else t[:n - 1] + '…'

fixed, openf = [], []
for l in open(os.path.join(ROOT, "known-findings.txt")):
    m = re.match(r'(open|fixed): property=(C\d+) (?:([0-9a-f]{7}) )?(?:class=(\S+) )?(?:witness=(\S+) )?(.*)$', l.strip())
    if not m:
        continue
    st, prop, commit, cls, wit, text = m.groups()
    (fixed if st == 'fixed' else openf).append((prop, commit, cls or '-', wit or '-', text))
out = ['### 6.1 Repaired (%d `fix:` commits, %d entries)\n' % (len(set(f[1] for f in fixed)), len(fixed)),
       '| property | commit | class / witness | what failed |', '|---|---|---|---|']
for prop, commit, cls, wit, text in sorted(fixed):
    out.append('| %s | %s | %s | %s |' % (prop, commit, cls if cls != '-' else wit, short(text)))
out.append('\nWhy these were repaired rather than recorded: each patch is local (one function), keeps the behaviour and corrects it (copy instead of append-in-place, carry two fields in `clone()`, a tolerant keyword scan, clear a shared map in place, look through a wrapper expression, use the typed zero value, compare identity before evicting, `LoadOrStore`, read under the lock the writer holds), none special-cases the failing input, and the unedited suite passes with each.\n')
out.append('### 6.2 Open (%d classes)\n' % len(openf))
out.append('| property | class | what fails | why not repaired here |')
out.append('|---|---|---|---|')
for prop, commit, cls, wit, text in sorted(openf):
    out.append('| %s | `%s` | %s | %s |' % (prop, cls, short(text, 150), WHY.get(cls, 'not a small local patch')))
s = re.sub(r'(<!-- BEGIN:findings[^\n]*-->\n).*?(<!-- END:findings -->)', lambda m: m.group(1) + '\n'.join(out) + '\n' + m.group(2), s, flags=re.S)

rows = ['| seeded change | what it needs to manifest | qualifies | caught at first run | caught now |', '|---|---|---|---|---|']
n = caught = first = 0
for d in sorted(glob.glob(os.path.join(ROOT, 'seeded', '*', 'meta.json'))):
    m = json.load(open(d))
    name = os.path.basename(os.path.dirname(d))
    hist = [h.get('caught') for h in m.get('check_history', [])]
    f = hist[0] if hist else m.get('caught')
    n += 1; caught += bool(m.get('caught') or m.get('caught_by_other_check')); first += bool(f)
    rows.append('| %s | %s | %s | %s | %s |' % (name, short((m.get('needs_to_manifest') or m.get('summary') or '').strip(), 160), 'yes' if m.get('qualifies') else 'no', 'yes' if f else 'no', 'yes' if m.get('caught') else (('no, but by ' + m['caught_by_other_check'].split(' ')[0]) if m.get('caught_by_other_check') else ('no' if 'caught' in m else '-'))))
rows.append('\n%d seeded changes; %d caught at the first run, %d caught by the committed checks.' % (n, first, caught))
s = re.sub(r'(<!-- BEGIN:seeded[^\n]*-->\n).*?(<!-- END:seeded -->)', lambda m: m.group(1) + '\n'.join(rows) + '\n' + m.group(2), s, flags=re.S)
open(p, 'w').write(s)
print("DESIGN.md tables regenerated: %d fixed, %d open, %d seeded" % (len(fixed), len(openf), n))
