#!/usr/bin/env python3
"""Regenerate MANIFEST.json from props/*/check.json (their "manifest" blocks) and tools/not_applicable.json."""
import glob, json, os
ROOT = os.path.dirname(os.path.dirname(os.path.abspath(__file__)))
checks, served = [], []
for f in sorted(glob.glob(os.path.join(ROOT, "props", "*", "check.json"))):
    c = json.load(open(f))
    m = c.get("manifest")
    if not m or not m.get("reviewed"):
        continue  # only checks the lead has reviewed (manifest.reviewed = true) are claimed
    cid = c["id"]
    served.append(cid)
    checks.append({
        "property_id": cid,
        "quick_cmd": "./check %s quick" % cid,
        "thorough_cmd": "./check %s thorough" % cid,
        "evidence_file": "evidence/%s.json" % cid,
        "replay_cmd_template": "./check %s --replay {path}" % cid,
        "engine": "rapid-harness" + ("-race" if c.get("race") else ""),
        "level_claimed": {"category": c["level"], "text": m["level_text"], "design_ref": "DESIGN.md §3 %s" % cid},
        "level_note": m["level_note"],
        "technique": m["technique"],
    })
na_path = os.path.join(ROOT, "tools", "not_applicable.json")
na = json.load(open(na_path)) if os.path.exists(na_path) else []
na = [x for x in na if x["property_id"] not in served]
man = {
    "version": 1,
    "setup_cmd": "./check --setup",
    "hooks": {
        "guard": "verif",
        "enable": "go test -tags verif (no guarded source exists in /repo: every observation point is reachable from outside through a database/sql driver wrapper, dialector wrappers and harness-defined model hooks; the tag is passed for forward compatibility)",
        "baseline_off_cmd": "for m in . tests; do (cd /repo/$m && GOFLAGS=-mod=mod go test -json -vet=off -count=1 -timeout 25m ./...); done",
        "source_commits": [],
        "add_only": True,
    },
    "engines": [
        {"name": "rapid-harness", "path": "check", "serves_properties": [c["property_id"] for c in checks if not c["engine"].endswith("-race")],
         "kind_free_text": "property-based tests (pgregory.net/rapid v1.3.0: generators, state machines, shrinking) and exhaustive small-scope enumerations, compiled against /repo's working tree, one process per shard, driven by ./check which merges the evidence"},
        {"name": "rapid-harness-race", "path": "check", "serves_properties": [c["property_id"] for c in checks if c["engine"].endswith("-race")],
         "kind_free_text": "the same harness built with -race; race reports are part of the oracle"},
    ],
    "checks": checks,
    "not_applicable": na,
    "notes": "Genuine defects found are listed in known-findings.txt (open: excluded by construction and reported as KNOWN-FINDING while their witness fails; fixed: repaired by a fix: commit in /repo, witness kept as regression test). See DESIGN.md.",
}
json.dump(man, open(os.path.join(ROOT, "MANIFEST.json"), "w"), indent=1)
print("MANIFEST.json: %d checks, %d not_applicable" % (len(checks), len(na)))
