// C20 — AutoMigrate is idempotent and never loses data. See DESIGN.md §3 C20;
// grammar and round-trip oracle live in internal/schemagen.
package c20

import (
	"context"
	"fmt"
	"reflect"
	"regexp"
	"sort"
	"strings"
	"testing"
	"time"

	"gorm.io/gorm"
	"gorm.io/gorm/logger"
	"pgregory.net/rapid"

	"verif/internal/evid"
	"verif/internal/harness"
	sg "verif/internal/schemagen"
	"verif/internal/testdb"
	"verif/internal/vdialect"
)

type ctxKey struct{}

func TestMain(m *testing.M) { harness.Main(m) }

const rule = "C20: model v1 from the schemagen grammar (C03 kinds and tags) plus index / named index (also named like a column, several per field) / composite index / uniqueIndex / unique / check / named check / size / not null tags; history migrate(v1) -> Create 0-5 rows -> migrate(v1) -> migrate(v2 = v1 + 0-3 added nullable or constant-defaulted fields or embedded structs + indexes / checks added to existing fields) -> read back -> Create v2 records; non-trivial = v1 carries at least one index / constraint / default / size / not null tag and at least one row, and v2 adds at least one element; distinct = v1 + v2 schema + rows"

// table is the table of the case being run (set by run; cases run one at a time).
var table = "t_c20"

// a table name long enough to push every default index / check / unique name over the
// naming strategy's 64 character limit (the names are then cut and hashed)
const longTable = "t_c20_a_rather_long_table_name_of_a_legacy_application_xx"

var ddlRe = regexp.MustCompile(`(?i)^\s*(CREATE|ALTER|DROP)\b`)

// schemaChanging reports whether a statement sent to the driver changes the schema
// (CREATE / ALTER / DROP, or the copy step of the SQLite table-rebuild pattern).
func schemaChanging(sql string) bool {
	return ddlRe.MatchString(sql) || strings.Contains(sql, "__temp")
}

type caseT struct {
	v1, v2           *sg.StructSpec
	pk               string
	m1, m2           *sg.Model
	rows             *sg.Records
	rows2            *sg.Records
	added            []string
	returning        bool
	now              time.Time
	excl             []string
	table            string
	how1, how2       string // how the second migrate(v1) and migrate(v2) obtain their handle
	skipTx, noNested bool
	backToV1         bool // run migrate(v1) once more after migrate(v2)
}

// the handles a migration can be run through
var migrateHandles = []string{"fresh", "fresh", "session", "context", "tx", "restart"}

func genCase(rt *rapid.T) *caseT {
	c := &caseT{}
	names := sg.NewNamer()
	ex := map[string]bool{}
	if harness.OpenClass("C03", "unixtime-uint") {
		for _, k := range sg.UnixtimeUnsigned {
			ex[k.Name] = true
		}
	}
	opts := sg.GenOptions{MinLeaves: 1, MaxLeaves: 7, Migration: true, Names: names, Exclude: ex,
		NoAddedUnique: harness.OpenClass("C20", "unique-on-added-column"), NoNonCanonical: harness.OpenClass("C20", "default-noncanonical-number"),
		NoUniqueNameClash: harness.OpenClass("C20", "unique-name-collision"), NoIgnoredNameAsColumn: harness.OpenClass("C03", "ignored-field-named-like-column"), OnExcludeTag: func(cl string) { c.excl = append(c.excl, cl) },
		OnExclude: func(*sg.Kind) { c.excl = append(c.excl, "C03:unixtime-uint") }}
	c.v1, c.pk = sg.GenModel(rt, opts)
	c.m1 = sg.Build(c.v1)
	c.v2, c.added = sg.Evolve(rt, c.v1, opts)
	c.m2 = sg.Build(c.v2)
	keep := func(m *sg.Model) {
		if !harness.OpenClass("C03", "nil-embedded-gob-unixtime") {
			return
		}
		m.KeepGroups = map[string]bool{}
		for _, l := range m.Leaves {
			if strings.HasPrefix(l.Kind.Name, "gob:") || strings.HasPrefix(l.Kind.Name, "unixtime:") {
				for _, k := range l.GroupKeys() {
					m.KeepGroups[k] = true
				}
			}
		}
		m.OnKeptGroup = func() { c.excl = append(c.excl, "C03:nil-embedded-gob-unixtime") }
	}
	keep(c.m1)
	keep(c.m2)
	c.returning = rapid.IntRange(0, 3).Draw(rt, "returning") > 0
	n := rapid.IntRange(0, 5).Draw(rt, "rows")
	c.rows = sg.GenRecords(rt, c.m1, n, sg.KeyAuto, 1)
	c.rows2 = sg.GenRecords(rt, c.m2, rapid.IntRange(1, 3).Draw(rt, "rows2"), sg.KeyAuto, 1+n)
	c.now = testdb.FixedNow.Add(time.Duration(rapid.Int64Range(0, 3_000_000_000).Draw(rt, "nowstep")))
	c.table = "t_c20"
	if rapid.IntRange(0, 5).Draw(rt, "longtable") == 0 {
		c.table = longTable
	}
	c.how1 = rapid.SampledFrom(migrateHandles).Draw(rt, "handle.v1again")
	c.how2 = rapid.SampledFrom(migrateHandles).Draw(rt, "handle.v2")
	if rapid.IntRange(0, 3).Draw(rt, "cfg") == 0 {
		c.skipTx = rapid.Bool().Draw(rt, "cfg.skiptx")
		c.noNested = rapid.Bool().Draw(rt, "cfg.nonested")
	}
	c.backToV1 = rapid.IntRange(0, 2).Draw(rt, "backtov1") == 0
	for _, a := range c.added {
		if strings.HasPrefix(a, "changed ") {
			// v2 changed the definition of an existing column: going back to v1 legitimately changes it back
			c.backToV1 = false
		}
	}
	return c
}

func (c *caseT) header() string {
	ret := "returning"
	if !c.returning {
		ret = "no-returning"
	}
	cfg := ""
	if c.skipTx {
		cfg += " SkipDefaultTransaction"
	}
	if c.noNested {
		cfg += " DisableNestedTransaction"
	}
	back := ""
	if c.backToV1 {
		back = " then migrate(v1) again"
	}
	return fmt.Sprintf("v1=%s pk=%s %s rows=%d table=%s second-migrate(v1)-through=%s migrate(v2)-through=%s%s%s v2 adds %v; v2=%s rows2=%d", c.v1, c.pk, ret, len(c.rows.Vals), c.table, c.how1, c.how2, cfg, back, c.added, c.v2, len(c.rows2.Vals))
}

func (c *caseT) desc() string {
	c1, _ := c.rows.Snapshot()
	c2, _ := c.rows2.Snapshot()
	return c.header() + " rows: " + sg.DescribeRecords(c.m1, c1) + " rows2: " + sg.DescribeRecords(c.m2, c2)
}

func (c *caseT) nontrivial() bool {
	return c.m1.HasMigrationTag() && len(c.rows.Vals) >= 1 && len(c.added) >= 1
}

func (c *caseT) classes() []string {
	set := map[string]bool{}
	tagClasses := func(m *sg.Model, v string) {
		for _, l := range m.Leaves {
			s := l.Spec
			set[v+":kind-group:"+l.Kind.Group] = true
			for n, idx := range strings.Split(s.Index, ";") {
				if idx == "" {
					continue
				}
				if strings.HasPrefix(idx, "index:idx") {
					idx = "index:<name>"
				} else if strings.HasPrefix(idx, "index:") && !strings.HasPrefix(idx, "index:,") {
					idx = "index:<name of a column>"
				}
				set[v+":tag:"+idx] = true
				if n > 0 {
					set[v+":tag:several indexes on one field"] = true
				}
			}
			if s.Unique {
				set[v+":tag:unique"] = true
			}
			if strings.Contains(s.Check, ",") {
				set[v+":tag:check-expression-with-comma"] = true
			}
			if s.Check != "" {
				if s.CheckName != "" {
					set[v+":tag:check-named"] = true
				} else {
					set[v+":tag:check"] = true
				}
			}
			if s.Size > 0 {
				set[v+":tag:size"] = true
			}
			if s.NotNull {
				set[v+":tag:not-null"] = true
			}
			if s.Default != nil {
				switch {
				case strings.Contains(s.Default.Tag, "("):
					set[v+":tag:default-expression"] = true
				case s.Default.Canon == sg.Any:
					set[v+":tag:default-CURRENT_TIMESTAMP"] = true
				case s.Default.DB:
					set[v+":tag:default:"+s.Default.Tag] = true // null / NULL
				case s.Default.Tag == "''" || s.Default.Tag == `\"\"`:
					set[v+":tag:default-empty-string"] = true
				case s.Default.Canon == l.Kind.ZeroCanon || (l.Kind.Elem != nil && s.Default.Canon == l.Kind.Elem.ZeroCanon):
					set[v+":tag:default-zero-literal"] = true
				case strings.HasPrefix(s.Default.Tag, "'"):
					set[v+":tag:default-quoted-string"] = true
				default:
					set[v+":tag:default-literal"] = true
				}
			}
			if s.AutoTime != "" {
				set[v+":tag:autotime"] = true
			}
			if len(l.Path) > 1 {
				set[v+":tag:embedded"] = true
			}
			if s.Column != "" {
				set[v+":tag:column"] = true
			}
		}
	}
	tagClasses(c.m1, "v1")
	for _, a := range c.added {
		set["v2-adds:"+strings.Fields(a)[0]] = true
	}
	// kinds of added leaves
	old := map[string]bool{}
	for _, l := range c.m1.Leaves {
		old[l.DBName] = true
	}
	for _, l := range c.m2.Leaves {
		if !old[l.DBName] {
			set["v2-adds-kind-group:"+l.Kind.Group] = true
			if l.Spec.Default != nil {
				set["v2-adds:defaulted-field"] = true
			}
			if l.Spec.NotNull {
				set["v2-adds:not-null-field"] = true
			}
		}
	}
	set["migrate(v1)-again-through:"+c.how1] = true
	set["migrate(v2)-through:"+c.how2] = true
	if c.table == longTable {
		set["table:long-name(>64-char object names)"] = true
	}
	if c.skipTx {
		set["config:SkipDefaultTransaction"] = true
	}
	if c.noNested {
		set["config:DisableNestedTransaction"] = true
	}
	if c.backToV1 {
		set["history:migrate(v1)-after-v2"] = true
	}
	for _, l := range c.m1.Leaves {
		for _, e := range l.Spec.Extra {
			set["v1:tag:"+strings.SplitN(e, ":", 2)[0]] = true
		}
		for _, o := range []string{"sort:", "where:", ",unique", "priority:"} {
			if strings.Contains(l.Spec.Index, o) {
				set["v1:tag:index-option-"+strings.Trim(o, ":,")] = true
			}
		}
	}
	set["pk:"+c.pk] = true
	set[fmt.Sprintf("rows:%d", len(c.rows.Vals))] = true
	if c.m1.HasExprDefault() {
		set["no-ddl-assertion:skipped(expression default)"] = true
	} else {
		set["no-ddl-assertion:checked"] = true
	}
	out := make([]string, 0, len(set))
	for k := range set {
		out = append(out, k)
	}
	sort.Strings(out)
	return out
}

// dump renders the schema objects and the rows of the table (columns as listed).
func dumpSchema(d *testdb.DB) (string, error) {
	rows, err := d.SQL.Query("SELECT type, name, tbl_name, ifnull(sql,'') FROM sqlite_master ORDER BY type, name")
	if err != nil {
		return "", err
	}
	defer rows.Close()
	var sb strings.Builder
	for rows.Next() {
		var a, b, c, s string
		if err := rows.Scan(&a, &b, &c, &s); err != nil {
			return "", err
		}
		fmt.Fprintf(&sb, "%s|%s|%s|%s\n", a, b, c, s)
	}
	return sb.String(), rows.Err()
}

func dumpData(d *testdb.DB, m *sg.Model) (string, error) {
	var cols []string
	for _, l := range m.Leaves {
		cols = append(cols, "`"+l.DBName+"`")
	}
	rows, err := d.SQL.Query("SELECT " + strings.Join(cols, ",") + " FROM `" + table + "` ORDER BY `" + m.MarkerLeaf().DBName + "`")
	if err != nil {
		return "", err
	}
	defer rows.Close()
	var sb strings.Builder
	for rows.Next() {
		vals := make([]interface{}, len(cols))
		ptrs := make([]interface{}, len(cols))
		for i := range vals {
			ptrs[i] = &vals[i]
		}
		if err := rows.Scan(ptrs...); err != nil {
			return "", err
		}
		for i, v := range vals {
			if t, ok := v.(time.Time); ok {
				v = t.UTC().Format(time.RFC3339Nano)
			}
			fmt.Fprintf(&sb, "%s=%T:%v;", cols[i], v, v)
		}
		sb.WriteByte('\n')
	}
	return sb.String(), rows.Err()
}

func (c *caseT) objectsExist(d *testdb.DB, m *sg.Model, stage string) string {
	val := reflect.New(m.Type).Interface()
	mig := func() gorm.Migrator { return d.DB.Table(table).Migrator() }
	for _, l := range m.Leaves {
		if !mig().HasColumn(val, l.DBName) {
			return fmt.Sprintf("%s: column %q (field %s) does not exist (HasColumn)", stage, l.DBName, l.GoPath)
		}
	}
	for _, name := range m.ExpectedIndexes(table) {
		if !mig().HasIndex(val, name) {
			return fmt.Sprintf("%s: index %q does not exist (HasIndex)", stage, name)
		}
	}
	checks, uniques := m.ExpectedConstraints(table)
	for _, name := range checks {
		if !mig().HasConstraint(val, name) {
			return fmt.Sprintf("%s: check constraint %q does not exist (HasConstraint)", stage, name)
		}
	}
	for _, name := range uniques {
		if !mig().HasConstraint(val, name) {
			return fmt.Sprintf("%s: unique constraint %q does not exist (HasConstraint)", stage, name)
		}
	}
	// independent of the migrator's own lookups: the real column list
	rows, err := d.SQL.Query("SELECT name FROM pragma_table_info('" + table + "')")
	if err != nil {
		return "harness: " + err.Error()
	}
	have := map[string]bool{}
	for rows.Next() {
		var n string
		_ = rows.Scan(&n)
		have[n] = true
	}
	rows.Close()
	for _, l := range m.Leaves {
		if !have[l.DBName] {
			return fmt.Sprintf("%s: column %q (field %s) is not in the table", stage, l.DBName, l.GoPath)
		}
	}
	var n int
	for _, name := range m.ExpectedIndexes(table) {
		if err := d.SQL.QueryRow("SELECT count(*) FROM sqlite_master WHERE type='index' AND name=?", name).Scan(&n); err != nil || n != 1 {
			return fmt.Sprintf("%s: index %q is not in sqlite_master", stage, name)
		}
	}
	return ""
}

// run executes the history and returns the violation ("" = held).
func (c *caseT) run() string {
	if c.table == "" {
		c.table = "t_c20"
	}
	table = c.table
	cfg := gorm.Config{NowFunc: sg.FixedClock(c.now), SkipDefaultTransaction: c.skipTx, DisableNestedTransaction: c.noNested}
	d := testdb.Open(testdb.Options{NoReturning: !c.returning, Config: cfg})
	defer d.Close()
	// migrate runs AutoMigrate for a model through the handle the case names
	migrate := func(m *sg.Model, how string) error {
		v := reflect.New(m.Type).Interface()
		switch how {
		case "session":
			return d.DB.Session(&gorm.Session{}).Table(table).AutoMigrate(v)
		case "context":
			return d.DB.WithContext(context.WithValue(context.Background(), ctxKey{}, "c20")).Table(table).AutoMigrate(v)
		case "tx":
			return d.DB.Transaction(func(tx *gorm.DB) error { return tx.Table(table).AutoMigrate(v) })
		case "restart":
			// a new process: another gorm handle (empty schema cache) over the same database
			cfg2 := gorm.Config{NowFunc: sg.FixedClock(c.now), SkipDefaultTransaction: c.skipTx, DisableNestedTransaction: c.noNested, Logger: logger.Discard}
			db2, err := gorm.Open(vdialect.NewSQLite(d.SQL, !c.returning), &cfg2)
			if err != nil {
				return err
			}
			return db2.Table(table).AutoMigrate(v)
		}
		return d.DB.Table(table).AutoMigrate(v)
	}
	env1 := &sg.Env{DB: d, Table: table, M: c.m1, Returning: c.returning, Now: c.now}
	env2 := &sg.Env{DB: d, Table: table, M: c.m2, Returning: c.returning, Now: c.now}

	// migrate(v1)
	if err := env1.Migrate(); err != nil {
		return "migrate(v1) failed: " + err.Error()
	}
	if msg := c.objectsExist(d, c.m1, "after migrate(v1)"); msg != "" {
		return msg
	}
	// insert rows
	var created *sg.Created
	if len(c.rows.Vals) > 0 {
		var err error
		if created, err = env1.Create(c.rows, sg.CreatePlan{Path: "slice"}); err != nil {
			return "Create of v1 rows failed: " + err.Error()
		}
		if err := env1.Check(created, nil); err != nil {
			return "v1 rows do not round-trip: " + err.Error()
		}
	}
	schema1, err := dumpSchema(d)
	if err != nil {
		return "harness: " + err.Error()
	}
	data1, err := dumpData(d, c.m1)
	if err != nil {
		return "harness: " + err.Error()
	}

	// migrate(v1) again: no schema-changing statement, dump unchanged
	d.Rec.Reset()
	if err := migrate(c.m1, c.how1); err != nil {
		return "second migrate(v1) failed: " + err.Error()
	}
	exprDefault := c.m1.HasExprDefault()
	if !exprDefault {
		for _, e := range d.Rec.Statements() {
			if schemaChanging(e.Text) {
				return "second migrate(v1) sent a schema-changing statement: " + e.Text
			}
		}
	}
	schema2, _ := dumpSchema(d)
	data2, err := dumpData(d, c.m1)
	if err != nil {
		return "harness: " + err.Error()
	}
	if !exprDefault && schema2 != schema1 {
		return "second migrate(v1) changed the schema:\n before: " + schema1 + " after: " + schema2
	}
	if data2 != data1 {
		return "second migrate(v1) changed the rows:\n before: " + data1 + " after: " + data2
	}
	if msg := c.objectsExist(d, c.m1, "after the second migrate(v1)"); msg != "" {
		return msg
	}

	// migrate(v2)
	if err := migrate(c.m2, c.how2); err != nil {
		return "migrate(v2) failed: " + err.Error()
	}
	data3, err := dumpData(d, c.m1)
	if err != nil {
		return "after migrate(v2): cannot read the v1 columns: " + err.Error()
	}
	if data3 != data1 {
		return "migrate(v2) changed existing cells:\n before: " + data1 + " after: " + data3
	}
	if msg := c.objectsExist(d, c.m2, "after migrate(v2)"); msg != "" {
		return msg
	}
	// old rows through gorm's readers (v1 model; the table now has more columns)
	if created != nil {
		env1.ExtraColumnsOK = true
		if err := env1.Check(created, []string{"first"}); err != nil {
			return "after migrate(v2) the v1 rows read differently: " + err.Error()
		}
		// new columns hold NULL or the declared default
		old := map[string]bool{}
		for _, l := range c.m1.Leaves {
			old[l.DBName] = true
		}
		var ms []map[string]interface{}
		if err := env2.T().Order("`" + c.m2.MarkerLeaf().DBName + "`").Find(&ms).Error; err != nil {
			return "after migrate(v2): " + err.Error()
		}
		if len(ms) != len(c.rows.Vals) {
			return fmt.Sprintf("after migrate(v2): %d rows, want %d", len(ms), len(c.rows.Vals))
		}
		for i, m := range ms {
			for _, l := range c.m2.Leaves {
				if old[l.DBName] {
					continue
				}
				raw, ok := m[l.DBName]
				if !ok {
					return fmt.Sprintf("after migrate(v2): row %d has no column %q", i, l.DBName)
				}
				got, err := l.Kind.CanonRaw(raw)
				want := sg.Null
				if l.Spec.Default != nil && !l.Spec.Default.DB {
					want = l.Spec.Default.Canon
				}
				if l.Kind.Family == sg.FBytes && !l.Kind.Nullable {
					want = "x:"
				}
				if err != nil || got != want {
					return fmt.Sprintf("after migrate(v2): old row %d, new column %q (%s `%s`) holds %s (%v), want %s", i, l.DBName, l.Kind.Name, l.Spec.Tag(), got, err, want)
				}
			}
		}
	}
	// migrate(v2) once more is a no-op as well
	schema3, _ := dumpSchema(d)
	d.Rec.Reset()
	if err := env2.Migrate(); err != nil {
		return "second migrate(v2) failed: " + err.Error()
	}
	if !c.m2.HasExprDefault() {
		for _, e := range d.Rec.Statements() {
			if schemaChanging(e.Text) {
				return "second migrate(v2) sent a schema-changing statement: " + e.Text
			}
		}
		if schema4, _ := dumpSchema(d); schema4 != schema3 {
			return "second migrate(v2) changed the schema:\n before: " + schema3 + " after: " + schema4
		}
	}
	// back to the old model: AutoMigrate never drops anything, the table (a superset of v1) is left alone
	if c.backToV1 {
		schema5, _ := dumpSchema(d)
		d.Rec.Reset()
		if err := migrate(c.m1, "fresh"); err != nil {
			return "migrate(v1) after migrate(v2) failed: " + err.Error()
		}
		if !c.m1.HasExprDefault() {
			for _, e := range d.Rec.Statements() {
				if schemaChanging(e.Text) {
					return "migrate(v1) after migrate(v2) sent a schema-changing statement: " + e.Text
				}
			}
			if schema6, _ := dumpSchema(d); schema6 != schema5 {
				return "migrate(v1) after migrate(v2) changed the schema:\n before: " + schema5 + " after: " + schema6
			}
		}
		// (with an expression default the driver's parser makes gorm rebuild the table, and the
		// rebuild drops the indexes only v2 declares: covered by the same exemption)
		if !c.m1.HasExprDefault() {
			if msg := c.objectsExist(d, c.m2, "after migrate(v1) following migrate(v2)"); msg != "" {
				return msg
			}
		}
	}
	// a v2 record round-trips
	created2, err := env2.Create(c.rows2, sg.CreatePlan{Path: "slice"})
	if err != nil {
		return "Create of v2 records failed: " + err.Error()
	}
	if err := env2.Check(created2, []string{"first", "find-ptr"}); err != nil {
		return "v2 records do not round-trip: " + err.Error()
	}
	return ""
}

func TestC20(t *testing.T) {
	evid.Rule(rule)
	rapid.Check(t, func(rt *rapid.T) {
		c := genCase(rt)
		for _, e := range c.excl {
			evid.Excluded(e)
		}
		desc := c.desc()
		evid.Journal(desc)
		evid.Case(desc, c.nontrivial(), c.header(), c.classes()...)
		if msg := c.run(); msg != "" {
			rt.Fatalf("C20 violated: %s\n  case: %s", msg, desc)
		}
	})
}

// ---- witnesses of listed findings -----------------------------------------------------------

func witness(t *testing.T, v1, v2 *sg.StructSpec, added []string) {
	t.Helper()
	m1, m2 := sg.Build(v1), sg.Build(v2)
	rec := func(m *sg.Model, marker int64, ord int) *sg.Records {
		r := reflect.New(m.Type).Elem()
		for _, l := range m.Leaves {
			if l.Spec.Marker {
				l.Set(r, reflect.ValueOf(marker))
			} else if l.Spec.DistinctValue && !l.Spec.PrimaryKey {
				l.Set(r, l.Kind.Distinct(ord))
			}
		}
		return sg.NewRecords(m, []reflect.Value{r})
	}
	c := &caseT{v1: v1, v2: v2, pk: "id-name", m1: m1, m2: m2, rows: rec(m1, 1001, 1), rows2: rec(m2, 1002, 2), added: added, returning: true, now: testdb.FixedNow}
	if msg := c.run(); msg != "" {
		t.Errorf("C20 violated: %s\n  case: %s", msg, c.desc())
	}
}

func base(extra ...*sg.FieldSpec) *sg.StructSpec {
	fs := []*sg.FieldSpec{{Name: "ID", Kind: sg.KUint, PrimaryKey: true, DistinctValue: true}, {Name: "Marker", Kind: sg.KInt64, Marker: true}}
	return &sg.StructSpec{Fields: append(fs, extra...)}
}

// a field tagged `unique` that is added to an existing table: AutoMigrate adds the column
// (ALTER TABLE ADD) but not the constraint; only the next AutoMigrate run creates it.
func TestC20WitnessUniqueOnAddedColumn(t *testing.T) {
	witness(t, base(), base(&sg.FieldSpec{Name: "Phone", Kind: sg.KNullInt64, Unique: true, DistinctValue: true}), []string{"field Phone"})
}

// a numeric default whose tag text differs from gorm's own rendering of the parsed value:
// MigrateColumn compares the database's default with the raw tag text and alters the
// column on every run.
func TestC20WitnessDefaultNonCanonicalNumber(t *testing.T) {
	witness(t, base(&sg.FieldSpec{Name: "Rating", Kind: sg.KFloat64, Default: &sg.Default{Tag: "-1.50", Canon: "f:-1.5"}}),
		base(&sg.FieldSpec{Name: "Rating", Kind: sg.KFloat64, Default: &sg.Default{Tag: "-1.50", Canon: "f:-1.5"}}, &sg.FieldSpec{Name: "Age", Kind: sg.KInt}), []string{"field Age"})
	witness(t, base(&sg.FieldSpec{Name: "Level", Kind: sg.KInt, Default: &sg.Default{Tag: "0x10", Canon: "i:16"}}),
		base(&sg.FieldSpec{Name: "Level", Kind: sg.KInt, Default: &sg.Default{Tag: "0x10", Canon: "i:16"}}, &sg.FieldSpec{Name: "Age", Kind: sg.KInt}), []string{"field Age"})
}

// two `unique` fields whose columns differ but fold to the same name in the naming strategy
// (item_id and ItemID): both constraints are called uni_<table>_item_id and only one is created.
func TestC20WitnessUniqueNameCollision(t *testing.T) {
	v1 := func() *sg.StructSpec {
		return base(&sg.FieldSpec{Name: "ItemID", Kind: sg.KString, Unique: true, DistinctValue: true},
			&sg.FieldSpec{Name: "Score", Kind: sg.KUint64, Column: "ItemID", Unique: true, DistinctValue: true})
	}
	v2 := v1()
	v2.Fields = append(v2.Fields, &sg.FieldSpec{Name: "Age", Kind: sg.KInt})
	witness(t, v1(), v2, []string{"field Age"})
}

// ---- foreign keys: a belongs-to relation and the two Config switches -----------------------------
//
// reflect.StructOf types are bound to their table with db.Table(name), which gorm's
// dependency ordering applies to the related model too; the relation family therefore
// uses static model types with TableName methods. The space is small and enumerated.

type relOwner struct {
	ID   uint
	Name string
}

func (relOwner) TableName() string { return "c20_owners" }

// v1 without the relation: owner_id is a plain column
type relOrderPlain struct {
	ID      uint
	Marker  int64
	Number  string `gorm:"index"`
	OwnerID uint
}

func (relOrderPlain) TableName() string { return "c20_orders" }

// v1 with the relation
type relOrderRel struct {
	ID      uint
	Marker  int64
	Number  string `gorm:"index"`
	OwnerID uint
	Owner   *relOwner
}

func (relOrderRel) TableName() string { return "c20_orders" }

// v2: relation plus an added field
type relOrderV2 struct {
	ID      uint
	Marker  int64
	Number  string `gorm:"index"`
	OwnerID uint
	Owner   *relOwner
	Note    string `gorm:"default:'n/a'"`
}

func (relOrderV2) TableName() string { return "c20_orders" }

// the referenced model grows too: v2 of the owner has one more field with a default and an index
type relOwnerV2 struct {
	ID   uint
	Name string
	Tier string `gorm:"default:'std';index"`
}

func (relOwnerV2) TableName() string { return "c20_owners" }

// v2 of the order referring to v2 of the owner
type relOrderV3 struct {
	ID      uint
	Marker  int64
	Number  string `gorm:"index"`
	OwnerID uint
	Owner   *relOwnerV2
	Note    string `gorm:"default:'n/a'"`
}

func (relOrderV3) TableName() string { return "c20_orders" }

type relCase struct {
	Disable bool `json:"DisableForeignKeyConstraintWhenMigrating"`
	Ignore  bool `json:"IgnoreRelationshipsWhenMigrating"`
	V1Rel   bool `json:"v1_has_relation"`
	Rows    int  `json:"rows"`
	// Explicit: migrate(v2) names both models in one call: "" (order model only), "owner-first", "order-first"
	Explicit string `json:"explicit_models"`
	// OwnerGrows: in v2 the referenced (owner) model gains a field and an index as well
	OwnerGrows bool `json:"owner_grows"`
}

func (c relCase) String() string {
	v1 := "v1 without relation"
	if c.V1Rel {
		v1 = "v1 with belongs-to"
	}
	return fmt.Sprintf("DisableForeignKeyConstraintWhenMigrating=%v IgnoreRelationshipsWhenMigrating=%v %s rows=%d -> v2 = belongs-to + added field (AutoMigrate models: %q; referenced model grows: %v)", c.Disable, c.Ignore, v1, c.Rows, c.Explicit, c.OwnerGrows)
}

func ordersDDL(d *testdb.DB) string {
	var s string
	_ = d.SQL.QueryRow("SELECT sql FROM sqlite_master WHERE type='table' AND name='c20_orders'").Scan(&s)
	return s
}

func (c relCase) run() string {
	cfg := gorm.Config{DisableForeignKeyConstraintWhenMigrating: c.Disable, IgnoreRelationshipsWhenMigrating: c.Ignore}
	d := testdb.Open(testdb.Options{Config: cfg})
	defer d.Close()
	var v1 interface{} = &relOrderPlain{}
	if c.V1Rel {
		v1 = &relOrderRel{}
	}
	wantFK := !c.Disable && !c.Ignore
	noDDL := func(stage string) string {
		for _, e := range d.Rec.Statements() {
			if schemaChanging(e.Text) {
				return stage + " sent a schema-changing statement: " + e.Text
			}
		}
		return ""
	}
	fkState := func(stage string, relationDeclared bool) string {
		has := strings.Contains(strings.ToUpper(ordersDDL(d)), "FOREIGN KEY")
		if has && !(wantFK && relationDeclared) {
			return stage + ": the table has a foreign key although the configuration forbids it (or no relation is declared): " + ordersDDL(d)
		}
		if !has && wantFK && relationDeclared {
			return stage + ": the foreign key of the belongs-to relation is missing: " + ordersDDL(d)
		}
		return ""
	}
	if err := d.DB.AutoMigrate(v1); err != nil {
		return "migrate(v1) failed: " + err.Error()
	}
	if msg := fkState("after migrate(v1)", c.V1Rel); msg != "" {
		return msg
	}
	for i := 0; i < c.Rows; i++ {
		// owner 7 lives elsewhere (foreign keys are not enforced by this connection)
		if err := d.DB.Create(&relOrderPlain{Marker: int64(1001 + i), Number: fmt.Sprintf("A-%d", i), OwnerID: 7}).Error; err != nil {
			return "insert failed: " + err.Error()
		}
	}
	rowsDump := func() string {
		rows, err := d.SQL.Query("SELECT id, marker, number, owner_id FROM c20_orders ORDER BY marker")
		if err != nil {
			return "error: " + err.Error()
		}
		defer rows.Close()
		var sb strings.Builder
		for rows.Next() {
			var id, mk, owner int64
			var num string
			_ = rows.Scan(&id, &mk, &num, &owner)
			fmt.Fprintf(&sb, "%d|%d|%s|%d;", id, mk, num, owner)
		}
		return sb.String()
	}
	data1 := rowsDump()
	schema1, _ := dumpSchema(d)
	d.Rec.Reset()
	if err := d.DB.AutoMigrate(v1); err != nil {
		return "second migrate(v1) failed: " + err.Error()
	}
	if msg := noDDL("second migrate(v1)"); msg != "" {
		return msg
	}
	if s, _ := dumpSchema(d); s != schema1 {
		return "second migrate(v1) changed the schema:\n before: " + schema1 + " after: " + s
	}
	v2order := func() interface{} {
		if c.OwnerGrows {
			return &relOrderV3{}
		}
		return &relOrderV2{}
	}
	v2owner := func() interface{} {
		if c.OwnerGrows {
			return &relOwnerV2{}
		}
		return &relOwner{}
	}
	v2models := func() []interface{} {
		switch c.Explicit {
		case "owner-first":
			return []interface{}{v2owner(), v2order()}
		case "order-first":
			return []interface{}{v2order(), v2owner()}
		}
		return []interface{}{v2order()}
	}
	if err := d.DB.AutoMigrate(v2models()...); err != nil {
		return "migrate(v2) failed: " + err.Error()
	}
	if msg := fkState("after migrate(v2)", true); msg != "" {
		return msg
	}
	if !d.DB.Migrator().HasColumn(v2order(), "Note") {
		return "after migrate(v2): column note does not exist"
	}
	if got := rowsDump(); got != data1 {
		return "migrate(v2) changed existing cells: before " + data1 + " after " + got
	}
	// the incremental result has the same foreign keys as a fresh create of v2
	fresh := testdb.Open(testdb.Options{Config: cfg})
	err := fresh.DB.AutoMigrate(v2order())
	freshFK := strings.Contains(strings.ToUpper(ordersDDL(fresh)), "FOREIGN KEY")
	fresh.Close()
	if err != nil {
		return "fresh migrate(v2) failed: " + err.Error()
	}
	if incFK := strings.Contains(strings.ToUpper(ordersDDL(d)), "FOREIGN KEY"); incFK != freshFK {
		return fmt.Sprintf("incremental migration and fresh create disagree about the foreign key: incremental %v, fresh %v (%s)", incFK, freshFK, ordersDDL(d))
	}
	schema2, _ := dumpSchema(d)
	d.Rec.Reset()
	if err := d.DB.AutoMigrate(v2models()...); err != nil {
		return "second migrate(v2) failed: " + err.Error()
	}
	if msg := noDDL("second migrate(v2)"); msg != "" {
		return msg
	}
	if s, _ := dumpSchema(d); s != schema2 {
		return "second migrate(v2) changed the schema:\n before: " + schema2 + " after: " + s
	}
	// the referenced model is migrated with the model that refers to it (AutoMigrate completes its list with
	// the models foreign keys point at) unless relationships are ignored; listed explicitly it always is
	if c.OwnerGrows && (!c.Ignore || c.Explicit != "") {
		if !d.DB.Migrator().HasColumn(&relOwnerV2{}, "Tier") {
			return "after migrate(v2): the referenced model's new column c20_owners.tier was not added"
		}
		if !d.DB.Migrator().HasIndex(&relOwnerV2{}, "idx_c20_owners_tier") {
			return "after migrate(v2): the referenced model's new index idx_c20_owners_tier was not created"
		}
		rec := relOrderV3{Marker: 2001, Number: "B-1", Owner: &relOwnerV2{Name: "o"}}
		if err := d.DB.Create(&rec).Error; err != nil {
			return "Create of a v2 record with its v2 owner failed: " + err.Error()
		}
		var got relOrderV3
		if err := d.DB.Preload("Owner").First(&got, rec.ID).Error; err != nil || got.Marker != 2001 || got.Note != "n/a" || got.Owner == nil || got.Owner.Name != "o" || got.Owner.Tier != "std" {
			return fmt.Sprintf("v2 record with owner does not round-trip: %+v owner %+v (%v)", got, got.Owner, err)
		}
		return ""
	}
	if c.OwnerGrows {
		return ""
	}
	rec := relOrderV2{Marker: 2001, Number: "B-1", OwnerID: 8}
	if err := d.DB.Create(&rec).Error; err != nil {
		return "Create of a v2 record failed: " + err.Error()
	}
	var got relOrderV2
	if err := d.DB.First(&got, rec.ID).Error; err != nil || got.Marker != 2001 || got.Number != "B-1" || got.OwnerID != 8 || got.Note != "n/a" {
		return fmt.Sprintf("v2 record does not round-trip: %+v (%v)", got, err)
	}
	return ""
}

func TestC20Relations(t *testing.T) {
	if harness.ReplayPath() != "" {
		var c relCase
		if err := harness.LoadReplay(&c); err != nil {
			t.Fatalf("cannot load replay: %v", err)
		}
		if msg := c.run(); msg != "" {
			t.Fatalf("C20 violated: %s\n  case: %s", msg, c)
		}
		return
	}
	for _, disable := range []bool{false, true} {
		for _, ignore := range []bool{false, true} {
			for _, v1rel := range []bool{false, true} {
				for _, rows := range []int{0, 2} {
					for _, explicit := range []string{"", "owner-first", "order-first"} {
						for _, grows := range []bool{false, true} {
							c := relCase{disable, ignore, v1rel, rows, explicit, grows}
							cls := []string{fmt.Sprintf("relations:disable-fk=%v,ignore-relationships=%v", disable, ignore), fmt.Sprintf("relations:v1-has-relation=%v", v1rel), fmt.Sprintf("relations:referenced-model-grows=%v", grows)}
							evid.Journal(c.String())
							evid.Case("relations: "+c.String(), rows > 0, nil, cls...)
							if msg := c.run(); msg != "" {
								harness.SaveCase("TestC20Relations", c)
								t.Errorf("C20 violated: %s\n  case: %s", msg, c)
							}
						}
					}
				}
			}
		}
	}
}

// ---- many2many: the join table gorm derives from the key fields' tags ---------------------------------
//
// The join table's fields copy the tags of the owner's and the target's key fields
// minus column / autoIncrement / index / unique / uniqueIndex (removed whatever their
// spelling). Static model types again (relations need TableName); three spellings.

type m2mTagA struct {
	ID   uint
	Code string `gorm:"uniqueIndex"`
	Name string
}

func (m2mTagA) TableName() string { return "c20_tags" }

type m2mTagB struct {
	ID   uint
	Code string `gorm:"column:tag_code; UNIQUEINDEX; size:32"`
	Name string
}

func (m2mTagB) TableName() string { return "c20_tags" }

type m2mTagC struct {
	ID   uint
	Code string `gorm:"not null;Index;unique"`
	Name string
}

func (m2mTagC) TableName() string { return "c20_tags" }

type m2mPostV1 struct {
	ID     uint `gorm:"primaryKey;autoIncrement"`
	Marker int64
	Title  string
}

func (m2mPostV1) TableName() string { return "c20_posts" }

type m2mPostA struct {
	ID     uint `gorm:"primaryKey;autoIncrement"`
	Marker int64
	Title  string
	Tags   []m2mTagA `gorm:"many2many:c20_post_tags;joinForeignKey:PostID;references:Code;joinReferences:TagCode"`
}

func (m2mPostA) TableName() string { return "c20_posts" }

type m2mPostB struct {
	ID     uint `gorm:"PRIMARYKEY;AUTOINCREMENT"`
	Marker int64
	Title  string
	Tags   []m2mTagB `gorm:"many2many:c20_post_tags;joinForeignKey:PostID;references:Code;joinReferences:TagCode"`
}

func (m2mPostB) TableName() string { return "c20_posts" }

type m2mPostC struct {
	ID     uint `gorm:"primaryKey;autoIncrement:true;index:idx_posts_id"`
	Marker int64
	Title  string
	Tags   []m2mTagC `gorm:"many2many:c20_post_tags;joinForeignKey:PostID;references:Code;joinReferences:TagCode"`
}

func (m2mPostC) TableName() string { return "c20_posts" }

type m2mCase struct {
	Variant string `json:"variant"` // A, B, C
	FromV1  bool   `json:"from_v1"` // the posts table exists (v1, rows) before the relation is added
}

func (c m2mCase) String() string {
	return fmt.Sprintf("many2many variant %s (key tags: A `uniqueIndex` / B `column:tag_code; UNIQUEINDEX` / C `Index;unique`, owner key autoIncrement spelled differently) posts table exists first=%v", c.Variant, c.FromV1)
}

func (c m2mCase) run() string {
	d := testdb.Open(testdb.Options{})
	defer d.Close()
	var post, tag interface{}
	var newPost func(marker int64) interface{}
	var newTag func() interface{}
	switch c.Variant {
	case "A":
		post, tag = &m2mPostA{}, &m2mTagA{}
		newPost = func(m int64) interface{} { return &m2mPostA{Marker: m, Title: "p"} }
		newTag = func() interface{} { return &m2mTagA{Code: "go", Name: "Go"} }
	case "B":
		post, tag = &m2mPostB{}, &m2mTagB{}
		newPost = func(m int64) interface{} { return &m2mPostB{Marker: m, Title: "p"} }
		newTag = func() interface{} { return &m2mTagB{Code: "go", Name: "Go"} }
	default:
		post, tag = &m2mPostC{}, &m2mTagC{}
		newPost = func(m int64) interface{} { return &m2mPostC{Marker: m, Title: "p"} }
		newTag = func() interface{} { return &m2mTagC{Code: "go", Name: "Go"} }
	}
	_ = tag
	if c.FromV1 {
		if err := d.DB.AutoMigrate(&m2mPostV1{}); err != nil {
			return "migrate(v1) failed: " + err.Error()
		}
		if err := d.DB.Create(&m2mPostV1{Marker: 1, Title: "old"}).Error; err != nil {
			return "insert failed: " + err.Error()
		}
	}
	if err := d.DB.AutoMigrate(post); err != nil {
		return "migrate(v2) failed: " + err.Error()
	}
	// the join table: both key columns form the primary key, neither is unique / auto-increment on its own
	var ddl string
	_ = d.SQL.QueryRow("SELECT sql FROM sqlite_master WHERE type='table' AND name='c20_post_tags'").Scan(&ddl)
	if ddl == "" {
		return "the join table c20_post_tags was not created"
	}
	up := strings.ToUpper(ddl)
	if !strings.Contains(up, "PRIMARY KEY (`POST_ID`,`TAG_CODE`)") {
		return "the join table has no composite primary key (post_id, tag_code): " + ddl
	}
	if strings.Contains(up, "AUTOINCREMENT") || strings.Contains(up, " UNIQUE") {
		return "the join table carries an auto-increment / unique column of its own: " + ddl
	}
	rows, err := d.SQL.Query("SELECT il.name, il.[unique], (SELECT count(*) FROM pragma_index_info(il.name)) FROM pragma_index_list('c20_post_tags') il")
	if err != nil {
		return "harness: " + err.Error()
	}
	for rows.Next() {
		var name string
		var uniq, ncols int
		_ = rows.Scan(&name, &uniq, &ncols)
		if uniq == 1 && ncols == 1 {
			rows.Close()
			return fmt.Sprintf("the join table has a unique index %q over a single join column: two owners cannot share a target", name)
		}
	}
	rows.Close()
	// two owners share one target
	t1 := newTag()
	if err := d.DB.Create(t1).Error; err != nil {
		return "Create(tag) failed: " + err.Error()
	}
	for i := 0; i < 2; i++ {
		p := newPost(int64(100 + i))
		if err := d.DB.Create(p).Error; err != nil {
			return "Create(post) failed: " + err.Error()
		}
		if err := d.DB.Model(p).Association("Tags").Append(t1); err != nil {
			return fmt.Sprintf("Association(Tags).Append for owner %d failed: %v", i, err)
		}
		if n := d.DB.Model(p).Association("Tags").Count(); n != 1 {
			return fmt.Sprintf("owner %d has %d tags after Append of one", i, n)
		}
	}
	var links int
	_ = d.SQL.QueryRow("SELECT count(*) FROM c20_post_tags WHERE tag_code = 'go'").Scan(&links)
	if links != 2 {
		return fmt.Sprintf("%d join rows for two owners sharing one target", links)
	}
	// idempotence
	schema1, _ := dumpSchema(d)
	d.Rec.Reset()
	if err := d.DB.AutoMigrate(post); err != nil {
		return "second migrate(v2) failed: " + err.Error()
	}
	for _, e := range d.Rec.Statements() {
		if schemaChanging(e.Text) {
			return "second migrate(v2) sent a schema-changing statement: " + e.Text
		}
	}
	if s, _ := dumpSchema(d); s != schema1 {
		return "second migrate(v2) changed the schema:\n before: " + schema1 + " after: " + s
	}
	return ""
}

func TestC20ManyToMany(t *testing.T) {
	if harness.ReplayPath() != "" {
		var c m2mCase
		if err := harness.LoadReplay(&c); err != nil {
			t.Fatalf("cannot load replay: %v", err)
		}
		if msg := c.run(); msg != "" {
			t.Fatalf("C20 violated: %s\n  case: %s", msg, c)
		}
		return
	}
	for _, v := range []string{"A", "B", "C"} {
		for _, from := range []bool{false, true} {
			c := m2mCase{v, from}
			evid.Journal(c.String())
			evid.Case("many2many: "+c.String(), true, nil, "many2many:variant-"+v, fmt.Sprintf("many2many:posts-table-first=%v", from))
			if msg := c.run(); msg != "" {
				harness.SaveCase("TestC20ManyToMany", c)
				t.Errorf("C20 violated: %s\n  case: %s", msg, c)
			}
		}
	}
}
