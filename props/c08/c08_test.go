// C08 — soft-deleted records are invisible and untouched unless Unscoped is
// requested. See DESIGN.md §3 C08.
package c08

import (
	"database/sql"
	"errors"
	"fmt"
	"reflect"
	"sort"
	"strconv"
	"strings"
	"testing"
	"time"

	"gorm.io/gorm"
	"gorm.io/gorm/clause"
	"pgregory.net/rapid"

	"verif/internal/cond"
	"verif/internal/evid"
	"verif/internal/harness"
	"verif/internal/testdb"
)

func TestMain(m *testing.M) { harness.Main(m) }

const rule = "C08: soft-delete models grands / parents (belongs to grand) / children (belongs to parent, has many toys) / toys / tags (many2many) over the C02 columns; every live row gets a twin (id+100) with identical column values, foreign keys and links which is soft-deleted through gorm (primary table) before the checked operation, followed by 0-2 further history steps (soft delete / unscoped delete of id subsets, each verified against the live/marked/gone model); the checked operation is a C02 chain (plus chains starting with Or) ending in one of the paths find, first/take/last, count, count followed by find / order+limit+find / pluck / first on the same chain value (pagination idiom), pluck, find-in-batches, rows+scanrows, scan, relation Joins/InnerJoins (one level Child->Parent with and without ON conditions; nested path Parent.Grand over a three-level soft-delete family, alone and combined with the one-level join in either order), preload (plain, nested, many2many, with conditions), association find/count (has many, many2many), update/updates/updatecolumn(s), delete (also repeated), each also under Unscoped(); count / pluck / scan / update / delete also on a model whose soft-delete field is declared as pointer (*gorm.DeletedAt). Scoped reads must return exactly the live ids on which the reference predicate is TRUE, scoped writes must leave every marked row byte-identical and Delete must keep the physical row count; Unscoped reads see live and marked rows, Unscoped Delete removes physically. non-trivial = the chain has an OR (call or inside a unit) or a NOT and its predicate is TRUE on at least one pair live row + marked twin; distinct = data + history + chain + path"

// ---- models ----------------------------------------------------------------------------------------

type Parent struct {
	ID        int `gorm:"primaryKey"`
	Ca        int
	Cb        int
	Cs        string
	Cn        *int
	Ct        *string
	Cor       int
	Band      string
	Mark      int
	DeletedAt gorm.DeletedAt
	Children  []Child `gorm:"foreignKey:ParentID"`
	Tags      []Tag   `gorm:"many2many:parent_tags"`
	GrandID   int
	Grand     *Grand `gorm:"foreignKey:GrandID"`
}

// PParent declares its soft-delete field as a pointer; it has a table of its own
// with the parents' rows (paths count, pluck, scan, update, delete).
type PParent struct {
	ID        int `gorm:"primaryKey"`
	Ca        int
	Cb        int
	Cs        string
	Cn        *int
	Ct        *string
	Cor       int
	Band      string
	Mark      int
	DeletedAt *gorm.DeletedAt
}

func (PParent) TableName() string { return "p_parents" }

// EParent carries its soft-delete field in an embedded struct, CParent under a
// field and column name of its own (same table layout otherwise).
type Trail struct {
	DeletedAt gorm.DeletedAt
}

type EParent struct {
	ID   int `gorm:"primaryKey"`
	Ca   int
	Cb   int
	Cs   string
	Cn   *int
	Ct   *string
	Cor  int
	Band string
	Mark int
	Trail
}

func (EParent) TableName() string { return "p_parents" }

type CParent struct {
	ID        int `gorm:"primaryKey"`
	Ca        int
	Cb        int
	Cs        string
	Cn        *int
	Ct        *string
	Cor       int
	Band      string
	Mark      int
	RemovedOn gorm.DeletedAt `gorm:"column:removed_on"`
}

func (CParent) TableName() string { return "c_parents" }

// NParent / RParent: the soft-delete field carries a permission tag without update
// rights (create only / read only). The filter on UPDATE statements does not depend on it.
type NParent struct {
	ID        int `gorm:"primaryKey"`
	Ca        int
	Cb        int
	Cs        string
	Cn        *int
	Ct        *string
	Cor       int
	Band      string
	Mark      int
	DeletedAt gorm.DeletedAt `gorm:"<-:create"`
}

func (NParent) TableName() string { return "p_parents" }

type RParent struct {
	ID        int `gorm:"primaryKey"`
	Ca        int
	Cb        int
	Cs        string
	Cn        *int
	Ct        *string
	Cor       int
	Band      string
	Mark      int
	DeletedAt gorm.DeletedAt `gorm:"->"`
}

func (RParent) TableName() string { return "p_parents" }

// ZParent keeps a zero time instead of NULL in the soft-delete column of live rows
// (tag zeroValue): every filter is `deleted_at = '<zero>'`.
type ZParent struct {
	ID        int `gorm:"primaryKey"`
	Ca        int
	Cb        int
	Cs        string
	Cn        *int
	Ct        *string
	Cor       int
	Band      string
	Mark      int
	DeletedAt gorm.DeletedAt `gorm:"zeroValue:1970-01-01 00:00:01;default:'1970-01-01 00:00:01'"`
}

func (ZParent) TableName() string { return "z_parents" }

const zeroDeletedAt = "1970-01-01 00:00:01"

// Grand is the third level of the nested join path Child -> Parent -> Grand.
type Grand struct {
	ID        int `gorm:"primaryKey"`
	Ca        int
	Cb        int
	Cs        string
	Cn        *int
	Ct        *string
	Cor       int
	Band      string
	Mark      int
	DeletedAt gorm.DeletedAt
}

type Child struct {
	ID        int `gorm:"primaryKey"`
	Ca        int
	Cb        int
	Cs        string
	Cn        *int
	Ct        *string
	Cor       int
	Band      string
	Mark      int
	DeletedAt gorm.DeletedAt
	ParentID  int
	Parent    *Parent `gorm:"foreignKey:ParentID"`
	Toys      []Toy   `gorm:"foreignKey:ChildID"`
}

type Toy struct {
	ID        int `gorm:"primaryKey"`
	Ca        int
	Cb        int
	Cs        string
	Cn        *int
	Ct        *string
	Cor       int
	Band      string
	Mark      int
	DeletedAt gorm.DeletedAt
	ChildID   int
}

// ParentTag is the join table of Parent.Tags (installed with SetupJoinTable): a
// link is removed by marking its join row.
type ParentTag struct {
	ParentID  int `gorm:"primaryKey"`
	TagID     int `gorm:"primaryKey"`
	DeletedAt gorm.DeletedAt
}

// tagHook: Tag.AfterFind reads the parents through the hook's handle (a new
// statement started from inside the tag query). Whether that nested statement is
// unscoped follows Config.PropagateUnscoped, not the outer statement.
var tagHook struct {
	armed, ran bool
	ids        []int
	err        error
}

func (t *Tag) AfterFind(tx *gorm.DB) error {
	if tagHook.armed && !tagHook.ran {
		tagHook.ran = true
		tagHook.err = tx.Model(&Parent{}).Pluck("id", &tagHook.ids).Error
	}
	return nil
}

type Tag struct {
	ID        int `gorm:"primaryKey"`
	Ca        int
	Cb        int
	Cs        string
	Cn        *int
	Ct        *string
	Cor       int
	Band      string
	Mark      int
	DeletedAt gorm.DeletedAt
}

var (
	specParents  = cond.TableSpec{Name: "parents", Soft: true, Extra: []string{"grand_id"}}
	specGrands   = cond.TableSpec{Name: "grands", Soft: true}
	specPtr      = cond.TableSpec{Name: "p_parents", Soft: true}
	specCol      = cond.TableSpec{Name: "c_parents", SoftCols: []string{"removed_on"}}
	specZero     = cond.TableSpec{Name: "z_parents", Soft: true, SoftDefault: "'" + zeroDeletedAt + "'"}
	specChildren = cond.TableSpec{Name: "children", Soft: true, Extra: []string{"parent_id"}}
	specToys     = cond.TableSpec{Name: "toys", Soft: true, Extra: []string{"child_id"}}
	specTags     = cond.TableSpec{Name: "tags", Soft: true}
)

const twinOff = 100

const rawDeletedAt = "2030-01-02 03:04:05+00:00"

// row states
const (
	live   = 0
	marked = 1
	gone   = 2
)

type trow struct {
	cond.Row
	State int
}

type table []trow

func (t table) find(id int) *trow {
	for i := range t {
		if t[i].ID == id {
			return &t[i]
		}
	}
	return nil
}

func (t table) visible(unscoped bool) []cond.Row {
	var out []cond.Row
	for _, r := range t {
		if r.State == live || (unscoped && r.State == marked) {
			out = append(out, r.row())
		}
	}
	return out
}

// row returns the row as the evaluator sees it (soft-delete pseudo column set).
func (r trow) row() cond.Row {
	x := r.Row
	x.Del = r.State == marked
	return x
}

func (t table) isVisible(id int, unscoped bool) bool {
	r := t.find(id)
	return r != nil && (r.State == live || (unscoped && r.State == marked))
}

func (t table) String() string {
	parts := make([]string, 0, len(t))
	for _, r := range t {
		if r.ID > twinOff {
			continue // twins repeat the live row
		}
		s := r.Row.String()
		if r.FK != 0 {
			s += fmt.Sprintf("fk=%d", r.FK)
		}
		parts = append(parts, s)
	}
	return "[" + strings.Join(parts, " ") + "]"
}

// hop is one history step on the primary table.
type hop struct {
	Unscoped bool
	IDs      []int
	Create   *cond.Row // create a new live row through gorm instead of deleting
}

func (h hop) String() string {
	if h.Create != nil {
		return fmt.Sprintf("Create(%s fk=%d)", *h.Create, h.Create.FK)
	}
	if h.Unscoped {
		return fmt.Sprintf("Unscoped().Delete(%v)", h.IDs)
	}
	return fmt.Sprintf("Delete(%v)", h.IDs)
}

type tcase struct {
	Parents, Children, Toys, Tags table    // state after the twins were marked
	Grands                        table    // third level (nested join paths only)
	PtrModel                      bool     // the primary model is a variant with a table of its own (see Flavour)
	Flavour                       string   // pointer (*gorm.DeletedAt) | embedded | column (own field/column name)
	UnscopedVia                   string   // "" = Unscoped() in the chain | propagated (Session{PropagateUnscoped}.Unscoped().Session{NewDB}) | dropped (Unscoped().Session{NewDB}: scoped again)
	Cfg                           string   // "" | PrepareStmt | QueryFields | NoReturning | tx (read paths)
	JoinPreload                   bool     // joins path with JoinPath ["Parent"]: also Preload("Parent.Grand") (preload below a joined relation)
	JoinPath                      []string // relation join names in call order, e.g. ["Parent.Grand", "Parent"]
	Links                         [][3]int // parent id, tag id, state of the join row (live / marked)
	History                       []hop
	Path                          string // see paths
	Variant                       string // first|take|last, update kind, relation, join type ...
	Unscoped                      bool
	UnscopedLast                  bool // Unscoped() after the condition calls
	Calls                         []cond.Call
	Inline                        *cond.Unit
	Pre                           *cond.Unit // preload / join ON condition
	PK                            int        // key of the model value / association owner
	Batch                         int
	Repeat                        bool
}

func (c tcase) nested() bool {
	for _, j := range c.JoinPath {
		if j == "Parent.Grand" {
			return true
		}
	}
	return false
}

func (c tcase) primary() string {
	if c.Path == "joins" {
		return "children"
	}
	if c.PtrModel {
		switch c.Flavour {
		case "column":
			return "c_parents"
		case "zerovalue":
			return "z_parents"
		}
		return "p_parents"
	}
	return "parents"
}

func (c tcase) String() string {
	var b strings.Builder
	fmt.Fprintf(&b, "parents=%s", c.Parents)
	switch c.Path {
	case "joins", "preload", "assoc", "delete-assoc", "assoc-unscoped":
		fmt.Fprintf(&b, " children=%s", c.Children)
	}
	if c.nested() || c.JoinPreload {
		fmt.Fprintf(&b, " grands=%s", c.Grands)
	}
	if c.JoinPreload {
		b.WriteString(" +Preload(Parent.Grand)")
	}
	if c.Path == "joins" {
		fmt.Fprintf(&b, " joins=%v", c.JoinPath)
	}
	if c.Path == "preload" && c.Variant == "Children.Toys" {
		fmt.Fprintf(&b, " toys=%s", c.Toys)
	}
	if c.Variant == "Tags" || c.Variant == "Associations" || strings.HasPrefix(c.Variant, "Tags/") {
		fmt.Fprintf(&b, " tags=%s links=%v", c.Tags, c.Links)
	}
	if len(c.History) > 0 {
		hs := make([]string, len(c.History))
		for i, h := range c.History {
			hs[i] = h.String()
		}
		fmt.Fprintf(&b, " history(%s)=%s", c.primary(), strings.Join(hs, ";"))
	}
	un0, un1 := "", ""
	if c.Cfg != "" {
		un0 = "[" + c.Cfg + "]"
	}
	switch c.UnscopedVia {
	case "propagated":
		un0 += ".Session{PropagateUnscoped}.Unscoped().Session{NewDB}"
	case "dropped":
		un0 += ".Unscoped().Session{NewDB}"
	}
	if c.Unscoped && c.UnscopedVia == "" {
		if c.UnscopedLast {
			un1 = ".Unscoped()"
		} else {
			un0 += ".Unscoped()"
		}
	}
	if c.PtrModel {
		b.WriteString(" model=" + c.Flavour + "-DeletedAt")
	}
	fmt.Fprintf(&b, " op=%s/%s db%s%s%s", c.Path, c.Variant, un0, cond.CallsString(c.Calls), un1)
	if c.Inline != nil {
		fmt.Fprintf(&b, " inline(%s)", c.Inline)
	}
	if c.Pre != nil {
		fmt.Fprintf(&b, " relcond(%s)", c.Pre)
	}
	if c.PK != 0 {
		fmt.Fprintf(&b, " pk=%d", c.PK)
	}
	if c.Batch != 0 {
		fmt.Fprintf(&b, " batch=%d", c.Batch)
	}
	if c.Repeat {
		b.WriteString(" repeated")
	}
	return b.String()
}

// ---- generation ---------------------------------------------------------------------------------

var paths = []string{"find", "find", "first", "count", "count-then", "count-then", "firstorinit", "firstorcreate", "delete-assoc", "assoc-unscoped", "pluck", "batches", "rows", "scan", "joins", "joins", "joins", "preload", "preload", "assoc", "assoc", "update", "update", "update", "delete", "delete", "delete"}

func skipClass(cl string) bool { return harness.OpenClass("C08", cl) }

// classJoinOnOr: Joins("Parent", db.Where(A).Or(B)) - the ON conditions of a
// relation join contain an Or call: the soft-delete filter is AND-ed in front
// without grouping (`deleted_at IS NULL AND A OR B`).
const classJoinOnOr = "join-on-or"

func genTable(x interface {
	N(int) int
	Pct(int) bool
}, rt *rapid.T, n int, fks []int) table {
	var t table
	for i := 1; i <= n; i++ {
		r := cond.GenRow(cond.G(rt), i)
		if len(fks) > 0 {
			r.FK = fks[x.N(len(fks))]
		}
		t = append(t, trow{Row: r})
	}
	for i := 0; i < n; i++ {
		tw := t[i]
		tw.ID += twinOff
		tw.State = marked
		t = append(t, tw)
	}
	return t
}

func ids(t table) []int {
	out := make([]int, len(t))
	for i, r := range t {
		out[i] = r.ID
	}
	return out
}

func hasOrCall(calls []cond.Call) bool {
	for _, c := range calls {
		if c.Verb == cond.VOr && !c.U.Empty() {
			return true
		}
	}
	return false
}

func leadingOr(calls []cond.Call) bool {
	for _, c := range calls {
		if !c.U.Empty() {
			return c.Verb == cond.VOr
		}
	}
	return false
}

func genCase(rt *rapid.T) tcase {
	x := cond.G(rt)
	var c tcase
	c.Path = paths[x.N(len(paths))]
	c.Unscoped = x.Pct(30)
	c.UnscopedLast = x.Pct(50)
	var gids []int
	if c.Path == "joins" {
		c.JoinPath = [][]string{{"Parent"}, {"Parent"}, {"Parent.Grand"}, {"Parent.Grand"}, {"Parent", "Parent.Grand"}, {"Parent.Grand", "Parent"}}[x.N(6)]
		c.JoinPreload = len(c.JoinPath) == 1 && !c.nested() && x.Pct(60)
		if c.nested() || c.JoinPreload {
			c.Grands = genTable(x, rt, 1+x.N(4), nil)
			gids = append(ids(c.Grands), 999)
		}
	}
	c.Parents = genTable(x, rt, 1+x.N(5), gids)
	pids := append(ids(c.Parents), 999)
	switch c.Path {
	case "joins", "preload", "assoc":
		c.Children = genTable(x, rt, x.N(7), pids)
	case "assoc-unscoped":
		c.Children = genTable(x, rt, 1+x.N(6), pids)
	}
	switch c.Path {
	case "count", "pluck", "scan", "update", "delete":
		if x.Pct(35) {
			c.PtrModel = true
			c.Flavour = []string{"pointer", "embedded", "column", "zerovalue", "create-only", "read-only"}[x.N(6)]
		}
	}
	// conditions may name the soft-delete column itself (typed IS NULL via nil, IS NOT NULL)
	cond.SoftColName = "deleted_at"
	if c.Flavour == "column" {
		cond.SoftColName = "removed_on"
	}
	if c.Path == "assoc" {
		c.Variant = []string{"Children", "Tags", "Parent"}[x.N(3)] + []string{"/find", "/count"}[x.N(2)]
	}
	// (not for the many2many association: its join table has a deleted_at of its own,
	// an unqualified name would be ambiguous)
	// (nor for the zeroValue model, whose live rows do not hold NULL)
	softCol := !strings.HasPrefix(c.Variant, "Tags/") && c.Flavour != "zerovalue"
	cfg := cond.Cfg{NoPK: true, LeadingOr: true, SoftCol: softCol, SkipClass: skipClass, OnExcluded: func(cl string) { evid.Excluded(cl) }}
	switch c.Path {
	case "joins":
		cfg.Qual = "children"
	}
	n := []int{0, 1, 1, 2, 2, 2, 3, 3, 4}[x.N(9)]
	c.Calls = cond.GenCalls(rt, cfg, n)
	inline := func(p int) {
		if x.Pct(p) {
			c.Inline = cond.GenInline(rt, cfg)
		}
	}
	pk := func(t table, p int) {
		// the key of the model value is AND-ed after the soft-delete filter; with an
		// Or call in the chain the statement leaves its position open (domain note)
		if !hasOrCall(c.Calls) && x.Pct(p) {
			all := ids(t)
			c.PK = all[x.N(len(all))]
		}
	}
	// (Unscoped().Session{NewDB} followed by another Session{} / WithContext is not
	// generated: that call turns the NewDB handle back into a clone of the unscoped
	// statement and no document says which it should be; the direct use is)
	switch x.N(10) {
	case 0:
		c.Unscoped, c.UnscopedVia = true, "propagated"
	case 1:
		// db.Unscoped().Session(&gorm.Session{NewDB: true}) used directly: PropagateUnscoped
		// is off, so the new statement is scoped again
		c.Unscoped, c.UnscopedVia = false, "dropped"
		if len(c.Calls) > 0 {
			c.Calls[0].Pre = ""
		}
	}
	if x.Pct(25) {
		c.Cfg = []string{"PrepareStmt", "QueryFields", "NoReturning", "tx"}[x.N(4)]
		switch c.Path {
		case "update", "delete", "firstorcreate":
			if c.Cfg == "tx" { // the table is dumped from a second connection around writes
				c.Cfg = "PrepareStmt"
			}
		}
	}
	switch c.Path {
	case "find":
		c.Variant = []string{"", "", "&[]*Parent", "&[]map"}[x.N(4)]
		inline(30)
	case "rows":
		c.Variant = []string{"rows", "rows", "row"}[x.N(3)]
	case "firstorinit", "firstorcreate":
		// "each conds must be a struct or map": when nothing is found the equality
		// conditions are assigned to the destination, so only Where calls with
		// struct units or maps of scalars are in the documented domain
		kept := c.Calls[:0]
		for _, cl := range c.Calls {
			ok := cl.Verb == cond.VWhere && !cl.ViaClauses && cl.U.Form == cond.FStruct && len(cl.U.Args) == 0
			if m, isMap := cl.U.Query.(map[string]interface{}); isMap && cl.Verb == cond.VWhere {
				ok = true
				for _, v := range m {
					switch v.(type) {
					case int, string:
					default:
						ok = false
					}
				}
			}
			if ok {
				kept = append(kept, cl)
			}
		}
		c.Calls = kept
	case "assoc-unscoped":
		// Association(rel).Unscoped().Clear() / Delete(): the unlinked records are deleted -
		// softly unless the DB handle itself is Unscoped
		c.Calls = nil
		c.Variant = []string{"Parent/Clear", "Parent/Delete", "Children/Clear"}[x.N(3)]
		if c.Variant == "Children/Clear" {
			all := ids(c.Parents)
			c.PK = all[x.N(len(all))]
		} else {
			c.PK = c.Children[x.N(len(c.Children)/2)].ID // a live child is the owner
		}
		c.Cfg, c.PtrModel, c.Flavour = "", false, ""
	case "delete-assoc":
		// Select("Children").Delete(&Parent{ID}): no further conditions
		c.Calls = nil
		c.Children = genTable(x, rt, x.N(7), pids)
		all := ids(c.Parents)
		c.PK = all[x.N(len(all))]
		c.Cfg, c.PtrModel, c.Flavour = "", false, ""
	case "count-then":
		c.Variant = []string{"find", "order-limit-find", "pluck", "first"}[x.N(4)]
	case "first":
		c.Variant = []string{"first", "take", "last"}[x.N(3)]
		inline(30)
		pk(c.Parents, 20)
	case "batches":
		c.Batch = 1 + x.N(3)
		// FindInBatches appends `id > last` to the chain: with Or calls the
		// batches overlap (C15's subject, and a possible endless loop)
		for i := range c.Calls {
			if c.Calls[i].Verb == cond.VOr {
				c.Calls[i].Verb = cond.VWhere
			}
		}
	case "joins":
		c.Variant = []string{"left", "inner"}[x.N(2)]
		if len(c.JoinPath) == 1 && !c.nested() && x.Pct(50) {
			pcfg := cfg
			pcfg.Qual = "Parent"
			pcfg.NoStruct = true
			pcfg.LeadingOr = false
			pcfg.NoGroup = true
			c.Pre = &cond.Unit{Form: cond.FGroup, Group: cond.GenCalls(rt, pcfg, 1+x.N(2))}
			if hasOrCall(c.Pre.Group) && skipClass(classJoinOnOr) {
				evid.Excluded(classJoinOnOr)
				for i := range c.Pre.Group {
					if c.Pre.Group[i].Verb == cond.VOr {
						c.Pre.Group[i].Verb = cond.VWhere
					}
				}
			}
		}
	case "preload":
		c.Variant = []string{"Children", "Children", "Children.Toys", "Tags", "Associations"}[x.N(5)]
		switch c.Variant {
		case "Associations":
			c.genTags(x, rt)
		case "Children.Toys":
			c.Toys = genTable(x, rt, x.N(6), append(ids(c.Children), 999))
		case "Tags":
			c.genTags(x, rt)
		case "Children":
			if x.Pct(50) {
				pcfg := cfg
				pcfg.Qual = ""
				c.Pre = cond.GenInline(rt, pcfg)
			}
		}
	case "assoc":
		if strings.HasPrefix(c.Variant, "Tags") {
			c.genTags(x, rt)
		}
		all := ids(c.Parents)
		c.PK = all[x.N(len(all))]
		if strings.HasSuffix(c.Variant, "find") {
			inline(25)
		}
	case "update":
		c.Variant = []string{"Update", "Updates(map)", "Updates(struct)", "UpdateColumn", "UpdateColumns(map)", "Updates(map+soft-col)", "UpdateColumns(map+soft-col)"}[x.N(7)]
		if strings.HasSuffix(c.Variant, "+soft-col)") && (c.Unscoped || c.Flavour == "zerovalue") {
			// the map also writes the soft-delete column (nil): without Unscoped that changes nothing on
			// the live rows it may touch; under Unscoped it would restore rows (not what is measured here)
			c.Variant = "Updates(map)"
		}
		pk(c.Parents, 15)
	case "delete":
		inline(30)
		pk(c.Parents, 15)
		c.Repeat = x.Pct(40)
	}
	// history on the primary table
	prim := &c.Parents
	if c.Path == "joins" {
		prim = &c.Children
	}
	if len(*prim) > 0 {
		for k := []int{0, 0, 0, 1, 1, 2}[x.N(6)]; k > 0; k-- {
			h := hop{Unscoped: x.Pct(40)}
			if x.Pct(25) {
				r := cond.GenRow(cond.G(rt), 50+k)
				if c.Path == "joins" {
					r.FK = pids[x.N(len(pids))]
				}
				h.Create = &r
				c.History = append(c.History, h)
				continue
			}
			for _, r := range *prim {
				if x.Pct(25) {
					h.IDs = append(h.IDs, r.ID)
				}
			}
			if len(h.IDs) == 0 {
				h.IDs = []int{(*prim)[x.N(len(*prim))].ID}
			}
			c.History = append(c.History, h)
		}
	}
	if c.UnscopedVia == "dropped" && len(c.Calls) > 0 {
		// the direct use only: a Session{} / WithContext right behind Session{NewDB}
		// re-clones the unscoped statement (undocumented). Done last, because the
		// paths above may have dropped the call that was first.
		c.Calls[0].Pre = ""
	}
	return c
}

func (c *tcase) genTags(x interface {
	N(int) int
	Pct(int) bool
}, rt *rapid.T) {
	c.Tags = genTable(x, rt, x.N(5), nil)
	for _, p := range c.Parents {
		for _, t := range c.Tags {
			if t.ID < twinOff && p.ID < twinOff && x.Pct(45) {
				// the twin parent carries the same links, the twin tag too
				st := live
				if x.Pct(35) {
					st = marked // the link was removed (join row soft-deleted)
				}
				for _, pid := range []int{p.ID, p.ID + twinOff} {
					for _, tid := range []int{t.ID, t.ID + twinOff} {
						c.Links = append(c.Links, [3]int{pid, tid, st})
					}
				}
			}
		}
	}
}

// ---- running ------------------------------------------------------------------------------------

type clock struct{ n int }

func (k *clock) now() time.Time {
	k.n++
	return testdb.FixedNow.Add(time.Duration(k.n) * time.Minute)
}

func toInsert(t table, marked bool) []cond.InsertRow {
	out := make([]cond.InsertRow, len(t))
	for i, r := range t {
		out[i] = cond.InsertRow{Row: r.Row, Extra: []int{r.FK}}
		if marked && r.State == 1 {
			out[i].DeletedAt = rawDeletedAt
		}
	}
	return out
}

func noExtra(rows []cond.InsertRow) []cond.InsertRow {
	for i := range rows {
		rows[i].Extra = nil
	}
	return rows
}

// world is the opened database plus the reference state.
type world struct {
	d   *testdb.DB
	c   *tcase
	env cond.Env
	// current model of the primary table (copy; history and writes update it)
	prim     table
	primSpec cond.TableSpec
	tx       *gorm.DB // open transaction of the Cfg "tx" variant
	liveMark string   // quote(deleted_at) of a live row: NULL, or the zero time of a zeroValue model
}

func (w *world) primModel() interface{} {
	if w.c.Path == "joins" {
		return &Child{}
	}
	return w.model(0)
}

// model returns the primary model value with the given key (parents paths).
func (w *world) model(pk int) interface{} {
	switch w.c.Flavour {
	case "pointer":
		return &PParent{ID: pk}
	case "embedded":
		return &EParent{ID: pk}
	case "column":
		return &CParent{ID: pk}
	case "zerovalue":
		return &ZParent{ID: pk}
	case "create-only":
		return &NParent{ID: pk}
	case "read-only":
		return &RParent{ID: pk}
	}
	return &Parent{ID: pk}
}

func (w *world) softColName() string {
	if w.c.Flavour == "column" {
		return "removed_on"
	}
	return "deleted_at"
}

func (w *world) markedValue() interface{} {
	switch w.c.Flavour {
	case "pointer":
		return PParent{Mark: 7}
	case "embedded":
		return EParent{Mark: 7}
	case "column":
		return CParent{Mark: 7}
	case "zerovalue":
		return ZParent{Mark: 7}
	case "create-only":
		return NParent{Mark: 7}
	case "read-only":
		return RParent{Mark: 7}
	}
	return Parent{Mark: 7}
}

func setup(c *tcase) (*world, error) {
	k := &clock{}
	d := testdb.Open(testdb.Options{NoReturning: c.Cfg == "NoReturning", Config: gorm.Config{NowFunc: k.now,
		PrepareStmt: c.Cfg == "PrepareStmt", QueryFields: c.Cfg == "QueryFields"}})
	w := &world{d: d, c: c, liveMark: "NULL"}
	fail := func(what string, err error) (*world, error) {
		d.Close()
		return nil, fmt.Errorf("%s: %w", what, err)
	}
	joins := c.Path == "joins"
	for _, s := range []cond.TableSpec{specParents, specChildren, specToys, specTags, specGrands, specPtr, specCol, specZero} {
		if err := s.Create(d.SQL); err != nil {
			return fail("create", err)
		}
	}
	if _, err := d.SQL.Exec("CREATE TABLE parent_tags (parent_id integer, tag_id integer, deleted_at datetime, PRIMARY KEY (parent_id, tag_id))"); err != nil {
		return fail("create", err)
	}
	// the primary table starts all live (its twins are marked through gorm below)
	if err := specParents.Insert(d.SQL, toInsert(c.Parents, joins)); err != nil {
		return fail("insert parents", err)
	}
	if err := specChildren.Insert(d.SQL, toInsert(c.Children, !joins)); err != nil {
		return fail("insert children", err)
	}
	if err := specGrands.Insert(d.SQL, noExtra(toInsert(c.Grands, true))); err != nil {
		return fail("insert grands", err)
	}
	if err := specToys.Insert(d.SQL, toInsert(c.Toys, true)); err != nil {
		return fail("insert toys", err)
	}
	if err := specTags.Insert(d.SQL, noExtra(toInsert(c.Tags, true))); err != nil {
		return fail("insert tags", err)
	}
	if len(c.Links) > 0 {
		var b strings.Builder
		b.WriteString("INSERT INTO parent_tags VALUES ")
		for i, l := range c.Links {
			if i > 0 {
				b.WriteByte(',')
			}
			if l[2] == marked {
				fmt.Fprintf(&b, "(%d,%d,'%s')", l[0], l[1], rawDeletedAt)
			} else {
				fmt.Fprintf(&b, "(%d,%d,NULL)", l[0], l[1])
			}
		}
		if _, err := d.SQL.Exec(b.String()); err != nil {
			return fail("insert links", err)
		}
	}
	if len(c.Tags) > 0 {
		if err := d.DB.SetupJoinTable(&Parent{}, "Tags", &ParentTag{}); err != nil {
			return fail("SetupJoinTable", err)
		}
	}
	tagHook.armed, tagHook.ran, tagHook.ids, tagHook.err = len(c.Tags) > 0, false, nil, nil
	if joins {
		w.prim, w.primSpec = append(table(nil), c.Children...), specChildren
	} else {
		w.prim, w.primSpec = append(table(nil), c.Parents...), specParents
	}
	w.env = cond.Env{Base: d.DB}
	if c.PtrModel {
		w.primSpec = specPtr
		rows := noExtra(toInsert(c.Parents, false))
		switch c.Flavour {
		case "column":
			w.primSpec = specCol
		case "zerovalue":
			w.primSpec = specZero
			w.liveMark = "'" + zeroDeletedAt + "'"
			for i := range rows {
				rows[i].DeletedAt = zeroDeletedAt
			}
		}
		if err := w.primSpec.Insert(d.SQL, rows); err != nil {
			return fail("insert "+w.primSpec.Name, err)
		}
		w.env.MakeStruct = cond.StructMaker(reflect.TypeOf(w.model(0)).Elem())
	} else if joins {
		w.env.MakeStruct = cond.StructMaker(reflect.TypeOf(Child{}))
	} else {
		w.env.MakeStruct = cond.StructMaker(reflect.TypeOf(Parent{}))
	}
	return w, nil
}

func (w *world) close() {
	if w.tx != nil {
		w.tx.Rollback()
	}
	w.d.Close()
}

// root is the handle the checked operation starts from.
func (w *world) root() *gorm.DB {
	db := w.d.DB
	if w.c.Cfg == "tx" {
		if w.tx == nil {
			w.tx = w.d.DB.Begin()
		}
		db = w.tx
	}
	switch w.c.UnscopedVia {
	case "propagated":
		db = db.Session(&gorm.Session{PropagateUnscoped: true}).Unscoped().Session(&gorm.Session{NewDB: true})
	case "dropped":
		db = db.Unscoped().Session(&gorm.Session{NewDB: true})
	}
	return db
}

// history marks the twins through gorm and applies the further steps; every
// step is compared with the live/marked/gone model. Returns a violation text.
func (w *world) history() (string, error) {
	for i := range w.prim {
		w.prim[i].State = live
	}
	var twins []int
	for _, r := range w.prim {
		if r.ID > twinOff {
			twins = append(twins, r.ID)
		}
	}
	steps := []hop{}
	if len(twins) > 0 {
		steps = append(steps, hop{IDs: twins})
	}
	steps = append(steps, w.c.History...)
	for _, h := range steps {
		before, err := w.primSpec.Dump(w.d.SQL)
		if err != nil {
			return "", err
		}
		if h.Create != nil {
			r := *h.Create
			var v interface{}
			if w.c.Path == "joins" {
				v = &Child{ID: r.ID, Ca: r.Ca, Cb: r.Cb, Cs: r.Cs, Cn: r.Cn, Ct: r.Ct, Cor: r.Cor, Band: r.Band, ParentID: r.FK}
			} else if w.c.PtrModel {
				fill := cond.StructMaker(reflect.TypeOf(w.model(0)).Elem())
				v = fill(map[string]interface{}{"id": r.ID, "ca": r.Ca, "cb": r.Cb, "cs": r.Cs, "cn": r.Cn, "ct": r.Ct, "cor": r.Cor, "band": r.Band}, true)
			} else {
				v = &Parent{ID: r.ID, Ca: r.Ca, Cb: r.Cb, Cs: r.Cs, Cn: r.Cn, Ct: r.Ct, Cor: r.Cor, Band: r.Band}
			}
			if err := w.d.DB.Create(v).Error; err != nil {
				return fmt.Sprintf("history step %s failed: %v", h, err), nil
			}
			after, err := w.primSpec.Dump(w.d.SQL)
			if err != nil {
				return "", err
			}
			found := false
			for _, a := range after {
				if a.ID == r.ID {
					found = a.DeletedAt == w.liveMark && a.Row.String() == r.String()
				}
			}
			if !found || len(after) != len(before)+1 {
				return fmt.Sprintf("history step %s: created row not stored live", h), nil
			}
			w.prim = append(w.prim, trow{Row: r})
			continue
		}
		tx := w.d.DB
		if h.Unscoped {
			tx = tx.Unscoped()
		}
		tx = tx.Delete(w.primModel(), h.IDs)
		if tx.Error != nil {
			return fmt.Sprintf("history step %s failed: %v", h, tx.Error), nil
		}
		want := int64(0)
		exp := map[int]int{} // id -> expected new state
		for _, id := range h.IDs {
			r := w.prim.find(id)
			if r == nil {
				continue
			}
			switch {
			case h.Unscoped && r.State != gone:
				exp[id] = gone
				want++
			case !h.Unscoped && r.State == live:
				exp[id] = marked
				want++
			}
		}
		if tx.RowsAffected != want {
			return fmt.Sprintf("history step %s: RowsAffected %d, want %d", h, tx.RowsAffected, want), nil
		}
		after, err := w.primSpec.Dump(w.d.SQL)
		if err != nil {
			return "", err
		}
		if msg := w.compare(before, after, exp); msg != "" {
			return fmt.Sprintf("history step %s: %s", h, msg), nil
		}
		for id, st := range exp {
			w.prim.find(id).State = st
		}
	}
	return "", nil
}

// compare checks after against before: rows in exp changed state as told
// (marked: only deleted_at changed, from NULL to a value; gone: absent), every
// other row is byte-identical.
func (w *world) compare(before, after []cond.Stored, exp map[int]int) string {
	idx := map[int]cond.Stored{}
	for _, s := range after {
		idx[s.ID] = s
	}
	n := 0
	for _, b := range before {
		a, ok := idx[b.ID]
		st, changed := exp[b.ID]
		switch {
		case changed && st == gone:
			if ok {
				return fmt.Sprintf("row id %d still exists, want it removed physically", b.ID)
			}
			continue
		case !ok:
			return fmt.Sprintf("row id %d was removed physically", b.ID)
		}
		n++
		switch {
		case changed && st == marked:
			if b.DeletedAt != w.liveMark {
				return fmt.Sprintf("harness: row id %d expected live before", b.ID)
			}
			if a.DeletedAt == w.liveMark {
				return fmt.Sprintf("row id %d was not marked (deleted_at still NULL)", b.ID)
			}
			a.DeletedAt = b.DeletedAt
			if a.String() != b.String() {
				return fmt.Sprintf("soft delete changed more than deleted_at of row id %d: %s, was %s", b.ID, a, b)
			}
		case changed: // updated marker
			if a.Mark != 7 {
				return fmt.Sprintf("row id %d was not updated (mark %d)", b.ID, a.Mark)
			}
			a.Mark = b.Mark
			if a.String() != b.String() {
				return fmt.Sprintf("update changed more than the marker of row id %d: %s, was %s", b.ID, a, b)
			}
		default:
			if a.String() != b.String() {
				what := "row"
				if b.DeletedAt != w.liveMark {
					what = "soft-deleted row"
				}
				return fmt.Sprintf("%s id %d changed: %s, was %s", what, b.ID, a, b)
			}
		}
	}
	if n != len(after) {
		return fmt.Sprintf("table has %d rows, want %d", len(after), n)
	}
	return ""
}

const updated = 3 // pseudo state for compare: marker column set

// base returns the handle the chain is applied to.
func (w *world) chain(db *gorm.DB) *gorm.DB {
	c := w.c
	inChain := c.Unscoped && c.UnscopedVia == ""
	if inChain && !c.UnscopedLast {
		db = db.Unscoped()
	}
	db = cond.ApplyCalls(db, w.env, c.Calls)
	if inChain && c.UnscopedLast {
		db = db.Unscoped()
	}
	return db
}

func (w *world) inline() []interface{} {
	if w.c.Inline == nil {
		return nil
	}
	return w.c.Inline.Inline(w.env)
}

// pred is the reference predicate of the chain with the given tail.
func (c *tcase) pred(tail ...*cond.Node) *cond.Node {
	if c.Inline != nil {
		tail = append([]*cond.Node{c.Inline.Pred()}, tail...)
	}
	if c.PK != 0 && c.Path != "assoc" {
		tail = append(tail, cond.Atom("id", cond.OpEq, cond.IntV(c.PK)))
	}
	return cond.ChainPred(c.Calls, tail...)
}

// exact reports whether the exact-set oracle applies: under Unscoped a chain
// starting with Or is reordered by the builder (documented in clause.Where.Build),
// so only the twin symmetry of the result is asserted there.
func (c *tcase) exact() bool { return !(c.Unscoped && leadingOr(c.Calls)) }

func sorted(s []int) []int {
	if s == nil {
		s = []int{}
	}
	sort.Ints(s)
	return s
}

// judgeRead compares ids read from table t with the reference.
func (w *world) judgeRead(t table, got []int, pred *cond.Node, what string) string {
	c := w.c
	got = sorted(got)
	for i := 1; i < len(got); i++ {
		if got[i] == got[i-1] {
			return fmt.Sprintf("%s returned id %d twice: %v", what, got[i], got)
		}
	}
	for _, id := range got {
		r := t.find(id)
		switch {
		case r == nil || r.State == gone:
			return fmt.Sprintf("%s returned id %d which does not exist: %v", what, id, got)
		case r.State == marked && !c.Unscoped:
			return fmt.Sprintf("%s returned soft-deleted id %d without Unscoped: %v", what, id, got)
		}
	}
	if c.exact() {
		want := cond.Select(t.visible(c.Unscoped), pred)
		if !cond.SameIDs(got, want) {
			return fmt.Sprintf("%s returned ids %v, want %v (reference predicate %s over the %s rows)", what, got, want, pred, vis(c.Unscoped))
		}
		return ""
	}
	if pred.Mentions(cond.SoftCol) {
		return "" // a condition on the soft-delete column itself tells a row from its twin
	}
	// twin symmetry: conditions never mention id, twins carry identical values
	in := map[int]bool{}
	for _, id := range got {
		in[id] = true
	}
	for _, r := range t {
		if r.ID < twinOff && r.State != gone {
			if tw := t.find(r.ID + twinOff); tw != nil && tw.State != gone && in[r.ID] != in[tw.ID] {
				return fmt.Sprintf("%s under Unscoped returned %v: id %d and its twin %d carry identical values but only one is returned", what, got, r.ID, tw.ID)
			}
		}
	}
	return ""
}

func vis(unscoped bool) string {
	if unscoped {
		return "live and soft-deleted"
	}
	return "live"
}

func parentIDs(ps []Parent) []int {
	out := make([]int, len(ps))
	for i, p := range ps {
		out[i] = p.ID
	}
	return out
}

// run executes the checked operation and judges it. Returns a violation text.
func (w *world) run() (string, error) {
	c := w.c
	db := w.root()
	switch c.Path {
	case "find":
		var got []int
		var tx *gorm.DB
		switch c.Variant {
		case "&[]*Parent":
			var ps []*Parent
			tx = w.chain(db).Find(&ps, w.inline()...)
			for _, p := range ps {
				got = append(got, p.ID)
			}
		case "&[]map":
			var ms []map[string]interface{}
			tx = w.chain(db.Model(&Parent{})).Find(&ms, w.inline()...)
			for _, m := range ms {
				id, err := strconv.Atoi(fmt.Sprint(m["id"]))
				if err != nil {
					return "", fmt.Errorf("map destination: id %v (%T)", m["id"], m["id"])
				}
				got = append(got, id)
			}
		default:
			var ps []Parent
			tx = w.chain(db).Find(&ps, w.inline()...)
			got = parentIDs(ps)
		}
		if tx.Error != nil {
			return "Find failed: " + tx.Error.Error(), nil
		}
		return w.judgeRead(w.prim, got, c.pred(), "Find("+c.Variant+")"), nil
	case "firstorcreate":
		// found branch: the record found is updated with the Assign values (also a
		// soft-deleted one selected under Unscoped); otherwise one new row is created
		before, err := w.primSpec.Dump(w.d.SQL)
		if err != nil {
			return "", err
		}
		var p Parent
		tx := w.chain(db).Assign(map[string]interface{}{"mark": 7}).FirstOrCreate(&p)
		after, err := w.primSpec.Dump(w.d.SQL)
		if err != nil {
			return "", err
		}
		if tx.Error != nil {
			return "Assign().FirstOrCreate failed: " + tx.Error.Error(), nil
		}
		pred := c.pred()
		want := cond.Select(w.prim.visible(c.Unscoped), pred)
		if len(want) > 0 {
			if p.ID != want[0] {
				return fmt.Sprintf("FirstOrCreate found id %d, want %d (first of the %s rows satisfying %s)", p.ID, want[0], vis(c.Unscoped), pred), nil
			}
			if msg := w.compare(before, after, map[int]int{want[0]: updated}); msg != "" {
				return fmt.Sprintf("Assign(mark=7).FirstOrCreate found id %d: %s", p.ID, msg), nil
			}
			return "", nil
		}
		known := map[int]bool{}
		for _, b := range before {
			known[b.ID] = true
		}
		var kept []cond.Stored
		created := 0
		for _, a := range after {
			if known[a.ID] {
				kept = append(kept, a)
			} else {
				created++
			}
		}
		if created != 1 {
			return fmt.Sprintf("FirstOrCreate with no %s row satisfying %s created %d rows, want 1 (it returned id %d)", vis(c.Unscoped), pred, created, p.ID), nil
		}
		return w.compare(before, kept, nil), nil
	case "firstorinit":
		var p Parent
		tx := w.chain(db).FirstOrInit(&p)
		if tx.Error != nil {
			return "FirstOrInit failed: " + tx.Error.Error(), nil
		}
		var got []int
		if tx.RowsAffected > 0 {
			got = []int{p.ID}
		}
		for _, id := range got {
			if r := w.prim.find(id); r == nil || r.State == gone || (r.State == marked && !c.Unscoped) {
				return fmt.Sprintf("FirstOrInit found id %d which is soft-deleted or gone", id), nil
			}
		}
		if c.exact() {
			pred := c.pred()
			want := cond.Select(w.prim.visible(c.Unscoped), pred)
			if len(want) > 1 {
				want = want[:1]
			}
			if !cond.SameIDs(sorted(got), want) {
				return fmt.Sprintf("FirstOrInit found %v, want %v (first of the %s rows satisfying %s)", got, want, vis(c.Unscoped), pred), nil
			}
		}
		return "", nil
	case "first":
		p := Parent{ID: c.PK}
		tx := w.chain(db)
		switch c.Variant {
		case "first":
			tx = tx.First(&p, w.inline()...)
		case "take":
			tx = tx.Take(&p, w.inline()...)
		default:
			tx = tx.Last(&p, w.inline()...)
		}
		pred := c.pred()
		var got []int
		if errors.Is(tx.Error, gorm.ErrRecordNotFound) {
			got = []int{}
		} else if tx.Error != nil {
			return c.Variant + " failed: " + tx.Error.Error(), nil
		} else {
			got = []int{p.ID}
		}
		for _, id := range got {
			if r := w.prim.find(id); r == nil || r.State == gone || (r.State == marked && !c.Unscoped) {
				return fmt.Sprintf("%s returned id %d which is soft-deleted or gone", c.Variant, id), nil
			}
		}
		if !c.exact() {
			return "", nil
		}
		want := cond.Select(w.prim.visible(c.Unscoped), pred)
		switch {
		case len(want) == 0 && len(got) != 0:
			return fmt.Sprintf("%s returned id %v, want ErrRecordNotFound (reference predicate %s)", c.Variant, got, pred), nil
		case len(want) != 0 && len(got) == 0:
			return fmt.Sprintf("%s returned ErrRecordNotFound, want one of %v (reference predicate %s)", c.Variant, want, pred), nil
		case len(want) == 0:
			return "", nil
		}
		ok := false
		switch c.Variant {
		case "first":
			ok = got[0] == want[0]
		case "last":
			ok = got[0] == want[len(want)-1]
		default:
			for _, id := range want {
				ok = ok || id == got[0]
			}
		}
		if !ok {
			return fmt.Sprintf("%s returned id %d, candidates %v (reference predicate %s)", c.Variant, got[0], want, pred), nil
		}
		return "", nil
	case "count":
		var n int64
		tx := w.chain(db.Model(w.model(0))).Count(&n)
		if tx.Error != nil {
			return "Count failed: " + tx.Error.Error(), nil
		}
		if !c.exact() {
			return "", nil
		}
		pred := c.pred()
		want := cond.Select(w.prim.visible(c.Unscoped), pred)
		if n != int64(len(want)) {
			return fmt.Sprintf("Count returned %d, want %d = ids %v (reference predicate %s over the %s rows)", n, len(want), want, pred, vis(c.Unscoped)), nil
		}
		return "", nil
	case "count-then":
		// the pagination idiom: one chain value, first counted, then read
		q := w.chain(db.Model(&Parent{}))
		var n int64
		if err := q.Count(&n).Error; err != nil {
			return "Count failed: " + err.Error(), nil
		}
		pred := c.pred()
		want := cond.Select(w.prim.visible(c.Unscoped), pred)
		if c.exact() && n != int64(len(want)) {
			return fmt.Sprintf("Count returned %d, want %d = ids %v (reference predicate %s over the %s rows)", n, len(want), want, pred, vis(c.Unscoped)), nil
		}
		what := "Count, then " + c.Variant + " on the same chain value"
		switch c.Variant {
		case "find":
			var ps []Parent
			if err := q.Find(&ps).Error; err != nil {
				return what + " failed: " + err.Error(), nil
			}
			return w.judgeRead(w.prim, parentIDs(ps), pred, what), nil
		case "pluck":
			var got []int
			if err := q.Pluck("id", &got).Error; err != nil {
				return what + " failed: " + err.Error(), nil
			}
			return w.judgeRead(w.prim, got, pred, what), nil
		case "order-limit-find":
			var ps []Parent
			if err := q.Order("id").Limit(2).Find(&ps).Error; err != nil {
				return what + " failed: " + err.Error(), nil
			}
			got := parentIDs(ps)
			for _, id := range got {
				if r := w.prim.find(id); r == nil || r.State == gone || (r.State == marked && !c.Unscoped) {
					return fmt.Sprintf("%s returned id %d which is soft-deleted or gone", what, id), nil
				}
			}
			if c.exact() {
				if len(want) > 2 {
					want = want[:2]
				}
				if !cond.SameIDs(sorted(got), want) {
					return fmt.Sprintf("%s returned ids %v, want %v (first page; reference predicate %s over the %s rows)", what, got, want, pred, vis(c.Unscoped)), nil
				}
			}
			return "", nil
		default:
			var p Parent
			err := q.First(&p).Error
			if errors.Is(err, gorm.ErrRecordNotFound) {
				if c.exact() && len(want) != 0 {
					return fmt.Sprintf("%s returned ErrRecordNotFound, want id %d", what, want[0]), nil
				}
				return "", nil
			}
			if err != nil {
				return what + " failed: " + err.Error(), nil
			}
			if r := w.prim.find(p.ID); r == nil || r.State == gone || (r.State == marked && !c.Unscoped) {
				return fmt.Sprintf("%s returned id %d which is soft-deleted or gone", what, p.ID), nil
			}
			if c.exact() && (len(want) == 0 || want[0] != p.ID) {
				return fmt.Sprintf("%s returned id %d, want the first of %v (reference predicate %s)", what, p.ID, want, pred), nil
			}
			return "", nil
		}
	case "pluck":
		var got []int
		tx := w.chain(db.Model(w.model(0))).Pluck("id", &got)
		if tx.Error != nil {
			return "Pluck failed: " + tx.Error.Error(), nil
		}
		return w.judgeRead(w.prim, got, c.pred(), "Pluck"), nil
	case "batches":
		var ps []Parent
		var got, inner []int
		var innerRan bool
		var innerErr error
		tx := w.chain(db).FindInBatches(&ps, c.Batch, func(tx *gorm.DB, batch int) error {
			if batch > 300 {
				return errors.New("harness: runaway FindInBatches")
			}
			got = append(got, parentIDs(ps)...)
			if batch == 1 {
				innerRan = true
				innerErr = tx.Model(&Parent{}).Pluck("id", &inner).Error
			}
			return nil
		})
		if tx.Error != nil {
			return "FindInBatches failed: " + tx.Error.Error(), nil
		}
		if innerErr != nil {
			return "query inside the FindInBatches callback failed: " + innerErr.Error(), nil
		}
		if innerRan {
			if msg := w.nestedVerdict("the statement inside the FindInBatches callback", inner); msg != "" {
				return msg, nil
			}
		}
		return w.judgeRead(w.prim, got, c.pred(), "FindInBatches"), nil
	case "rows":
		if c.Variant == "row" {
			var id int
			err := w.chain(db.Model(&Parent{}).Select("id")).Row().Scan(&id)
			var got []int
			switch {
			case errors.Is(err, sql.ErrNoRows):
			case err != nil:
				return "Row().Scan failed: " + err.Error(), nil
			default:
				got = []int{id}
			}
			for _, id := range got {
				if r := w.prim.find(id); r == nil || r.State == gone || (r.State == marked && !c.Unscoped) {
					return fmt.Sprintf("Row() returned id %d which is soft-deleted or gone", id), nil
				}
			}
			if c.exact() {
				pred := c.pred()
				want := cond.Select(w.prim.visible(c.Unscoped), pred)
				ok := len(want) == 0 && len(got) == 0
				for _, id := range want {
					ok = ok || (len(got) == 1 && got[0] == id)
				}
				if !ok {
					return fmt.Sprintf("Row() returned %v, want one of %v (reference predicate %s over the %s rows)", got, want, pred, vis(c.Unscoped)), nil
				}
			}
			return "", nil
		}
		rows, err := w.chain(db.Model(&Parent{})).Rows()
		if err != nil {
			return "Rows failed: " + err.Error(), nil
		}
		var got []int
		for rows.Next() {
			var p Parent
			if err := db.ScanRows(rows, &p); err != nil {
				rows.Close()
				return "ScanRows failed: " + err.Error(), nil
			}
			got = append(got, p.ID)
		}
		rows.Close()
		return w.judgeRead(w.prim, got, c.pred(), "Rows+ScanRows"), nil
	case "scan":
		var res []struct {
			ID int
			Ca int
		}
		tx := w.chain(db.Model(w.model(0))).Scan(&res)
		if tx.Error != nil {
			return "Scan failed: " + tx.Error.Error(), nil
		}
		got := make([]int, len(res))
		for i, r := range res {
			got[i] = r.ID
		}
		return w.judgeRead(w.prim, got, c.pred(), "Scan"), nil
	case "joins":
		return w.runJoins()
	case "preload":
		return w.runPreload()
	case "assoc":
		return w.runAssoc()
	case "delete-assoc":
		return w.runDeleteAssoc()
	case "assoc-unscoped":
		return w.runAssocUnscoped()
	case "update":
		return w.runUpdate()
	case "delete":
		return w.runDelete()
	}
	return "", fmt.Errorf("unknown path %q", c.Path)
}

func (w *world) runJoins() (string, error) {
	c := w.c
	db := w.root()
	path := c.JoinPath
	if len(path) == 0 {
		path = []string{"Parent"}
	}
	for _, name := range path {
		var args []interface{}
		if c.Pre != nil && name == "Parent" {
			q, _ := c.Pre.QueryArgs(w.env)
			args = append(args, q)
		}
		if c.Variant == "inner" {
			db = db.InnerJoins(name, args...)
		} else {
			db = db.Joins(name, args...)
		}
	}
	what := fmt.Sprintf("%s join %v", c.Variant, path)
	if c.JoinPreload {
		db = db.Preload("Parent.Grand")
		what += " + Preload(Parent.Grand)"
	}
	nestedJoin := c.nested()
	nested := nestedJoin || c.JoinPreload // the grandparent is checked either way
	var cs []Child
	tx := w.chain(db).Find(&cs)
	if tx.Error != nil {
		return what + " failed: " + tx.Error.Error(), nil
	}
	// which parents / grandparents may be attached
	attach := func(pid int) bool {
		if !c.Parents.isVisible(pid, c.Unscoped) {
			return false
		}
		if c.Pre != nil {
			return c.Pre.Pred().Eval(c.Parents.find(pid).row()) == cond.T
		}
		return true
	}
	attachGrand := func(pid int) bool {
		return attach(pid) && c.Grands.isVisible(c.Parents.find(pid).FK, c.Unscoped)
	}
	onOr := c.Pre != nil && hasOrCall(c.Pre.Group)
	var got []int
	for _, ch := range cs {
		got = append(got, ch.ID)
		r := w.prim.find(ch.ID)
		if r == nil {
			continue
		}
		if ch.Parent != nil {
			if pr := c.Parents.find(ch.Parent.ID); pr != nil && pr.State == marked && !c.Unscoped {
				return fmt.Sprintf("%s attached soft-deleted parent %d to child %d without Unscoped", what, ch.Parent.ID, ch.ID), nil
			}
			if g := ch.Parent.Grand; g != nil {
				if gr := c.Grands.find(g.ID); gr != nil && gr.State == marked && !c.Unscoped {
					return fmt.Sprintf("%s attached soft-deleted grandparent %d to parent %d of child %d without Unscoped", what, g.ID, ch.Parent.ID, ch.ID), nil
				}
			}
		}
		if onOr {
			continue // ON condition with an Or call: only the leak above is asserted (domain note)
		}
		switch {
		case ch.Parent != nil && ch.Parent.ID != r.FK:
			return fmt.Sprintf("%s attached parent %d to child %d whose parent_id is %d", what, ch.Parent.ID, ch.ID, r.FK), nil
		case ch.Parent != nil && !attach(r.FK):
			return fmt.Sprintf("%s attached parent %d to child %d although that parent is not visible or fails the ON condition", what, ch.Parent.ID, ch.ID), nil
		case ch.Parent == nil && attach(r.FK):
			return fmt.Sprintf("%s did not attach visible parent %d to child %d", what, r.FK, ch.ID), nil
		}
		if nested && ch.Parent != nil {
			pr := c.Parents.find(r.FK)
			g := ch.Parent.Grand
			switch {
			case g != nil && g.ID != pr.FK:
				return fmt.Sprintf("%s attached grandparent %d to parent %d whose grand_id is %d", what, g.ID, pr.ID, pr.FK), nil
			case g != nil && !attachGrand(r.FK):
				return fmt.Sprintf("%s attached grandparent %d (child %d) although it is not visible", what, g.ID, ch.ID), nil
			case g == nil && attachGrand(r.FK):
				return fmt.Sprintf("%s did not attach visible grandparent %d to parent %d of child %d", what, pr.FK, pr.ID, ch.ID), nil
			}
		}
	}
	pred := c.pred()
	if c.Variant == "inner" && !onOr {
		// inner join: children without an attachable parent (and, on a nested
		// path, grandparent) drop out
		var vis table
		for _, r := range w.prim {
			if attach(r.FK) && (!nestedJoin || attachGrand(r.FK)) {
				vis = append(vis, r)
			}
		}
		return w.judgeRead(vis, got, pred, what+" Find"), nil
	}
	if c.Variant == "inner" {
		// only the leak checks
		for _, id := range got {
			if r := w.prim.find(id); r == nil || r.State == gone || (r.State == marked && !c.Unscoped) {
				return fmt.Sprintf("%s returned soft-deleted or missing child %d", what, id), nil
			}
		}
		return "", nil
	}
	return w.judgeRead(w.prim, got, pred, what+" Find"), nil
}

func (w *world) runPreload() (string, error) {
	c := w.c
	db := w.root()
	var args []interface{}
	if c.Pre != nil {
		args = c.Pre.Inline(cond.Env{Base: db, MakeStruct: cond.StructMaker(reflect.TypeOf(Child{}))})
	}
	var ps []Parent
	relName := c.Variant
	if relName == "Associations" {
		relName = clause.Associations
	}
	tx := w.chain(db.Preload(relName, args...)).Find(&ps, w.inline()...)
	if tx.Error != nil {
		return "Preload(" + c.Variant + ") failed: " + tx.Error.Error(), nil
	}
	if msg := w.judgeRead(w.prim, parentIDs(ps), c.pred(), "Preload("+c.Variant+").Find"); msg != "" {
		return msg, nil
	}
	variants := []string{c.Variant}
	name := c.Variant
	if c.Variant == "Associations" {
		variants = []string{"Tags", "Children"}
	}
	for _, p := range ps {
		for _, variant := range variants {
			_ = name
			switch variant {
			case "Tags":
				var got, want []int
				for _, t := range p.Tags {
					got = append(got, t.ID)
				}
				for _, l := range c.Links {
					if l[0] == p.ID && c.Tags.isVisible(l[1], c.Unscoped) && (l[2] == live || c.Unscoped) {
						want = append(want, l[1])
					}
				}
				if !cond.SameIDs(sorted(got), sorted(want)) {
					return fmt.Sprintf("Preload(Tags): parent %d got tags %v, want %v (the %s tags behind %s links)", p.ID, got, want, vis(c.Unscoped), vis(c.Unscoped)), nil
				}
			default:
				var got, want []int
				for _, ch := range p.Children {
					got = append(got, ch.ID)
				}
				for _, r := range c.Children {
					if r.FK == p.ID && c.Children.isVisible(r.ID, c.Unscoped) && (c.Pre == nil || c.Pre.Pred().Eval(r.row()) == cond.T) {
						want = append(want, r.ID)
					}
				}
				if !cond.SameIDs(sorted(got), sorted(want)) {
					return fmt.Sprintf("Preload(Children): parent %d got children %v, want %v (the %s children satisfying the preload condition)", p.ID, got, want, vis(c.Unscoped)), nil
				}
				if variant == "Children.Toys" {
					for _, ch := range p.Children {
						var got, want []int
						for _, t := range ch.Toys {
							got = append(got, t.ID)
						}
						for _, r := range c.Toys {
							if r.FK == ch.ID && c.Toys.isVisible(r.ID, c.Unscoped) {
								want = append(want, r.ID)
							}
						}
						if !cond.SameIDs(sorted(got), sorted(want)) {
							return fmt.Sprintf("Preload(Children.Toys): child %d got toys %v, want %v (the %s toys)", ch.ID, got, want, vis(c.Unscoped)), nil
						}
					}
				}
			}
		}
	}
	return "", nil
}

func (w *world) runAssoc() (string, error) {
	c := w.c
	db := w.root()
	rel := strings.Split(c.Variant, "/")[0]
	find := strings.HasSuffix(c.Variant, "/find")
	owner := Parent{ID: c.PK}
	env := w.env
	var t table
	var pred *cond.Node
	if rel == "Parent" {
		// belongs to: the owner is a child whose parent_id is c.PK; the related
		// key is AND-ed after the chain
		child := Child{ID: 1, ParentID: c.PK}
		t = w.prim
		pred = c.pred(cond.Atom("id", cond.OpEq, cond.IntV(c.PK)))
		as := w.chain(db.Model(&child)).Association("Parent")
		if as.Error != nil {
			return "Association failed: " + as.Error.Error(), nil
		}
		if find {
			var ps []Parent
			if err := as.Find(&ps, w.inline()...); err != nil {
				return "Association(Parent).Find failed: " + err.Error(), nil
			}
			if !c.exact() {
				// the related key is part of the conditions: no twin symmetry to assert, only visibility
				for _, p := range ps {
					if !t.isVisible(p.ID, c.Unscoped) {
						return fmt.Sprintf("Association(Parent).Find returned id %d which is soft-deleted or gone", p.ID), nil
					}
				}
				return "", nil
			}
			return w.judgeRead(t, parentIDs(ps), pred, "Association(Parent).Find"), nil
		}
		n := as.Count()
		if as.Error != nil {
			return "Association(Parent).Count failed: " + as.Error.Error(), nil
		}
		if want := cond.Select(t.visible(c.Unscoped), pred); c.exact() && n != int64(len(want)) {
			return fmt.Sprintf("Association(Parent).Count returned %d, want %d = ids %v (reference predicate %s over the %s rows)", n, len(want), want, pred, vis(c.Unscoped)), nil
		}
		return "", nil
	}
	if rel == "Children" {
		env.MakeStruct = cond.StructMaker(reflect.TypeOf(Child{}))
		for _, r := range c.Children {
			t = append(t, r)
		}
		// has many: the owner key is AND-ed after the chain
		pred = c.pred(cond.Atom("fk", cond.OpEq, cond.IntV(c.PK)))
	} else {
		env.MakeStruct = cond.StructMaker(reflect.TypeOf(Tag{}))
		// many2many: the link is part of the JOIN; without Unscoped the join table's
		// own soft-delete filter is AND-ed behind the chain (pseudo column fk = the
		// join row is live)
		linked := map[int]int{}
		for _, l := range c.Links {
			if l[0] == c.PK {
				linked[l[1]] = l[2] + 1
			}
		}
		for _, r := range c.Tags {
			if st := linked[r.ID]; st != 0 {
				r.FK = 0
				if st-1 == live {
					r.FK = 1
				}
				t = append(t, r)
			}
		}
		if c.Unscoped {
			pred = c.pred()
		} else {
			pred = c.pred(cond.Atom("fk", cond.OpEq, cond.IntV(1)))
		}
	}
	w.env = env
	as := w.chain(db.Model(&owner)).Association(rel)
	if as.Error != nil {
		return "Association failed: " + as.Error.Error(), nil
	}
	if find {
		var got []int
		var err error
		if rel == "Children" {
			var cs []Child
			err = as.Find(&cs, w.inline()...)
			for _, x := range cs {
				got = append(got, x.ID)
			}
		} else {
			var ts []Tag
			err = as.Find(&ts, w.inline()...)
			for _, x := range ts {
				got = append(got, x.ID)
			}
		}
		if err != nil {
			return "Association(" + rel + ").Find failed: " + err.Error(), nil
		}
		return w.judgeRead(t, got, pred, "Association("+rel+").Find"), nil
	}
	n := as.Count()
	if as.Error != nil {
		return "Association(" + rel + ").Count failed: " + as.Error.Error(), nil
	}
	if !c.exact() {
		return "", nil
	}
	want := cond.Select(t.visible(c.Unscoped), pred)
	if n != int64(len(want)) {
		return fmt.Sprintf("Association(%s).Count returned %d, want %d = ids %v (reference predicate %s over the %s rows)", rel, n, len(want), want, pred, vis(c.Unscoped)), nil
	}
	return "", nil
}

// runDeleteAssoc: Select("Children").Delete(&Parent{ID: k}) deletes the parent
// and, through a nested statement, its children - softly without Unscoped,
// physically with it (the nested statement inherits Unscoped).
func (w *world) runDeleteAssoc() (string, error) {
	c := w.c
	db := w.root()
	beforeP, err := specParents.Dump(w.d.SQL)
	if err != nil {
		return "", err
	}
	beforeC, err := specChildren.Dump(w.d.SQL)
	if err != nil {
		return "", err
	}
	tx := w.chain(db).Select("Children").Delete(&Parent{ID: c.PK})
	if tx.Error != nil {
		return "Select(Children).Delete failed: " + tx.Error.Error(), nil
	}
	afterP, err := specParents.Dump(w.d.SQL)
	if err != nil {
		return "", err
	}
	afterC, err := specChildren.Dump(w.d.SQL)
	if err != nil {
		return "", err
	}
	to := marked
	if c.Unscoped {
		to = gone
	}
	expP, expC := map[int]int{}, map[int]int{}
	if r := w.prim.find(c.PK); r != nil && (r.State == live || (c.Unscoped && r.State == marked)) {
		expP[c.PK] = to
	}
	for _, r := range c.Children {
		if r.FK == c.PK && (r.State == live || (c.Unscoped && r.State == marked)) {
			expC[r.ID] = to
		}
	}
	if msg := w.compare(beforeP, afterP, expP); msg != "" {
		return "Select(Children).Delete, parents: " + msg, nil
	}
	if msg := w.compare(beforeC, afterC, expC); msg != "" {
		return "Select(Children).Delete, children of parent " + fmt.Sprint(c.PK) + ": " + msg, nil
	}
	return "", nil
}

// nestedVerdict judges what a statement started from inside another one (hook,
// batch callback) saw of the parents: live rows only, unless PropagateUnscoped
// carries the outer Unscoped over.
func (w *world) nestedVerdict(what string, ids []int) string {
	un := w.c.Unscoped && w.c.UnscopedVia == "propagated"
	want := cond.Select(w.prim.visible(un), nil)
	if !cond.SameIDs(sorted(append([]int{}, ids...)), want) {
		return fmt.Sprintf("%s read parents %v, want %v (the %s rows: PropagateUnscoped is %v)", what, ids, want, vis(un), un)
	}
	return ""
}

func (w *world) hookVerdict() string {
	if !tagHook.ran {
		return ""
	}
	if tagHook.err != nil {
		return "query inside Tag.AfterFind failed: " + tagHook.err.Error()
	}
	return w.nestedVerdict("the statement inside Tag.AfterFind", tagHook.ids)
}

// runAssocUnscoped: Association(rel).Unscoped() deletes what it unlinks; whether that
// delete marks or removes follows the DB handle (db.Unscoped()), not the association flag.
func (w *world) runAssocUnscoped() (string, error) {
	c := w.c
	db := w.root()
	beforeP, err := specParents.Dump(w.d.SQL)
	if err != nil {
		return "", err
	}
	beforeC, err := specChildren.Dump(w.d.SQL)
	if err != nil {
		return "", err
	}
	to := marked
	if c.Unscoped {
		to = gone
	}
	affected := func(st int) bool { return st == live || (c.Unscoped && st == marked) }
	expP, expC := map[int]int{}, map[int]int{}
	var opErr error
	what := "Association(" + strings.Replace(c.Variant, "/", ").Unscoped().", 1) + "()"
	switch c.Variant {
	case "Children/Clear":
		owner := Parent{ID: c.PK}
		opErr = w.chain(db.Model(&owner)).Association("Children").Unscoped().Clear()
		for _, r := range c.Children {
			if r.FK == c.PK && affected(r.State) {
				expC[r.ID] = to
			}
		}
	default:
		cr := c.Children.find(c.PK)
		owner := Child{ID: cr.ID, ParentID: cr.FK}
		as := w.chain(db.Model(&owner)).Association("Parent").Unscoped()
		if c.Variant == "Parent/Clear" {
			opErr = as.Clear()
		} else {
			opErr = as.Delete(&Parent{ID: cr.FK})
		}
		if pr := w.prim.find(cr.FK); pr != nil && affected(pr.State) {
			expP[cr.FK] = to
		}
	}
	if opErr != nil {
		return what + " failed: " + opErr.Error(), nil
	}
	afterP, err := specParents.Dump(w.d.SQL)
	if err != nil {
		return "", err
	}
	afterC, err := specChildren.Dump(w.d.SQL)
	if err != nil {
		return "", err
	}
	if msg := w.compare(beforeP, afterP, expP); msg != "" {
		return what + ", parents: " + msg, nil
	}
	if c.Variant == "Children/Clear" {
		if msg := w.compare(beforeC, afterC, expC); msg != "" {
			return what + ", children: " + msg, nil
		}
	}
	return "", nil
}

// noCondition: the chain carries no effective condition at all.
func (c *tcase) noCondition() bool { return c.pred() == nil }

func (w *world) runUpdate() (string, error) {
	c := w.c
	db := w.root()
	before, err := w.primSpec.Dump(w.d.SQL)
	if err != nil {
		return "", err
	}
	tx := w.chain(db.Model(w.model(c.PK)))
	switch c.Variant {
	case "Update":
		tx = tx.Update("mark", 7)
	case "Updates(map)":
		tx = tx.Updates(map[string]interface{}{"mark": 7})
	case "Updates(struct)":
		tx = tx.Updates(w.markedValue())
	case "Updates(map+soft-col)":
		tx = tx.Updates(map[string]interface{}{"mark": 7, w.softColName(): nil})
	case "UpdateColumns(map+soft-col)":
		tx = tx.UpdateColumns(map[string]interface{}{"mark": 7, w.softColName(): nil})
	case "UpdateColumn":
		tx = tx.UpdateColumn("mark", 7)
	default:
		tx = tx.UpdateColumns(map[string]interface{}{"mark": 7})
	}
	after, err := w.primSpec.Dump(w.d.SQL)
	if err != nil {
		return "", err
	}
	pred := c.pred()
	if c.noCondition() {
		if !errors.Is(tx.Error, gorm.ErrMissingWhereClause) {
			return fmt.Sprintf("%s without any effective condition: error %v, want ErrMissingWhereClause", c.Variant, tx.Error), nil
		}
		return w.compare(before, after, nil), nil
	}
	if tx.Error != nil {
		return c.Variant + " failed: " + tx.Error.Error(), nil
	}
	// soft-deleted rows untouched without Unscoped, whatever the predicate reading
	if !c.Unscoped {
		for _, b := range before {
			if b.DeletedAt != w.liveMark {
				for _, a := range after {
					if a.ID == b.ID && a.String() != b.String() {
						return fmt.Sprintf("%s without Unscoped changed soft-deleted row id %d: %s, was %s", c.Variant, b.ID, a, b), nil
					}
				}
			}
		}
	}
	if !c.exact() {
		var got []int
		for _, a := range after {
			if a.Mark == 7 {
				got = append(got, a.ID)
			}
		}
		return w.judgeRead(w.prim, got, pred, c.Variant), nil
	}
	exp := map[int]int{}
	for _, id := range cond.Select(w.prim.visible(c.Unscoped), pred) {
		exp[id] = updated
	}
	if msg := w.compare(before, after, exp); msg != "" {
		return fmt.Sprintf("%s: %s (reference predicate %s over the %s rows)", c.Variant, msg, pred, vis(c.Unscoped)), nil
	}
	if tx.RowsAffected != int64(len(exp)) {
		return fmt.Sprintf("%s: RowsAffected %d, want %d", c.Variant, tx.RowsAffected, len(exp)), nil
	}
	return "", nil
}

func (w *world) runDelete() (string, error) {
	c := w.c
	db := w.root()
	rounds := 1
	if c.Repeat {
		rounds = 2
	}
	for round := 0; round < rounds; round++ {
		before, err := w.primSpec.Dump(w.d.SQL)
		if err != nil {
			return "", err
		}
		tx := w.chain(db).Delete(w.model(c.PK), w.inline()...)
		after, err := w.primSpec.Dump(w.d.SQL)
		if err != nil {
			return "", err
		}
		what := "Delete"
		if round == 1 {
			what = "repeated Delete"
		}
		pred := c.pred()
		if c.noCondition() {
			if !errors.Is(tx.Error, gorm.ErrMissingWhereClause) {
				return fmt.Sprintf("%s without any effective condition: error %v, want ErrMissingWhereClause", what, tx.Error), nil
			}
			return w.compare(before, after, nil), nil
		}
		if tx.Error != nil {
			return what + " failed: " + tx.Error.Error(), nil
		}
		if !c.Unscoped {
			if len(after) != len(before) {
				return fmt.Sprintf("%s without Unscoped changed the physical row count from %d to %d", what, len(before), len(after)), nil
			}
			for _, b := range before {
				if b.DeletedAt != w.liveMark {
					for _, a := range after {
						if a.ID == b.ID && a.String() != b.String() {
							return fmt.Sprintf("%s without Unscoped changed soft-deleted row id %d: %s, was %s", what, b.ID, a, b), nil
						}
					}
				}
			}
		}
		if !c.exact() {
			// Unscoped + leading Or: the removed set must be twin symmetric
			left := map[int]bool{}
			for _, a := range after {
				left[a.ID] = true
			}
			var got []int
			for _, b := range before {
				if !left[b.ID] {
					got = append(got, b.ID)
				}
			}
			if msg := w.judgeRead(w.prim, got, pred, what); msg != "" {
				return msg, nil
			}
			for _, id := range got {
				w.prim.find(id).State = gone
			}
			continue
		}
		exp := map[int]int{}
		to := marked
		if c.Unscoped {
			to = gone
		}
		for _, id := range cond.Select(w.prim.visible(c.Unscoped), pred) {
			exp[id] = to
		}
		if msg := w.compare(before, after, exp); msg != "" {
			return fmt.Sprintf("%s: %s (reference predicate %s over the %s rows)", what, msg, pred, vis(c.Unscoped)), nil
		}
		if tx.RowsAffected != int64(len(exp)) {
			return fmt.Sprintf("%s: RowsAffected %d, want %d", what, tx.RowsAffected, len(exp)), nil
		}
		for id, st := range exp {
			w.prim.find(id).State = st
		}
	}
	return "", nil
}

// check runs the whole case.
func check(c tcase) (string, error) {
	w, err := setup(&c)
	if err != nil {
		return "", err
	}
	defer w.close()
	if msg, err := w.history(); msg != "" || err != nil {
		return msg, err
	}
	msg, err := w.run()
	if msg == "" && err == nil {
		msg = w.hookVerdict()
	}
	return msg, err
}

// ---- classification -------------------------------------------------------------------------------

func hasOrNot(c tcase) bool {
	found := false
	visit := func(verb cond.Verb, u *cond.Unit, depth int) {
		if u.Empty() || u.Form == cond.FGroup {
			return
		}
		if verb != cond.VWhere || u.Tree.HasKind(cond.KOr) || u.Tree.HasKind(cond.KNot) {
			found = true
		}
	}
	for _, cl := range c.Calls {
		cl.U.Walk(cl.Verb, 0, visit)
	}
	if c.Inline != nil {
		c.Inline.Walk(cond.VWhere, 0, visit)
	}
	return found
}

// twinPairHit: the predicate is TRUE on a live row whose twin is marked.
func twinPairHit(c tcase) bool {
	prim := c.Parents
	if c.Path == "joins" {
		prim = c.Children
	}
	// state after history
	st := map[int]int{}
	for _, r := range prim {
		st[r.ID] = r.State
	}
	for _, h := range c.History {
		for _, id := range h.IDs {
			if _, ok := st[id]; !ok {
				continue
			}
			if h.Unscoped {
				st[id] = gone
			} else if st[id] == live {
				st[id] = marked
			}
		}
	}
	var pred *cond.Node
	if c.Path == "assoc" {
		pred = cond.ChainPred(c.Calls)
	} else {
		pred = c.pred()
	}
	for _, r := range prim {
		if r.ID < twinOff && st[r.ID] == live && st[r.ID+twinOff] == marked && pred.Eval(r.Row) == cond.T {
			return true
		}
	}
	return false
}

func classes(c tcase) []string {
	cl := cond.Classes(c.Calls, c.Inline)
	p := "path:" + c.Path
	if c.Variant != "" {
		p += "/" + c.Variant
	}
	cl = append(cl, p, fmt.Sprintf("history:%d", len(c.History)), fmt.Sprintf("calls:%d", len(c.Calls)))
	if c.Unscoped {
		cl = append(cl, "scope:unscoped", "unscoped:"+c.Path)
	} else {
		cl = append(cl, "scope:scoped")
	}
	if c.UnscopedVia != "" {
		cl = append(cl, "unscoped-via:"+c.UnscopedVia)
	}
	if c.Cfg != "" {
		cl = append(cl, "config:"+c.Cfg)
	}
	if leadingOr(c.Calls) {
		cl = append(cl, "chain:leading-or")
	}
	if !c.exact() {
		cl = append(cl, "oracle:twin-symmetry-only")
	}
	if c.PK != 0 && c.Path != "assoc" {
		cl = append(cl, "pk:model-value")
	}
	if c.Pre != nil {
		cl = append(cl, "relcond:"+c.Path)
	}
	if c.Path == "joins" {
		cl = append(cl, "joins:"+c.Variant+"/"+strings.Join(c.JoinPath, "+"))
		if c.JoinPreload {
			cl = append(cl, "joins:preload-below-joined-relation")
		}
	}
	if c.Repeat {
		cl = append(cl, "delete:repeated")
	}
	for _, l := range c.Links {
		if l[2] == marked {
			cl = append(cl, "m2m:marked-join-row")
			break
		}
	}
	if c.Unscoped && (c.Path == "batches" || len(c.Tags) > 0) {
		cl = append(cl, "nested-statement-under-unscoped")
	}
	if c.PtrModel {
		cl = append(cl, "model:"+c.Flavour+"-deleted-at", c.Flavour+"-deleted-at:"+c.Path)
	}
	for _, h := range c.History {
		if h.Create != nil {
			cl = append(cl, "history:create")
		} else if h.Unscoped {
			cl = append(cl, "history:unscoped-delete")
		} else {
			cl = append(cl, "history:soft-delete")
		}
	}
	return cl
}

func TestC08(t *testing.T) {
	evid.Rule(rule)
	rapid.Check(t, func(rt *rapid.T) {
		c := genCase(rt)
		desc := c.String()
		evid.Journal(desc)
		hit := twinPairHit(c)
		cl := classes(c)
		if hit {
			cl = append(cl, "pred:hits-twin-pair")
		}
		evid.Case(desc, hasOrNot(c) && hit, nil, cl...)
		msg, err := check(c)
		if err != nil {
			rt.Fatalf("harness: %v, case: %s", err, desc)
		}
		if msg != "" {
			rt.Fatalf("C08 violated: %s, case: %s", msg, desc)
		}
	})
}

// ---- witnesses -----------------------------------------------------------------------------------

func rawUnit(sql string, tree *cond.Node, args ...interface{}) *cond.Unit {
	return &cond.Unit{Form: cond.FRawQ, Tree: tree, Query: sql, Args: args, Desc: fmt.Sprintf("%q %v", sql, args)}
}

func witnessParents() table {
	rows := []cond.Row{
		{ID: 1, Ca: 1, Cb: 0, Cs: "a"},
		{ID: 2, Ca: 0, Cb: 2, Cs: "b"},
		{ID: 3, Ca: 3, Cb: 3, Cs: "a"},
		{ID: 4, Ca: 3, Cb: 3, Cs: "b"},
	}
	var t table
	for _, r := range rows {
		t = append(t, trow{Row: r})
	}
	for _, r := range rows {
		r.ID += twinOff
		t = append(t, trow{Row: r, State: marked})
	}
	return t
}

// Or("ca = 1 OR cb = 2").Find(&softDeleted) used to render
// `ca = 1 OR cb = 2 AND deleted_at IS NULL` and return soft-deleted rows (fixed by b95fc38).
func TestC08WitnessLeadingOr(t *testing.T) {
	or := cond.Or(cond.Atom("ca", cond.OpEq, cond.IntV(1)), cond.Atom("cb", cond.OpEq, cond.IntV(2)))
	for _, sql := range []string{"ca = 1 OR cb = 2", "ca = 1 or cb = 2", "ca = 1 OR\ncb = 2", "(ca = 1)OR(cb = 2)"} {
		for _, path := range []struct{ p, v string }{{"find", ""}, {"first", "first"}, {"first", "last"}, {"count", ""}, {"pluck", ""}, {"rows", ""}, {"scan", ""},
			{"update", "Update"}, {"update", "UpdateColumn"}, {"delete", ""}} {
			c := tcase{Parents: witnessParents(), Path: path.p, Variant: path.v, Repeat: path.p == "delete",
				Calls: []cond.Call{{Verb: cond.VOr, U: rawUnit(sql, or)}}}
			msg, err := check(c)
			if err != nil {
				t.Fatalf("harness: %v", err)
			}
			if msg != "" {
				t.Errorf("C08 violated: %s, case: %s", msg, c)
			}
		}
	}
}

func namedUnit(sql string, tree *cond.Node, args map[string]interface{}) *cond.Unit {
	return &cond.Unit{Form: cond.FNamed, Tree: tree, Query: sql, Args: []interface{}{args}, Desc: fmt.Sprintf("%q %v", sql, args)}
}

func runWitness(t *testing.T, calls ...cond.Call) {
	t.Helper()
	for _, path := range []struct{ p, v string }{{"find", ""}, {"count", ""}, {"update", "Update"}, {"delete", ""}} {
		c := tcase{Parents: witnessParents(), Path: path.p, Variant: path.v, Calls: calls}
		msg, err := check(c)
		if err != nil {
			t.Fatalf("harness: %v", err)
		}
		if msg != "" {
			t.Errorf("C08 violated: %s, case: %s", msg, c)
		}
	}
}

// open finding named-under-not (the C02 defect) on a soft-delete model:
// Not("ca = @x OR cb = @y", args) renders `NOT ca = 1 OR cb = 2 AND deleted_at IS NULL`
// and reads / updates / deletes soft-deleted rows.
func TestC08WitnessNamedUnderNot(t *testing.T) {
	or := cond.Or(cond.Atom("ca", cond.OpEq, cond.IntV(1)), cond.Atom("cb", cond.OpEq, cond.IntV(2)))
	runWitness(t, cond.Call{Verb: cond.VNot, U: namedUnit("ca = @x OR cb = @y", or, map[string]interface{}{"x": 1, "y": 2})})
}

// open finding named-or-under-or on a soft-delete model: the leading-Or repair
// (b95fc38) looks for a clause.Expr only, so Or("ca = @x OR cb = @y", args)
// still renders `ca = 1 OR cb = 2 AND deleted_at IS NULL`.
func TestC08WitnessNamedOrUnderOr(t *testing.T) {
	or := cond.Or(cond.Atom("ca", cond.OpEq, cond.IntV(1)), cond.Atom("cb", cond.OpEq, cond.IntV(2)))
	runWitness(t, cond.Call{Verb: cond.VOr, U: namedUnit("ca = @x OR cb = @y", or, map[string]interface{}{"x": 1, "y": 2})})
}

// open finding not-group-cmp-or-raw (the C02 defect) seen through C08's exact
// oracle: the live rows selected are wrong (no soft-deleted row leaks).
func TestC08WitnessNotGroupCmpOrRaw(t *testing.T) {
	and := cond.And(cond.Atom("ca", cond.OpEq, cond.IntV(1)), cond.Atom("cs", cond.OpEq, cond.StrV("a")))
	cb := cond.Atom("cb", cond.OpEq, cond.IntV(2))
	group := &cond.Unit{Form: cond.FGroup, Group: []cond.Call{
		{Verb: cond.VWhere, U: &cond.Unit{Form: cond.FMap, Tree: cb, Members: []*cond.Node{cb}, Query: map[string]interface{}{"cb": 2}, Desc: "map{cb:2}"}},
		{Verb: cond.VOr, U: rawUnit("ca = ? AND cs = ?", and, 1, "a")},
	}}
	runWitness(t, cond.Call{Verb: cond.VNot, U: group})
}

// open finding join-on-or: Joins("Parent", db.Where("Parent.ca = ?", 9).Or("Parent.cb = ?", 0))
// renders ON ... AND (`Parent`.`deleted_at` IS NULL AND Parent.ca = 9 OR Parent.cb = 0)
// and attaches the soft-deleted parent.
func TestC08WitnessJoinOnOr(t *testing.T) {
	parents := witnessParents()
	var children table
	for i, fk := range []int{101, 1, 102} {
		r := cond.Row{ID: i + 1, Ca: i, Cs: "a", FK: fk}
		children = append(children, trow{Row: r})
	}
	for i := 0; i < 3; i++ {
		tw := children[i]
		tw.ID += twinOff
		tw.State = marked
		children = append(children, tw)
	}
	pre := &cond.Unit{Form: cond.FGroup, Group: []cond.Call{
		{Verb: cond.VWhere, U: rawUnit("Parent.ca = ?", cond.Atom("ca", cond.OpEq, cond.IntV(9)), 9)},
		{Verb: cond.VOr, U: rawUnit("Parent.cb = ?", cond.Atom("cb", cond.OpEq, cond.IntV(0)), 0)},
	}}
	for _, v := range []string{"left", "inner"} {
		c := tcase{Parents: parents, Children: children, Path: "joins", Variant: v, Pre: pre}
		msg, err := check(c)
		if err != nil {
			t.Fatalf("harness: %v", err)
		}
		if msg != "" {
			t.Errorf("C08 violated: %s, case: %s", msg, c)
		}
	}
}
