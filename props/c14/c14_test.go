// C14 — the prepared-statement cache is transparent, leak-free and safe in any
// interleaving. The harness owns the schedule: every pool-level PrepareContext
// and every driver-level exec/query issued by a program goroutine parks until
// the controller (driven by rapid draws) releases it. See DESIGN.md §3 C14.
package c14

import (
	"context"
	"database/sql"
	"database/sql/driver"
	"errors"
	"fmt"
	"os"
	"runtime"
	"sort"
	"strings"
	"sync"
	"sync/atomic"
	"testing"
	"time"

	"gorm.io/gorm"
	"gorm.io/gorm/logger"
	"pgregory.net/rapid"

	"verif/internal/evid"
	"verif/internal/harness"
	"verif/internal/recdrv"
	"verif/internal/vdialect"
)

func TestMain(m *testing.M) { harness.Main(m) }

var errPrepare = errors.New("c14: injected prepare failure")

// ---- goroutine identity travels in the context --------------------------------------------------

type gidKey struct{}

func gidOf(ctx context.Context) int {
	if ctx == nil {
		return 0
	}
	if v, ok := ctx.Value(gidKey{}).(int); ok {
		return v
	}
	return 0
}

// ---- controller --------------------------------------------------------------------------------

type parked struct {
	gid     int
	kind    string // "prepare" | "tx-prepare" | "exec" | "query"
	text    string
	release chan error // nil = proceed, non-nil = fail the call with it
	// lock wait: the driver does not complete this (autocommit) call while another goroutine's
	// transaction is open, as a database does for a statement that waits for a row lock
	held    bool
	decided bool
}

type controller struct {
	mu       sync.Mutex
	parkedQ  []*parked
	progress int64 // bumped on every park / finish / op boundary
	clock    int64 // logical time: bumped on every recorded boundary
	live     int32
	done     bool        // after the schedule: nothing parks any more
	badconn  map[int]int // gid -> remaining driver calls to fail with ErrBadConn
	faults   []fault
	inTx     [8]int32 // per goroutine: inside the body of a Transaction block (open transaction)
	stray    []string // statements of a transaction block that reached the driver outside the transaction
	finished [8]int32
}

// otherTxOpen reports whether a goroutine other than gid is inside an open transaction.
func (c *controller) otherTxOpen(gid int) bool {
	for g := 1; g < len(c.inTx); g++ {
		if g != gid && atomic.LoadInt32(&c.inTx[g]) == 1 && atomic.LoadInt32(&c.finished[g]) == 0 {
			return true
		}
	}
	return false
}

// fault is one injected failure: which goroutine's call, when, what, on which text.
type fault struct {
	gid  int
	t    int64
	kind string // "prepare-error" | "prepare-badconn" | "conn-badconn"
	text string
}

func (c *controller) tick() int64 { return atomic.AddInt64(&c.clock, 1) }

// park blocks the calling program goroutine until the controller releases it.
func (c *controller) park(gid int, kind, text string) error {
	c.mu.Lock()
	if c.done || gid == 0 {
		c.mu.Unlock()
		return nil
	}
	if n := c.badconn[gid]; n > 0 && (kind == "exec" || kind == "query") {
		// retries of a call chosen to hit a dead connection fail without parking again
		c.badconn[gid] = n - 1
		c.mu.Unlock()
		return driver.ErrBadConn
	}
	p := &parked{gid: gid, kind: kind, text: text, release: make(chan error, 1)}
	c.parkedQ = append(c.parkedQ, p)
	atomic.AddInt64(&c.progress, 1)
	c.mu.Unlock()
	return <-p.release
}

// ---- pool wrapper handed to gorm ----------------------------------------------------------------

type prepRecord struct {
	text       string
	inTx       bool
	start, end int64
	err        error
	gid        int
}

type pool struct {
	*sql.DB
	ctl   *controller
	mu    sync.Mutex
	preps []*prepRecord
}

func (p *pool) record(text string, inTx bool, gid int) *prepRecord {
	r := &prepRecord{text: text, inTx: inTx, start: p.ctl.tick(), gid: gid}
	p.mu.Lock()
	p.preps = append(p.preps, r)
	p.mu.Unlock()
	return r
}

func (p *pool) PrepareContext(ctx context.Context, q string) (*sql.Stmt, error) {
	gid := gidOf(ctx)
	r := p.record(q, false, gid)
	if err := p.ctl.park(gid, "prepare", q); err != nil {
		r.err, r.end = err, p.ctl.tick()
		return nil, err
	}
	st, err := p.DB.PrepareContext(ctx, q)
	r.err, r.end = err, p.ctl.tick()
	return st, err
}

func (p *pool) GetDBConn() (*sql.DB, error) { return p.DB, nil }

// BeginTx makes the pool a gorm.ConnPoolBeginner whose transactions are wrapped too.
func (p *pool) BeginTx(ctx context.Context, opts *sql.TxOptions) (gorm.ConnPool, error) {
	tx, err := p.DB.BeginTx(ctx, opts)
	if err != nil {
		return nil, err
	}
	return &txWrap{Tx: tx, p: p}, nil
}

type txWrap struct {
	*sql.Tx
	p *pool
}

func (t *txWrap) PrepareContext(ctx context.Context, q string) (*sql.Stmt, error) {
	gid := gidOf(ctx)
	r := t.p.record(q, true, gid)
	if err := t.p.ctl.park(gid, "tx-prepare", q); err != nil {
		r.err, r.end = err, t.p.ctl.tick()
		return nil, err
	}
	st, err := t.Tx.PrepareContext(ctx, q)
	r.err, r.end = err, t.p.ctl.tick()
	return st, err
}

// ---- programs ----------------------------------------------------------------------------------

type Op struct {
	Kind string // q | e | tx | reset | close
	Text int    // statement text index (q)
	Arg  int
	Sub  []Op // tx body (q only)
	Via  int  // 0 = Config.PrepareStmt handle, 1 = Session{PrepareStmt:true} handle
	Row  bool // q: read through Row() (QueryRowContext) instead of Scan (QueryContext)
	Back bool // tx: the block ends with an error of its own, so the transaction is rolled back
	// Manual: tx is driven by hand (Begin ... Commit / Rollback) instead of a Transaction block
	Manual bool
}

var errBack = errors.New("c14: block asks for rollback")

// query runs the read o through h and returns the value and the error.
func query(h *gorm.DB, o Op) (val int, err error) {
	if o.Row {
		row := h.Raw(texts[o.Text], o.Arg).Row()
		if row == nil {
			// documented: Row() yields nil when the handle already carries an error (the handle of a
			// Connection block is one statement, an earlier member's error stays on it) - in any mode
			return 0, fmt.Errorf("Row() returned nil, the handle carries: %v", h.Error)
		}
		err = row.Scan(&val)
		return
	}
	err = h.Raw(texts[o.Text], o.Arg).Scan(&val).Error
	return
}

func (o Op) String() string {
	via := []string{"cfg", "sess"}[o.Via]
	switch o.Kind {
	case "rq":
		o.Kind = "q"
		return "root-with-deadline:" + o.String()
	case "q":
		if o.Row {
			return fmt.Sprintf("row%d(%d)@%s", o.Text, o.Arg, via)
		}
		return fmt.Sprintf("q%d(%d)@%s", o.Text, o.Arg, via)
	case "e":
		return "e@" + via
	case "x":
		return "x@" + via
	case "tx", "conn":
		parts := make([]string, len(o.Sub))
		for i, s := range o.Sub {
			parts[i] = s.String()
		}
		if o.Manual {
			end := "Commit"
			if o.Back {
				end = "Rollback"
			}
			return "Begin{" + strings.Join(parts, " ") + " " + end + "}@" + via
		}
		if o.Back {
			return o.Kind + "{" + strings.Join(parts, " ") + " ROLLBACK}@" + via
		}
		return o.Kind + "{" + strings.Join(parts, " ") + "}@" + via
	}
	return o.Kind + "@" + via
}

var texts = []string{
	"SELECT v FROM items WHERE id = ?",
	"SELECT v + 100 FROM items WHERE id = ?",
	"SELECT count(*) FROM items WHERE id <= ?",
}

func wantValue(text, arg int) int {
	switch text {
	case 0:
		return arg * 10
	case 1:
		return arg*10 + 100
	}
	return arg
}

const nItems = 5

// opResult is what one executed operation (or tx member) produced.
type opResult struct {
	gid        int
	op         Op
	inTx       bool
	start, end int64
	val        int
	err        error
}

// ---- environment of one case -------------------------------------------------------------------------

type env struct {
	rec   *recdrv.Recorder
	sqlDB *sql.DB
	ctl   *controller
	pool  *pool
	cfg   *gorm.DB // Config.PrepareStmt handle (nil when mode == "session")
	plain *gorm.DB // handle without Config.PrepareStmt; session handles derive from it
	mode  string   // "config" | "session" | "both"
	// pending carries a park-time failure verdict from the driver hook to the fault plan
	pending sync.Map
}

func newEnv(mode string) *env { return newEnvPool(mode, false) }

// newEnvPool: with rawPool gorm gets the *sql.DB itself (its TxBeginner / PrepareContext paths) instead
// of the counting and parking wrapper.
func newEnvPool(mode string, rawPool bool) *env {
	e := &env{mode: mode}
	e.rec = recdrv.NewMemory()
	e.sqlDB = e.rec.DB()
	e.ctl = &controller{badconn: map[int]int{}}
	e.pool = &pool{DB: e.sqlDB, ctl: e.ctl}
	open := func(prepare bool) *gorm.DB {
		var cp gorm.ConnPool = e.pool
		if rawPool {
			cp = e.sqlDB
		}
		db, err := gorm.Open(vdialect.NewSQLite(cp, false), &gorm.Config{PrepareStmt: prepare, Logger: logger.Discard, SkipDefaultTransaction: true})
		if err != nil {
			panic("harness: open: " + err.Error())
		}
		return db
	}
	// tables: a read-only one and one private table per goroutine
	if _, err := e.sqlDB.Exec("CREATE TABLE items (id integer primary key, v integer)"); err != nil {
		panic(err)
	}
	for i := 1; i <= nItems; i++ {
		if _, err := e.sqlDB.Exec("INSERT INTO items (id, v) VALUES (?, ?)", i, i*10); err != nil {
			panic(err)
		}
	}
	for g := 1; g <= 4; g++ {
		if _, err := e.sqlDB.Exec(fmt.Sprintf("CREATE TABLE priv%d (n integer)", g)); err != nil {
			panic(err)
		}
		if _, err := e.sqlDB.Exec(fmt.Sprintf("CREATE TABLE uq%d (n integer primary key)", g)); err != nil {
			panic(err)
		}
	}
	if mode == "config" || mode == "both" {
		e.cfg = open(true)
	}
	if mode == "session" {
		e.plain = open(false)
	}
	// the driver-level hook parks exec/query calls of program goroutines
	e.rec.Hook = func(ev *recdrv.Event) {
		if ev.Kind != recdrv.Exec && ev.Kind != recdrv.Query {
			return
		}
		if gid := gidOf(ev.Ctx); gid != 0 {
			// a goroutine runs its operations one after the other: while its transaction block is open every
			// statement it issues is a member of that block and must run inside the transaction (as it does in
			// non-prepared mode) - anywhere else it reads and writes other rows
			if gid < len(e.ctl.inTx) && atomic.LoadInt32(&e.ctl.inTx[gid]) == 1 && ev.TxID == 0 && !strings.HasPrefix(ev.Text, "SAVEPOINT") && !strings.HasPrefix(ev.Text, "ROLLBACK TO") {
				e.ctl.mu.Lock()
				e.ctl.stray = append(e.ctl.stray, fmt.Sprintf("g%d: %s %q reached the driver on connection %d outside the open transaction of the block it belongs to", gid, ev.Kind, ev.Text, ev.ConnID))
				e.ctl.mu.Unlock()
			}
			if err := e.ctl.park(gid, ev.Kind, ev.Text); err != nil {
				e.pending.Store(gid, err) // returned to the driver wrapper by the fault plan below
			}
		}
	}
	e.rec.SetFault(func(idx int, ev *recdrv.Event) error {
		if gid := gidOf(ev.Ctx); gid != 0 {
			if v, ok := e.pending.LoadAndDelete(gid); ok {
				return v.(error)
			}
		}
		return nil
	})
	return e
}

func (e *env) handle(via int, ctx context.Context) *gorm.DB {
	switch {
	case e.mode == "config" || (e.mode == "both" && via == 0):
		return e.cfg.WithContext(ctx)
	case e.mode == "both":
		// session-level enabling on a handle that already has a cache shares that cache
		return e.cfg.Session(&gorm.Session{PrepareStmt: true, Context: ctx})
	default:
		return e.plain.Session(&gorm.Session{PrepareStmt: true, Context: ctx})
	}
}

func (e *env) cache(via int) *gorm.PreparedStmtDB {
	h := e.handle(via, context.Background())
	if p, ok := h.Statement.ConnPool.(*gorm.PreparedStmtDB); ok {
		return p
	}
	if p, ok := h.ConnPool.(*gorm.PreparedStmtDB); ok {
		return p
	}
	panic("harness: no prepared statement cache on handle")
}

func (e *env) close() {
	e.rec.Hook = nil
	_ = e.sqlDB.Close()
	e.rec.Close()
}

// ---- the property ------------------------------------------------------------------------------------

type cacheEvent struct {
	kind       string // reset | close
	via        int
	start, end int64
}

// allBlocked reads a full goroutine dump: true when every goroutine started by runCase for a program is in a
// blocking state (waiting for a lock, a channel, a condition, a connection), none running, runnable or in a C call.
func allBlocked(dump string) bool {
	return goroutinesBlocked(dump, "c14.runCase.func", "c14.runCase.gowrap")
}

// goroutinesBlocked: the goroutines of the dump whose stack mentions one of the markers are all in a blocking state.
func goroutinesBlocked(dump string, markers ...string) bool {
	found := false
	for _, g := range strings.Split(dump, "\n\n") {
		mine := false
		for _, m := range markers {
			mine = mine || strings.Contains(g, m)
		}
		if !mine {
			continue
		}
		found = true
		head := firstLine(g)
		for _, st := range []string{"[running", "[runnable", "[syscall", "[sleep"} {
			if strings.Contains(head, st) {
				return false
			}
		}
	}
	return found
}

func genProgram(t *rapid.T, g int, mode string, allowClose bool) []Op {
	n := rapid.IntRange(1, 4).Draw(t, fmt.Sprintf("g%d.len", g))
	var ops []Op
	for i := 0; i < n; i++ {
		kinds := []string{"q", "q", "q", "q", "e", "x", "tx", "tx", "conn", "reset"}
		if allowClose {
			if mode == "both" && harness.OpenClass("C14", "close-stale-session-handle") {
				// listed finding: Close through the Config-level cache while session-level handles exist
				evid.Excluded("close-stale-session-handle")
			} else {
				kinds = append(kinds, "close")
			}
		}
		k := rapid.SampledFrom(kinds).Draw(t, fmt.Sprintf("g%d.op%d", g, i))
		via := 0
		if mode == "session" {
			via = 1
		} else if mode == "both" {
			via = rapid.IntRange(0, 1).Draw(t, fmt.Sprintf("g%d.via%d", g, i))
		}
		o := Op{Kind: k, Via: via}
		switch k {
		case "q":
			o.Text = rapid.IntRange(0, len(texts)-1).Draw(t, "text")
			o.Arg = rapid.IntRange(1, nItems).Draw(t, "arg")
			o.Row = rapid.IntRange(0, 3).Draw(t, "row") == 0
		case "tx", "conn":
			o.Back = k == "tx" && rapid.IntRange(0, 3).Draw(t, "rollback") == 0
			o.Manual = k == "tx" && rapid.IntRange(0, 3).Draw(t, "manual") == 0
			m := rapid.IntRange(1, 2).Draw(t, "txlen")
			for j := 0; j < m; j++ {
				o.Sub = append(o.Sub, Op{Kind: "q", Via: via, Row: rapid.IntRange(0, 3).Draw(t, "row") == 0,
					Text: rapid.IntRange(0, len(texts)-1).Draw(t, "text"), Arg: rapid.IntRange(1, nItems).Draw(t, "arg")})
			}
			if k == "tx" && rapid.IntRange(0, 3).Draw(t, "nested") == 0 {
				inner := Op{Kind: "tx", Via: via, Back: rapid.Bool().Draw(t, "innerRollback")}
				inner.Sub = append(inner.Sub, Op{Kind: "q", Via: via, Row: rapid.IntRange(0, 3).Draw(t, "row") == 0,
					Text: rapid.IntRange(0, len(texts)-1).Draw(t, "text"), Arg: rapid.IntRange(1, nItems).Draw(t, "arg")})
				at := rapid.IntRange(0, len(o.Sub)).Draw(t, "nestedAt")
				o.Sub = append(o.Sub[:at], append([]Op{inner}, o.Sub[at:]...)...)
			}
		}
		ops = append(ops, o)
	}
	return ops
}

func runCase(rt *rapid.T) {
	mode := rapid.SampledFrom([]string{"config", "session", "both"}).Draw(rt, "mode")
	nG := rapid.IntRange(2, 4).Draw(rt, "goroutines")
	allowClose := rapid.IntRange(0, 3).Draw(rt, "allowClose") == 0
	progs := make([][]Op, nG)
	var desc strings.Builder
	fmt.Fprintf(&desc, "mode=%s ", mode)
	for g := 0; g < nG; g++ {
		progs[g] = genProgram(rt, g+1, mode, allowClose)
		fmt.Fprintf(&desc, "g%d=%v ", g+1, progs[g])
	}

	e := newEnv(mode)
	defer e.close()
	ctl := e.ctl

	var (
		resMu   sync.Mutex
		results []opResult
		cevs    []cacheEvent
		panics  []string
	)
	record := func(r opResult) { resMu.Lock(); results = append(results, r); resMu.Unlock() }

	var wg sync.WaitGroup
	atomic.StoreInt32(&ctl.live, int32(nG))
	for g := 0; g < nG; g++ {
		wg.Add(1)
		go func(gid int, prog []Op) {
			defer wg.Done()
			defer func() {
				if p := recover(); p != nil {
					buf := make([]byte, 4096)
					n := runtime.Stack(buf, false)
					resMu.Lock()
					panics = append(panics, fmt.Sprintf("goroutine g%d panicked: %v\n%s", gid, p, buf[:n]))
					resMu.Unlock()
				}
				atomic.StoreInt32(&ctl.finished[gid], 1)
				atomic.AddInt32(&ctl.live, -1)
				atomic.AddInt64(&ctl.progress, 1)
			}()
			ctx := context.WithValue(context.Background(), gidKey{}, gid)
			for _, o := range prog {
				ctl.mu.Lock()
				ctl.badconn[gid] = 0 // a dead connection only affects the operation that hit it
				ctl.mu.Unlock()
				switch o.Kind {
				case "q":
					r := opResult{gid: gid, op: o, start: ctl.tick()}
					r.val, r.err = query(e.handle(o.Via, ctx), o)
					r.end = ctl.tick()
					record(r)
				case "e":
					r := opResult{gid: gid, op: o, start: ctl.tick()}
					r.err = e.handle(o.Via, ctx).Exec(fmt.Sprintf("INSERT INTO priv%d (n) VALUES (?)", gid), 1).Error
					r.end = ctl.tick()
					record(r)
				case "x":
					// the same insert three times: the second and third fail in the database (UNIQUE), as
					// in non-prepared mode - an ordinary statement error says nothing about the statement
					for k := 0; k < 3; k++ {
						ctl.mu.Lock()
						ctl.badconn[gid] = 0 // each of the three is an operation of its own
						ctl.mu.Unlock()
						r := opResult{gid: gid, op: o, start: ctl.tick()}
						r.err = e.handle(o.Via, ctx).Exec(fmt.Sprintf("INSERT INTO uq%d (n) VALUES (?)", gid), 1).Error
						r.end = ctl.tick()
						record(r)
					}
				case "tx":
					start := ctl.tick()
					// members of a block; a member that is itself a tx is a nested block (SAVEPOINT through the
					// transaction's Exec path, ROLLBACK TO when it ends with an error)
					var members func(tx *gorm.DB, subs []Op)
					members = func(tx *gorm.DB, subs []Op) {
						for _, s := range subs {
							if s.Kind == "tx" {
								ns := ctl.tick()
								nerr := tx.Transaction(func(tx2 *gorm.DB) error {
									members(tx2, s.Sub)
									if s.Back {
										return errBack
									}
									return nil
								})
								if s.Back && errors.Is(nerr, errBack) {
									nerr = nil
								} else if s.Back && nerr == nil {
									nerr = errors.New("nested Transaction returned nil although the block returned an error")
								}
								record(opResult{gid: gid, op: s, inTx: true, start: ns, end: ctl.tick(), err: nerr})
								continue
							}
							r := opResult{gid: gid, op: s, inTx: true, start: ctl.tick()}
							r.val, r.err = query(tx, s)
							r.end = ctl.tick()
							record(r)
						}
					}
					var err error
					if o.Manual {
						tx := e.handle(o.Via, ctx).Begin()
						if err = tx.Error; err == nil {
							atomic.StoreInt32(&ctl.inTx[gid], 1)
							members(tx, o.Sub)
							if o.Back {
								err = tx.Rollback().Error
							} else {
								err = tx.Commit().Error
							}
							atomic.StoreInt32(&ctl.inTx[gid], 0)
						}
					} else {
						err = e.handle(o.Via, ctx).Transaction(func(tx *gorm.DB) error {
							atomic.StoreInt32(&ctl.inTx[gid], 1)
							defer atomic.StoreInt32(&ctl.inTx[gid], 0)
							members(tx, o.Sub)
							if o.Back {
								return errBack
							}
							return nil
						})
						if o.Back && errors.Is(err, errBack) {
							err = nil // the block's own error comes back unchanged after the rollback
						} else if o.Back && err == nil {
							err = errors.New("Transaction returned nil although the block returned an error")
						}
					}
					record(opResult{gid: gid, op: o, start: start, end: ctl.tick(), err: err})
				case "conn":
					// queries on a dedicated connection (DB.Connection): same rows as anywhere else, and
					// nothing they leave in the cache may break later users of the same text
					start := ctl.tick()
					err := e.handle(o.Via, ctx).Connection(func(tx *gorm.DB) error {
						for _, s := range o.Sub {
							// inTx also marks members of a dedicated-connection block: like a transaction it
							// is bound to one connection, and a dead connection fails the rest of the block
							r := opResult{gid: gid, op: s, inTx: true, start: ctl.tick()}
							r.val, r.err = query(tx, s)
							r.end = ctl.tick()
							record(r)
						}
						return nil
					})
					record(opResult{gid: gid, op: o, start: start, end: ctl.tick(), err: err})
				case "reset", "close":
					ce := cacheEvent{kind: o.Kind, via: o.Via, start: ctl.tick()}
					c := e.cache(o.Via)
					if o.Kind == "reset" {
						c.Reset()
					} else {
						c.Close()
					}
					ce.end = ctl.tick()
					resMu.Lock()
					cevs = append(cevs, ce)
					resMu.Unlock()
				}
				atomic.AddInt64(&ctl.progress, 1)
			}
		}(g+1, progs[g])
	}

	// ---- the schedule: release parked calls in an order drawn by rapid -------------------------
	type prepFault struct {
		text       string
		start, end int64
		err        error
		gid        int
	}
	steps, sameTextWindow, faultsDrawn := 0, false, 0
	starved, blockedDumps := 0, 0
	lastProgress := atomic.LoadInt64(&ctl.progress)
	lastChange := time.Now()
	for {
		if atomic.LoadInt32(&ctl.live) == 0 {
			break
		}
		// let running goroutines settle: wait until nothing changed for a short while
		settle := time.Now()
		for {
			p := atomic.LoadInt64(&ctl.progress)
			if p != lastProgress {
				lastProgress, lastChange, settle = p, time.Now(), time.Now()
			}
			if time.Since(settle) > 400*time.Microsecond || atomic.LoadInt32(&ctl.live) == 0 {
				break
			}
			runtime.Gosched()
		}
		if atomic.LoadInt32(&ctl.live) == 0 {
			break
		}
		ctl.mu.Lock()
		n := len(ctl.parkedQ)
		if n == 0 {
			ctl.mu.Unlock()
			if time.Since(lastChange) > 10*time.Second {
				buf := make([]byte, 1<<18)
				k := runtime.Stack(buf, true)
				// the clock alone decides nothing: on a busy machine a goroutine may simply not have been
				// scheduled. A deadlock is reported only when every program goroutine is found BLOCKED (not
				// running, runnable or inside a C call) in two dumps taken 10s apart
				if !allBlocked(string(buf[:k])) {
					blockedDumps = 0
					lastChange = time.Now()
					if starved++; starved > 90 {
						rt.Skip("program goroutines were runnable but made no progress for 15 minutes: machine too busy, nothing decided")
					}
					continue
				}
				if blockedDumps++; blockedDumps < 2 {
					lastChange = time.Now()
					continue
				}
				rt.Fatalf("C14 violated: deadlock - %d goroutine(s) neither finished nor parked at a driver call, all of them blocked in two dumps 10s apart\ncase: %s\n%s",
					atomic.LoadInt32(&ctl.live), desc.String(), buf[:k])
			}
			time.Sleep(200 * time.Microsecond)
			continue
		}
		// NT witness: two parked/blocked requests for one text while a prepare of it is parked
		for _, p := range ctl.parkedQ {
			if p.kind == "prepare" || p.kind == "tx-prepare" {
				for g := 0; g < nG; g++ {
					_ = g
				}
			}
		}
		sort.Slice(ctl.parkedQ, func(i, j int) bool { return ctl.parkedQ[i].gid < ctl.parkedQ[j].gid })
		// Liveness of the cache itself: while driver calls are parked, every other goroutine must still be
		// able to reach its own next driver call (or wait for a preparation in flight). A goroutine that is
		// blocked on the cache's mutex for as long as the parked calls stay parked means the mutex is held
		// across a driver call / a statement close - with a database that makes the parked call wait for a
		// lock this is a deadlock.
		if int(atomic.LoadInt32(&ctl.live)) > n {
			if who := blockedOnCacheMutex(); who != "" {
				before := atomic.LoadInt64(&ctl.progress)
				ctl.mu.Unlock()
				time.Sleep(40 * time.Millisecond)
				again := blockedOnCacheMutex()
				ctl.mu.Lock()
				if again != "" && firstLine(again) == firstLine(who) && atomic.LoadInt64(&ctl.progress) == before && len(ctl.parkedQ) == n {
					ctl.mu.Unlock()
					msg := "C14 violated: a goroutine stays blocked on the statement cache's mutex while driver calls are parked and nothing else runs: the cache lock is held across a driver call or a statement close (a deadlock as soon as the parked call waits for a lock)\ncase: " + desc.String() + "\nblocked goroutine:\n" + again
					fmt.Println("VERIF-FAILURE-BEGIN\n" + msg + "\nVERIF-FAILURE-END")
					rt.Fatalf("%s", msg)
				}
				sort.Slice(ctl.parkedQ, func(i, j int) bool { return ctl.parkedQ[i].gid < ctl.parkedQ[j].gid })
				n = len(ctl.parkedQ)
				if n == 0 {
					ctl.mu.Unlock()
					continue
				}
			}
		}
		idx := 0
		if n > 1 {
			idx = rapid.IntRange(0, n-1).Draw(rt, "release")
		}
		p := ctl.parkedQ[idx]
		ctl.parkedQ = append(ctl.parkedQ[:idx], ctl.parkedQ[idx+1:]...)
		ctl.mu.Unlock()
		var verdict error
		switch p.kind {
		case "prepare", "tx-prepare":
			switch rapid.IntRange(0, 9).Draw(rt, "prepareOutcome") {
			case 0:
				verdict = errPrepare
				faultsDrawn++
				ctl.faults = append(ctl.faults, fault{p.gid, ctl.tick(), "prepare-error", p.text})
			case 1:
				verdict = driver.ErrBadConn
				faultsDrawn++
				ctl.faults = append(ctl.faults, fault{p.gid, ctl.tick(), "prepare-badconn", p.text})
			}
		case "exec", "query":
			if rapid.IntRange(0, 14).Draw(rt, "connOutcome") == 0 {
				verdict = driver.ErrBadConn
				faultsDrawn++
				ctl.faults = append(ctl.faults, fault{p.gid, ctl.tick(), "conn-badconn", p.text})
				ctl.mu.Lock()
				ctl.badconn[p.gid] = 4 // database/sql retries on fresh connections: fail those too
				ctl.mu.Unlock()
			}
		}
		steps++
		lastChange = time.Now()
		p.release <- verdict
	}
	wg.Wait()
	ctl.mu.Lock()
	ctl.done = true
	ctl.mu.Unlock()
	for g := range ctl.badconn {
		ctl.badconn[g] = 0
	}

	fail := func(format string, a ...interface{}) {
		var h strings.Builder
		e.pool.mu.Lock()
		for _, p := range e.pool.preps {
			fmt.Fprintf(&h, "  t=%d..%d g%d pool-prepare tx=%v %q -> %v\n", p.start, p.end, p.gid, p.inTx, p.text, p.err)
		}
		e.pool.mu.Unlock()
		resMu.Lock()
		for _, c := range cevs {
			fmt.Fprintf(&h, "  t=%d..%d cache %s via %d\n", c.start, c.end, c.kind, c.via)
		}
		for _, r := range results {
			fmt.Fprintf(&h, "  t=%d..%d g%d %s intx=%v -> val=%d err=%v\n", r.start, r.end, r.gid, r.op, r.inTx, r.val, r.err)
		}
		resMu.Unlock()
		for _, f := range ctl.faults {
			fmt.Fprintf(&h, "  t=%d g%d fault %s %q\n", f.t, f.gid, f.kind, f.text)
		}
		msg := fmt.Sprintf("C14 violated: %s\ncase: %s\nhistory (logical time):\n%s", fmt.Sprintf(format, a...), desc.String(), h.String())
		// schedule-dependent failures may not reproduce under rapid's re-run: print the history ourselves
		fmt.Println("VERIF-FAILURE-BEGIN\n" + msg + "\nVERIF-FAILURE-END")
		rt.Fatalf("%s", msg)
	}
	if len(panics) > 0 {
		fail("%s", strings.Join(panics, "\n"))
	}
	ctl.mu.Lock()
	stray := append([]string(nil), ctl.stray...)
	ctl.mu.Unlock()
	if len(stray) > 0 {
		fail("in non-prepared mode every statement of a transaction block runs inside the transaction; here %s", strings.Join(stray, "; "))
	}

	// ---- oracle 2: results ------------------------------------------------------------------------
	e.pool.mu.Lock()
	preps := append([]*prepRecord(nil), e.pool.preps...)
	e.pool.mu.Unlock()
	overlaps := func(s1, e1, s2, e2 int64) bool { return s1 <= e2 && s2 <= e1 }
	closedBefore := func(t int64) bool {
		for _, c := range cevs {
			if c.kind == "close" && c.start <= t {
				return true
			}
		}
		return false
	}
	nearCacheEvent := func(r opResult) bool {
		for _, c := range cevs {
			if overlaps(r.start, r.end, c.start, c.end) {
				return true
			}
		}
		return closedBefore(r.end)
	}
	// opWindow: the top-level operation (transaction block or single call) of goroutine gid that
	// contains logical time t. The harness only sees a preparation from the moment the pool's
	// PrepareContext is entered until it returns; the cache entry exists from a little earlier
	// (published before the call) until a little later (a failure is recorded and the entry removed
	// after the call returns). Both gaps lie inside the requesting operation, so that operation's
	// window is the conservative extent of a preparation.
	opWindow := func(gid int, t int64) (int64, int64) {
		for _, x := range results {
			if x.gid == gid && !x.inTx && x.start <= t && t <= x.end {
				return x.start, x.end
			}
		}
		return t, t
	}
	textOf := func(r opResult) string {
		switch r.op.Kind {
		case "q":
			return texts[r.op.Text]
		case "e":
			return fmt.Sprintf("INSERT INTO priv%d (n) VALUES (?)", r.gid)
		case "x":
			return fmt.Sprintf("INSERT INTO uq%d (n) VALUES (?)", r.gid)
		}
		return ""
	}
	failedPrepareDuring := func(r opResult, target error) bool {
		for _, p := range preps {
			if p.err == nil || !errors.Is(p.err, target) || p.text != textOf(r) {
				continue
			}
			ps, pe := opWindow(p.gid, p.start)
			if overlaps(r.start, r.end, ps, pe) || overlaps(r.start, r.end, p.start, p.end) {
				return true
			}
		}
		return false
	}
	// a fault injected into a call of goroutine gid inside [s,e]
	faultFor := func(gid int, s0, e0 int64, kinds ...string) bool {
		for _, f := range ctl.faults {
			if f.gid != gid || f.t < s0 || f.t > e0 {
				continue
			}
			for _, k := range kinds {
				if f.kind == k {
					return true
				}
			}
		}
		return false
	}
	// the window of the transaction block enclosing a tx member
	txWindow := func(r opResult) (int64, int64) {
		// the outermost enclosing block: a dead connection is dead for everything inside it
		ws, we := r.start, r.end
		for _, t := range results {
			if (t.op.Kind == "tx" || t.op.Kind == "conn") && !t.inTx && t.gid == r.gid && t.start <= r.start && r.end <= t.end {
				ws, we = t.start, t.end
			}
		}
		return ws, we
	}
	// a failed SAVEPOINT / ROLLBACK TO of a nested block (its preparation failed, or hit a dead connection)
	// leaves its error on the enclosing transaction's handle, as a failed exec of it does in non-prepared
	// mode: the later members of the enclosing block report that error
	controlFault := func(gid int, s0, e0 int64, kinds ...string) bool {
		for _, f := range ctl.faults {
			if f.gid != gid || f.t < s0 || f.t > e0 || !(strings.HasPrefix(f.text, "SAVEPOINT") || strings.HasPrefix(f.text, "ROLLBACK TO")) {
				continue
			}
			for _, k := range kinds {
				if f.kind == k {
					return true
				}
			}
		}
		return false
	}
	for _, r := range results {
		if r.op.Kind == "tx" || r.op.Kind == "conn" {
			bs, be := r.start, r.end
			if r.inTx {
				bs, be = txWindow(r) // a nested block shares the fate of the enclosing transaction
			}
			if r.err != nil && !nearCacheEvent(r) && !faultFor(r.gid, bs, be, "conn-badconn", "prepare-badconn", "prepare-error") {
				fail("transaction block of g%d returned %v with no Reset/Close/fault in its window", r.gid, r.err)
			}
			continue
		}
		if r.err == nil {
			if r.op.Kind == "q" && r.val != wantValue(r.op.Text, r.op.Arg) {
				fail("g%d %s returned %d, non-prepared mode returns %d", r.gid, r.op, r.val, wantValue(r.op.Text, r.op.Arg))
			}
			continue
		}
		ws, we := r.start, r.end
		if r.inTx {
			ws, we = txWindow(r)
		}
		switch {
		case r.op.Kind == "x" && strings.Contains(r.err.Error(), "UNIQUE constraint failed"):
			// the database's answer, in any mode
		case isErr(r.err, errPrepare):
			if !failedPrepareDuring(r, errPrepare) && !(r.inTx && controlFault(r.gid, ws, r.end, "prepare-error")) {
				fail("g%d %s returned the injected prepare error although no preparation failed during the operation (a failed preparation was cached)", r.gid, r.op)
			}
		case isErr(r.err, driver.ErrBadConn):
			if !failedPrepareDuring(r, driver.ErrBadConn) && !faultFor(r.gid, ws, we, "conn-badconn") && !(r.inTx && controlFault(r.gid, ws, r.end, "prepare-badconn")) {
				fail("g%d %s returned ErrBadConn but no connection fault was injected into it", r.gid, r.op)
			}
		case errors.Is(r.err, gorm.ErrInvalidDB), strings.Contains(r.err.Error(), "statement is closed"),
			strings.Contains(r.err.Error(), "database is closed"):
			// tolerated as the injected fault's own effect: a dead connection hit by ANY goroutine makes the
			// cache evict and close the statement all users of that text share (DESIGN.md C14 notes)
			evicted := false
			for _, f := range ctl.faults {
				if f.kind == "conn-badconn" && f.text == textOf(r) {
					// the eviction happens somewhere inside the operation that hit the dead connection
					fs, fe := opWindow(f.gid, f.t)
					if overlaps(ws, we, fs, fe) || (f.t >= ws && f.t <= we) {
						evicted = true
					}
				}
			}
			// the same eviction follows every ErrBadConn result for this text, also the fault-less ones of
			// later members of a block whose connection is already dead
			for _, x := range results {
				if x.err != nil && textOf(x) != "" && textOf(x) == textOf(r) && isErr(x.err, driver.ErrBadConn) && overlaps(ws, we, x.start, x.end) {
					evicted = true
				}
			}
			if !nearCacheEvent(r) && !evicted {
				fail("g%d %s failed with %q although no Reset/Close overlaps it and the cache was not closed before", r.gid, r.op, r.err)
			}
		default:
			// inside a transaction whose connection was declared dead every later call may fail in any way
			if !(r.inTx && faultFor(r.gid, ws, we, "conn-badconn", "prepare-badconn")) {
				fail("g%d %s returned unexpected error %q", r.gid, r.op, r.err)
			}
		}
	}

	// ---- oracle 3: at most one preparation per text and cache generation ------------------------------
	// generation boundaries of a text: Reset/Close, a failed preparation, a bad-connection eviction
	type key struct {
		text string
		inTx bool
	}
	sort.Slice(preps, func(i, j int) bool { return preps[i].start < preps[j].start })
	for i, a := range preps {
		if a.err != nil {
			continue
		}
		for _, b := range preps[i+1:] {
			if b.err != nil || b.text != a.text || b.inTx != a.inTx {
				continue
			}
			// a second successful preparation of the same text: some boundary must lie between
			// the start of the first and the start of the second
			boundary := false
			// conservative extents (see opWindow): from the start of the operation that requested the
			// earlier preparation to the end of the later one
			as, _ := opWindow(a.gid, a.start)
			bs, _ := opWindow(b.gid, b.start)
			lo, hi := as, b.end
			if bs < lo {
				lo = bs
			}
			for _, f := range ctl.faults {
				// a dead connection evicts the entry of the statement that hit it
				if f.kind == "conn-badconn" && f.text == a.text && f.t >= lo && f.t <= hi {
					boundary = true
				}
			}
			// ... and so does every later member of a block whose connection is dead: it gets ErrBadConn for
			// its own text without a fault of its own, and the cache evicts that text's entry as well
			for _, r := range results {
				if textOf(r) == a.text && r.err != nil && isErr(r.err, driver.ErrBadConn) && r.end >= lo && r.start <= hi {
					boundary = true
				}
			}
			for _, c := range cevs {
				if c.end >= lo && c.start <= hi {
					boundary = true
				}
			}
			for _, f := range preps {
				if f.err != nil && f.text == a.text {
					fs, fe := opWindow(f.gid, f.start)
					if fe >= lo && fs <= hi {
						boundary = true
					}
				}
			}
			// a transaction-bound entry cannot serve pool requests and the other way round it can:
			// a pool preparation after a tx preparation is legitimate (different key), handled by inTx
			if !boundary {
				if a.end >= b.start {
					sameTextWindow = true
				}
				fail("statement %q was prepared twice in one cache generation (by g%d at t=%d..%d and g%d at t=%d..%d) with no Reset/Close/failed preparation/bad connection in between",
					a.text, a.gid, a.start, a.end, b.gid, b.start, b.end)
			}
		}
	}
	for i, a := range preps {
		for _, b := range preps[i+1:] {
			if a.text == b.text && a.end >= b.start {
				sameTextWindow = true
			}
		}
	}
	_ = key{}

	// ---- oracle 5: every statement the cache prepared is closed once the cache is closed ---------------
	closeAll := func() {
		e.cache(0).Close()
		e.cache(1).Close()
	}
	closeAll()
	deadline := time.Now().Add(30 * time.Second) // the cache closes its statements from goroutines of its own: give them time on a loaded machine
	for ext := 0; e.rec.OpenStmts() != 0; {
		if !time.Now().Before(deadline) {
			// a close that was started but has not run yet is not a leak: wait for it (bounded at 15 minutes)
			if ext++; ext > 30 || !closePending() {
				break
			}
			deadline = time.Now().Add(30 * time.Second)
		}
		time.Sleep(200 * time.Microsecond)
	}
	if n := e.rec.OpenStmts(); n != 0 {
		open := map[string]int{}
		for _, ev := range e.rec.Events() {
			k := fmt.Sprintf("conn%d tx%d %s", ev.ConnID, ev.TxID, ev.Text)
			switch ev.Kind {
			case recdrv.Prepare:
				if ev.Err == nil {
					open[fmt.Sprintf("conn%d %s", ev.ConnID, ev.Text)]++
				}
				_ = k
			case recdrv.StmtClose:
				open[fmt.Sprintf("conn%d %s", ev.ConnID, ev.Text)]--
			}
		}
		var left []string
		for k, v := range open {
			if v > 0 {
				left = append(left, fmt.Sprintf("%s x%d", k, v))
			}
		}
		sort.Strings(left)
		var trace []string
		for _, ev := range e.rec.Events() {
			trace = append(trace, ev.String())
		}
		fail("%d driver statement(s) prepared by the cache are still open after the schedule ended and the cache was closed (leak): %v\ndriver trace:\n%s", n, left, strings.Join(trace, "\n"))
	}
	if n := e.rec.OpenTx(); n != 0 {
		fail("%d transaction(s) left open", n)
	}

	// ---- evidence -------------------------------------------------------------------------------------
	hasReset, hasClose, hasTx, hasConn := false, false, false, false
	for _, p := range progs {
		for _, o := range p {
			switch o.Kind {
			case "reset":
				hasReset = true
			case "close":
				hasClose = true
			case "tx":
				hasTx = true
			case "conn":
				hasConn = true
			}
		}
	}
	cl := []string{"mode:" + mode, fmt.Sprintf("goroutines:%d", nG)}
	if hasReset {
		cl = append(cl, "has:reset")
	}
	if hasClose {
		cl = append(cl, "has:close")
	}
	if hasTx {
		cl = append(cl, "has:tx")
	}
	if hasConn {
		cl = append(cl, "has:connection")
	}
	if faultsDrawn > 0 {
		cl = append(cl, "has:fault")
	}

	if sameTextWindow {
		cl = append(cl, "window:same-text-overlap")
	}
	cacheInWindow := false
	for _, c := range cevs {
		for _, p := range preps {
			if overlaps(c.start, c.end, p.start, p.end) {
				cacheInWindow = true
			}
		}
	}
	if cacheInWindow {
		cl = append(cl, "window:reset-close-inside-prepare")
	}
	evid.Case(desc.String()+fmt.Sprintf("| %d releases", steps), sameTextWindow || cacheInWindow || faultsDrawn > 0, nil, cl...)
}

// blockedOnCacheMutex returns the stack of a program goroutine that is blocked acquiring the
// PreparedStmtDB mutex while no program goroutine is running or runnable ("" if there is none).
func blockedOnCacheMutex() string {
	buf := make([]byte, 1<<18)
	k := runtime.Stack(buf, true)
	var found string
	for _, g := range strings.Split(string(buf[:k]), "\n\n") {
		if !strings.Contains(g, "props/c14.runCase.func2(") {
			continue // not a program goroutine
		}
		head := firstLine(g)
		if strings.Contains(head, "[running") || strings.Contains(head, "[runnable") || strings.Contains(head, "[syscall") {
			return "" // somebody still makes progress: not quiescent
		}
		if !strings.Contains(head, "sync.RWMutex") && !strings.Contains(head, "sync.Mutex") && !strings.Contains(head, "semacquire") {
			continue
		}
		lines := strings.Split(g, "\n")
		for i, l := range lines {
			if strings.HasPrefix(l, "sync.(*RWMutex).") {
				// the caller of the mutex method is two lines further down (function line, file line)
				if i+2 < len(lines) && (strings.HasPrefix(lines[i+2], "gorm.io/gorm.(*PreparedStmtDB).") || strings.HasPrefix(lines[i+2], "gorm.io/gorm.(*PreparedStmtTX).")) {
					found = g
				}
				break
			}
		}
	}
	return found
}

// closePending: some goroutine is inside (or about to run) a statement close.
func closePending() bool {
	buf := make([]byte, 1<<18)
	k := runtime.Stack(buf, true)
	return strings.Contains(string(buf[:k]), "database/sql.(*Stmt).Close")
}

// isErr: gorm joins a second error with "%v; %w", which keeps only the later one in the chain,
// so an injected error is also recognised by its text.
func isErr(err, target error) bool {
	return errors.Is(err, target) || strings.Contains(err.Error(), target.Error())
}

func firstLine(s string) string {
	if i := strings.IndexByte(s, '\n'); i >= 0 {
		return s[:i]
	}
	return s
}

func c14Rule() {
	evid.Rule("C14: 2-4 goroutines each running <=4 operations (raw queries over three statement texts read through Scan or Row(), directly, inside Transaction blocks that commit or roll back and inside Connection blocks; autocommit inserts into private tables, cache Reset, cache Close) through Config.PrepareStmt and/or Session{PrepareStmt:true} handles; every pool-level PrepareContext and driver-level exec/query of a program goroutine parks and the order of releases, failing preparations (error / ErrBadConn) and dead connections are drawn by rapid; non-trivial = two requests for one text overlap a parked preparation, or a Reset/Close lands inside a preparation window, or a fault was injected; distinct = programs + number of releases")
	evid.Assume("liveness is judged by a bounded wait (10 s without progress and nothing parked = deadlock)")
	evid.Assume("a goroutine is considered blocked when it neither parked nor finished for 400us; the oracle does not depend on that classification being right")
}

func TestC14(t *testing.T) {
	c14Rule()
	rapid.Check(t, runCase)
}

// ---- witness of a repaired finding ---------------------------------------------------------------

// Reset through one session-level handle, then a new Session{PrepareStmt:true}: used to fail for
// ever with "sql: statement is closed".
func TestC14WitnessResetSessionHandle(t *testing.T) {
	e := newEnv("session")
	defer e.close()
	ctx := context.Background()
	var v int
	if err := e.handle(1, ctx).Raw(texts[0], 2).Scan(&v).Error; err != nil || v != 20 {
		t.Fatalf("harness: first query: %v %d", err, v)
	}
	e.cache(1).Reset()
	for i := 0; i < 3; i++ {
		v = 0
		if err := e.handle(1, ctx).Raw(texts[0], 2).Scan(&v).Error; err != nil || v != 20 {
			t.Fatalf("C14 violated: query %d after a completed Reset through a session-level handle: err=%v value=%d", i+1, err, v)
		}
	}
	_ = os.Getenv
}

// A Session{PrepareStmt:true} handle derived before the cache is closed through another handle
// keeps the detached statement map: it goes on preparing into it and nothing ever closes those
// statements.
func TestC14WitnessCloseStaleSessionHandle(t *testing.T) {
	e := newEnv("both")
	defer e.close()
	ctx := context.Background()
	stale := e.handle(1, ctx) // derived before the Close
	var v int
	if err := e.handle(1, ctx).Raw(texts[0], 2).Scan(&v).Error; err != nil || v != 20 {
		t.Fatalf("harness: first query: %v %d", err, v)
	}
	e.cache(0).Close() // through the Config.PrepareStmt handle: detaches the map of the cached PreparedStmtDB
	v = 0
	err := stale.Raw(texts[1], 2).Scan(&v).Error // either the non-prepared result or a clean error
	if err == nil && v != 120 {
		t.Fatalf("C14 violated: query through the older handle after Close returned %d", v)
	}
	e.cache(0).Close()
	e.cache(1).Close()
	if p, ok := stale.Statement.ConnPool.(*gorm.PreparedStmtDB); ok {
		_ = p // closing through the stale handle itself is not what the property requires
	}
	deadline := time.Now().Add(2 * time.Second)
	for e.rec.OpenStmts() != 0 && time.Now().Before(deadline) {
		time.Sleep(time.Millisecond)
	}
	if n := e.rec.OpenStmts(); n != 0 {
		t.Fatalf("C14 violated: %d statement(s) prepared after Close through a handle derived before it are never closed (err of that query: %v)", n, err)
	}
}

// ---- bounded pool, one goroutine ---------------------------------------------------------------------
//
// "No goroutine deadlocks": a single goroutine that holds the pool's only connection (Transaction or
// Connection block) must be able to run any statement inside the block - the cache has to prepare on the
// connection the block owns, never on the pool. Concurrent use of a bounded pool is not generated here
// (listed finding C07 preparestmt-bounded-pool: two goroutines, one pool slot).
func TestC14BoundedPool(t *testing.T) {
	c14Rule()
	rapid.Check(t, func(rt *rapid.T) {
		mode := rapid.SampledFrom([]string{"config", "session"}).Draw(rt, "mode")
		maxOpen := rapid.IntRange(1, 2).Draw(rt, "maxOpen")
		rawPool := rapid.Bool().Draw(rt, "rawPool")
		via := 0
		if mode == "session" {
			via = 1
		}
		genQ := func(label string) Op {
			return Op{Kind: "q", Via: via, Row: rapid.Bool().Draw(rt, label+".row"),
				Text: rapid.IntRange(0, len(texts)-1).Draw(rt, label+".text"), Arg: rapid.IntRange(1, nItems).Draw(rt, label+".arg")}
		}
		n := rapid.IntRange(1, 6).Draw(rt, "len")
		var prog []Op
		for i := 0; i < n; i++ {
			k := rapid.SampledFrom([]string{"q", "q", "e", "tx", "tx", "conn", "reset", "badbegin"}).Draw(rt, fmt.Sprintf("op%d", i))
			o := Op{Kind: k, Via: via}
			switch k {
			case "q":
				o = genQ(fmt.Sprintf("op%d", i))
			case "tx", "conn":
				for j, m := 0, rapid.IntRange(1, 3).Draw(rt, "blocklen"); j < m; j++ {
					o.Sub = append(o.Sub, genQ(fmt.Sprintf("op%d.%d", i, j)))
				}
				if maxOpen == 1 && rapid.IntRange(0, 2).Draw(rt, "rootq") == 0 {
					// while the block holds the only connection: a read through the ROOT handle under a
					// deadline - it cannot get a connection and must give up when the deadline passes
					rq := genQ(fmt.Sprintf("op%d.rq", i))
					rq.Kind = "rq"
					at := rapid.IntRange(0, len(o.Sub)).Draw(rt, "rootqAt")
					o.Sub = append(o.Sub[:at], append([]Op{rq}, o.Sub[at:]...)...)
				}
				if k == "tx" && maxOpen == 2 && rapid.Bool().Draw(rt, "nested") {
					// a second block inside the first: holds both connections
					inner := Op{Kind: "tx", Via: via}
					for j, m := 0, rapid.IntRange(1, 2).Draw(rt, "innerlen"); j < m; j++ {
						inner.Sub = append(inner.Sub, genQ(fmt.Sprintf("op%d.in%d", i, j)))
					}
					o.Sub = append(o.Sub, inner)
				}
			}
			prog = append(prog, o)
		}
		desc := fmt.Sprintf("mode=%s maxOpen=%d rawPool=%v prog=%v", mode, maxOpen, rawPool, prog)
		e := newEnvPool(mode, rawPool)
		defer e.close()
		e.sqlDB.SetMaxOpenConns(maxOpen)
		ctx := context.Background() // no goroutine id: nothing parks

		type verdict struct{ msg string }
		done := make(chan verdict, 1)
		var at atomic.Value
		at.Store("start")
		go func() {
			var runBlock func(h *gorm.DB, o Op) string
			member := func(h *gorm.DB, s Op) string {
				at.Store(s.String())
				v, err := query(h, s)
				if err != nil {
					return fmt.Sprintf("%s returned error %v (non-prepared mode returns %d)", s, err, wantValue(s.Text, s.Arg))
				}
				if v != wantValue(s.Text, s.Arg) {
					return fmt.Sprintf("%s returned %d, non-prepared mode returns %d", s, v, wantValue(s.Text, s.Arg))
				}
				return ""
			}
			runBlock = func(h *gorm.DB, o Op) string {
				msg := ""
				body := func(tx *gorm.DB) error {
					for _, s := range o.Sub {
						if s.Kind == "tx" {
							// an independent transaction on the root handle while this one is open
							if msg = runBlock(e.handle(via, ctx), s); msg != "" {
								return nil
							}
							continue
						}
						if s.Kind == "rq" {
							at.Store(s.String())
							dctx, cancel := context.WithTimeout(ctx, 60*time.Millisecond)
							q := s
							q.Kind = "q"
							_, err := query(e.handle(via, dctx), q)
							cancel()
							if err == nil || !(errors.Is(err, context.DeadlineExceeded) || strings.Contains(err.Error(), "context deadline exceeded")) {
								msg = fmt.Sprintf("%s through the root handle with a 60ms deadline, while the block holds the only connection, returned %v; non-prepared mode returns context deadline exceeded", q, err)
								return nil
							}
							continue
						}
						if msg = member(tx, s); msg != "" {
							return nil
						}
					}
					return nil
				}
				var err error
				if o.Kind == "tx" {
					err = h.Transaction(body)
				} else {
					err = h.Connection(body)
				}
				if msg == "" && err != nil {
					msg = fmt.Sprintf("%s returned error %v", o, err)
				}
				return msg
			}
			for _, o := range prog {
				at.Store(o.String())
				msg := ""
				switch o.Kind {
				case "q":
					msg = member(e.handle(via, ctx), o)
				case "e":
					if err := e.handle(via, ctx).Exec("INSERT INTO priv1 (n) VALUES (?)", 1).Error; err != nil {
						msg = "insert returned error " + err.Error()
					}
				case "tx", "conn":
					msg = runBlock(e.handle(via, ctx), o)
				case "reset":
					e.cache(via).Reset()
				case "badbegin":
					// Begin under a context that is already cancelled fails; the usual
					// `tx := db.Begin(); defer tx.Rollback()` then calls Rollback (or Commit) on that handle:
					// an error like in non-prepared mode, never a panic
					msg = func() (m string) {
						defer func() {
							if p := recover(); p != nil {
								m = fmt.Sprintf("Rollback/Commit after a failed Begin panicked: %v (non-prepared mode returns an error)", p)
							}
						}()
						cctx, cancel := context.WithCancel(ctx)
						cancel()
						tx := e.handle(via, cctx).Begin()
						if tx.Error == nil {
							tx.Rollback()
							return "Begin under a cancelled context returned no error"
						}
						if err := tx.Rollback().Error; err == nil {
							return "Rollback after a failed Begin returned no error"
						}
						tx2 := e.handle(via, cctx).Begin()
						if err := tx2.Commit().Error; err == nil {
							return "Commit after a failed Begin returned no error"
						}
						return ""
					}()
				}
				if msg != "" {
					done <- verdict{msg}
					return
				}
			}
			done <- verdict{}
		}()
		hasBlockRow, hasNested := false, false
		for _, o := range prog {
			for _, s := range o.Sub {
				hasBlockRow = hasBlockRow || s.Row
				hasNested = hasNested || s.Kind == "tx"
			}
		}
		cl := []string{"mode:" + mode, fmt.Sprintf("pool:%d", maxOpen), fmt.Sprintf("raw-sql.DB-as-pool:%v", rawPool)}
		for _, o := range prog {
			if o.Kind == "badbegin" {
				cl = append(cl, "op:rollback/commit-after-failed-begin")
			}
		}
		if hasBlockRow {
			cl = append(cl, "block-member:Row()")
		}
		if hasNested {
			cl = append(cl, "block:second-transaction-inside")
		}
		for _, o := range prog {
			for _, s := range o.Sub {
				if s.Kind == "rq" {
					cl = append(cl, "block-member:root-handle-read-under-deadline")
				}
			}
		}
		nontrivial := false
		for _, o := range prog {
			nontrivial = nontrivial || ((o.Kind == "tx" || o.Kind == "conn") && maxOpen == 1) || hasNested
		}
		evid.Case("bounded: "+desc, nontrivial, desc, cl...)
		blockedDumps := 0
	wait:
		for tries := 0; ; tries++ {
			select {
			case v := <-done:
				if v.msg != "" {
					rt.Fatalf("C14 violated (bounded pool, one goroutine): %s\ncase: %s", v.msg, desc)
				}
				break wait
			case <-time.After(10 * time.Second):
				buf := make([]byte, 1<<18)
				k := runtime.Stack(buf, true)
				// the clock alone decides nothing (see runCase): the goroutine must be found blocked twice
				if !goroutinesBlocked(string(buf[:k]), "c14.TestC14BoundedPool.func1.") {
					blockedDumps = 0
					if tries > 90 {
						rt.Skip("the goroutine was runnable but did not finish in 15 minutes: machine too busy, nothing decided")
					}
					continue
				}
				if blockedDumps++; blockedDumps < 2 {
					continue
				}
				msg := fmt.Sprintf("C14 violated: deadlock - a single goroutine on a pool of %d connection(s) did not finish %s and is blocked in two dumps 10s apart (the statement cache waits for a pool connection while the block holds it)\ncase: %s\n%s", maxOpen, at.Load(), desc, buf[:k])
				fmt.Println("VERIF-FAILURE-BEGIN\n" + msg + "\nVERIF-FAILURE-END")
				rt.Fatalf("%s", msg)
			}
		}
		e.cache(via).Close()
		deadline := time.Now().Add(30 * time.Second) // the cache closes its statements from goroutines of its own: give them time on a loaded machine
		for ext := 0; e.rec.OpenStmts() != 0; {
			if !time.Now().Before(deadline) {
				if ext++; ext > 30 || !closePending() {
					break
				}
				deadline = time.Now().Add(30 * time.Second)
			}
			time.Sleep(200 * time.Microsecond)
		}
		if k := e.rec.OpenStmts(); k != 0 {
			rt.Fatalf("C14 violated (bounded pool, one goroutine): %d prepared statement(s) still open after Close\ncase: %s", k, desc)
		}
	})
}
