package c10

// Run-time models (reflect.StructOf), the physical table (raw DDL with a column
// for EVERY generated field, also the ones gorm ignores), sentinel cells and the
// cell-by-cell snapshot.

import (
	"database/sql"
	"database/sql/driver"
	"fmt"
	"reflect"
	"sort"
	"strings"
	"time"

	"gorm.io/gorm"

	"verif/internal/testdb"
)

type kind int

const (
	kInt kind = iota
	kString
	kBool
	kFloat
	kPString
	kTime
	kUnixSec
	kUnixMilli
	kUnixNano
	kPInt     // *int64
	kNullStr  // sql.NullString (a driver.Valuer / sql.Scanner struct)
	kPTime    // *time.Time (tracked time fields)
	kJSON     // struct value with serializer:json (text column holding its JSON)
	kUnixtime // int64 with serializer:unixtime (datetime column)
	kMoney    // struct implementing driver.Valuer/sql.Scanner with an IsZero() method of its own (text column)
)

// money is a decimal-like value type: IsZero() answers for the amount only, so {0, "EUR"} is NOT the Go zero
// value although IsZero() says true. gorm's zero-ness is the Go zero value.
type money struct {
	Units int64
	Cur   string
}

func (v money) IsZero() bool                 { return v.Units == 0 }
func (v money) Value() (driver.Value, error) { return fmt.Sprintf("%d %s", v.Units, v.Cur), nil }
func (v *money) Scan(src interface{}) error {
	_, err := fmt.Sscanf(fmt.Sprint(norm(src)), "%d %s", &v.Units, &v.Cur)
	if err != nil && v.Cur == "" {
		return nil
	}
	return err
}

func moneyOf(c cell) money {
	var v money
	parts := strings.SplitN(c.(string), " ", 2)
	fmt.Sscanf(parts[0], "%d", &v.Units)
	if len(parts) == 2 {
		v.Cur = parts[1]
	}
	return v
}

// jsonVal is the Go type of serializer:json fields.
type jsonVal struct {
	A string
	B int64
}

var kindNames = []string{"int", "string", "bool", "float", "*string", "time", "unixsec", "unixmilli", "unixnano", "*int", "sql.NullString", "*time", "json-struct", "unixtime-int", "money-valuer"}

func (k kind) String() string { return kindNames[k] }

// cell is the normalised content of one table cell: nil (NULL), int64,
// float64, string or time.Time (UTC). anyCell marks a cell that is not asserted.
type cell interface{}

type anyCell struct{}

func (anyCell) String() string { return "<any>" }

// oneOf marks a cell for which the documentation leaves a choice: it must hold one of the listed values.
type oneOf []cell

func cellEq(a, b cell) bool {
	if alts, ok := a.(oneOf); ok {
		for _, alt := range alts {
			if cellEq(alt, b) {
				return true
			}
		}
		return false
	}
	if _, ok := b.(oneOf); ok {
		return cellEq(b, a)
	}
	if _, ok := a.(anyCell); ok {
		return true
	}
	if _, ok := b.(anyCell); ok {
		return true
	}
	switch x := a.(type) {
	case nil:
		return b == nil
	case time.Time:
		y, ok := b.(time.Time)
		return ok && x.Equal(y)
	}
	return a == b
}

func cellStr(c cell) string {
	switch x := c.(type) {
	case nil:
		return "NULL"
	case int64:
		return fmt.Sprintf("%d", x)
	case float64:
		return fmt.Sprintf("%gf", x)
	case string:
		return fmt.Sprintf("%q", x)
	case time.Time:
		return x.UTC().Format("2006-01-02T15:04:05.999999999Z")
	case anyCell:
		return "<any>"
	case oneOf:
		parts := make([]string, len(x))
		for i, alt := range x {
			parts[i] = cellStr(alt)
		}
		return "<" + strings.Join(parts, " or ") + ">"
	}
	return fmt.Sprintf("?%T:%v", c, c)
}

// norm turns what database/sql hands back into a cell.
func norm(v interface{}) cell {
	switch x := v.(type) {
	case nil:
		return nil
	case int64:
		return x
	case float64:
		return x
	case bool:
		if x {
			return int64(1)
		}
		return int64(0)
	case []byte:
		return string(x)
	case string:
		return x
	case time.Time:
		return x.UTC()
	}
	return fmt.Sprintf("?%T:%v", v, v)
}

// field is one generated struct field. Fields[0] of a model is the primary key.
type field struct {
	Name    string // Go field name
	Col     string // physical column (gorm's naming strategy, or the column: tag)
	Kind    kind
	Perm    string // permission tag text, "" = none
	Auto    string // "", "create", "update": tracked time field
	AutoTag string // "autoUpdateTime", "autoCreateTime:milli", ... ; "" = tracked by name (or not tracked)
	ColTag  bool   // carries an explicit column: tag
	Default cell   // DEFAULT of the column in the DDL (nil = none, i.e. NULL)
	// DBDefault: the default is also declared to gorm, as an SQL expression gorm cannot turn into a Go
	// value (tag default:(expr)); the DDL uses the same expression, which evaluates to Default
	DBDefault string
	PK        bool
	NoAuto    bool // key member declared autoIncrement:false (composite keys)
	// GoType: for kInt "int64" (default), "int", "int32", "uint"; for kFloat "float64" (default), "float32"
	GoType string
	// GoDefault: a default gorm parses into a Go value (tag default:555): a zero value is replaced by it on
	// create. The DDL default of the column (Default) differs from it, so the two are distinguishable.
	GoDefault cell
	// Emb: the field lives in the embedded struct (field "Emb" of the model, tag embedded;embeddedPrefix:e_)
	Emb bool
	// Dup: an outer and an embedded field share this Go name (spelled by column name only)
	Dup bool
}

// perms is the predictor's reading of the permission tag (gorm documentation,
// "Field-Level Permission"): known = gorm maps the field to a column at all.
func (f field) perms() (known, create, update bool) {
	switch f.Perm {
	case "", "<-", "-:migration":
		return true, true, true
	case "<-:create", "->;<-:create", "->:false;<-:create":
		return true, true, false
	case "<-:update", "->;<-:update":
		return true, false, true
	case "<-:false", "->", "->:false":
		return true, false, false
	case "-", "-:all":
		return false, false, false
	}
	panic("harness: unknown permission tag " + f.Perm)
}

// baseCol is the column name as the field's own struct sees it (without the embedded prefix).
func (f field) baseCol() string {
	if f.Emb {
		return strings.TrimPrefix(f.Col, embPrefix)
	}
	return f.Col
}

func (f field) restricted() bool {
	k, c, u := f.perms()
	return !(k && c && u)
}

func (f field) goType() reflect.Type {
	switch f.Kind {
	case kInt:
		switch f.GoType {
		case "int":
			return reflect.TypeOf(int(0))
		case "int32":
			return reflect.TypeOf(int32(0))
		case "uint":
			return reflect.TypeOf(uint(0))
		}
		return reflect.TypeOf(int64(0))
	case kUnixSec, kUnixMilli, kUnixNano:
		return reflect.TypeOf(int64(0))
	case kString:
		return reflect.TypeOf("")
	case kBool:
		return reflect.TypeOf(false)
	case kFloat:
		if f.GoType == "float32" {
			return reflect.TypeOf(float32(0))
		}
		return reflect.TypeOf(float64(0))
	case kPString:
		return reflect.TypeOf((*string)(nil))
	case kTime:
		return reflect.TypeOf(time.Time{})
	case kPInt:
		return reflect.TypeOf((*int64)(nil))
	case kNullStr:
		return reflect.TypeOf(sql.NullString{})
	case kPTime:
		return reflect.TypeOf((*time.Time)(nil))
	case kJSON:
		return reflect.TypeOf(jsonVal{})
	case kUnixtime:
		return reflect.TypeOf(int64(0))
	case kMoney:
		return reflect.TypeOf(money{})
	}
	panic("harness: kind")
}

func (f field) sqlType() string {
	switch f.Kind {
	case kInt, kUnixSec, kUnixMilli, kUnixNano, kPInt:
		return "integer"
	case kString, kPString, kNullStr, kJSON, kMoney:
		return "text"
	case kBool:
		return "boolean"
	case kFloat:
		return "real"
	case kTime, kPTime, kUnixtime:
		return "datetime"
	}
	panic("harness: kind")
}

func (f field) gormTag() string {
	var parts []string
	if f.PK {
		parts = append(parts, "primaryKey")
	}
	if f.NoAuto {
		parts = append(parts, "autoIncrement:false")
	}
	if f.ColTag {
		parts = append(parts, "column:"+f.baseCol())
	}
	if f.AutoTag != "" {
		parts = append(parts, f.AutoTag)
	}
	switch f.Kind {
	case kJSON:
		parts = append(parts, "serializer:json")
	case kUnixtime:
		parts = append(parts, "serializer:unixtime")
	}
	if f.DBDefault != "" {
		parts = append(parts, "default:"+f.DBDefault)
	}
	if f.GoDefault != nil {
		switch d := f.GoDefault.(type) {
		case int64:
			if f.Kind == kBool {
				parts = append(parts, "default:true")
			} else {
				parts = append(parts, fmt.Sprintf("default:%d", d))
			}
		case float64:
			parts = append(parts, fmt.Sprintf("default:%g", d))
		case string:
			parts = append(parts, "default:"+d)
		}
	}
	if f.Perm != "" {
		parts = append(parts, f.Perm)
	}
	return strings.Join(parts, ";")
}

func (f field) String() string {
	s := fmt.Sprintf("%s %s", f.Name, f.Kind)
	if f.GoType != "" {
		s = fmt.Sprintf("%s %s", f.Name, f.GoType)
	}
	if f.Emb {
		s = "Emb." + s
	}
	if t := f.gormTag(); t != "" {
		s += " `" + t + "`"
	}
	if f.Default != nil {
		s += " default=" + cellStr(f.Default)
	}
	return s
}

type model struct {
	Fields []field
	Typ    reflect.Type
	NK     int      // number of primary key members: Fields[0] (ID) and, when 2, Fields[1] (Rev)
	Rows   []rowKey // the pre-filled rows, ascending
	IDs    []int64  // distinct values of the first key member, ascending
	NoRet  bool     // the handle's dialector registers the callbacks without RETURNING
	// embedded struct: fields with Emb live in model field "Emb" (a struct, or a pointer to it when EmbPtr)
	EmbPtr bool
	// EmbPerm: permission tag on the embedding field itself. When it denies something, every embedded field
	// carries a tag of its own that denies at least as much (the two possible readings - the outer tag is
	// ignored / is intersected - then agree; which one holds is not documented)
	EmbPerm string
	embTyp  reflect.Type
	outer   []int // per field: index in the model struct (-1: embedded)
	inner   []int // per field: index in the embedded struct (-1: not embedded)
	embIdx  int   // index of the "Emb" field in the model struct
	// gorm.Config switches of the handle
	SkipDefaultTx   bool
	PrepareStmt     bool
	CreateBatchSize int
}

const embPrefix = "e_"

const tableName = "c10_items"

// rowKey identifies a pre-filled row; N seeds its sentinel cells.
type rowKey struct {
	ID  int64
	Rev cell // nil for a single-member key
	N   int64
}

func (k rowKey) String() string {
	if k.Rev == nil {
		return fmt.Sprintf("%d", k.ID)
	}
	return fmt.Sprintf("(%d,%s)", k.ID, cellStr(k.Rev))
}

// rkey is the identity of a table row inside a snapshot: its key members rendered.
type rkey string

func (m *model) keyOf(id cell, rev cell) rkey {
	if m.NK == 1 {
		return rkey(cellStr(id))
	}
	return rkey(cellStr(id) + "," + cellStr(rev))
}

func (m *model) keyOfRow(row []cell) rkey {
	if m.NK == 1 {
		return m.keyOf(row[0], nil)
	}
	return m.keyOf(row[0], row[1])
}

func isZeroCell(c cell) bool { return c == nil || c == int64(0) || c == "" }

func (m *model) build() {
	var sf, ef []reflect.StructField
	m.outer, m.inner = make([]int, len(m.Fields)), make([]int, len(m.Fields))
	for i, f := range m.Fields {
		x := reflect.StructField{Name: f.Name, Type: f.goType()}
		if t := f.gormTag(); t != "" {
			x.Tag = reflect.StructTag(`gorm:"` + t + `"`)
		}
		if f.Emb {
			m.outer[i], m.inner[i] = -1, len(ef)
			ef = append(ef, x)
		} else {
			m.outer[i], m.inner[i] = len(sf), -1
			sf = append(sf, x)
		}
	}
	if len(ef) > 0 {
		m.embTyp = reflect.StructOf(ef)
		t := m.embTyp
		if m.EmbPtr {
			t = reflect.PtrTo(t)
		}
		m.embIdx = len(sf)
		sf = append(sf, reflect.StructField{Name: "Emb", Type: t, Tag: reflect.StructTag(`gorm:"` + m.embTag() + `"`)})
	}
	m.Typ = reflect.StructOf(sf)
}

func (m *model) embTag() string {
	t := "embedded;embeddedPrefix:" + embPrefix
	if m.EmbPerm != "" {
		t += ";" + m.EmbPerm
	}
	return t
}

// fieldOf returns the settable reflect.Value of field i inside the model struct v (allocating the
// embedded struct when it is a nil pointer).
func (m *model) fieldOf(v reflect.Value, i int) reflect.Value {
	if m.outer[i] >= 0 {
		return v.Field(m.outer[i])
	}
	e := v.Field(m.embIdx)
	if m.EmbPtr {
		if e.IsNil() {
			e.Set(reflect.New(m.embTyp))
		}
		e = e.Elem()
	}
	return e.Field(m.inner[i])
}

func (m *model) String() string {
	var b strings.Builder
	b.WriteString("model{")
	for i, f := range m.Fields {
		if i > 0 {
			b.WriteString("; ")
		}
		b.WriteString(f.String())
	}
	fmt.Fprintf(&b, "} rows=%v", m.Rows)
	if m.NoRet {
		b.WriteString(" no-returning")
	}
	if m.EmbPtr {
		b.WriteString(" emb-pointer")
	}
	if m.EmbPerm != "" {
		b.WriteString(" Emb`" + m.embTag() + "`")
	}
	if m.SkipDefaultTx {
		b.WriteString(" SkipDefaultTransaction")
	}
	if m.PrepareStmt {
		b.WriteString(" PrepareStmt")
	}
	if m.CreateBatchSize > 0 {
		fmt.Fprintf(&b, " CreateBatchSize=%d", m.CreateBatchSize)
	}
	return b.String()
}

// lookup resolves a name as a caller may spell it: the Go field name of any
// field, or the column name of a field gorm maps to a column. -1 = unknown.
func (m *model) lookup(name string) int {
	name = strings.TrimPrefix(name, tableName+".")
	for i, f := range m.Fields {
		if f.Name == name {
			return i
		}
	}
	for i, f := range m.Fields {
		if f.Col == name {
			return i
		}
	}
	return -1
}

func (m *model) ddl() string {
	var b strings.Builder
	fmt.Fprintf(&b, "CREATE TABLE %s (", tableName)
	for i, f := range m.Fields {
		if i > 0 {
			b.WriteString(", ")
		}
		fmt.Fprintf(&b, "`%s` %s", f.Col, f.sqlType())
		if f.PK && m.NK == 1 {
			b.WriteString(" PRIMARY KEY")
		}
		if f.DBDefault != "" {
			b.WriteString(" DEFAULT " + f.DBDefault)
		} else if f.Default != nil {
			switch d := f.Default.(type) {
			case int64:
				fmt.Fprintf(&b, " DEFAULT %d", d)
			case float64:
				fmt.Fprintf(&b, " DEFAULT %g", d)
			case string:
				fmt.Fprintf(&b, " DEFAULT '%s'", d)
			}
		}
	}
	if m.NK == 2 {
		fmt.Fprintf(&b, ", PRIMARY KEY (`%s`, `%s`)", m.Fields[0].Col, m.Fields[1].Col)
	}
	b.WriteString(")")
	return b.String()
}

var (
	seedBase  = time.Date(2020, 1, 1, 0, 0, 0, 0, time.UTC)
	givenBase = time.Date(2040, 2, 2, 2, 0, 0, 0, time.UTC)
	// the clock of every handle: differs from every pre-filled and every given time
	nowTime = testdb.FixedNow.Add(123456789 * time.Nanosecond)
)

// sentinel is the unique pre-filled content of the cell (row id, column ci).
func (m *model) sentinel(rk rowKey, ci int) cell {
	f := m.Fields[ci]
	if f.PK {
		if ci == 0 {
			return rk.ID
		}
		return rk.Rev
	}
	id := rk.N
	n := id*1000 + int64(ci)*10
	switch f.Kind {
	case kInt:
		return n + 1
	case kString:
		return fmt.Sprintf("r%dc%d", id, ci)
	case kBool:
		return (id + int64(ci)) % 2
	case kFloat:
		return float64(n) + 0.5
	case kPString, kNullStr:
		if (id+int64(ci))%3 == 0 {
			return nil
		}
		return fmt.Sprintf("p%dc%d", id, ci)
	case kPInt:
		if (id+int64(ci))%3 == 0 {
			return nil
		}
		return n + 2
	case kJSON:
		return fmt.Sprintf(`{"A":"r%dc%d","B":%d}`, id, ci, n)
	case kMoney:
		return fmt.Sprintf("%d SEN", n+3)
	case kTime, kPTime, kUnixtime:
		return seedBase.Add(time.Duration(id)*time.Hour + time.Duration(ci)*time.Minute)
	case kUnixSec:
		return 1_600_000_000 + n
	case kUnixMilli:
		return (1_600_000_000+n)*1000 + 7
	case kUnixNano:
		return (1_600_000_000+n)*1_000_000_000 + 7
	}
	panic("harness: kind")
}

func nowCell(f field) cell {
	switch f.Kind {
	case kTime, kPTime:
		return nowTime
	case kUnixSec, kInt:
		return nowTime.Unix()
	case kUnixMilli:
		return nowTime.UnixMilli()
	case kUnixNano:
		return nowTime.UnixNano()
	}
	panic("harness: tracked time field of kind " + f.Kind.String())
}

// zeroCell is what a column holds after the Go zero value of the field's type was written.
func zeroCell(f field) cell {
	switch f.Kind {
	case kInt, kBool, kUnixSec, kUnixMilli, kUnixNano:
		return int64(0)
	case kString:
		return ""
	case kFloat:
		return float64(0)
	case kPString, kPInt, kNullStr, kPTime:
		return nil
	case kTime:
		return time.Time{}
	case kJSON:
		return `{"A":"","B":0}` // the serialized zero value
	case kUnixtime:
		return time.Unix(0, 0).UTC()
	case kMoney:
		return "0 " // money{}.Value()
	}
	panic("harness: kind")
}

func (f field) serialized() bool { return f.Kind == kJSON || f.Kind == kUnixtime }

// table is a snapshot: rows keyed by primary key, cells in Fields order.
type table struct {
	rows map[rkey][]cell
}

func (t *table) ids() []rkey {
	out := make([]rkey, 0, len(t.rows))
	for id := range t.rows {
		out = append(out, id)
	}
	sort.Slice(out, func(i, j int) bool {
		a, b := t.rows[out[i]], t.rows[out[j]]
		x, _ := a[0].(int64)
		y, _ := b[0].(int64)
		if x != y {
			return x < y
		}
		return out[i] < out[j]
	})
	return out
}

func (t *table) clone() *table {
	c := &table{rows: map[rkey][]cell{}}
	for id, r := range t.rows {
		c.rows[id] = append([]cell(nil), r...)
	}
	return c
}

func (t *table) maxID() int64 {
	var mx int64
	for _, r := range t.rows {
		if id, _ := r[0].(int64); id > mx {
			mx = id
		}
	}
	return mx
}

func (t *table) render(m *model) string {
	var b strings.Builder
	for _, id := range t.ids() {
		b.WriteString("\n      ")
		for ci, c := range t.rows[id] {
			if ci > 0 {
				b.WriteString(" | ")
			}
			fmt.Fprintf(&b, "%s=%s", m.Fields[ci].Col, cellStr(c))
		}
	}
	return b.String()
}

// openTable opens a fresh database whose handle has the sentinel clock, creates
// the table by raw DDL and fills the sentinel rows.
func openTable(m *model) *testdb.DB {
	d := testdb.Open(testdb.Options{NoReturning: m.NoRet, Config: gorm.Config{NowFunc: func() time.Time { return nowTime },
		SkipDefaultTransaction: m.SkipDefaultTx, PrepareStmt: m.PrepareStmt, CreateBatchSize: m.CreateBatchSize}})
	if _, err := d.SQL.Exec(m.ddl()); err != nil {
		d.Close()
		panic("harness: ddl: " + err.Error() + ": " + m.ddl())
	}
	cols := make([]string, len(m.Fields))
	marks := make([]string, len(m.Fields))
	for i, f := range m.Fields {
		cols[i] = "`" + f.Col + "`"
		marks[i] = "?"
	}
	q := fmt.Sprintf("INSERT INTO %s (%s) VALUES (%s)", tableName, strings.Join(cols, ","), strings.Join(marks, ","))
	for _, id := range m.Rows {
		args := make([]interface{}, len(m.Fields))
		for ci := range m.Fields {
			args[ci] = m.sentinel(id, ci)
		}
		if _, err := d.SQL.Exec(q, args...); err != nil {
			d.Close()
			panic("harness: seed: " + err.Error())
		}
	}
	d.Rec.Reset()
	return d
}

func snapshot(d *testdb.DB, m *model) *table {
	cols := make([]string, len(m.Fields))
	for i, f := range m.Fields {
		cols[i] = "`" + f.Col + "`"
	}
	d.Rec.Pause()
	defer d.Rec.Resume()
	rows, err := d.SQL.Query(fmt.Sprintf("SELECT %s FROM %s ORDER BY rowid", strings.Join(cols, ","), tableName))
	if err != nil {
		panic("harness: snapshot: " + err.Error())
	}
	defer rows.Close()
	t := &table{rows: map[rkey][]cell{}}
	for rows.Next() {
		vals := make([]interface{}, len(cols))
		ptrs := make([]interface{}, len(cols))
		for i := range vals {
			ptrs[i] = &vals[i]
		}
		if err := rows.Scan(ptrs...); err != nil {
			panic("harness: snapshot scan: " + err.Error())
		}
		r := make([]cell, len(cols))
		for i, v := range vals {
			r[i] = norm(v)
		}
		id := m.keyOfRow(r)
		if _, dup := t.rows[id]; dup {
			// a write that destroyed the key: keep the row under an impossible key so the diff shows it
			id = rkey(fmt.Sprintf("%s#%d", id, len(t.rows)))
		}
		t.rows[id] = r
	}
	if err := rows.Err(); err != nil {
		panic("harness: snapshot rows: " + err.Error())
	}
	return t
}

// diff lists the cells in which got differs from want (anyCell matches everything).
func diff(m *model, want, got *table) []string {
	var out []string
	seen := map[rkey]bool{}
	for _, id := range want.ids() {
		seen[id] = true
		g, ok := got.rows[id]
		if !ok {
			out = append(out, fmt.Sprintf("row %s is missing", id))
			continue
		}
		for ci := range m.Fields {
			if !cellEq(want.rows[id][ci], g[ci]) {
				out = append(out, fmt.Sprintf("row %s column %s (field %s): holds %s, predicted %s",
					id, m.Fields[ci].Col, m.Fields[ci].Name, cellStr(g[ci]), cellStr(want.rows[id][ci])))
			}
		}
	}
	for _, id := range got.ids() {
		if !seen[id] {
			out = append(out, fmt.Sprintf("unpredicted row %s", id))
		}
	}
	return out
}
