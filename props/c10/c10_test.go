// C10 — a write touches only permitted, selected columns of exactly the
// targeted rows. See DESIGN.md §3 C10. Files: model_test.go (run-time models,
// physical table, snapshot), oracle_test.go (operations + independent
// predictor), this file (generators, execution through gorm, the property).
package c10

import (
	"context"
	"database/sql"
	"encoding/json"
	"fmt"
	"reflect"
	"sort"
	"strings"
	"testing"
	"time"

	"gorm.io/gorm"
	"gorm.io/gorm/clause"
	"gorm.io/gorm/schema"
	"pgregory.net/rapid"

	"verif/internal/evid"
	"verif/internal/harness"
	"verif/internal/testdb"
)

func TestMain(m *testing.M) { harness.Main(m) }

// ---- generators -----------------------------------------------------------------------------

var permTags = []string{
	"", "", "", "<-", "-:migration",
	"<-:create", "<-:create", "<-:update", "<-:update", "<-:false", "->", "->:false",
	"->;<-:create", "->;<-:update", "->:false;<-:create",
	"-", "-:all",
}

var autoPermTags = []string{"", "", "", "", "", "<-:create", "<-:create", "->;<-:create", "<-:update", "<-:false", "->", "-"}

type autoVariant struct {
	Name, Auto, Tag string
	Kind            kind
}

var autoVariants = []autoVariant{
	{"UpdatedAt", "update", "", kTime},
	{"UpdatedAt", "update", "", kTime},
	{"UpdatedAt", "update", "", kUnixSec}, // integer UpdatedAt: tracked in seconds
	{"CreatedAt", "create", "", kTime},
	{"CreatedAt", "create", "", kUnixSec},
	{"TouchedAt", "update", "autoUpdateTime", kTime},
	{"TouchedSec", "update", "autoUpdateTime", kUnixSec},
	{"TouchedMs", "update", "autoUpdateTime:milli", kUnixMilli},
	{"TouchedNs", "update", "autoUpdateTime:nano", kUnixNano},
	{"UpdatedAt", "update", "", kPTime}, // *time.Time
	{"CreatedAt", "create", "", kPTime},
	// the conventional names with tracking switched off (documented: autoCreateTime:false / autoUpdateTime:false):
	// ordinary columns (Auto == "")
	{"UpdatedAt", "", "autoUpdateTime:false", kTime},
	{"UpdatedAt", "", "autoUpdateTime:false", kInt},
	{"UpdatedAt", "", "autoUpdateTime:false", kPTime},
	{"CreatedAt", "", "autoCreateTime:false", kTime},
	{"CreatedAt", "", "autoCreateTime:false", kInt},
	{"BornAt", "create", "autoCreateTime", kTime},
	{"BornMs", "create", "autoCreateTime:milli", kUnixMilli},
}

var naming = schema.NamingStrategy{}

var dataKinds = []kind{kInt, kString, kBool, kFloat, kPString, kInt, kString, kPInt, kNullStr, kJSON, kUnixtime, kMoney}

func genModel(rt *rapid.T) *model {
	m := &model{NK: 1, Fields: []field{{Name: "ID", Col: "id", Kind: kInt, PK: true}}}
	if rapid.IntRange(0, 3).Draw(rt, "composite") == 0 {
		// composite key: ID (the member gorm prioritises by name) + Rev, neither auto-incremented
		m.NK = 2
		m.Fields[0].NoAuto = true
		rev := field{Name: "Rev", Col: "rev", Kind: kInt, PK: true, NoAuto: true}
		if rapid.Bool().Draw(rt, "revstring") {
			rev.Kind, rev.NoAuto = kString, false
		}
		m.Fields = append(m.Fields, rev)
	}
	nData := rapid.IntRange(3, 8).Draw(rt, "nfields")
	nAuto := rapid.SampledFrom([]int{0, 1, 1, 1, 2, 2}).Draw(rt, "nauto")
	used := map[string]bool{}
	for i := 1; i <= nData; i++ {
		var f field
		if i > nData-nAuto {
			v := rapid.SampledFrom(autoVariants).Draw(rt, "auto")
			if used[v.Name] {
				v = autoVariant{Name: fmt.Sprintf("F%d", i), Kind: kInt}
			}
			f = field{Name: v.Name, Kind: v.Kind, Auto: v.Auto, AutoTag: v.Tag}
			if v.Auto != "" || v.Tag != "" {
				f.Perm = rapid.SampledFrom(autoPermTags).Draw(rt, "autoperm")
			}
		} else {
			f = field{Name: fmt.Sprintf("F%d", i), Kind: rapid.SampledFrom(dataKinds).Draw(rt, "kind")}
			if i == 1 && f.serialized() {
				f.Kind = kInt // the first data field can always be named in a map
			}
			f.Perm = rapid.SampledFrom(permTags).Draw(rt, "perm")
			switch f.Kind {
			case kInt:
				f.GoType = rapid.SampledFrom([]string{"", "", "", "int", "int32", "uint"}).Draw(rt, "gotype")
			case kFloat:
				f.GoType = rapid.SampledFrom([]string{"", "", "float32"}).Draw(rt, "gotype")
			}
		}
		used[f.Name] = true
		f.Col = naming.ColumnName("", f.Name)
		if known, _, _ := f.perms(); known && rapid.IntRange(0, 3).Draw(rt, "coltag") == 0 {
			f.ColTag = true
			f.Col = "cx_" + strings.ToLower(f.Name)
		}
		if f.Auto == "" && rapid.IntRange(0, 2).Draw(rt, "default") == 0 {
			switch f.Kind {
			case kInt:
				f.Default = int64(777)
			case kString:
				f.Default = "dflt"
			case kPString:
				f.Default = "pdflt"
			case kFloat:
				f.Default = 7.75
			case kBool:
				f.Default = int64(1)
			}
			switch rapid.IntRange(0, 5).Draw(rt, "dbdefault") {
			case 0, 1:
				f.DBDefault = map[kind]string{kInt: "(700+77)", kString: "(lower('DFLT'))", kPString: "(lower('PDFLT'))", kFloat: "(7.5+0.25)", kBool: "(1=1)"}[f.Kind]
			case 2:
				if f.Default != nil && f.Kind != kBool {
					f.DBDefault, f.Default = "null", nil // default:null - the column has no DEFAULT
				}
			case 3, 4:
				// a default gorm parses into a Go value; the column's own DEFAULT stays different
				switch f.Kind {
				case kInt:
					f.GoDefault = int64(555)
				case kString:
					f.GoDefault = "gdflt"
				case kFloat:
					f.GoDefault = 5.25
				case kBool:
					f.GoDefault, f.Default = int64(1), int64(0)
				}
			}
		}
		m.Fields = append(m.Fields, f)
	}
	if rapid.IntRange(0, 3).Draw(rt, "embedded") == 0 {
		// some data fields move into an embedded struct (value or pointer) with a column prefix
		m.EmbPtr = rapid.Bool().Draw(rt, "embptr")
		for i := m.NK; i < len(m.Fields); i++ {
			if rapid.IntRange(0, 2).Draw(rt, "emb") == 0 {
				m.Fields[i].Emb = true
				m.Fields[i].Col = embPrefix + m.Fields[i].Col
			}
		}
	}
	hasEmb := false
	for _, f := range m.Fields {
		hasEmb = hasEmb || f.Emb
	}
	if hasEmb {
		m.EmbPerm = rapid.SampledFrom([]string{"", "", "<-", "<-", "<-:create", "<-:update", "->"}).Draw(rt, "embperm")
		_, ec, eu := field{Perm: m.EmbPerm}.perms()
		for i := range m.Fields {
			f := &m.Fields[i]
			if !f.Emb {
				continue
			}
			if _, c, u := f.perms(); (c && !ec) || (u && !eu) {
				// the embedded field would be allowed more than the embedding field: give it a tag of its own
				var ok []string
				for _, t := range []string{"<-:create", "<-:update", "<-:false", "->", "->:false", "->;<-:create", "->;<-:update"} {
					if _, c, u := (field{Perm: t}).perms(); (!c || ec) && (!u || eu) {
						ok = append(ok, t)
					}
				}
				f.Perm = rapid.SampledFrom(ok).Draw(rt, "embinner")
			}
		}
	}
	if hasEmb && rapid.IntRange(0, 2).Draw(rt, "dupname") == 0 {
		// an embedded field takes the Go name of an outer field (the columns differ through the prefix) and a
		// different permission tag; such fields are spelled by column name only
		plain := func(f field) bool {
			known, _, _ := f.perms()
			return known && !f.PK && f.Auto == "" && f.AutoTag == ""
		}
		var outer, inner []int
		for i, f := range m.Fields {
			if plain(f) && f.Emb {
				inner = append(inner, i)
			} else if plain(f) {
				outer = append(outer, i)
			}
		}
		if len(outer) > 0 && len(inner) > 0 {
			x := rapid.SampledFrom(outer).Draw(rt, "dupouter")
			e := rapid.SampledFrom(inner).Draw(rt, "dupinner")
			_, ec, eu := field{Perm: m.EmbPerm}.perms()
			var tags []string
			for _, t := range []string{"", "<-", "<-:create", "<-:update", "<-:false", "->", "->;<-:create", "->;<-:update"} {
				if _, c, u := (field{Perm: t}).perms(); t != m.Fields[x].Perm && (!c || ec) && (!u || eu) {
					tags = append(tags, t)
				}
			}
			if len(tags) > 0 {
				f := &m.Fields[e]
				f.Perm = rapid.SampledFrom(tags).Draw(rt, "dupperm")
				f.Name = m.Fields[x].Name
				if !f.ColTag {
					f.Col = embPrefix + naming.ColumnName("", f.Name)
				}
				f.Dup, m.Fields[x].Dup = true, true
			}
		}
	}
	m.SkipDefaultTx = rapid.IntRange(0, 3).Draw(rt, "skipdefaulttx") == 0
	m.PrepareStmt = rapid.IntRange(0, 5).Draw(rt, "preparestmt") == 0
	if rapid.IntRange(0, 5).Draw(rt, "createbatchsize") == 0 {
		m.CreateBatchSize = rapid.IntRange(1, 3).Draw(rt, "cbs")
	}
	nRows := rapid.IntRange(3, 6).Draw(rt, "nrows")
	if m.NK == 1 {
		pool := []int64{1, 2, 3, 4, 5, 6, 7, 8, 9}
		for len(m.IDs) < nRows {
			k := rapid.IntRange(0, len(pool)-1).Draw(rt, "rowid")
			m.IDs = append(m.IDs, pool[k])
			pool = append(pool[:k], pool[k+1:]...)
		}
		sort.Slice(m.IDs, func(i, j int) bool { return m.IDs[i] < m.IDs[j] })
		for _, id := range m.IDs {
			m.Rows = append(m.Rows, rowKey{ID: id, N: id})
		}
	} else {
		// three ids x four revisions (revision zero / "" is an ordinary value): rows share key members
		var pool []rowKey
		for id := int64(1); id <= 3; id++ {
			for j := int64(0); j < 4; j++ {
				pool = append(pool, rowKey{ID: id, Rev: m.revValue(j), N: id*10 + j + 1})
			}
		}
		for len(m.Rows) < nRows {
			k := rapid.IntRange(0, len(pool)-1).Draw(rt, "rowkey")
			m.Rows = append(m.Rows, pool[k])
			pool = append(pool[:k], pool[k+1:]...)
		}
		sort.Slice(m.Rows, func(i, j int) bool { return m.Rows[i].N < m.Rows[j].N })
		seen := map[int64]bool{}
		for _, r := range m.Rows {
			if !seen[r.ID] {
				seen[r.ID] = true
				m.IDs = append(m.IDs, r.ID)
			}
		}
	}
	m.NoRet = rapid.IntRange(0, 3).Draw(rt, "noreturning") == 0
	m.build()
	return m
}

// revValue is the j-th value of the second key member (j = 0: the zero value).
func (m *model) revValue(j int64) cell {
	if m.NK < 2 {
		return nil
	}
	if m.Fields[1].Kind == kString {
		return []string{"", "a", "b", "c", "d"}[j]
	}
	return j
}

// genVal draws a value for field f: zero, a fresh non-zero sentinel, or (map
// paths, numeric columns) an expression over a column of the same kind.
// exprMode: exprNone; exprUpdate = gorm.Expr over a column, or a sub-query handle (update maps);
// exprCreate = gorm.Expr over literals (create maps).
const (
	exprNone = iota
	exprUpdate
	exprCreate
)

func genVal(rt *rapid.T, m *model, fi int, exprMode int, label string) gval {
	f := m.Fields[fi]
	pick := rapid.IntRange(0, 9).Draw(rt, label+".pick")
	if pick < 3 {
		return gval{Zero: true, Cell: zeroCell(f)}
	}
	if exprMode == exprUpdate && pick == 9 && (f.Kind == kInt || f.Kind == kFloat) && f.Auto == "" {
		var srcs []int
		for i, g := range m.Fields {
			if g.Kind == f.Kind && g.Auto == "" {
				srcs = append(srcs, i)
			}
		}
		x := &exprSpec{Src: rapid.SampledFrom(srcs).Draw(rt, label+".src"), N: int64(rapid.IntRange(1, 9).Draw(rt, label+".n"))}
		x.Max = rapid.IntRange(0, 2).Draw(rt, label+".subquery") == 0 // a *gorm.DB sub-query as the value
		return gval{Expr: x}
	}
	if exprMode == exprCreate && pick == 9 && f.Kind == kInt && f.Auto == "" {
		return gval{Expr: &exprSpec{Src: -1, N: int64(rapid.IntRange(1, 9).Draw(rt, label+".n"))}}
	}
	return litVal(f, int64(rapid.IntRange(1, 9).Draw(rt, label+".v")))
}

// litVal is the n-th non-zero literal of field f.
func litVal(f field, n int64) gval {
	switch f.Kind {
	case kInt:
		return gval{Cell: 90000 + n}
	case kString:
		return gval{Cell: fmt.Sprintf("new%d", n)}
	case kBool:
		return gval{Cell: int64(1)}
	case kFloat:
		return gval{Cell: 9000.25 + float64(n)}
	case kPString:
		if n == 1 {
			return gval{Cell: ""} // non-nil pointer to "": not a zero value
		}
		return gval{Cell: fmt.Sprintf("np%d", n)}
	case kNullStr:
		if n == 1 {
			return gval{Cell: ""} // {String: "", Valid: true}: not a zero value
		}
		return gval{Cell: fmt.Sprintf("ns%d", n)}
	case kPInt:
		if n == 1 {
			return gval{Cell: int64(0)} // non-nil pointer to 0
		}
		return gval{Cell: 95000 + n}
	case kTime, kPTime:
		return gval{Cell: givenBase.Add(time.Duration(n) * time.Minute)}
	case kJSON:
		return gval{Cell: fmt.Sprintf(`{"A":"j%d","B":%d}`, n, n)}
	case kUnixtime:
		return gval{Cell: time.Unix(1_900_000_000+n, 0).UTC()}
	case kMoney:
		if n <= 3 {
			return gval{Cell: "0 EUR"} // not the Go zero value, although its IsZero() method says true
		}
		return gval{Cell: fmt.Sprintf("%d EUR", n)}
	case kUnixSec:
		return gval{Cell: 1_900_000_000 + n}
	case kUnixMilli:
		return gval{Cell: (1_900_000_000+n)*1000 + 3}
	case kUnixNano:
		return gval{Cell: (1_900_000_000+n)*1_000_000_000 + 3}
	}
	panic("harness: kind")
}

func spell(rt *rapid.T, f field, label string) string {
	if f.Dup {
		return f.Col // two fields share this Go name: only the column name is unambiguous
	}
	if known, _, _ := f.perms(); known && rapid.Bool().Draw(rt, label+".bycol") {
		return f.Col
	}
	return f.Name
}

// spellSel: Select/Omit also accept the table-qualified column.
func spellSel(rt *rapid.T, f field, label string) string {
	if known, _, _ := f.perms(); known && rapid.IntRange(0, 5).Draw(rt, label+".qualified") == 0 {
		return tableName + "." + f.Col
	}
	return spell(rt, f, label)
}

// genSelect draws the Select/Omit form. withKey: the primary key may be listed.
func genSelect(rt *rapid.T, m *model, o *op, withKey bool) string {
	form := rapid.SampledFrom([]string{"none", "none", "none", "list", "list", "star", "omit", "omit", "star+omit", "list+omit"}).Draw(rt, "selform")
	var data []int
	for i := m.NK; i < len(m.Fields); i++ {
		data = append(data, i)
	}
	inSel := map[int]bool{}
	if strings.HasPrefix(form, "list") {
		for _, i := range data {
			if rapid.Bool().Draw(rt, "sel") {
				inSel[i] = true
				o.Select = append(o.Select, spellSel(rt, m.Fields[i], "sel"))
			}
		}
		if len(o.Select) == 0 {
			i := rapid.SampledFrom(data).Draw(rt, "sel1")
			inSel[i] = true
			o.Select = append(o.Select, spellSel(rt, m.Fields[i], "sel1"))
		}
		if withKey && (m.NK == 2 || rapid.IntRange(0, 2).Draw(rt, "selkey") > 0) {
			for k := 0; k < m.NK; k++ { // members of a composite key are always selected
				o.Select = append(o.Select, spellSel(rt, m.Fields[k], "selkey"))
			}
		}
	}
	if strings.HasPrefix(form, "star") {
		o.Select = []string{"*"}
	}
	if strings.HasSuffix(form, "omit") {
		for _, i := range data {
			if !inSel[i] && rapid.IntRange(0, 2).Draw(rt, "omit") == 0 {
				o.Omit = append(o.Omit, spellSel(rt, m.Fields[i], "omit"))
			}
		}
		if withKey && m.NK == 1 && rapid.IntRange(0, 3).Draw(rt, "omitkey") == 0 {
			o.Omit = append(o.Omit, spellSel(rt, m.Fields[0], "omitkey"))
		}
		if len(o.Omit) == 0 {
			var free []int
			for _, i := range data {
				if !inSel[i] {
					free = append(free, i)
				}
			}
			if len(free) == 0 {
				return strings.TrimSuffix(form, "+omit") // every field is selected: nothing left to omit
			}
			i := rapid.SampledFrom(free).Draw(rt, "omit1")
			o.Omit = append(o.Omit, spellSel(rt, m.Fields[i], "omit1"))
		}
	}
	return form
}

func genCond(rt *rapid.T, m *model) *cond {
	var cols, known []int
	for i := m.NK; i < len(m.Fields); i++ {
		f := m.Fields[i]
		if (f.Kind == kInt || f.Kind == kString) && f.Auto == "" {
			cols = append(cols, i)
			if k, _, _ := f.perms(); k {
				known = append(known, i)
			}
		}
	}
	forms := []string{"ids", "ids"}
	if len(cols) > 0 {
		forms = append(forms, "eq", "ne")
	}
	if len(known) > 0 {
		forms = append(forms, "map")
	}
	c := &cond{Form: rapid.SampledFrom(forms).Draw(rt, "condform")}
	switch c.Form {
	case "ids":
		for _, id := range m.IDs {
			if rapid.Bool().Draw(rt, "condid") {
				c.IDs = append(c.IDs, id)
			}
		}
		if len(c.IDs) == 0 || rapid.IntRange(0, 5).Draw(rt, "condghost") == 0 {
			c.IDs = append(c.IDs, 40) // no such row
		}
	case "map":
		c.F = rapid.SampledFrom(known).Draw(rt, "condcol")
		c.V = m.sentinel(m.Rows[rapid.IntRange(0, len(m.Rows)-1).Draw(rt, "condrow")], c.F)
	default:
		c.F = rapid.SampledFrom(cols).Draw(rt, "condcol")
		c.V = m.sentinel(m.Rows[rapid.IntRange(0, len(m.Rows)-1).Draw(rt, "condrow")], c.F)
	}
	return c
}

func genStructVals(rt *rapid.T, m *model, label string) map[int]gval {
	vals := map[int]gval{}
	for i := m.NK; i < len(m.Fields); i++ {
		if g := genVal(rt, m, i, exprNone, fmt.Sprintf("%s.f%d", label, i)); !g.Zero {
			vals[i] = g
		}
	}
	return vals
}

// genKVs draws map entries over the non-key fields (autoMode: see the constants below).
const (
	autoAny    = iota // any value (paths that do not run hooks, creates)
	autoNonNil        // hook-running update: a given (non-nil) value is written instead of the refresh; what a nil
	//                    value means there (given NULL, or "not given" and refreshed) is not documented
	autoExclude // never named
)

func nonNilTracked(f field, autoMode int, g gval) gval {
	if autoMode == autoNonNil && f.Auto == "update" && g.Expr == nil && g.Cell == nil {
		return litVal(f, 2)
	}
	return g
}

func genKVs(rt *rapid.T, m *model, autoMode int, noIgnored bool, allowExpr int, min int, label string) []kv {
	var out []kv
	var elig []int
	for i := m.NK; i < len(m.Fields); i++ {
		f := m.Fields[i]
		if autoMode == autoExclude && f.Auto == "update" {
			continue
		}
		if known, _, _ := f.perms(); noIgnored && !known {
			continue
		}
		if f.serialized() {
			continue // domain: a map value is bound as it is, the serializer is not applied (undocumented)
		}
		elig = append(elig, i)
	}
	if len(elig) == 0 {
		return nil
	}
	for _, i := range elig {
		if rapid.IntRange(0, 2).Draw(rt, label+".has") > 0 {
			out = append(out, kv{Key: spell(rt, m.Fields[i], label+".key"), F: i, V: nonNilTracked(m.Fields[i], autoMode, genVal(rt, m, i, allowExpr, fmt.Sprintf("%s.f%d", label, i)))})
		}
	}
	for len(out) < min {
		i := rapid.SampledFrom(elig).Draw(rt, label+".one")
		dup := false
		for _, e := range out {
			dup = dup || e.F == i
		}
		if dup {
			break
		}
		out = append(out, kv{Key: spell(rt, m.Fields[i], label+".key1"), F: i, V: nonNilTracked(m.Fields[i], autoMode, genVal(rt, m, i, allowExpr, label+".v1"))})
	}
	return out
}

var opKinds = []string{
	"updates-struct", "save", "updates-map", "create", "update", "updatecolumns-struct", "create-slice",
	"updates-struct", "updatecolumn", "create-map", "updates-map", "save", "create-batches", "updatecolumns-map",
	"updates-struct", "create-maps", "update", "save-slice", "save", "create",
	"firstorcreate-map", "firstorcreate-struct",
}

func genOp(rt *rapid.T, m *model) (*op, string) {
	o := &op{Kind: rapid.SampledFrom(opKinds).Draw(rt, "op")}
	var selForm string
	if m.NK == 2 && strings.HasPrefix(o.Kind, "firstorcreate") {
		// domain: "first" orders by the prioritised key member only; with a composite key the found
		// record is not determined
		o.Kind = "updates-map"
	}
	switch o.Kind {
	case "updates-struct", "updates-map", "update":
		// Session{SkipHooks: true}: the update is then not a hook-running one
		o.Hist.SkipHooks = rapid.IntRange(0, 5).Draw(rt, "skiphooks") == 0
	}
	switch o.Kind {
	case "firstorcreate-map", "firstorcreate-struct":
		// no Select/Omit: they would also narrow what First loads (the found record's key)
		selForm = "none"
		o.PK2 = m.revValue(0)
		o.ExplicitModel = rapid.Bool().Draw(rt, "explicitmodel")
		o.Cond = genCond(rt, m)
		found := false
		for _, r := range m.Rows {
			row := make([]cell, len(m.Fields))
			for ci := range m.Fields {
				row[ci] = m.sentinel(r, ci)
			}
			found = found || o.Cond.matches(row)
		}
		if !found { // the not-found half (create) is C16's subject
			o.Cond = &cond{Form: "ids", IDs: []int64{m.Rows[rapid.IntRange(0, len(m.Rows)-1).Draw(rt, "foundrow")].ID, 40}}
		}
		if o.Kind == "firstorcreate-map" {
			o.Map = genKVs(rt, m, autoExclude, false, exprNone, 1, "a")
		} else {
			o.Struct = genStructVals(rt, m, "a")
			for i, f := range m.Fields {
				if f.Auto == "update" || f.serialized() {
					delete(o.Struct, i) // (Assign turns the struct into column = value pairs: serializer not applied)
				}
			}
		}
	case "updates-struct", "updatecolumns-struct":
		o.Mode = rapid.SampledFrom([]string{"model+value", "model+other", "model+pointer", "pointer", "model+value", "value", "same"}).Draw(rt, "mode")
		genTarget(rt, m, o, strings.HasPrefix(o.Mode, "model+"))
		selForm = genSelect(rt, m, o, false)
		if o.ModelKeys != nil && len(o.Select) == 1 && o.Select[0] == "*" {
			o.Select, selForm = nil, "none" // "*" needs the value to carry the model's key: impossible for a slice
			if o.Omit != nil {
				selForm = "omit"
			}
		}
		o.Struct = genStructVals(rt, m, "v")
		if o.Mode == "model+other" {
			o.Other = make([]string, len(m.Fields))
			for i, f := range m.Fields {
				o.Other[i] = f.Perm
				if i >= m.NK && f.Auto == "" && rapid.Bool().Draw(rt, "otherperm?") {
					o.Other[i] = rapid.SampledFrom(permTags).Draw(rt, "otherperm")
				}
			}
		}
		if len(o.Select) == 1 && o.Select[0] == "*" && (o.PK == 0 || (m.NK == 2 && isZeroCell(o.PK2))) && (o.Mode == "value" || strings.HasPrefix(o.Mode, "model+")) {
			o.Other = nil
			// domain: Select("*") with a separate value whose key is zero - whether "all fields"
			// includes the value's (zero) primary key is not documented
			o.Mode = "pointer"
		}
	case "updates-map", "updatecolumns-map":
		genTarget(rt, m, o, true)
		selForm = genSelect(rt, m, o, false)
		mode := autoAny
		if o.hooks() {
			mode = autoNonNil
		}
		o.Map = genKVs(rt, m, mode, false, exprUpdate, 1, "m")
	case "update", "updatecolumn":
		genTarget(rt, m, o, true)
		selForm = genSelect(rt, m, o, false)
		var elig []int
		for i := m.NK; i < len(m.Fields); i++ {
			if !m.Fields[i].serialized() {
				elig = append(elig, i)
			}
		}
		i := rapid.SampledFrom(elig).Draw(rt, "col")
		mode := autoAny
		if o.hooks() {
			mode = autoNonNil // Update("UpdatedAt", t): the given time is written
		}
		o.Map = []kv{{Key: spell(rt, m.Fields[i], "col"), F: i, V: nonNilTracked(m.Fields[i], mode, genVal(rt, m, i, exprUpdate, "colv"))}}
	case "save":
		switch k := rapid.IntRange(0, 9).Draw(rt, "savekey"); {
		case k <= 1:
			o.PK, o.PK2 = 0, m.revValue(0)
			if m.NK == 2 && k == 1 {
				o.PK2 = m.revValue(2) // only the first member is zero
			}
		case k <= 3:
			o.PK, o.PK2 = 50, m.revValue(1) // no such row
		default:
			genKey(rt, m, o)
		}
		if rapid.IntRange(0, 2).Draw(rt, "savecond") == 0 {
			o.Cond = genCond(rt, m)
		}
		selForm = genSelect(rt, m, o, m.NK == 2) // composite: a Select list names the key members (Save may insert)
		o.Struct = genStructVals(rt, m, "v")
	default:
		selForm = genCreate(rt, m, o)
	}
	genHistory(rt, m, o)
	return o, selForm
}

// genHistory draws how the chain value came about, the Go shape of the value and the SetColumn callback.
func genHistory(rt *rapid.T, m *model, o *op) {
	h := &o.Hist
	h.Handle = rapid.SampledFrom([]string{"", "", "", "", "transaction", "begin-commit"}).Draw(rt, "handle")
	h.SharedSel = (o.Select != nil || o.Omit != nil) && rapid.IntRange(0, 2).Draw(rt, "sharedsel") == 0
	h.Decoy = !h.SharedSel && rapid.IntRange(0, 3).Draw(rt, "decoy") == 0
	h.Context = rapid.IntRange(0, 5).Draw(rt, "context") == 0
	h.Scopes = o.Cond != nil && rapid.IntRange(0, 3).Draw(rt, "scopes") == 0
	h.SelectSlice = o.Select != nil && rapid.IntRange(0, 2).Draw(rt, "selectslice") == 0
	if len(o.Omit) > 1 && rapid.Bool().Draw(rt, "omitcomma") {
		// Omit("a, b"): one comma separated string, blanks around the commas (documented form: Omit("name, age"))
		h.OmitSep = rapid.SampledFrom([]string{",", ", ", ", ", ",  ", ",   ", " , "}).Draw(rt, "omitsep")
	}
	update := false
	switch o.Kind {
	case "updates-struct", "updatecolumns-struct", "updates-map", "updatecolumns-map", "update", "updatecolumn":
		update = true
	}
	// Returning{}: the update then runs as a query whose rows are scanned into the (pointer) model
	if ((update && o.Mode != "value") || o.Kind == "create") && rapid.IntRange(0, 4).Draw(rt, "returning") == 0 {
		h.Returning = true
	}
	switch o.Kind {
	case "create-slice", "save-slice":
		o.Form = rapid.SampledFrom([]string{"", "", "ptr-elems", "array"}).Draw(rt, "form")
	case "create-batches":
		o.Form = rapid.SampledFrom([]string{"", "", "ptr-elems"}).Draw(rt, "form")
	case "create-map", "updates-map", "updatecolumns-map":
		o.Form = rapid.SampledFrom([]string{"", "", "", "ptr-map"}).Draw(rt, "form")
	}
	if o.ModelKeys != nil {
		o.KeysPtr = rapid.IntRange(0, 2).Draw(rt, "keysptr") == 0
	}
	// a registered callback sets one column through Statement.SetColumn
	eligible := o.Select == nil && o.ModelKeys == nil && !o.Hist.SkipHooks && o.Form == "" && // (SetColumn rejects a *map value)
		(o.Kind == "updates-map" || o.Kind == "create" ||
			(o.Kind == "updates-struct" && (o.Mode == "model+value" || o.Mode == "model+pointer" || o.Mode == "pointer" || o.Mode == "same")))
	if eligible && rapid.IntRange(0, 4).Draw(rt, "setcolumn") == 0 {
		var cand []int
		for i := m.NK; i < len(m.Fields); i++ {
			if m.Fields[i].Auto == "" && !m.Fields[i].serialized() {
				cand = append(cand, i)
			}
		}
		if len(cand) > 0 {
			i := rapid.SampledFrom(cand).Draw(rt, "setcol")
			o.SetCol = &kv{Key: spell(rt, m.Fields[i], "setcol"), F: i, V: litVal(m.Fields[i], int64(rapid.IntRange(2, 9).Draw(rt, "setcolv")))}
		}
	}
}

// genTarget draws model key and/or condition (never neither: that is C09's subject).
func genTarget(rt *rapid.T, m *model, o *op, sliceOK bool) {
	o.PK2 = m.revValue(0)
	if sliceOK && rapid.IntRange(0, 5).Draw(rt, "slicemodel") == 0 {
		// the model value is a slice of key structs: stored keys (for a composite key preferably
		// differing in both members) and sometimes a key that is not stored
		n := rapid.IntRange(2, 3).Draw(rt, "nkeys")
		pool := append([]rowKey(nil), m.Rows...)
		for len(o.ModelKeys) < n && len(pool) > 0 {
			k := rapid.IntRange(0, len(pool)-1).Draw(rt, "slicekey")
			o.ModelKeys = append(o.ModelKeys, rowKey{ID: pool[k].ID, Rev: pool[k].Rev})
			pool = append(pool[:k], pool[k+1:]...)
		}
		if rapid.IntRange(0, 3).Draw(rt, "sliceghost") == 0 {
			o.ModelKeys = append(o.ModelKeys, rowKey{ID: 50, Rev: m.revValue(1)})
		}
		if rapid.IntRange(0, 2).Draw(rt, "slicecond") == 0 {
			o.Cond = genCond(rt, m)
		}
		return
	}
	switch rapid.IntRange(0, 9).Draw(rt, "target") {
	case 0, 1, 2:
		genKey(rt, m, o)
	case 3, 4, 5, 6:
		o.Cond = genCond(rt, m)
	case 7, 8:
		genKey(rt, m, o)
		o.Cond = genCond(rt, m)
	default:
		o.PK, o.PK2 = 50, m.revValue(1) // no such row
	}
	if o.PK == 0 && isZeroCell(o.PK2) && o.Cond == nil {
		o.Cond = genCond(rt, m) // a stored key may consist of zero members only
	}
}

// genKey takes the key of a stored row; for a composite key one member may be left zero.
func genKey(rt *rapid.T, m *model, o *op) {
	r := m.Rows[rapid.IntRange(0, len(m.Rows)-1).Draw(rt, "keyrow")]
	o.PK, o.PK2 = r.ID, r.Rev
	if m.NK == 2 {
		switch rapid.IntRange(0, 5).Draw(rt, "partial") {
		case 0, 1:
			o.PK2 = m.revValue(0)
		case 2:
			o.PK = 0
		}
	}
}

func genCreate(rt *rapid.T, m *model, o *op) string {
	isMap := strings.HasSuffix(o.Kind, "map") || strings.HasSuffix(o.Kind, "maps")
	n := 1
	if o.Kind == "create-slice" || o.Kind == "create-batches" || o.Kind == "create-maps" || o.Kind == "save-slice" {
		n = rapid.IntRange(2, 4).Draw(rt, "nnew")
	}
	if o.Kind == "create-batches" {
		o.Batch = rapid.IntRange(1, 3).Draw(rt, "batch")
	}
	if harness.Thorough() && n > 1 && rapid.IntRange(0, 9).Draw(rt, "bigbatch") == 0 {
		n = rapid.IntRange(5, 25).Draw(rt, "nbig") // thorough only: batches beyond a handful of rows
	}
	o.Conflict = rapid.SampledFrom([]string{"", "", "nothing", "updateall", "updateall", "doupdates", "doupdates", "doassign"}).Draw(rt, "conflict")
	hit := o.Conflict != ""
	if o.Kind == "save-slice" {
		o.Conflict, hit = "", true // Save resolves key collisions itself
	}
	selForm := genSelect(rt, m, o, true)
	sel := m.selection(o)

	free := append([]rowKey(nil), m.Rows...)
	var keys []kv // key set shared by the rows of a map create
	if isMap {
		// domain: a map key naming an ignored field is not generated on create paths (see report)
		keys = genKVs(rt, m, autoAny, true, exprNone, 1, "m")
		if len(keys) == 0 { // every field is ignored: nothing a map could name
			isMap = false
			o.Kind = map[string]string{"create-map": "create", "create-maps": "create-slice"}[o.Kind]
		}
	}
	for r := 0; r < n; r++ {
		row := createRow{}
		switch k := rapid.IntRange(0, 5).Draw(rt, "newkey"); {
		case k <= 1 && m.NK == 1:
			row.PK = 0
		case k <= 2 || !hit || len(free) == 0:
			row.PK = 100 + int64(r)
			if m.NK == 2 {
				row.PK2 = m.revValue(int64(rapid.IntRange(0, 3).Draw(rt, "newrev")))
			}
		default:
			j := rapid.IntRange(0, len(free)-1).Draw(rt, "hit")
			row.PK, row.PK2 = free[j].ID, free[j].Rev
			free = append(free[:j], free[j+1:]...)
		}
		if isMap {
			for _, e := range keys {
				row.Keys = append(row.Keys, kv{Key: e.Key, F: e.F, V: genVal(rt, m, e.F, exprCreate, fmt.Sprintf("r%d.f%d", r, e.F))})
			}
			if row.PK != 0 {
				row.Keys = append(row.Keys, kv{Key: spell(rt, m.Fields[0], "keykey"), F: 0, V: gval{Cell: row.PK}})
			}
			if m.NK == 2 {
				row.Keys = append(row.Keys, kv{Key: spell(rt, m.Fields[1], "keykey2"), F: 1, V: gval{Cell: row.PK2, Zero: isZeroCell(row.PK2)}})
			}
		} else {
			row.Vals = genStructVals(rt, m, fmt.Sprintf("r%d", r))
		}
		o.Rows = append(o.Rows, row)
	}
	if isMap && n > 1 {
		// rows of one map batch share their key set: all carry a key or none does
		any0, anyK := false, false
		for _, r := range o.Rows {
			any0 = any0 || r.PK == 0
			anyK = anyK || r.PK != 0
		}
		if any0 && anyK {
			for i := range o.Rows {
				if o.Rows[i].PK == 0 {
					o.Rows[i].PK = 200 + int64(i)
					o.Rows[i].Keys = append(o.Rows[i].Keys, kv{Key: "id", F: 0, V: gval{Cell: o.Rows[i].PK}})
				}
			}
		}
	}
	if !isMap && n > 1 {
		// domain (SQLite): a multi-row INSERT cannot say DEFAULT for one element only, so the elements of
		// one batch carry a value for a database-default column either all or none
		for i, f := range m.Fields {
			if f.DBDefault == "" {
				continue
			}
			var first *gval
			for _, r := range o.Rows {
				if g, ok := r.Vals[i]; ok && first == nil {
					g := g
					first = &g
				}
			}
			if first != nil {
				for _, r := range o.Rows {
					if _, ok := r.Vals[i]; !ok {
						r.Vals[i] = *first
					}
				}
			}
		}
	}
	if predict(m, &table{rows: map[rkey][]cell{}}, o).empty {
		// domain: a row that proposes no column at all ("INSERT .. DEFAULT VALUES": one row whatever
		// the batch size, and no ON CONFLICT clause in SQLite) - drop Select/Omit, then give keys
		o.Select, o.Omit, selForm = nil, nil, "none"
		sel = m.selection(o)
		if !isMap && n > 1 {
			// domain (SQLite): a multi-row INSERT cannot say DEFAULT for one element only, so the elements of
			// one batch carry a value for a database-default column either all or none
			for i, f := range m.Fields {
				if f.DBDefault == "" {
					continue
				}
				var first *gval
				for _, r := range o.Rows {
					if g, ok := r.Vals[i]; ok && first == nil {
						g := g
						first = &g
					}
				}
				if first != nil {
					for _, r := range o.Rows {
						if _, ok := r.Vals[i]; !ok {
							r.Vals[i] = *first
						}
					}
				}
			}
		}
		if predict(m, &table{rows: map[rkey][]cell{}}, o).empty {
			for i := range o.Rows {
				o.Rows[i].PK = 300 + int64(i)
				if isMap {
					o.Rows[i].Keys = append(o.Rows[i].Keys, kv{Key: "id", F: 0, V: gval{Cell: o.Rows[i].PK}})
				}
			}
		}
	}
	if o.Conflict == "doupdates" || o.Conflict == "doassign" {
		// D: the clause names permitted columns of the proposed rows only
		var elig []int
		for i := m.NK; i < len(m.Fields); i++ {
			known, cre, upd := m.Fields[i].perms()
			if !known || !cre || !upd || sel.omit[i] || !sel.in(i) || m.Fields[i].DBDefault != "" || (o.Conflict == "doassign" && m.Fields[i].serialized()) {
				continue
			}
			if isMap {
				has := false
				for _, e := range keys {
					has = has || e.F == i
				}
				if !has {
					continue
				}
			}
			elig = append(elig, i)
		}
		for _, i := range elig {
			if rapid.Bool().Draw(rt, "docol") {
				o.DoCols = append(o.DoCols, i)
			}
		}
		if len(o.DoCols) == 0 && len(elig) > 0 {
			o.DoCols = []int{rapid.SampledFrom(elig).Draw(rt, "docol1")}
		}
		if len(o.DoCols) == 0 {
			o.Conflict = "nothing"
		}
		if o.Conflict == "doassign" {
			o.DoVals = map[int]gval{}
			for _, i := range o.DoCols {
				o.DoVals[i] = genVal(rt, m, i, exprNone, fmt.Sprintf("doval%d", i))
			}
		}
	}
	return selForm
}

// ---- execution through gorm -----------------------------------------------------------------

// subq marks a value that is a sub-query handle; mapOf turns it into a *gorm.DB.
type subq struct{ col string }

func goValue(m *model, fi int, g gval) interface{} {
	f := m.Fields[fi]
	if g.Expr != nil {
		switch {
		case g.Expr.Max:
			return subq{m.Fields[g.Expr.Src].Col}
		case g.Expr.Src < 0:
			return gorm.Expr("? + ?", int64(90000), g.Expr.N)
		}
		return gorm.Expr("`"+m.Fields[g.Expr.Src].Col+"` + ?", g.Expr.N)
	}
	switch f.Kind {
	case kInt, kFloat:
		return reflect.ValueOf(g.Cell).Convert(f.goType()).Interface()
	case kBool:
		return g.Cell.(int64) != 0
	case kPString:
		if g.Cell == nil {
			return (*string)(nil)
		}
		s := g.Cell.(string)
		return &s
	case kPInt:
		if g.Cell == nil {
			return (*int64)(nil)
		}
		x := g.Cell.(int64)
		return &x
	case kNullStr:
		if g.Cell == nil {
			return sql.NullString{}
		}
		return sql.NullString{String: g.Cell.(string), Valid: true}
	case kPTime:
		if g.Cell == nil {
			return (*time.Time)(nil)
		}
		t := g.Cell.(time.Time)
		return &t
	case kJSON:
		var v jsonVal
		if err := json.Unmarshal([]byte(g.Cell.(string)), &v); err != nil {
			panic("harness: json value: " + err.Error())
		}
		return v
	case kUnixtime:
		return g.Cell.(time.Time).Unix()
	case kMoney:
		return moneyOf(g.Cell)
	}
	return g.Cell
}

func (m *model) newValue(pk int64, pk2 cell, vals map[int]gval) reflect.Value {
	p := reflect.New(m.Typ)
	v := p.Elem()
	m.fieldOf(v, 0).SetInt(pk)
	if m.NK == 2 {
		switch x := pk2.(type) {
		case int64:
			m.fieldOf(v, 1).SetInt(x)
		case string:
			m.fieldOf(v, 1).SetString(x)
		}
	}
	for i, g := range vals {
		m.fieldOf(v, i).Set(reflect.ValueOf(goValue(m, i, g)))
	}
	if m.EmbPtr && m.embTyp != nil && vals != nil {
		// domain: a value struct always carries its embedded struct (what gorm writes for the members of a
		// nil embedded pointer - NULL or the zero value - is not documented)
		if e := v.Field(m.embIdx); e.IsNil() {
			e.Set(reflect.New(m.embTyp))
		}
	}
	return p
}

// modelValue is what the chain passes to Model(): a key struct or a slice of key structs.
func modelValue(m *model, o *op) interface{} {
	if o.ModelKeys == nil {
		return m.newValue(o.PK, o.PK2, nil).Interface()
	}
	if o.KeysPtr {
		sl := reflect.New(reflect.SliceOf(reflect.PtrTo(m.Typ)))
		for _, k := range o.ModelKeys {
			sl.Elem().Set(reflect.Append(sl.Elem(), m.newValue(k.ID, k.Rev, nil)))
		}
		return sl.Interface()
	}
	sl := reflect.New(reflect.SliceOf(m.Typ))
	for _, k := range o.ModelKeys {
		sl.Elem().Set(reflect.Append(sl.Elem(), m.newValue(k.ID, k.Rev, nil).Elem()))
	}
	return sl.Interface()
}

func mapOf(db *gorm.DB, m *model, kvs []kv) map[string]interface{} {
	out := map[string]interface{}{}
	for _, e := range kvs {
		v := goValue(m, e.F, e.V)
		switch p := v.(type) {
		case *string:
			if p == nil {
				v = nil
			}
		case *int64:
			if p == nil {
				v = nil
			}
		case *time.Time:
			if p == nil {
				v = nil
			}
		case subq:
			v = db.Session(&gorm.Session{NewDB: true}).Table(tableName).Select("max(`" + p.col + "`)")
		}
		out[e.Key] = v
	}
	return out
}

type ctxKey struct{}

// run executes the operation on a handle with the drawn history.
func run(d *testdb.DB, m *model, o *op) error {
	base := d.DB
	if o.SetCol != nil {
		name, val := o.SetCol.Key, goValue(m, o.SetCol.F, o.SetCol.V)
		fn := func(tx *gorm.DB) {
			if tx.Statement.Schema != nil {
				tx.Statement.SetColumn(name, val)
			}
		}
		var err error
		if o.isCreate() {
			err = base.Callback().Create().Before("gorm:create").Register("c10:setcolumn", fn)
		} else {
			err = base.Callback().Update().Before("gorm:update").Register("c10:setcolumn", fn)
		}
		if err != nil {
			panic("harness: register callback: " + err.Error())
		}
	}
	if o.Hist.Context {
		base = base.WithContext(context.WithValue(context.Background(), ctxKey{}, "c10"))
	}
	switch o.Hist.Handle {
	case "transaction":
		return base.Transaction(func(tx *gorm.DB) error { return exec(tx, m, o) })
	case "begin-commit":
		tx := base.Begin()
		if tx.Error != nil {
			panic("harness: begin: " + tx.Error.Error())
		}
		if err := exec(tx, m, o); err != nil {
			tx.Rollback()
			return err
		}
		return tx.Commit().Error
	}
	return exec(base, m, o)
}

func exec(db *gorm.DB, m *model, o *op) error {
	tx := db.Table(tableName)
	applySel := func(tx *gorm.DB) *gorm.DB {
		if o.Select != nil {
			if o.Hist.SelectSlice {
				tx = tx.Select(append([]string(nil), o.Select...))
			} else {
				rest := make([]interface{}, len(o.Select)-1)
				for i, s := range o.Select[1:] {
					rest[i] = s
				}
				tx = tx.Select(o.Select[0], rest...)
			}
		}
		if o.Omit != nil {
			if o.Hist.OmitSep != "" {
				tx = tx.Omit(strings.Join(o.Omit, o.Hist.OmitSep))
			} else {
				tx = tx.Omit(o.Omit...)
			}
		}
		return tx
	}
	if o.Hist.SharedSel {
		// the reusable-handle pattern: h := db.Select(..).Omit(..).Session(&gorm.Session{}); a write for another
		// model type - same Go field names, every column renamed - evaluates the lists first (its outcome does
		// not matter, it matches no row / fails on the unknown columns)
		tx = applySel(tx).Session(&gorm.Session{})
		w := &model{NK: m.NK, EmbPtr: m.EmbPtr, Fields: append([]field(nil), m.Fields...)}
		for i := range w.Fields {
			if known, _, _ := w.Fields[i].perms(); known && !w.Fields[i].PK {
				w.Fields[i].ColTag = true
				w.Fields[i].Col = "zz_" + strings.ToLower(w.Fields[i].Name)
				if w.Fields[i].Emb {
					w.Fields[i].Col = embPrefix + w.Fields[i].Col
				}
			}
		}
		w.build()
		_ = tx.Model(w.newValue(0, w.revValue(0), nil).Interface()).Where("1 = 0").Updates(map[string]interface{}{m.Fields[m.NK].Name: nil}).Error
	}
	if o.Hist.Decoy {
		// other chains are derived from the same parent and finished first: nothing of them may leak
		parent := tx.Session(&gorm.Session{})
		sink := reflect.New(reflect.SliceOf(m.Typ)).Interface()
		last := m.Fields[len(m.Fields)-1]
		if err := parent.Select("id").Omit(last.Col).Where("1 = 0").Find(sink).Error; err != nil {
			panic("harness: decoy query: " + err.Error())
		}
		if err := parent.Model(m.newValue(0, m.revValue(0), nil).Interface()).Where("1 = 0").Select("*").Omit(last.Name).
			Updates(map[string]interface{}{m.Fields[m.NK].Name: nil}).Error; err != nil {
			panic("harness: decoy update: " + err.Error())
		}
		_ = parent.Clauses(clause.OnConflict{DoNothing: true}).Where("id = ?", -1)
		tx = parent
	}
	if c := o.Cond; c != nil {
		apply := func(tx *gorm.DB) *gorm.DB {
			col := "`" + m.Fields[c.F].Col + "`"
			switch c.Form {
			case "ids":
				return tx.Where("id IN ?", c.IDs)
			case "eq":
				return tx.Where(col+" = ?", c.V)
			case "ne":
				return tx.Where(col+" <> ?", c.V)
			}
			return tx.Where(map[string]interface{}{m.Fields[c.F].Col: c.V})
		}
		if o.Hist.Scopes {
			tx = tx.Scopes(apply)
		} else {
			tx = apply(tx)
		}
	}
	if !o.Hist.SharedSel {
		tx = applySel(tx)
	}
	target := []clause.Column{{Name: "id"}}
	if m.NK == 2 {
		target = append(target, clause.Column{Name: m.Fields[1].Col})
	}
	switch o.Conflict {
	case "nothing":
		tx = tx.Clauses(clause.OnConflict{DoNothing: true})
	case "updateall":
		tx = tx.Clauses(clause.OnConflict{UpdateAll: true})
	case "doupdates":
		cols := make([]string, len(o.DoCols))
		for i, c := range o.DoCols {
			cols[i] = m.Fields[c].Col
		}
		tx = tx.Clauses(clause.OnConflict{Columns: target, DoUpdates: clause.AssignmentColumns(cols)})
	case "doassign":
		lit := map[string]interface{}{}
		for _, c := range o.DoCols {
			lit[m.Fields[c].Col] = goValue(m, c, o.DoVals[c])
		}
		tx = tx.Clauses(clause.OnConflict{Columns: target, DoUpdates: clause.Assignments(lit)})
	}
	if o.Hist.Returning {
		tx = tx.Clauses(clause.Returning{})
	}
	if o.Hist.SkipHooks {
		tx = tx.Session(&gorm.Session{SkipHooks: true})
	}
	mapArg := func(kvs []kv) interface{} {
		mp := mapOf(db, m, kvs)
		if o.Form == "ptr-map" {
			return &mp
		}
		return mp
	}

	switch o.Kind {
	case "updates-struct", "updatecolumns-struct":
		var val interface{}
		switch o.Mode {
		case "model+value", "model+pointer", "model+other":
			tx = tx.Model(modelValue(m, o))
			vk, vk2 := int64(0), m.revValue(0)
			if len(o.Select) == 1 && o.Select[0] == "*" {
				vk, vk2 = o.PK, o.PK2 // see genOp: with "*" the separate value carries the model's key
			}
			v := m.newValue(vk, vk2, o.Struct)
			if o.Mode == "model+other" {
				w := &model{NK: m.NK, EmbPtr: m.EmbPtr, Fields: append([]field(nil), m.Fields...)}
				for i := range w.Fields {
					w.Fields[i].Perm = o.Other[i]
					if known, _, _ := w.Fields[i].perms(); !known {
						w.Fields[i].ColTag = false // an ignored field carries no column tag
					} else if w.Fields[i].baseCol() != naming.ColumnName("", w.Fields[i].Name) {
						w.Fields[i].ColTag = true // same physical column as the model's field
					}
				}
				w.build()
				v = w.newValue(vk, vk2, o.Struct)
			}
			if o.Mode != "model+pointer" {
				val = v.Elem().Interface()
			} else {
				val = v.Interface()
			}
		case "pointer":
			val = m.newValue(o.PK, o.PK2, o.Struct).Interface()
		case "value":
			val = m.newValue(o.PK, o.PK2, o.Struct).Elem().Interface()
		case "same":
			v := m.newValue(o.PK, o.PK2, o.Struct)
			tx = tx.Model(v.Interface())
			val = v.Interface()
		}
		if o.Kind == "updates-struct" {
			return tx.Updates(val).Error
		}
		return tx.UpdateColumns(val).Error
	case "updates-map":
		return tx.Model(modelValue(m, o)).Updates(mapArg(o.Map)).Error
	case "updatecolumns-map":
		return tx.Model(modelValue(m, o)).UpdateColumns(mapArg(o.Map)).Error
	case "update":
		return tx.Model(modelValue(m, o)).Update(o.Map[0].Key, mapOf(db, m, o.Map)[o.Map[0].Key]).Error
	case "updatecolumn":
		return tx.Model(modelValue(m, o)).UpdateColumn(o.Map[0].Key, mapOf(db, m, o.Map)[o.Map[0].Key]).Error
	case "firstorcreate-map", "firstorcreate-struct":
		if o.ExplicitModel {
			tx = tx.Model(m.newValue(0, m.revValue(0), nil).Interface())
		}
		var assign interface{} = mapOf(db, m, o.Map)
		if o.Kind == "firstorcreate-struct" {
			assign = m.newValue(0, m.revValue(0), o.Struct).Elem().Interface()
		}
		return tx.Assign(assign).FirstOrCreate(reflect.New(m.Typ).Interface()).Error
	case "save":
		return tx.Save(m.newValue(o.PK, o.PK2, o.Struct).Interface()).Error
	case "create":
		return tx.Create(m.newValue(o.Rows[0].PK, o.Rows[0].PK2, o.Rows[0].Vals).Interface()).Error
	case "create-slice", "create-batches", "save-slice":
		var sl reflect.Value
		switch o.Form {
		case "ptr-elems":
			sl = reflect.New(reflect.SliceOf(reflect.PtrTo(m.Typ)))
			for _, r := range o.Rows {
				sl.Elem().Set(reflect.Append(sl.Elem(), m.newValue(r.PK, r.PK2, r.Vals)))
			}
		case "array":
			sl = reflect.New(reflect.ArrayOf(len(o.Rows), m.Typ))
			for i, r := range o.Rows {
				sl.Elem().Index(i).Set(m.newValue(r.PK, r.PK2, r.Vals).Elem())
			}
		default:
			sl = reflect.New(reflect.SliceOf(m.Typ))
			for _, r := range o.Rows {
				sl.Elem().Set(reflect.Append(sl.Elem(), m.newValue(r.PK, r.PK2, r.Vals).Elem()))
			}
		}
		if o.Kind == "create-slice" {
			return tx.Create(sl.Interface()).Error
		}
		if o.Kind == "save-slice" {
			return tx.Save(sl.Interface()).Error
		}
		return tx.CreateInBatches(sl.Interface(), o.Batch).Error
	case "create-map":
		return tx.Model(m.newValue(0, m.revValue(0), nil).Interface()).Create(mapArg(o.Rows[0].Keys)).Error
	case "create-maps":
		var ms []map[string]interface{}
		for _, r := range o.Rows {
			ms = append(ms, mapOf(db, m, r.Keys))
		}
		// &ms, not ms: with a RETURNING dialect gorm.Scan cannot back-fill a non-pointer []map (an
		// error, no write - outside this property; see COVERAGE.md)
		return tx.Model(m.newValue(0, m.revValue(0), nil).Interface()).Create(&ms).Error
	}
	panic("harness: op kind " + o.Kind)
}

// ---- the property ---------------------------------------------------------------------------

const ruleText = "C10: a model type built with reflect.StructOf (integer key + 3-8 data fields of kind int/string/bool/float/*string, " +
	"random permission tags <-:create, <-:update, <-:false, <-, ->, ->:false, ->;<-:create, ->;<-:update, ->:false;<-:create, -, -:all, -:migration, " +
	"optional column: tags, optional default:(expr) tags with the same DEFAULT in the DDL, 0-2 tracked time fields by name or autoUpdateTime/autoCreateTime[:milli|:nano] tag; " +
	"one model in four has a composite key ID+Rev (integer or string, not auto-incremented) with rows sharing key members and revision zero as an ordinary value) over a table made by raw DDL with a column for every field " +
	"and 3-6 rows of unique sentinel cells; one write (Updates struct/map, Update, UpdateColumn, UpdateColumns struct/map, Save, Create, Create slice, CreateInBatches, " +
	"Create map/maps, Save of a slice, each create also as upsert DoNothing/UpdateAll/DoUpdates; FirstOrCreate with Assign(map|struct) on a found record, with and without an explicit zero-key Model()) with a Select/Omit form (none, list by field name or column name, '*', Omit, combinations), " +
	"zero, non-zero and gorm.Expr values, and a model key (composite: possibly with exactly one zero member; or a slice of 2-4 key structs, Model(&[]T{..})) and/or a Where condition; the table after the write must equal, cell by cell, the table predicted by an independent " +
	"model of the statement. non-trivial = a field with a restricting tag is given a value, a zero value is given, and the rows the write may touch are a non-empty strict subset; " +
	"further dimensions (COVERAGE.md): Go type shapes (int/int32/uint/float32, *int64, sql.NullString, *time.Time, embedded struct value/pointer with prefix), parsed and null defaults, " +
	"value shapes ([]*T, arrays, *map, Model(&[]*T)), Select([]string), Omit(\"a,b\"), table-qualified column names, sub-query handles and literal expressions as values, DoUpdates with literal assignments, " +
	"clause.Returning, Statement.SetColumn from a registered callback, Session{SkipHooks}, conditions through Scopes, WithContext, a Session parent on which other chains were finished first, " +
	"Transaction / Begin-Commit, Config SkipDefaultTransaction / PrepareStmt / CreateBatchSize, batches up to 25 rows (thorough). " +
	"distinct = model + row keys + operation. Not generated (documentation silent): FirstOrCreate on composite keys, with Select/Omit, or with no matching row (C16), Select('*') with a slice model, updates with neither key nor condition (C09), key collisions without an OnConflict clause (C05), " +
	"Select('*') with a separate value whose key is zero, a hook-running map update that gives a tracked update-time field a nil value, a create-from-map key that names an ignored field, " +
	"rows that propose no column, DoUpdates naming a denied column; batches mixing zero and non-zero values of a default:(expr) column (SQLite has no DEFAULT keyword in VALUES); accepted either way: rows matching only the non-zero member of a partly zero composite key (update paths), the row matching a partly zero composite key exactly under Save (updated, or rejected by the insert path), tracked time cells of created rows that a Select list / a map does not name, and the creation time under UpdateAll"

type caseInfo struct {
	restrictedGiven, zeroGiven bool
	classes                    map[string]bool
}

func analyse(m *model, o *op, selForm string) caseInfo {
	ci := caseInfo{classes: map[string]bool{}}
	note := func(i int, g gval) {
		f := m.Fields[i]
		if g.Zero {
			ci.zeroGiven = true
			return
		}
		if f.restricted() {
			ci.restrictedGiven = true
			ci.classes["given-tag:"+f.Perm] = true
		}
		if g.Expr != nil {
			switch {
			case g.Expr.Max:
				ci.classes["value:subquery-handle"] = true
			case g.Expr.Src < 0:
				ci.classes["value:expr-in-create-map"] = true
			default:
				ci.classes["value:expr"] = true
			}
		}
	}
	structVals := func(vals map[int]gval) {
		for i := m.NK; i < len(m.Fields); i++ {
			if g, ok := vals[i]; ok {
				note(i, g)
			} else {
				ci.zeroGiven = true
			}
		}
	}
	if o.Struct != nil {
		structVals(o.Struct)
	}
	for _, e := range o.Map {
		note(e.F, e.V)
		if m.Fields[e.F].Auto == "update" && o.hooks() && !strings.HasPrefix(o.Kind, "firstorcreate") {
			ci.classes["map-gives-tracked-update-time"] = true
		}
	}
	for _, r := range o.Rows {
		if r.Keys != nil {
			for _, e := range r.Keys {
				if e.F != 0 {
					note(e.F, e.V)
				}
			}
		} else {
			structVals(r.Vals)
		}
	}
	for _, f := range m.Fields[m.NK:] {
		t := f.Perm
		if t == "" {
			t = "none"
		}
		ci.classes["tag:"+t] = true
		if f.Auto != "" {
			how := "by-name"
			if f.AutoTag != "" {
				how = f.AutoTag
			}
			ci.classes["tracked:"+f.Auto+":"+how+":"+f.Kind.String()] = true
			if f.Perm != "" {
				ci.classes["tracked-with-tag"] = true
			}
		}
		if f.ColTag {
			ci.classes["column-tag"] = true
		}
		shape := f.Kind.String()
		if f.GoType != "" {
			shape = "go-" + f.GoType
		}
		ci.classes["type:"+shape] = true
		if f.Auto == "" && f.AutoTag != "" {
			ci.classes["tracking-off:"+f.Name+":"+f.AutoTag+":"+f.Kind.String()] = true
		}
		if f.GoDefault != nil {
			ci.classes["default:parsed-value"] = true
		}
		if f.DBDefault == "null" {
			ci.classes["default:null"] = true
		}
		if f.Dup {
			ci.classes["duplicate-go-name"] = true
		}
		if f.Emb && m.EmbPerm != "" {
			ci.classes["embedded:outer-tag:"+m.EmbPerm] = true
			if f.Perm != "" {
				ci.classes["embedded:outer-tag+inner-tag"] = true
			}
		}
		if f.Emb {
			if m.EmbPtr {
				ci.classes["embedded:pointer"] = true
			} else {
				ci.classes["embedded:value"] = true
			}
		}
		if f.DBDefault != "" {
			ci.classes["db-default-expr"] = true
			if f.restricted() {
				ci.classes["db-default-expr:restricted"] = true
			}
		}
	}
	ci.classes["op:"+o.Kind] = true
	if m.NoRet {
		ci.classes["dialect:no-returning"] = true
	}
	if o.Mode != "" {
		ci.classes["struct-mode:"+o.Mode] = true
	}
	ci.classes["select:"+selForm] = true
	for _, lst := range [][]string{o.Select, o.Omit} {
		for _, n := range lst {
			if n == "*" {
				continue
			}
			isField := false
			for _, f := range m.Fields {
				isField = isField || f.Name == n
			}
			if isField {
				ci.classes["spelling:field-name"] = true
			} else {
				ci.classes["spelling:column"] = true
			}
		}
	}
	if o.Conflict != "" {
		ci.classes["upsert:"+o.Conflict] = true
	}
	if o.ExplicitModel {
		ci.classes["firstorcreate:explicit-model"] = true
	}
	if h := o.Hist; true {
		for _, x := range []struct {
			on   bool
			name string
		}{{h.Handle != "", "history:" + h.Handle}, {h.SharedSel, "history:shared-select-handle"}, {h.Decoy, "history:session-parent+decoys"}, {h.Context, "history:with-context"},
			{h.Scopes, "history:cond-via-scopes"}, {h.SkipHooks, "history:Session{SkipHooks}"}, {h.Returning, "clause:Returning"},
			{h.SelectSlice, "select-arg:[]string"}, {h.OmitSep != "", "omit-arg:comma-string"}, {strings.Contains(h.OmitSep, " "), "omit-arg:comma-string-with-blanks"}, {o.Form != "", "form:" + o.Form}, {o.KeysPtr, "form:model-[]*T"},
			{o.SetCol != nil, "callback:SetColumn"}, {m.SkipDefaultTx, "config:SkipDefaultTransaction"}, {m.PrepareStmt, "config:PrepareStmt"},
			{m.CreateBatchSize > 0, "config:CreateBatchSize"}, {len(o.Rows) > 4, "size:batch>4"}} {
			if x.on {
				ci.classes[x.name] = true
			}
		}
	}
	for _, lst := range [][]string{o.Select, o.Omit} {
		for _, n := range lst {
			if strings.HasPrefix(n, tableName+".") {
				ci.classes["spelling:table.column"] = true
			}
		}
	}
	if m.NK == 2 {
		ci.classes["key:composite-"+m.Fields[1].Kind.String()] = true
		if !o.isCreate() && (o.PK == 0) != isZeroCell(o.PK2) {
			ci.classes["key:one-member-zero"] = true
		}
	}
	if !o.isCreate() {
		switch {
		case o.ModelKeys != nil:
			ci.classes["target:key-slice"] = true
			if o.Cond != nil {
				ci.classes["target:key-slice+where"] = true
			}
		case o.PK != 0 && o.Cond != nil:
			ci.classes["target:key+where-"+o.Cond.Form] = true
		case o.PK != 0:
			ci.classes["target:key"] = true
		case o.Cond == nil:
			ci.classes["target:none(save creates)"] = true
		default:
			ci.classes["target:where-"+o.Cond.Form] = true
		}
	}
	return ci
}

// saveConditionMiss: Save of a value whose row exists but fails the chain's condition.
func saveConditionMiss(before *table, o *op) bool {
	if o.Kind != "save" || o.PK == 0 || o.Cond == nil || o.Select != nil || (o.PK2 != nil && isZeroCell(o.PK2)) {
		return false
	}
	var m model
	m.NK = 1
	if o.PK2 != nil {
		m.NK = 2
	}
	row, ok := before.rows[m.keyOf(o.PK, o.PK2)]
	return ok && !o.Cond.matches(row)
}

func checkCase(rt *rapid.T, m *model, o *op, selForm string) {
	desc := m.String() + " :: " + o.render(m)
	evid.Journal(desc)
	d := openTable(m)
	defer d.Close()
	before := snapshot(d, m)
	if len(before.rows) != len(m.Rows) {
		rt.Fatalf("harness: seeded %d rows, table holds %d", len(m.Rows), len(before.rows))
	}
	if saveConditionMiss(before, o) && harness.OpenClass("C10", "save-condition-miss") {
		evid.Excluded("save-condition-miss")
		return
	}
	p := predict(m, before, o)
	err := func() (err error) {
		defer func() {
			if r := recover(); r != nil {
				err = fmt.Errorf("panic inside gorm: %v", r)
			}
		}()
		return run(d, m, o)
	}()
	if err != nil && strings.HasPrefix(err.Error(), "panic inside gorm") {
		// the statement's cursor / transaction may still be open: no snapshot
		rt.Fatalf("C10 violated: %v\n  model: %s\n  operation: %s\n  case: %s", err, m, o.render(m), desc)
	}
	after := snapshot(d, m)

	ci := analyse(m, o, selForm)
	n := len(before.rows)
	switch {
	case p.targeted == 0 && p.inserted == 0:
		ci.classes["rows:none"] = true
	case p.targeted == n:
		ci.classes["rows:all"] = true
	case p.targeted > 0:
		ci.classes["rows:strict-subset"] = true
	}
	if p.inserted > 0 {
		ci.classes["rows:inserted"] = true
	}
	strict := (p.targeted > 0 && p.targeted < n) || (p.targeted == 0 && p.inserted > 0)
	var cl []string
	for k := range ci.classes {
		cl = append(cl, k)
	}
	sort.Strings(cl)
	evid.Case(desc, ci.restrictedGiven && ci.zeroGiven && strict, nil, cl...)

	fail := func(what string) {
		rt.Fatalf("C10 violated: %s\n  model: %s\n  operation: %s\n  table before:%s\n  table after:%s\n  predicted:%s\n  case: %s",
			what, m, o.render(m), before.render(m), after.render(m), p.want.render(m), desc)
	}
	if err != nil && !p.errOK {
		fail(fmt.Sprintf("the write returned an error the property does not allow: %v", err))
	}
	if ds := diff(m, p.want, after); len(ds) > 0 {
		fail("the table differs from the predicted write set: " + strings.Join(ds, "; "))
	}
}

func TestC10(t *testing.T) {
	evid.Rule(ruleText)
	evid.Assume("the column named by gorm's NamingStrategy is the physical column of an ignored field")
	evid.Assume("a bare -> or ->:false tag removes write permission (as -> does in the documented permission table); -:migration leaves it")
	evid.Assume("Save with a non-zero key sets tracked update-time fields to the current time also when it ends up inserting (documented for Save)")
	rapid.Check(t, func(rt *rapid.T) {
		m := genModel(rt)
		o, selForm := genOp(rt, m)
		checkCase(rt, m, o, selForm)
	})
}

// ---- witnesses of open findings -----------------------------------------------------------------

type witnessItem struct {
	ID   int64 `gorm:"primaryKey"`
	Name string
	Qty  int64
}

// Where(cond).Save(&v): the row with v's key exists but fails cond. Save's UPDATE matches no row
// (correct), then Save falls back to INSERT .. ON CONFLICT DO UPDATE, which ignores the chain's
// condition and overwrites the row.
func TestC10WitnessSaveConditionMiss(t *testing.T) {
	d := testdb.Open(testdb.Options{Config: gorm.Config{NowFunc: func() time.Time { return nowTime }}})
	defer d.Close()
	if _, err := d.SQL.Exec("CREATE TABLE c10_w (id integer PRIMARY KEY, name text, qty integer); INSERT INTO c10_w VALUES (1,'a',10),(2,'b',20)"); err != nil {
		t.Fatalf("harness: %v", err)
	}
	if err := d.DB.Table("c10_w").Where("qty = ?", 999).Save(&witnessItem{ID: 1, Name: "x", Qty: 5}).Error; err != nil {
		t.Fatalf("C10 violated: Where(qty = 999).Save(&{ID:1}) returned %v", err)
	}
	var name string
	var qty int64
	if err := d.SQL.QueryRow("SELECT name, qty FROM c10_w WHERE id = 1").Scan(&name, &qty); err != nil {
		t.Fatalf("harness: %v", err)
	}
	if name != "a" || qty != 10 {
		t.Errorf("C10 violated: Table(c10_w).Where(\"qty = ?\", 999).Save(&{ID:1, Name:x, Qty:5}) changed row id=1, which does not match the condition (qty is 10): row now holds name=%q qty=%d, want name=\"a\" qty=10", name, qty)
	}
}

type witnessDflt struct {
	ID   int64 `gorm:"primaryKey"`
	Name string
	Code string `gorm:"default:(lower('X'));->:false;<-:create"`
}

// Batch create with ON CONFLICT DO NOTHING on a RETURNING dialect, the model having a database-default
// column without read permission: gorm.Scan keeps a nil entry for the unreadable RETURNING column and
// dereferences it in its DO NOTHING bookkeeping (scan.go, "field.ValueOf" on a nil field) - a panic
// that also leaves the statement's cursor and transaction open.
func TestC10WitnessDoNothingUnreadableDefault(t *testing.T) {
	d := testdb.Open(testdb.Options{Config: gorm.Config{NowFunc: func() time.Time { return nowTime }}})
	defer d.Close()
	if _, err := d.SQL.Exec("CREATE TABLE c10_w2 (id integer PRIMARY KEY, name text, code text DEFAULT (lower('X')))"); err != nil {
		t.Fatalf("harness: %v", err)
	}
	var err error
	func() {
		defer func() {
			if r := recover(); r != nil {
				err = fmt.Errorf("panic inside gorm: %v", r)
			}
		}()
		rows := []witnessDflt{{Name: "a"}, {Name: "b"}}
		err = d.DB.Table("c10_w2").Clauses(clause.OnConflict{DoNothing: true}).Create(&rows).Error
	}()
	if err != nil {
		t.Fatalf("C10 violated: Clauses(OnConflict{DoNothing}).Create(&[]T{{Name:a},{Name:b}}) with T.Code `default:(lower('X'));->:false;<-:create`: %v", err)
	}
	var n int
	if err := d.SQL.QueryRow("SELECT count(*) FROM c10_w2 WHERE code = 'x'").Scan(&n); err != nil || n != 2 {
		t.Errorf("C10 violated: expected two new rows holding the column default, found %d (%v)", n, err)
	}
}

type witnessPair struct {
	ID   int64  `gorm:"primaryKey;autoIncrement:false"`
	Rev  int64  `gorm:"primaryKey;autoIncrement:false"`
	Code string `gorm:"default:(lower('X'));->:false;<-:create"`
}

// Create on a RETURNING dialect where the RETURNING list is exactly one column and that column has no
// read permission: gorm.Scan has no field for it and scanIntoStruct then scans the single column into
// the whole struct ("unsupported Scan"); the INSERT is rolled back with the error.
func TestC10WitnessReturningSingleUnreadableDefault(t *testing.T) {
	d := testdb.Open(testdb.Options{Config: gorm.Config{NowFunc: func() time.Time { return nowTime }}})
	defer d.Close()
	if _, err := d.SQL.Exec("CREATE TABLE c10_w3 (id integer, rev integer, code text DEFAULT (lower('X')), PRIMARY KEY (id, rev))"); err != nil {
		t.Fatalf("harness: %v", err)
	}
	if err := d.DB.Table("c10_w3").Create(&witnessPair{ID: 1, Rev: 1}).Error; err != nil {
		t.Fatalf("C10 violated: Create(&T{ID:1, Rev:1}) with T.Code `default:(lower('X'));->:false;<-:create` (the only RETURNING column): %v", err)
	}
	var n int
	if err := d.SQL.QueryRow("SELECT count(*) FROM c10_w3 WHERE code = 'x'").Scan(&n); err != nil || n != 1 {
		t.Errorf("C10 violated: expected one new row holding the column default, found %d (%v)", n, err)
	}
}

// The documented batch insert from maps, db.Model(&T{}).Create([]map[string]interface{}{...}), on a
// RETURNING dialect: gorm.Scan has a case for *[]map but none for []map, so the RETURNING row is scanned
// into a map element ("unsupported Scan", the INSERT is rolled back). With Config.CreateBatchSize the
// pointer form reaches the same code (CreateInBatches hands sub-slices on by value) and panics.
func TestC10WitnessCreateMapsReturning(t *testing.T) {
	d := testdb.Open(testdb.Options{Config: gorm.Config{NowFunc: func() time.Time { return nowTime }}})
	defer d.Close()
	if _, err := d.SQL.Exec("CREATE TABLE c10_w (id integer PRIMARY KEY, name text, qty integer)"); err != nil {
		t.Fatalf("harness: %v", err)
	}
	var err error
	func() {
		defer func() {
			if r := recover(); r != nil {
				err = fmt.Errorf("panic inside gorm: %v", r)
			}
		}()
		err = d.DB.Table("c10_w").Model(&witnessItem{}).Create([]map[string]interface{}{{"Name": "a", "Qty": 1}, {"Name": "b", "Qty": 2}}).Error
	}()
	if err != nil {
		t.Fatalf("C10 violated: Model(&Item{}).Create([]map[string]interface{}{{Name:a,Qty:1},{Name:b,Qty:2}}): %v", err)
	}
	var n int
	if err := d.SQL.QueryRow("SELECT count(*) FROM c10_w").Scan(&n); err != nil || n != 2 {
		t.Errorf("C10 violated: expected two new rows, found %d (%v)", n, err)
	}
}

// ---- round 6 ---------------------------------------------------------------------------------------
//
// Not a finding (decided against C02's statement): Model(&Item{ID:4}).Where(a).Or(b).Update(..) builds
// `a OR b AND id = 4`. The units of a chain - the model value's primary key included - combine left to
// right with AND/OR under SQL precedence, so "the chain's conditions and the key" IS a OR (b AND key).
// This check generates no Or; if it ever does, its reference must use that same flat combination.

type witnessInner struct {
	Name string
}

type witnessDupName struct {
	ID   int64        `gorm:"primaryKey"`
	Name string       `gorm:"<-:create"`
	Meta witnessInner `gorm:"embedded;embeddedPrefix:meta_"`
}

// An outer create-only field and an embedded field share the Go name: the outer field's denial used to be
// lost for map updates (SelectAndOmitColumns walked Schema.FieldsByName, one field per Go name). Repaired in
// fb35f8e; regression witness.
func TestC10WitnessDuplicateFieldName(t *testing.T) {
	d := testdb.Open(testdb.Options{Config: gorm.Config{NowFunc: func() time.Time { return nowTime }}})
	defer d.Close()
	if _, err := d.SQL.Exec("CREATE TABLE c10_w4 (id integer PRIMARY KEY, name text, meta_name text); INSERT INTO c10_w4 VALUES (1,'a','m')"); err != nil {
		t.Fatalf("harness: %v", err)
	}
	if err := d.DB.Table("c10_w4").Model(&witnessDupName{ID: 1}).Updates(map[string]interface{}{"name": "x"}).Error; err != nil {
		t.Fatalf("C10 violated: %v", err)
	}
	var name string
	if err := d.SQL.QueryRow("SELECT name FROM c10_w4 WHERE id = 1").Scan(&name); err != nil {
		t.Fatalf("harness: %v", err)
	}
	if name != "a" {
		t.Errorf("C10 violated: Model(&T{ID:1}).Updates(map{\"name\":\"x\"}) wrote the create-only column name (%q); T also embeds a struct with a field called Name", name)
	}
}
