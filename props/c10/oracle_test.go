package c10

// Operations and the independent predictor of their write set. The predictor
// is written from the property statement and gorm's documentation ("Updates
// with struct only updates non-zero fields", "Select/Omit", the field-level
// permission table, "Upsert / On Conflict", "Save"), not from
// callbacks.ConvertToAssignments / ConvertToCreateValues.

import (
	"fmt"
	"sort"
	"strings"
)

// gval is one given value: either a literal (Cell = what the column holds once
// it is written; Zero = it is the Go zero value of the field's type) or
// gorm.Expr("<col of field Src> + ?", N).
type gval struct {
	Zero bool
	Cell cell
	Expr *exprSpec
}

// exprSpec: gorm.Expr("<col of Src> + ?", N); Src < 0: gorm.Expr("? + ?", 90000, N) (no column; create
// maps); Max: the value is a sub-query handle, db.Table(t).Select("max(<col of Src>)").
type exprSpec struct {
	Src int
	N   int64
	Max bool
}

func (g gval) render(m *model) string {
	if g.Expr != nil {
		switch {
		case g.Expr.Max:
			return fmt.Sprintf("SubQuery(max(%s))", m.Fields[g.Expr.Src].Col)
		case g.Expr.Src < 0:
			return fmt.Sprintf("Expr(90000 + %d)", g.Expr.N)
		}
		return fmt.Sprintf("Expr(%s + %d)", m.Fields[g.Expr.Src].Col, g.Expr.N)
	}
	if g.Zero {
		return "zero:" + cellStr(g.Cell)
	}
	return cellStr(g.Cell)
}

// kv is one map entry / the (column, value) pair of Update and UpdateColumn.
type kv struct {
	Key string // as spelled by the caller (field name or column name)
	F   int
	V   gval
}

type cond struct {
	Form string // "ids" (id IN ?), "eq" (col = ?), "ne" (col <> ?), "map" (Where(map{col: v}))
	IDs  []int64
	F    int
	V    cell
}

func (c *cond) render(m *model) string {
	if c == nil {
		return "-"
	}
	switch c.Form {
	case "ids":
		return fmt.Sprintf("id IN %v", c.IDs)
	case "eq":
		return fmt.Sprintf("%s = %s", m.Fields[c.F].Col, cellStr(c.V))
	case "ne":
		return fmt.Sprintf("%s <> %s", m.Fields[c.F].Col, cellStr(c.V))
	}
	return fmt.Sprintf("map{%s: %s}", m.Fields[c.F].Col, cellStr(c.V))
}

func (c *cond) matches(row []cell) bool {
	if c == nil {
		return true
	}
	switch c.Form {
	case "ids":
		id, _ := row[0].(int64)
		for _, x := range c.IDs {
			if x == id {
				return true
			}
		}
		return false
	case "ne":
		return row[c.F] != nil && !cellEq(row[c.F], c.V)
	}
	return row[c.F] != nil && cellEq(row[c.F], c.V)
}

type createRow struct {
	PK   int64
	PK2  cell         // second key member (nil for single-member keys)
	Vals map[int]gval // struct rows: fields that are not listed hold their zero value
	Keys []kv         // map rows (the key, when given, is one of the entries)
}

type op struct {
	// updates-struct | updates-map | update | updatecolumn | updatecolumns-struct | updatecolumns-map |
	// save | create | create-slice | create-batches | create-map | create-maps | save-slice |
	// firstorcreate-map | firstorcreate-struct: [Model(&T{}).]Where(cond).Assign(map|struct).FirstOrCreate(&dest),
	// generated with at least one row matching cond (the found record gets the assigned values)
	Kind string
	// struct updates: "model+value" Model(&m{ID}).Updates(V) | "model+pointer" Model(&m{ID}).Updates(&V) |
	// "pointer" Updates(&V{ID}) | "value" Updates(V{ID}) | "same" Model(&V{ID}).Updates(&V) |
	// "model+other" Model(&m{ID}).Updates(W) with W of a second struct type: same fields and columns, own
	// permission tags (Other, one per field)
	Mode  string
	Other []string
	PK    int64 // primary key of the model value (0 = not set)
	PK2   cell  // second member of a composite key (nil = the model has none)
	// ModelKeys: the model value is a slice of key structs, Model(&[]T{{ID, Rev}, ...}) (update paths)
	ModelKeys []rowKey
	// firstorcreate-*: the chain names its model explicitly, Model(&T{}) with a zero key
	ExplicitModel bool
	Cond          *cond
	Select        []string // nil = no Select call
	Omit          []string
	Struct        map[int]gval
	Map           []kv
	Rows          []createRow
	Batch         int
	Conflict      string // "" | "nothing" | "updateall" | "doupdates" | "doassign" (DoUpdates: clause.Assignments(literals))
	DoCols        []int
	DoVals        map[int]gval // doassign: the literal per column
	// SetCol: a callback registered before gorm:update / gorm:create calls Statement.SetColumn(field, value)
	SetCol *kv
	// Form: the Go shape of the value: "" | "ptr-elems" ([]*T) | "array" ([n]T) | "ptr-map" (*map / Updates(&map))
	Form string
	// KeysPtr: the model slice holds pointers, Model(&[]*T{...})
	KeysPtr bool
	Hist    history
}

// history: how the chain value that runs the finisher came about.
type history struct {
	Handle string // "" | "transaction" (db.Transaction(func)) | "begin-commit"
	// SharedSel: Select/Omit are applied first and frozen in a Session handle; a write for ANOTHER model type
	// (same Go field names, other columns) runs on that handle before the operation does
	SharedSel   bool
	Decoy       bool   // the chain derives from a Session parent on which other chains were built and finished first
	Context     bool   // WithContext
	Scopes      bool   // the condition is applied through Scopes(func)
	SkipHooks   bool   // Session{SkipHooks: true} (Updates / Update: then not a hook-running update)
	Returning   bool   // Clauses(clause.Returning{})
	SelectSlice bool   // Select([]string{...}) instead of Select(a, b...)
	OmitSep     string // Omit("a, b"): one comma separated string with this separator ("" = Omit(a, b))
}

func (h history) String() string {
	var parts []string
	if h.Handle != "" {
		parts = append(parts, h.Handle)
	}
	for _, x := range []struct {
		on   bool
		name string
	}{{h.SharedSel, "shared-select-handle"}, {h.Decoy, "session-parent+decoys"}, {h.Context, "with-context"}, {h.Scopes, "cond-via-scopes"}, {h.SkipHooks, "Session{SkipHooks}"}, {h.Returning, "Returning{}"}, {h.SelectSlice, "select-slice"}, {h.OmitSep != "", fmt.Sprintf("omit-comma-string%q", h.OmitSep)}} {
		if x.on {
			parts = append(parts, x.name)
		}
	}
	return strings.Join(parts, ",")
}

func (o *op) isCreate() bool { return strings.HasPrefix(o.Kind, "create") || o.Kind == "save-slice" }
func (o *op) hooks() bool {
	return !strings.HasPrefix(o.Kind, "updatecolumn") && !o.Hist.SkipHooks
}

func renderVals(m *model, vals map[int]gval) string {
	idx := make([]int, 0, len(vals))
	for i := range vals {
		idx = append(idx, i)
	}
	sort.Ints(idx)
	var parts []string
	for _, i := range idx {
		parts = append(parts, fmt.Sprintf("%s: %s", m.Fields[i].Name, vals[i].render(m)))
	}
	return "{" + strings.Join(parts, ", ") + "}"
}

func renderKVs(m *model, kvs []kv) string {
	var parts []string
	for _, e := range kvs {
		parts = append(parts, fmt.Sprintf("%q: %s", e.Key, e.V.render(m)))
	}
	return "map{" + strings.Join(parts, ", ") + "}"
}

func (o *op) render(m *model) string {
	var b strings.Builder
	b.WriteString(o.Kind)
	if o.Mode != "" {
		b.WriteString("[" + o.Mode + "]")
	}
	if o.Other != nil {
		fmt.Fprintf(&b, " value-type-tags%q", o.Other[1:])
	}
	if !o.isCreate() {
		if o.ExplicitModel {
			b.WriteString(" Model(zero)")
		}
		if o.ModelKeys != nil {
			if o.KeysPtr {
				b.WriteString(" []*T")
			}
			fmt.Fprintf(&b, " keys=%v where(%s)", o.ModelKeys, o.Cond.render(m))
		} else if o.PK2 != nil {
			fmt.Fprintf(&b, " key=(%d,%s) where(%s)", o.PK, cellStr(o.PK2), o.Cond.render(m))
		} else {
			fmt.Fprintf(&b, " key=%d where(%s)", o.PK, o.Cond.render(m))
		}
	}
	if o.Select != nil {
		fmt.Fprintf(&b, " Select%q", o.Select)
	}
	if o.Omit != nil {
		fmt.Fprintf(&b, " Omit%q", o.Omit)
	}
	switch {
	case o.Struct != nil:
		b.WriteString(" " + renderVals(m, o.Struct))
	case o.Map != nil:
		b.WriteString(" " + renderKVs(m, o.Map))
	}
	for _, r := range o.Rows {
		if r.Keys != nil {
			b.WriteString(" " + renderKVs(m, r.Keys))
		} else {
			if r.PK2 != nil {
				fmt.Fprintf(&b, " {ID: %d, Rev: %s, %s}", r.PK, cellStr(r.PK2), renderVals(m, r.Vals))
			} else {
				fmt.Fprintf(&b, " {ID: %d, %s}", r.PK, renderVals(m, r.Vals))
			}
		}
	}
	if o.Batch > 0 {
		fmt.Fprintf(&b, " batch=%d", o.Batch)
	}
	if o.Conflict != "" {
		b.WriteString(" OnConflict{" + o.Conflict)
		for _, c := range o.DoCols {
			b.WriteString(" " + m.Fields[c].Col)
			if g, ok := o.DoVals[c]; ok {
				b.WriteString("=" + g.render(m))
			}
		}
		b.WriteString("}")
	}
	if o.SetCol != nil {
		fmt.Fprintf(&b, " callback:SetColumn(%q, %s)", o.SetCol.Key, o.SetCol.V.render(m))
	}
	if o.Form != "" {
		b.WriteString(" form=" + o.Form)
	}
	if h := o.Hist.String(); h != "" {
		b.WriteString(" history=" + h)
	}
	return b.String()
}

// ---- Select / Omit -------------------------------------------------------------------------

type selection struct {
	has  bool // Select was called
	star bool
	sel  map[int]bool
	omit map[int]bool
}

func (m *model) selection(o *op) selection {
	s := selection{has: o.Select != nil, sel: map[int]bool{}, omit: map[int]bool{}}
	for _, n := range o.Select {
		if n == "*" {
			s.star = true
		} else if i := m.lookup(n); i >= 0 {
			s.sel[i] = true
		}
	}
	for _, n := range o.Omit {
		if i := m.lookup(n); i >= 0 {
			s.omit[i] = true
		}
	}
	return s
}

func (s selection) in(i int) bool    { return !s.has || s.star || s.sel[i] }
func (s selection) list() bool       { return s.has && !s.star }
func (s selection) named(i int) bool { return s.has && (s.star || s.sel[i]) }

// ---- prediction ----------------------------------------------------------------------------

type prediction struct {
	want     *table
	targeted int  // existing rows the operation may change
	inserted int  // new rows
	written  int  // predicted (row, column) writes into existing rows
	wantErr  bool // not used by generated cases (kept for witnesses)
	errOK    bool // the write may fail (then nothing changes) or succeed as predicted
	partial  int  // rows that match the non-zero members of a partly zero key only
	empty    bool // a created row proposes no column at all
}

func evalWrite(t *table, before []cell, g gval) cell {
	if g.Expr == nil {
		return g.Cell
	}
	if g.Expr.Src < 0 {
		return 90000 + g.Expr.N
	}
	if g.Expr.Max {
		// the sub-query sees the table as it was before the statement
		var best cell
		for _, r := range t.rows {
			switch x := r[g.Expr.Src].(type) {
			case int64:
				if b, ok := best.(int64); !ok || x > b {
					best = x
				}
			case float64:
				if b, ok := best.(float64); !ok || x > b {
					best = x
				}
			}
		}
		return best
	}
	switch x := before[g.Expr.Src].(type) {
	case int64:
		return x + g.Expr.N
	case float64:
		return x + float64(g.Expr.N)
	}
	return nil // NULL + n
}

func predict(m *model, before *table, o *op) prediction {
	if o.SetCol != nil {
		// a value set through Statement.SetColumn counts as given by the caller
		c := *o
		c.SetCol = nil
		switch {
		case o.Map != nil:
			c.Map = nil
			for _, e := range o.Map {
				if e.F != o.SetCol.F {
					c.Map = append(c.Map, e)
				}
			}
			c.Map = append(c.Map, *o.SetCol)
		case o.Struct != nil:
			c.Struct = map[int]gval{o.SetCol.F: o.SetCol.V}
			for i, g := range o.Struct {
				if i != o.SetCol.F {
					c.Struct[i] = g
				}
			}
		default:
			c.Rows = nil
			for _, r := range o.Rows {
				vals := map[int]gval{o.SetCol.F: o.SetCol.V}
				for i, g := range r.Vals {
					if i != o.SetCol.F {
						vals[i] = g
					}
				}
				c.Rows = append(c.Rows, createRow{PK: r.PK, PK2: r.PK2, Vals: vals})
			}
		}
		return predict(m, before, &c)
	}
	p := prediction{want: before.clone()}
	sel := m.selection(o)
	if o.Kind == "save-slice" {
		// Save of a slice: every element is inserted or, when its key exists, updated with all its
		// fields; Save sets the tracked update time to the current time (documented for Save)
		rows := make([]createRow, len(o.Rows))
		for r, row := range o.Rows {
			vals := map[int]gval{}
			for i, g := range row.Vals {
				vals[i] = g
			}
			for i, f := range m.Fields {
				if f.Auto == "update" {
					vals[i] = gval{Cell: nowCell(f)}
				}
			}
			rows[r] = createRow{PK: row.PK, PK2: row.PK2, Vals: vals}
		}
		predictCreate(m, &p, o, sel, rows, "updateall")
		return p
	}
	if o.isCreate() {
		predictCreate(m, &p, o, sel, o.Rows, o.Conflict)
		return p
	}

	// the assignments of an update path: field -> value
	writes := map[int]gval{}
	structWrites := func(all bool) {
		for i := m.NK; i < len(m.Fields); i++ {
			f := m.Fields[i]
			known, _, upd := f.perms()
			if !known || !upd || sel.omit[i] {
				continue // never written: ignored, read-only / update denied, or omitted
			}
			if o.Other != nil {
				w := f
				w.Perm = o.Other[i]
				if k2, _, u2 := w.perms(); !k2 || !u2 {
					continue // the value's own type ignores the field or denies updating it
				}
			}
			if o.hooks() && f.Auto == "update" {
				writes[i] = gval{Cell: nowCell(f)} // tracked update time: refreshed unless omitted
				continue
			}
			g, given := o.Struct[i]
			if !given {
				g = gval{Zero: true, Cell: zeroCell(f)}
			}
			switch {
			case all, sel.named(i): // Save / Select: zero values are written too
				writes[i] = g
			case !sel.has && !g.Zero: // Updates(struct): non-zero fields
				writes[i] = g
			}
		}
	}
	entries := o.Map
	mapWrites := func() {
		given := map[int]bool{}
		for _, e := range entries {
			given[e.F] = true
			f := m.Fields[e.F]
			known, _, upd := f.perms()
			if known && upd && !sel.omit[e.F] && sel.in(e.F) {
				writes[e.F] = e.V // every given key, zero values included
			}
		}
		if o.hooks() {
			for i := m.NK; i < len(m.Fields); i++ {
				f := m.Fields[i]
				known, _, upd := f.perms()
				if f.Auto == "update" && !given[i] && known && upd && !sel.omit[i] {
					writes[i] = gval{Cell: nowCell(f)}
				}
			}
		}
	}

	switch o.Kind {
	case "updates-struct", "updatecolumns-struct":
		structWrites(false)
	case "updates-map", "updatecolumns-map", "update", "updatecolumn", "firstorcreate-map":
		mapWrites()
	case "firstorcreate-struct":
		// Assign(struct): its non-zero fields are the assigned attributes
		idx := make([]int, 0, len(o.Struct))
		for i := range o.Struct {
			idx = append(idx, i)
		}
		sort.Ints(idx)
		entries = nil
		for _, i := range idx {
			entries = append(entries, kv{Key: m.Fields[i].Name, F: i, V: o.Struct[i]})
		}
		mapWrites()
	case "save":
		if m.NK == 1 && o.PK == 0 {
			// no key: Save creates
			predictCreate(m, &p, o, sel, []createRow{{PK: 0, Vals: o.Struct}}, "")
			return p
		}
		if m.NK == 2 && (o.PK == 0 || isZeroCell(o.PK2)) {
			// a composite key with a zero member. The statement decides: only the row matching ALL
			// key members may change. Whether that row is then updated or the write is rejected
			// (gorm takes the insert path) it does not say: both accepted.
			if old, exists := before.rows[m.keyOf(o.PK, o.PK2)]; exists {
				p.errOK = true
				if o.Cond.matches(old) {
					structWrites(!sel.has)
					row := p.want.rows[m.keyOf(o.PK, o.PK2)]
					for i, g := range writes {
						row[i] = oneOf{old[i], evalWrite(before, old, g)}
					}
				}
				return p
			}
			predictCreate(m, &p, o, sel, []createRow{{PK: o.PK, PK2: o.PK2, Vals: o.Struct}}, "")
			return p
		}
		if _, exists := before.rows[m.keyOf(o.PK, o.PK2)]; !exists && !sel.has {
			// nothing to update: Save inserts the value
			// (documented: "db.Save(&user) // UpdatedAt will change to current time")
			vals := map[int]gval{}
			for i, g := range o.Struct {
				vals[i] = g
			}
			for i, f := range m.Fields {
				if _, _, upd := f.perms(); f.Auto == "update" && upd && !sel.omit[i] {
					vals[i] = gval{Cell: nowCell(f)}
				}
			}
			predictCreate(m, &p, o, sel, []createRow{{PK: o.PK, PK2: o.PK2, Vals: vals}}, "")
			return p
		}
		structWrites(!sel.has)
	default:
		panic("harness: op kind " + o.Kind)
	}

	// the model value's key: a key whose members are all zero is "no key" (documented: the update then
	// runs on the conditions alone). A composite key with exactly one zero member: rows matching all
	// members change; rows matching only the non-zero member - the statement does not decide whether
	// the zero member is a value or "not set": either accepted.
	key := []cell{o.PK}
	if m.NK == 2 {
		key = append(key, o.PK2)
	}
	allZero := true
	for _, k := range key {
		allZero = allZero && isZeroCell(k)
	}
	firstOnly := strings.HasPrefix(o.Kind, "firstorcreate")
	for _, id := range before.ids() {
		if firstOnly && p.targeted > 0 {
			break // FirstOrCreate: only the found record (the first match in key order) is updated
		}
		row := before.rows[id]
		if o.ModelKeys != nil {
			// a slice of key structs: exactly the rows whose complete key is the key of an element
			hit := false
			for _, k := range o.ModelKeys {
				hit = hit || id == m.keyOf(k.ID, k.Rev)
			}
			if !hit || !o.Cond.matches(row) {
				continue
			}
			p.targeted++
			for i, g := range writes {
				p.want.rows[id][i] = evalWrite(before, row, g)
				p.written++
			}
			continue
		}
		exact, loose := true, true
		for j, k := range key {
			eq := cellEq(row[j], k)
			exact = exact && eq
			loose = loose && (eq || isZeroCell(k))
		}
		if !allZero && !loose {
			continue
		}
		if !o.Cond.matches(row) {
			continue
		}
		if !allZero && !exact {
			p.partial++
			for i, g := range writes {
				p.want.rows[id][i] = oneOf{row[i], evalWrite(before, row, g)}
			}
			continue
		}
		p.targeted++
		for i, g := range writes {
			p.want.rows[id][i] = evalWrite(before, row, g)
			p.written++
		}
	}
	return p
}

// predictCreate: Create / CreateInBatches / upsert / the insert half of Save.
func predictCreate(m *model, p *prediction, o *op, sel selection, rows []createRow, conflict string) {
	for _, r := range rows {
		isMap := r.Keys != nil
		given := map[int]gval{}
		if isMap {
			for _, e := range r.Keys {
				given[e.F] = e.V
			}
		} else {
			for i, g := range r.Vals {
				given[i] = g
			}
			if r.PK != 0 || m.NK == 2 {
				given[0] = gval{Cell: r.PK, Zero: r.PK == 0}
			}
			if m.NK == 2 {
				given[1] = gval{Cell: r.PK2, Zero: isZeroCell(r.PK2)} // members of a composite key are plain columns
			}
		}
		// the proposed row: every field with create permission that is selected and not omitted
		proposed := map[int]cell{}
		// tracked time fields whose treatment the documentation leaves open: field -> the value gorm
		// would track (the cell must then hold either that or what "not written" leaves)
		loose := map[int]cell{}
		for i, f := range m.Fields {
			known, cre, _ := f.perms()
			if !known || !cre || sel.omit[i] {
				continue
			}
			g, ok := given[i]
			if isMap {
				if ok && sel.in(i) {
					proposed[i] = evalWrite(nil, nil, g)
				} else if !ok && f.Auto != "" {
					loose[i] = nowCell(f) // creating from a map: tracked times are not documented
				}
				continue
			}
			if !sel.in(i) {
				if f.Auto != "" { // Select list without the tracked time field: not documented
					if g, ok := given[i]; ok && !g.Zero {
						loose[i] = oneOf{g.Cell, nowCell(f)}
					} else {
						loose[i] = nowCell(f)
					}
				}
				continue
			}
			if f.PK && !ok {
				continue // zero key: assigned by the database
			}
			if !ok {
				g = gval{Zero: true, Cell: zeroCell(f)}
			}
			if f.DBDefault != "" && g.Zero {
				continue // documented: a zero value is not saved for a field with a default; the database fills it
			}
			if f.GoDefault != nil && g.Zero {
				proposed[i] = f.GoDefault // documented: a zero value is replaced by the declared default
				continue
			}
			if f.Auto != "" && g.Zero {
				proposed[i] = nowCell(f) // tracked times start at the current time
			} else {
				proposed[i] = g.Cell
			}
		}

		if len(proposed) == 0 {
			p.empty = true
		}
		newID, haveKey := cell(nil), false
		if c, ok := proposed[0]; ok {
			newID, haveKey = c, true
		}
		if !haveKey {
			newID = p.want.maxID() + 1
		}
		id := m.keyOf(newID, proposed[1])
		if old, exists := p.want.rows[id]; exists {
			p.targeted++
			switch conflict {
			case "nothing":
			case "updateall":
				for i, c := range proposed {
					f := m.Fields[i]
					_, _, upd := f.perms()
					if f.PK || !upd || (f.DBDefault != "" && f.DBDefault != "null") {
						// documented: UpdateAll updates all columns "except primary keys and those columns
						// having default values from sql func"
						continue
					}
					switch f.Auto {
					case "create":
						// "update all columns to new value": whether the creation time of the existing
						// row is among them is not documented
						old[i] = oneOf{old[i], c}
						continue
					case "update":
						c = nowCell(f)
					}
					old[i] = c
					p.written++
				}
				for i, c := range loose {
					if _, _, upd := m.Fields[i].perms(); upd {
						old[i] = oneOf{old[i], c}
					}
				}
			case "doassign":
				for _, i := range o.DoCols {
					old[i] = o.DoVals[i].Cell // the caller's literal assignment
					p.written++
				}
			case "doupdates":
				for _, i := range o.DoCols {
					if c, ok := proposed[i]; ok {
						old[i] = c
						p.written++
					} else {
						old[i] = anyCell{} // not generated: the clause names a column outside the proposed row
					}
				}
			default:
				p.wantErr = true
			}
			continue
		}
		row := make([]cell, len(m.Fields))
		for i, f := range m.Fields {
			if c, ok := proposed[i]; ok {
				row[i] = c
			} else if alt, ok := loose[i]; ok {
				row[i] = oneOf{f.Default, alt}
			} else {
				row[i] = f.Default // denied / ignored / omitted / unselected: the column default
			}
		}
		row[0] = newID
		p.want.rows[id] = row
		p.inserted++
	}
}
