// C18 — every statement of an operation carries the caller's context, and an
// already-cancelled context lets no statement run. See DESIGN.md §3 C18.
//
// A case is a small program: a handle bound to a context (WithContext /
// Session{Context}), optionally wrapped in Transaction blocks or a manual
// Begin, and one or two gorm operations over a related model family. The
// recording driver logs the context every driver call received; the oracle
// looks the case's marker up in each of them.
package c18

import (
	"context"
	"database/sql"
	"encoding/json"
	"errors"
	"fmt"
	"sort"
	"strings"
	"sync"
	"sync/atomic"
	"testing"
	"time"

	"gorm.io/gorm"
	"gorm.io/gorm/clause"
	"pgregory.net/rapid"

	"verif/internal/evid"
	"verif/internal/harness"
	"verif/internal/recdrv"
	"verif/internal/testdb"
)

func TestMain(m *testing.M) { harness.Main(m) }

// markerKey is the key under which a case's context carries its unique id.
type markerKey struct{}

// ---- models -------------------------------------------------------------------------------------

type Company struct {
	ID      uint `gorm:"primaryKey"`
	Name    string
	Offices []Office
}

type Office struct {
	ID        uint `gorm:"primaryKey"`
	CompanyID uint
	City      string
}

type Profile struct {
	ID      uint `gorm:"primaryKey"`
	OwnerID uint
	Bio     string
}

type Item struct {
	ID        uint `gorm:"primaryKey"`
	OwnerID   uint
	Label     string
	Parts     []Part
	DeletedAt gorm.DeletedAt
}

type Part struct {
	ID     uint `gorm:"primaryKey"`
	ItemID uint
	Name   string
}

type Tag struct {
	ID   uint `gorm:"primaryKey"`
	Name string
}

type Note struct {
	ID         uint `gorm:"primaryKey"`
	Text       string
	TargetID   uint
	TargetType string
}

type Audit struct {
	ID    uint `gorm:"primaryKey"`
	Point string
	N     int
}

// Region / Contact: a relation reached through an embedded struct.
type Region struct {
	ID   uint `gorm:"primaryKey"`
	Name string
}

type Contact struct {
	Phone    string
	RegionID *uint
	Region   *Region
}

// OwnerTag is the join model some cases register with SetupJoinTable (same
// columns as the default join table); its hook issues a statement too.
type OwnerTag struct {
	OwnerID uint `gorm:"primaryKey"`
	TagID   uint `gorm:"primaryKey"`
}

func (j *OwnerTag) BeforeCreate(tx *gorm.DB) error { return fire(tx, "BeforeCreate") }

// Gadget / AuditV2: what the migration operations create or extend.
type Gadget struct {
	ID      uint   `gorm:"primaryKey"`
	Name    string `gorm:"index"`
	OwnerID uint
}

type AuditV2 struct {
	ID    uint `gorm:"primaryKey"`
	Point string
	N     int
	Extra string
}

func (AuditV2) TableName() string { return "audits" }

type Owner struct {
	ID        uint `gorm:"primaryKey"`
	Name      string
	Age       int
	Contact   Contact `gorm:"embedded;embeddedPrefix:contact_"`
	CompanyID *uint
	Company   *Company
	Profile   *Profile
	Items     []Item
	Tags      []Tag  `gorm:"many2many:owner_tags"`
	Notes     []Note `gorm:"polymorphic:Target"`
}

// ---- hooks that issue a statement through their tx ---------------------------------------------------

// hk is the hook configuration of the running case (cases run one at a time).
var hk struct {
	stmt  string // "" = hooks do nothing | exec | create | count | preload
	at    string // before | after | all
	fired int
}

func fire(tx *gorm.DB, point string) error {
	if hk.stmt == "" {
		return nil
	}
	before := strings.HasPrefix(point, "Before")
	if (hk.at == "before" && !before) || (hk.at == "after" && before) {
		return nil
	}
	hk.fired++
	switch hk.stmt {
	case "exec":
		return tx.Exec("UPDATE audits SET n = n + 1 WHERE id = ?", 1).Error
	case "create":
		return tx.Create(&Audit{Point: point}).Error
	case "count":
		var n int64
		return tx.Model(&Audit{}).Count(&n).Error
	case "preload":
		var cs []Company
		return tx.Preload("Offices").Find(&cs).Error
	}
	return nil
}

func (o *Owner) BeforeSave(tx *gorm.DB) error   { return fire(tx, "BeforeSave") }
func (o *Owner) BeforeCreate(tx *gorm.DB) error { return fire(tx, "BeforeCreate") }
func (o *Owner) AfterCreate(tx *gorm.DB) error  { return fire(tx, "AfterCreate") }
func (o *Owner) BeforeUpdate(tx *gorm.DB) error { return fire(tx, "BeforeUpdate") }
func (o *Owner) AfterUpdate(tx *gorm.DB) error  { return fire(tx, "AfterUpdate") }
func (o *Owner) AfterSave(tx *gorm.DB) error    { return fire(tx, "AfterSave") }
func (o *Owner) BeforeDelete(tx *gorm.DB) error { return fire(tx, "BeforeDelete") }
func (o *Owner) AfterDelete(tx *gorm.DB) error  { return fire(tx, "AfterDelete") }
func (o *Owner) AfterFind(tx *gorm.DB) error    { return fire(tx, "AfterFind") }
func (i *Item) BeforeCreate(tx *gorm.DB) error  { return fire(tx, "BeforeCreate") }
func (i *Item) AfterFind(tx *gorm.DB) error     { return fire(tx, "AfterFind") }
func (i *Item) AfterDelete(tx *gorm.DB) error   { return fire(tx, "AfterDelete") }

// ---- schema and seed data (raw SQL, outside gorm, before Rec.Reset) ------------------------------------

var allModels = []interface{}{&Region{}, &Company{}, &Office{}, &Owner{}, &Profile{}, &Item{}, &Part{}, &Tag{}, &Note{}, &Audit{}}

var tables = []string{"owner_tags", "notes", "parts", "items", "profiles", "offices", "owners", "companies", "tags", "audits", "regions"}

var (
	ddlOnce   sync.Once
	ddl       string
	auditsDDL string // re-creates the audits table (a migration operation may have added a column)
)

// schemaDDL captures, once per process, the CREATE statements AutoMigrate
// issues for the model family; every case replays them through the pool
// directly so that set-up never passes through gorm's statement cache.
func schemaDDL() string {
	ddlOnce.Do(func() {
		d := testdb.Open(testdb.Options{Config: gorm.Config{DisableForeignKeyConstraintWhenMigrating: true}})
		defer d.Close()
		if err := d.AutoMigrate(allModels...); err != nil {
			panic("harness: automigrate: " + err.Error())
		}
		var parts []string
		for _, e := range d.Rec.Events() {
			if e.Kind == recdrv.Exec && strings.HasPrefix(strings.ToUpper(strings.TrimSpace(e.Text)), "CREATE") {
				parts = append(parts, e.Text)
				if strings.Contains(e.Text, "`audits`") {
					auditsDDL += e.Text + ";\n"
				}
			}
		}
		ddl = strings.Join(parts, ";\n")
	})
	return ddl
}

const seedSQL = `
INSERT INTO regions (id, name) VALUES (1,'north'),(2,'south');
INSERT INTO companies (id, name) VALUES (1,'acme'),(2,'bolt');
INSERT INTO offices (id, company_id, city) VALUES (1,1,'oslo'),(2,1,'rome'),(3,2,'kyiv');
INSERT INTO owners (id, name, age, company_id, contact_phone, contact_region_id) VALUES (1,'ann',31,1,'111',1),(2,'bob',42,2,'222',2),(3,'cy',23,NULL,'',NULL),(4,'dee',54,1,'444',1),(5,'eve',35,NULL,'',NULL);
INSERT INTO profiles (id, owner_id, bio) VALUES (1,1,'p1'),(2,2,'p2'),(3,4,'p4');
INSERT INTO items (id, owner_id, label, deleted_at) VALUES (1,1,'i1',NULL),(2,1,'i2',NULL),(3,2,'i3',NULL),(4,4,'i4',NULL),(5,4,'i5',NULL),(6,4,'i6',NULL);
INSERT INTO parts (id, item_id, name) VALUES (1,1,'a'),(2,1,'b'),(3,3,'c'),(4,5,'d');
INSERT INTO tags (id, name) VALUES (1,'red'),(2,'green'),(3,'blue');
INSERT INTO owner_tags (owner_id, tag_id) VALUES (1,1),(1,2),(2,2),(4,1),(4,3);
INSERT INTO notes (id, text, target_id, target_type) VALUES (1,'n1',1,'owners'),(2,'n2',1,'owners'),(3,'n3',2,'owners'),(4,'n4',4,'owners');
INSERT INTO audits (id, point, n) VALUES (1,'seed',0);
`

func reseed(d *testdb.DB) error {
	var sb strings.Builder
	for _, t := range tables {
		sb.WriteString("DELETE FROM " + t + ";\n")
	}
	sb.WriteString("DROP TABLE IF EXISTS gadgets;\n")
	schemaDDL()
	sb.WriteString("DROP TABLE IF EXISTS audits;\n" + auditsDDL)
	sb.WriteString("DELETE FROM sqlite_sequence;\n")
	sb.WriteString(seedSQL)
	_, err := d.SQL.Exec(sb.String())
	return err
}

func openDB(c Case) (*testdb.DB, error) {
	now := testdb.FixedNow
	d := testdb.Open(testdb.Options{NoReturning: c.NoReturning, Config: gorm.Config{
		PrepareStmt:              c.Prepare == "config",
		SkipDefaultTransaction:   c.SkipTx,
		DisableNestedTransaction: c.Cfg == "no-nested-tx",
		FullSaveAssociations:     c.Cfg == "full-save",
		TranslateError:           c.Cfg == "translate-error",
		QueryFields:              c.Cfg == "query-fields",
		NowFunc:                  func() time.Time { return now },
	}})
	if c.Cfg == "create-batch-size" {
		d.DB.Config.CreateBatchSize = 2
	}
	if c.JoinModel {
		if err := d.DB.SetupJoinTable(&Owner{}, "Tags", &OwnerTag{}); err != nil {
			d.Close()
			return nil, fmt.Errorf("setup join table: %w", err)
		}
	}
	if c.Plugin {
		if err := registerPlugin(d.DB); err != nil {
			d.Close()
			return nil, fmt.Errorf("plugin: %w", err)
		}
	}
	if _, err := d.SQL.Exec(schemaDDL()); err != nil {
		d.Close()
		return nil, fmt.Errorf("ddl: %w", err)
	}
	if err := reseed(d); err != nil {
		d.Close()
		return nil, fmt.Errorf("seed: %w", err)
	}
	return d, nil
}

// registerPlugin adds callbacks the way a plugin does: after the main statement of
// the create / update / delete / query pipelines it issues one more statement
// through a session of the handle the pipeline runs on.
func registerPlugin(db *gorm.DB) error {
	bump := func(tx *gorm.DB) {
		if tx.Error != nil || tx.DryRun {
			return
		}
		if tx.Statement.Table == "audits" {
			return // the plugin's own bookkeeping table
		}
		tx.AddError(tx.Session(&gorm.Session{NewDB: true}).Exec("UPDATE audits SET n = n + 1 WHERE id = ?", 1).Error)
	}
	if err := db.Callback().Create().After("gorm:create").Register("c18:after_create", bump); err != nil {
		return err
	}
	if err := db.Callback().Update().After("gorm:update").Register("c18:after_update", bump); err != nil {
		return err
	}
	if err := db.Callback().Delete().After("gorm:delete").Register("c18:after_delete", bump); err != nil {
		return err
	}
	return db.Callback().Query().After("gorm:query").Register("c18:after_query", bump)
}

// ---- the case -------------------------------------------------------------------------------------

// Graph describes the association values hung on an owner value before a
// write: 0 = none, -1 = a new record, k > 0 = a record with existing key k.
type Graph struct {
	Company int   `json:"co,omitempty"`
	Offices int   `json:"off,omitempty"` // new offices under a new company
	Profile int   `json:"pr,omitempty"`
	Items   []int `json:"it,omitempty"`
	Parts   int   `json:"pa,omitempty"` // new parts under the first new item
	Tags    []int `json:"tg,omitempty"`
	Notes   []int `json:"no,omitempty"`
}

type Preload struct {
	Path string `json:"p"`
	Cond string `json:"c,omitempty"` // "" | inline | func
}

// Op is one gorm operation, as data; execOp builds fresh Go values from it.
type Op struct {
	Kind     string    `json:"k"`
	ID       int       `json:"id,omitempty"`
	IDs      []int     `json:"ids,omitempty"`
	G        []Graph   `json:"g,omitempty"`
	Full     bool      `json:"full,omitempty"`
	Upsert   bool      `json:"upsert,omitempty"`
	Name     string    `json:"name,omitempty"` // association name
	Verb     string    `json:"verb,omitempty"`
	Vals     []int     `json:"vals,omitempty"`
	Unscoped bool      `json:"unscoped,omitempty"`
	Preloads []Preload `json:"pre,omitempty"`
	Joins    []string  `json:"joins,omitempty"`
	Batch    int       `json:"batch,omitempty"`
	Inner    string    `json:"inner,omitempty"`
	Sel      []string  `json:"sel,omitempty"`
	Age      int       `json:"age,omitempty"`
	Found    bool      `json:"found,omitempty"`
	Attrs    bool      `json:"attrs,omitempty"`
	Assign   bool      `json:"assign,omitempty"`
	Form     string    `json:"form,omitempty"`
	Ret      bool      `json:"returning,omitempty"` // Clauses(clause.Returning{}) on update / delete
	Scoped   bool      `json:"scoped,omitempty"`    // the condition is added through Scopes
	Sub      string    `json:"sub,omitempty"`       // a handle passed as argument (sub-query): same | foreign (bound to another context)
	InnerJ   bool      `json:"innerjoins,omitempty"`
	JoinCond bool      `json:"joincond,omitempty"` // Joins("Company", handle.Where(..))
	Limit    int       `json:"limit,omitempty"`
}

// Fork: a child handle is derived from the program's handle with any mix of
// Session options and (usually) a context of its own; the program's handle - the
// parent - is used afterwards and must still carry its own context.
type Fork struct {
	At          string `json:"at"`   // bound: from the bound handle | inner: from the handle the operations run on
	Ctx         string `json:"ctx"`  // own | own-dead (cancelled while the parent's lives) | inherit (no Context option)
	Form        string `json:"form"` // session | withcontext
	Initialized bool   `json:"init,omitempty"`
	NewDB       bool   `json:"newdb,omitempty"`
	PrepareStmt bool   `json:"prep,omitempty"`
	SkipHooks   bool   `json:"skiphooks,omitempty"`
	Use         string `json:"use"` // unused | before | after the parent's part
	Op          string `json:"op"`  // what the child runs: create | count
}

type Case struct {
	Prepare     string `json:"prepare"` // off | config | session-before | session-same | session-after | session-late
	SkipTx      bool   `json:"skiptx,omitempty"`
	Bind        string `json:"bind"`   // withcontext | session | rebound-withcontext | rebound-session
	Derive      string `json:"derive"` // none | session | newdb
	Tx          string `json:"tx"`     // none | block | manual
	Depth       int    `json:"depth"`
	Fail        []bool `json:"fail,omitempty"`  // per level: leave the level with an error (rollback)
	After       []bool `json:"after,omitempty"` // per level: one more write on that level's handle after the inner part
	Warm        bool   `json:"warm,omitempty"`  // the same program ran before under another context (statement cache filled)
	CancelFirst bool   `json:"cancelfirst,omitempty"`
	Ctx         string `json:"ctx"`  // kind of the live context: value | cancel | timeout | deadline
	Dead        string `json:"dead"` // the dead context of the second half: cancelled | expired (deadline in the past)
	Hook        string `json:"hook,omitempty"`
	HookAt      string `json:"hookat,omitempty"`
	Fork        *Fork  `json:"fork,omitempty"`
	NoReturning bool   `json:"noreturning,omitempty"` // dialector without RETURNING: inserts go through ExecContext
	Cfg         string `json:"cfg,omitempty"`         // one more Config switch: no-nested-tx | full-save | translate-error | query-fields | create-batch-size
	Plugin      bool   `json:"plugin,omitempty"`      // registered callbacks issue a statement through a session of the pipeline's handle
	JoinModel   bool   `json:"joinmodel,omitempty"`   // SetupJoinTable(&Owner{}, "Tags", &OwnerTag{}) with a hook on the join model
	TxOpts      bool   `json:"txopts,omitempty"`      // Begin / Transaction get explicit *sql.TxOptions
	Panic       []bool `json:"panic,omitempty"`       // per level: the failing block panics instead of returning the error
	Savepoint   string `json:"savepoint,omitempty"`   // manual transaction: explicit SavePoint around the inner part: keep | rollback
	Mid         int    `json:"mid,omitempty"`         // third run: the caller's context is cancelled in flight, when the Mid-th driver call starts
	Ops         []Op   `json:"ops"`
}

func (c Case) String() string {
	b, _ := json.Marshal(c)
	return string(b)
}

// ---- building values ----------------------------------------------------------------------------------

func uptr(v uint) *uint { return &v }

func (g Graph) apply(o *Owner) {
	switch {
	case g.Company == -1:
		c := &Company{Name: "newco"}
		for i := 0; i < g.Offices; i++ {
			c.Offices = append(c.Offices, Office{City: fmt.Sprintf("city%d", i)})
		}
		o.Company = c
	case g.Company > 0:
		o.Company = &Company{ID: uint(g.Company), Name: "co-upd"}
	}
	switch {
	case g.Profile == -1:
		o.Profile = &Profile{Bio: "newbio"}
	case g.Profile > 0:
		o.Profile = &Profile{ID: uint(g.Profile), Bio: "bio-upd"}
	}
	firstNew := true
	for _, k := range g.Items {
		if k == -1 {
			it := Item{Label: "newitem"}
			if firstNew {
				for i := 0; i < g.Parts; i++ {
					it.Parts = append(it.Parts, Part{Name: fmt.Sprintf("part%d", i)})
				}
				firstNew = false
			}
			o.Items = append(o.Items, it)
		} else {
			o.Items = append(o.Items, Item{ID: uint(k), Label: "item-upd"})
		}
	}
	for _, k := range g.Tags {
		if k == -1 {
			o.Tags = append(o.Tags, Tag{Name: "newtag"})
		} else {
			o.Tags = append(o.Tags, Tag{ID: uint(k), Name: "tag-upd"})
		}
	}
	for _, k := range g.Notes {
		if k == -1 {
			o.Notes = append(o.Notes, Note{Text: "newnote"})
		} else {
			o.Notes = append(o.Notes, Note{ID: uint(k), Text: "note-upd"})
		}
	}
}

func (g Graph) empty() bool {
	return g.Company == 0 && g.Profile == 0 && len(g.Items) == 0 && len(g.Tags) == 0 && len(g.Notes) == 0
}

func ownersOf(o Op, ids []int) []Owner {
	out := make([]Owner, len(ids))
	for i, id := range ids {
		out[i] = Owner{ID: uint(id), Name: fmt.Sprintf("w%d", i), Age: 20 + i}
		if i < len(o.G) {
			o.G[i].apply(&out[i])
		}
	}
	return out
}

// loadKeys gives an owner value the foreign keys its seeded row has, as a record read
// from the database carries them: the Unscoped belongs-to branches of association mode find
// the records to delete through the owners' in-memory foreign keys.
func loadKeys(o *Owner) {
	if c, ok := map[uint]uint{1: 1, 2: 2, 4: 1}[o.ID]; ok {
		o.CompanyID = uptr(c)
	}
	if r, ok := map[uint]uint{1: 1, 2: 2, 4: 1}[o.ID]; ok {
		o.Contact.RegionID = uptr(r)
	}
}

func assocValues(name string, vals []int) []interface{} {
	var out []interface{}
	for _, k := range vals {
		id := uint(0)
		if k > 0 {
			id = uint(k)
		}
		switch name {
		case "Company":
			out = append(out, &Company{ID: id, Name: "a-co"})
		case "Profile":
			out = append(out, &Profile{ID: id, Bio: "a-bio"})
		case "Items":
			out = append(out, &Item{ID: id, Label: "a-item"})
		case "Tags":
			out = append(out, &Tag{ID: id, Name: "a-tag"})
		case "Notes":
			out = append(out, &Note{ID: id, Text: "a-note"})
		}
	}
	return out
}

func assocDest(name string) interface{} {
	switch name {
	case "Company":
		return &[]Company{}
	case "Profile":
		return &[]Profile{}
	case "Items":
		return &[]Item{}
	case "Tags":
		return &[]Tag{}
	}
	return &[]Note{}
}

// ---- executing one operation on a handle ---------------------------------------------------------------

// subHandle is the handle a sub-query / join condition is built from: the
// program's own, or one bound to another context (its context must not win).
func subHandle(h *gorm.DB, kind string) *gorm.DB {
	if kind == "foreign" && foreignDB != nil {
		return foreignDB
	}
	return h.Session(&gorm.Session{NewDB: true})
}

func withPreloads(tx *gorm.DB, ps []Preload) *gorm.DB {
	for _, p := range ps {
		switch p.Cond {
		case "inline":
			tx = tx.Preload(p.Path, "id <> ?", 9999)
		case "func":
			tx = tx.Preload(p.Path, func(db *gorm.DB) *gorm.DB { return db.Order("id DESC") })
		default:
			tx = tx.Preload(p.Path)
		}
	}
	return tx
}

func execOp(h *gorm.DB, o Op) error {
	full := func(tx *gorm.DB) *gorm.DB {
		if o.Full {
			return tx.Session(&gorm.Session{FullSaveAssociations: true})
		}
		return tx
	}
	switch o.Kind {
	case "create":
		ow := ownersOf(o, []int{o.ID})[0]
		tx := full(h)
		if o.Upsert {
			tx = tx.Clauses(clause.OnConflict{UpdateAll: true})
		}
		switch o.Form {
		case "select":
			tx = tx.Select("Name", "Age", "Items", "Company")
		case "omit":
			tx = tx.Omit("Tags", "Notes")
		case "omit-associations":
			tx = tx.Omit(clause.Associations)
		}
		return tx.Create(&ow).Error
	case "create-map":
		if o.Form == "maps" {
			// (a non-pointer []map fails to scan the RETURNING column back: outside this property, reported to the lead)
			return h.Model(&Owner{}).Create(&[]map[string]interface{}{{"Name": "m1", "Age": 11}, {"Name": "m2", "Age": 12}}).Error
		}
		return h.Model(&Owner{}).Create(map[string]interface{}{"Name": "m0", "Age": 10}).Error
	case "create-slice":
		ows := ownersOf(o, o.IDs)
		if o.Form == "pointers" {
			ptrs := make([]*Owner, len(ows))
			for i := range ows {
				ptrs[i] = &ows[i]
			}
			return full(h).Create(&ptrs).Error
		}
		if o.Batch > 0 {
			return full(h).Session(&gorm.Session{CreateBatchSize: o.Batch}).Create(&ows).Error
		}
		return full(h).Create(&ows).Error
	case "create-batches":
		ows := ownersOf(o, o.IDs)
		return full(h).CreateInBatches(&ows, o.Batch).Error
	case "updates":
		ow := ownersOf(o, []int{o.ID})[0]
		return full(h).Updates(&ow).Error
	case "update-model":
		ow := ownersOf(o, []int{o.ID})[0]
		return full(h).Model(&ow).Update("name", "renamed").Error
	case "update-form":
		ow := Owner{ID: uint(o.ID)}
		switch o.Form {
		case "map":
			return h.Model(&ow).Updates(map[string]interface{}{"name": "mapped", "age": 44}).Error
		case "map-belongs-to":
			return h.Model(&ow).Updates(map[string]interface{}{"name": "mapped", "Company": &Company{Name: "mapco"}}).Error
		case "update-column":
			return h.Model(&ow).UpdateColumn("age", 45).Error
		case "update-columns":
			return h.Model(&ow).UpdateColumns(Owner{Name: "cols", Age: 46}).Error
		case "select-star":
			return h.Model(&ow).Select("*").Omit("ID").Updates(Owner{Name: "star", Age: 47}).Error
		}
		return fmt.Errorf("harness: unknown update form %q", o.Form)
	case "update-where":
		tx := h.Model(&Owner{})
		var ret []Owner
		if o.Ret {
			tx = h.Model(&ret).Clauses(clause.Returning{})
		}
		if o.Scoped {
			tx = tx.Scopes(func(d *gorm.DB) *gorm.DB { return d.Where("id IN ?", o.IDs) })
		} else {
			tx = tx.Where("id IN ?", o.IDs)
		}
		return tx.Update("age", 77).Error
	case "save":
		ow := ownersOf(o, []int{o.ID})[0]
		return full(h).Save(&ow).Error
	case "save-slice":
		ows := ownersOf(o, o.IDs)
		return full(h).Save(&ows).Error
	case "delete":
		tx := h
		var ret []Owner
		if o.Ret {
			tx = tx.Clauses(clause.Returning{})
		}
		switch o.Form {
		case "ids":
			return tx.Delete(&Owner{}, o.IDs).Error
		case "where":
			if o.Ret {
				return tx.Where("id IN ?", o.IDs).Delete(&ret).Error
			}
			return tx.Where("id IN ?", o.IDs).Delete(&Owner{}).Error
		}
		return tx.Delete(&Owner{ID: uint(o.ID)}).Error
	case "delete-assoc":
		var tx *gorm.DB
		if len(o.Sel) == 1 {
			tx = h.Select(o.Sel[0])
		} else {
			args := make([]interface{}, len(o.Sel)-1)
			for i, s := range o.Sel[1:] {
				args[i] = s
			}
			tx = h.Select(o.Sel[0], args...)
		}
		if o.Unscoped {
			tx = tx.Unscoped()
		}
		if len(o.IDs) > 0 {
			ows := ownersOf(Op{}, o.IDs)
			return tx.Delete(&ows).Error
		}
		return tx.Delete(&Owner{ID: uint(o.ID)}).Error
	case "find":
		var ows []Owner
		tx := h
		for i, j := range o.Joins {
			switch {
			case o.JoinCond && i == 0 && j == "Company":
				tx = tx.Joins(j, subHandle(h, "foreign").Where(&Company{Name: "acme"}))
			case o.InnerJ:
				tx = tx.InnerJoins(j)
			default:
				tx = tx.Joins(j)
			}
		}
		tx = withPreloads(tx, o.Preloads)
		if o.Age > 0 {
			if o.Scoped {
				tx = tx.Scopes(func(d *gorm.DB) *gorm.DB { return d.Where("owners.age > ?", o.Age) })
			} else {
				tx = tx.Where("owners.age > ?", o.Age)
			}
		}
		if o.Sub != "" {
			tx = tx.Where("owners.id IN (?)", subHandle(h, o.Sub).Model(&Item{}).Select("owner_id"))
		}
		return tx.Find(&ows).Error
	case "first", "take", "last":
		var ow Owner
		tx := withPreloads(h, o.Preloads)
		for _, j := range o.Joins {
			tx = tx.Joins(j)
		}
		var conds []interface{}
		if o.ID > 0 {
			conds = []interface{}{o.ID}
		}
		switch o.Kind {
		case "first":
			return tx.First(&ow, conds...).Error
		case "take":
			return tx.Take(&ow, conds...).Error
		}
		return tx.Last(&ow, conds...).Error
	case "assoc":
		var model interface{}
		if len(o.IDs) > 0 {
			ows := ownersOf(Op{}, o.IDs)
			if o.Form == "loaded" {
				for i := range ows {
					loadKeys(&ows[i])
				}
			}
			model = &ows
		} else {
			ow := &Owner{ID: uint(o.ID)}
			if o.Form == "loaded" {
				loadKeys(ow)
			}
			model = ow
		}
		as := h.Model(model).Association(o.Name)
		if o.Unscoped {
			as = as.Unscoped()
		}
		switch o.Verb {
		case "find":
			if o.Age > 0 {
				return as.Find(assocDest(o.Name), "id <> ?", 9999)
			}
			return as.Find(assocDest(o.Name))
		case "count":
			as.Count()
			return as.Error
		case "append":
			return as.Append(assocValues(o.Name, o.Vals)...)
		case "replace":
			return as.Replace(assocValues(o.Name, o.Vals)...)
		case "delete":
			return as.Delete(assocValues(o.Name, o.Vals)...)
		case "clear":
			return as.Clear()
		}
		return fmt.Errorf("harness: unknown verb %q", o.Verb)
	case "batches":
		var ows []Owner
		tx := withPreloads(h, o.Preloads)
		if o.Age > 0 {
			tx = tx.Where("age > ?", o.Age)
		}
		if o.Limit > 0 {
			tx = tx.Limit(o.Limit)
		}
		return tx.FindInBatches(&ows, o.Batch, func(btx *gorm.DB, batch int) error {
			switch o.Inner {
			case "count":
				var n int64
				return btx.Model(&Item{}).Count(&n).Error
			case "save":
				for i := range ows {
					ows[i].Age++
				}
				return btx.Save(&ows).Error
			case "assoc":
				as := btx.Model(&ows[0]).Association("Items")
				as.Count()
				return as.Error
			case "update":
				return btx.Model(&ows[0]).Update("age", 9).Error
			}
			return nil
		}).Error
	case "rows":
		rows, err := h.Model(&Owner{}).Where("age > ?", o.Age).Rows()
		if err != nil {
			return err
		}
		defer rows.Close()
		for rows.Next() {
			var ow Owner
			if err := h.ScanRows(rows, &ow); err != nil {
				return err
			}
		}
		return rows.Err()
	case "row":
		var name string
		err := h.Model(&Owner{}).Select("name").Where("id = ?", o.ID).Row().Scan(&name)
		if errors.Is(err, sql.ErrNoRows) {
			return nil
		}
		return err
	case "scan":
		var res []struct {
			Name string
			Age  int
		}
		switch o.Form {
		case "table":
			return h.Table("owners").Select("name", "age").Where("age > ?", o.Age).Scan(&res).Error
		case "find-maps":
			var ms []map[string]interface{}
			return h.Model(&Owner{}).Where("age > ?", o.Age).Find(&ms).Error
		case "take-map":
			m := map[string]interface{}{}
			return h.Model(&Owner{}).Where("age > ?", 1).Take(&m).Error
		case "sub-table":
			return h.Table("(?) as u", subHandle(h, "foreign").Model(&Owner{}).Select("name", "age")).Where("age > ?", o.Age).Scan(&res).Error
		}
		return h.Model(&Owner{}).Select("name", "age").Where("age > ?", o.Age).Scan(&res).Error
	case "pluck":
		var names []string
		if o.Form == "distinct" {
			return h.Model(&Owner{}).Distinct().Where("age > ?", o.Age).Pluck("name", &names).Error
		}
		return h.Model(&Owner{}).Where("age > ?", o.Age).Pluck("name", &names).Error
	case "count":
		var n int64
		tx := h.Model(&Owner{})
		for _, j := range o.Joins {
			tx = tx.Joins(j)
		}
		switch o.Form {
		case "group":
			tx = tx.Group("owners.company_id")
		case "distinct":
			tx = tx.Distinct("owners.name")
		}
		if o.Scoped {
			return tx.Scopes(func(d *gorm.DB) *gorm.DB { return d.Where("owners.age > ?", o.Age) }).Count(&n).Error
		}
		return tx.Where("owners.age > ?", o.Age).Count(&n).Error
	case "count-find":
		// one chain value finished twice (made reusable with Session, as the documentation asks)
		var n int64
		var ows []Owner
		q := withPreloads(h.Model(&Owner{}).Where("age > ?", o.Age), o.Preloads).Session(&gorm.Session{})
		if err := q.Count(&n).Error; err != nil {
			return err
		}
		return q.Limit(2).Offset(1).Find(&ows).Error
	case "connection":
		return h.Connection(func(conn *gorm.DB) error {
			// the handle Connection passes is a single ready instance (every chain call works on its one
			// statement): a reusable session is derived from it before running more than one operation
			tx := conn.Session(&gorm.Session{NewDB: true})
			var ow Owner
			if err := withPreloads(tx, o.Preloads).First(&ow, o.ID).Error; err != nil {
				return err
			}
			return tx.Create(&Audit{Point: "connection"}).Error
		})
	case "migrate":
		switch o.Form {
		case "auto-new-table":
			return h.AutoMigrate(&Gadget{})
		case "auto-add-column":
			return h.AutoMigrate(&AuditV2{})
		case "create-drop":
			m := h.Migrator()
			if err := m.CreateTable(&Gadget{}); err != nil {
				return err
			}
			return m.DropTable(&Gadget{})
		}
		return fmt.Errorf("harness: unknown migrate form %q", o.Form)
	case "firstorcreate", "firstorinit":
		name := "nobody"
		if o.Found {
			name = "ann"
		}
		var ow Owner
		tx := h.Where(Owner{Name: name})
		var conds []interface{}
		switch o.Form {
		case "model":
			tx = h.Model(&Owner{}).Where(Owner{Name: name})
		case "conds":
			tx, conds = h, []interface{}{Owner{Name: name}}
		}
		if o.Attrs {
			tx = tx.Attrs(Owner{Age: 61})
		}
		if o.Assign {
			tx = tx.Assign(Owner{Age: 62})
		}
		if o.Kind == "firstorinit" {
			return tx.FirstOrInit(&ow, conds...).Error
		}
		return tx.FirstOrCreate(&ow, conds...).Error
	case "raw":
		var res []struct {
			ID   uint
			Name string
		}
		switch o.Form {
		case "rows":
			rows, err := h.Raw("SELECT id, name FROM owners WHERE age > ?", o.Age).Rows()
			if err != nil {
				return err
			}
			defer rows.Close()
			for rows.Next() {
			}
			return rows.Err()
		case "row":
			var n int64
			return h.Raw("SELECT count(*) FROM owners WHERE age > ?", o.Age).Row().Scan(&n)
		}
		return h.Raw("SELECT id, name FROM owners WHERE age > ?", o.Age).Scan(&res).Error
	case "exec":
		return h.Exec("UPDATE owners SET age = age + 1 WHERE id = ?", o.ID).Error
	}
	return fmt.Errorf("harness: unknown op kind %q", o.Kind)
}

// ---- binding, deriving, transaction shapes -----------------------------------------------------------------

var errBlock = errors.New("c18: block left with an error on purpose")

func bind(root *gorm.DB, c Case, ctx context.Context, other context.Context) *gorm.DB {
	db := root
	if c.Prepare == "session-before" {
		db = db.Session(&gorm.Session{PrepareStmt: true})
	}
	if strings.HasPrefix(c.Bind, "rebound-") {
		db = db.WithContext(other)
	}
	switch strings.TrimPrefix(c.Bind, "rebound-") {
	case "withcontext":
		db = db.WithContext(ctx)
	case "session":
		if c.Prepare == "session-same" {
			db = db.Session(&gorm.Session{Context: ctx, PrepareStmt: true})
		} else {
			db = db.Session(&gorm.Session{Context: ctx})
		}
	case "session-initialized":
		// an initialized session is a ready instance (like the value a chain method returns): used for one operation
		db = db.Session(&gorm.Session{Context: ctx, Initialized: true})
	case "session-initialized-newdb":
		db = db.Session(&gorm.Session{Context: ctx, Initialized: true, NewDB: true})
	}
	if c.Prepare == "session-after" {
		db = db.Session(&gorm.Session{PrepareStmt: true})
	}
	switch c.Derive {
	case "session":
		db = db.Session(&gorm.Session{})
	case "newdb":
		db = db.Session(&gorm.Session{NewDB: true})
	case "skiphooks":
		db = db.Session(&gorm.Session{SkipHooks: true})
	case "skip-default-tx":
		db = db.Session(&gorm.Session{SkipDefaultTransaction: true})
	case "no-nested-tx":
		db = db.Session(&gorm.Session{DisableNestedTransaction: true})
	case "allow-global-update+query-fields":
		db = db.Session(&gorm.Session{AllowGlobalUpdate: true, QueryFields: true})
	}
	return db
}

// foreignDB is a handle bound to the "other" context: passed as an argument
// (sub-query, join condition) of chains that run on the program's handle.
var foreignDB *gorm.DB

// fk is the fork state of the running half (cases run one at a time).
var fk struct {
	rec   *recdrv.Recorder
	ctx   context.Context // the child's own context in this half (nil: the child inherits)
	spans []span
}

// span: the driver events with from < Seq <= to were made by the child handle.
type span struct {
	from, to int
	err      error
}

func lastSeq() int {
	evs := fk.rec.Events()
	if len(evs) == 0 {
		return 0
	}
	return evs[len(evs)-1].Seq
}

func forkChild(h *gorm.DB, f *Fork) *gorm.DB {
	if f.Form == "withcontext" {
		return h.WithContext(fk.ctx)
	}
	s := &gorm.Session{Initialized: f.Initialized, NewDB: f.NewDB, PrepareStmt: f.PrepareStmt, SkipHooks: f.SkipHooks}
	if f.Ctx != "inherit" {
		s.Context = fk.ctx
	}
	return h.Session(s)
}

func useChild(child *gorm.DB, f *Fork) {
	from := lastSeq()
	var err error
	if f.Op == "create" {
		err = child.Create(&Audit{Point: "child"}).Error
	} else {
		var n int64
		err = child.Model(&Audit{}).Count(&n).Error
	}
	fk.spans = append(fk.spans, span{from: from, to: lastSeq(), err: err})
}

// withFork derives the child from h (when the case forks at this point), then
// runs the parent's part on h; the child runs before or after it, or not at all.
func withFork(h *gorm.DB, c Case, at string, parent func() error) error {
	f := c.Fork
	if f == nil || f.At != at {
		return parent()
	}
	child := forkChild(h, f)
	if f.Use == "before" {
		useChild(child, f)
	}
	err := parent()
	if f.Use == "after" && (err == nil || errors.Is(err, errBlock)) {
		useChild(child, f)
	}
	return err
}

func sibling(h *gorm.DB) error { return h.Create(&Audit{Point: "sibling"}).Error }

func runOps(h *gorm.DB, c Case) error {
	if c.Prepare == "session-late" {
		h = h.Session(&gorm.Session{PrepareStmt: true})
	}
	return withFork(h, c, "inner", func() error {
		for _, o := range c.Ops {
			if err := execOp(h, o); err != nil && !errors.Is(err, gorm.ErrRecordNotFound) {
				return err
			}
		}
		return nil
	})
}

// runLevel runs the part of the program below nesting level lvl on handle h.
func runLevel(h *gorm.DB, c Case, lvl int) error {
	if lvl == c.Depth {
		return runOps(h, c)
	}
	panics := lvl < len(c.Panic) && c.Panic[lvl]
	body := func(tx *gorm.DB) error {
		if err := runLevel(tx, c, lvl+1); err != nil && !errors.Is(err, errBlock) {
			return err
		}
		if c.After[lvl] {
			if err := sibling(tx); err != nil {
				return err
			}
		}
		if c.Fail[lvl] {
			if panics {
				panic(errBlock)
			}
			return errBlock
		}
		return nil
	}
	var opts []*sql.TxOptions
	if c.TxOpts && lvl == 0 {
		opts = []*sql.TxOptions{{Isolation: sql.LevelDefault}}
	}
	if c.Tx == "manual" && lvl == 0 {
		tx := h.Begin(opts...)
		if tx.Error != nil {
			return tx.Error
		}
		inner := func() error {
			if c.Savepoint == "" {
				return body(tx)
			}
			if err := tx.SavePoint("c18_sp").Error; err != nil {
				return err
			}
			err := body(tx)
			if err != nil && !errors.Is(err, errBlock) {
				return err
			}
			if c.Savepoint == "rollback" {
				if err := tx.RollbackTo("c18_sp").Error; err != nil {
					return err
				}
			}
			return err
		}
		if err := inner(); err != nil {
			tx.Rollback()
			return err
		}
		return tx.Commit().Error
	}
	if !panics {
		return h.Transaction(body, opts...)
	}
	// the block panics: Transaction rolls back (to the save point) and re-panics; the caller recovers
	return func() (err error) {
		defer func() {
			if r := recover(); r != nil {
				if e, ok := r.(error); ok && errors.Is(e, errBlock) {
					err = errBlock
					return
				}
				panic(r)
			}
		}()
		return h.Transaction(body, opts...)
	}()
}

// errPanic wraps a panic raised inside gorm / database/sql while the program ran.
type errPanic struct{ v interface{} }

func (e errPanic) Error() string { return fmt.Sprintf("panic: %v", e.v) }

// runProgram runs the case under ctx; child is the forked handle's own context
// (nil when there is no fork or the child inherits). It returns the program's
// error and the spans of driver events made by the child.
func runProgram(d *testdb.DB, c Case, ctx, other, child context.Context) (err error, spans []span) {
	fk.rec, fk.ctx, fk.spans = d.Rec, child, nil
	foreignDB = d.DB.WithContext(other)
	defer func() {
		foreignDB = nil
		if r := recover(); r != nil {
			err = errPanic{r}
		}
		spans = fk.spans
		fk.rec, fk.ctx, fk.spans = nil, nil, nil
	}()
	h := bind(d.DB, c, ctx, other)
	err = withFork(h, c, "bound", func() error { return runLevel(h, c, 0) })
	if errors.Is(err, errBlock) {
		err = nil
	}
	return err, nil
}

func inSpan(spans []span, seq int) bool {
	for _, sp := range spans {
		if seq > sp.from && seq <= sp.to {
			return true
		}
	}
	return false
}

// ---- generators -----------------------------------------------------------------------------------------

func genIDs(rt *rapid.T, label string, min, max int) []int {
	n := rapid.IntRange(min, max).Draw(rt, label+".n")
	all := []int{1, 2, 3, 4, 5}
	perm := rapid.Permutation(all).Draw(rt, label)
	ids := append([]int(nil), perm[:n]...)
	sort.Ints(ids)
	return ids
}

func genRef(rt *rapid.T, label string, maxID int) int {
	// -1 new, k existing
	if rapid.Bool().Draw(rt, label+".new") {
		return -1
	}
	return rapid.IntRange(1, maxID).Draw(rt, label)
}

func genRefs(rt *rapid.T, label string, maxID, maxN int) []int {
	n := rapid.IntRange(0, maxN).Draw(rt, label+".n")
	var out []int
	seen := map[int]bool{}
	for i := 0; i < n; i++ {
		r := genRef(rt, label, maxID)
		if r > 0 && seen[r] {
			continue
		}
		seen[r] = true
		out = append(out, r)
	}
	return out
}

func genGraph(rt *rapid.T, label string) Graph {
	g := Graph{}
	if rapid.Bool().Draw(rt, label+".company") {
		g.Company = genRef(rt, label+".company", 2)
		if g.Company == -1 {
			g.Offices = rapid.IntRange(0, 2).Draw(rt, label+".offices")
		}
	}
	if rapid.Bool().Draw(rt, label+".profile") {
		g.Profile = genRef(rt, label+".profile", 3)
	}
	g.Items = genRefs(rt, label+".items", 6, 2)
	for _, k := range g.Items {
		if k == -1 {
			g.Parts = rapid.IntRange(0, 2).Draw(rt, label+".parts")
			break
		}
	}
	g.Tags = genRefs(rt, label+".tags", 3, 2)
	g.Notes = genRefs(rt, label+".notes", 4, 2)
	return g
}

var preloadPaths = []string{"Company", "Profile", "Items", "Tags", "Notes", "Items.Parts", "Company.Offices", clause.Associations, "Contact.Region"}

func genPreloads(rt *rapid.T, min int) []Preload {
	n := rapid.IntRange(min, 3).Draw(rt, "preloads.n")
	var out []Preload
	seen := map[string]bool{}
	for i := 0; i < n; i++ {
		p := rapid.SampledFrom(preloadPaths).Draw(rt, "preload.path")
		if seen[p] {
			continue
		}
		seen[p] = true
		pl := Preload{Path: p}
		if p == "Items" || p == "Tags" || p == "Notes" || p == "Items.Parts" {
			pl.Cond = rapid.SampledFrom([]string{"", "", "inline", "func"}).Draw(rt, "preload.cond")
		}
		out = append(out, pl)
	}
	return out
}

var opKinds = []string{
	// rapid's SampledFrom favours the front of the list: the operations with internal sessions come first
	"assoc", "delete-assoc", "find", "batches", "find-joins", "save-fallback", "updates", "create",
	"save", "create-slice", "firstorcreate", "create-batches", "save-slice", "update-model", "first",
	"assoc", "save-new", "delete", "update-where", "last", "take", "firstorinit",
	"connection", "count-find", "update-form", "migrate", "create-map",
	"rows", "scan", "pluck", "count", "row", "raw", "exec",
}

func genOp(rt *rapid.T, txNone, oneUse, noMigrate bool) Op {
	kind := rapid.SampledFrom(opKinds).Draw(rt, "op")
	if kind == "connection" && !txNone {
		kind = "count-find" // Connection takes another pooled connection: only outside transactions
	}
	if kind == "migrate" && noMigrate {
		// one schema-changing operation per case: the forms are not idempotent together (CreateTable after
		// AutoMigrate of the same table), and under PrepareStmt a cached SELECT * keeps the column list
		// from before an ALTER, so a second AutoMigrate would add the column again
		kind = "count-find"
	}
	if kind == "rows" && oneUse {
		kind = "scan" // Rows + ScanRows uses the handle twice
	}
	o := Op{Kind: kind}
	switch kind {
	case "create":
		o.G = []Graph{genGraph(rt, "g")}
		o.Full = rapid.Bool().Draw(rt, "full")
		if rapid.IntRange(0, 4).Draw(rt, "upsert") == 0 {
			o.Upsert = true
			o.ID = rapid.IntRange(1, 5).Draw(rt, "id")
		}
		o.Form = rapid.SampledFrom([]string{"", "", "select", "omit", "omit-associations"}).Draw(rt, "form")
	case "create-slice", "create-batches":
		n := rapid.IntRange(2, 3).Draw(rt, "n")
		o.IDs = make([]int, n)
		for i := 0; i < n; i++ {
			o.G = append(o.G, genGraph(rt, fmt.Sprintf("g%d", i)))
		}
		o.Full = rapid.Bool().Draw(rt, "full")
		if kind == "create-slice" && rapid.IntRange(0, 2).Draw(rt, "pointers") == 0 {
			o.Form = "pointers"
		}
		if kind == "create-batches" {
			o.Batch = rapid.IntRange(1, 3).Draw(rt, "batch")
		} else if rapid.IntRange(0, 2).Draw(rt, "batchsize") == 0 {
			o.Batch = rapid.IntRange(1, 2).Draw(rt, "batch") // Session{CreateBatchSize}
		}
	case "updates", "update-model", "save":
		o.ID = rapid.IntRange(1, 5).Draw(rt, "id")
		o.G = []Graph{genGraph(rt, "g")}
		o.Full = rapid.Bool().Draw(rt, "full")
	case "save-fallback":
		o.Kind = "save"
		o.Form = "fallback"
		o.ID = 900 + rapid.IntRange(0, 3).Draw(rt, "id")
		o.G = []Graph{genGraph(rt, "g")}
		o.Full = rapid.Bool().Draw(rt, "full")
	case "save-new":
		o.Kind = "save"
		o.Form = "new"
		o.G = []Graph{genGraph(rt, "g")}
		o.Full = rapid.Bool().Draw(rt, "full")
	case "save-slice":
		o.IDs = genIDs(rt, "ids", 1, 3)
		if rapid.Bool().Draw(rt, "withnew") {
			o.IDs = append(o.IDs, 0)
		}
		for i := range o.IDs {
			o.G = append(o.G, genGraph(rt, fmt.Sprintf("g%d", i)))
		}
		o.Full = rapid.Bool().Draw(rt, "full")
	case "update-where":
		o.IDs = genIDs(rt, "ids", 1, 3)
		o.Ret = rapid.IntRange(0, 2).Draw(rt, "returning") == 0
		o.Scoped = rapid.IntRange(0, 2).Draw(rt, "scoped") == 0
	case "update-form":
		o.ID = rapid.IntRange(1, 5).Draw(rt, "id")
		o.Form = rapid.SampledFrom([]string{"map", "map-belongs-to", "update-column", "update-columns", "select-star"}).Draw(rt, "form")
	case "create-map":
		o.Form = rapid.SampledFrom([]string{"map", "maps"}).Draw(rt, "form")
	case "delete":
		o.ID = rapid.IntRange(1, 5).Draw(rt, "id")
		o.Form = rapid.SampledFrom([]string{"", "ids", "where"}).Draw(rt, "form")
		if o.Form != "" {
			o.IDs = genIDs(rt, "ids", 1, 3)
		}
		o.Ret = rapid.IntRange(0, 2).Draw(rt, "returning") == 0
	case "connection":
		o.ID = rapid.IntRange(1, 5).Draw(rt, "id")
		o.Preloads = genPreloads(rt, 0)
	case "count-find":
		o.Age = rapid.SampledFrom([]int{1, 33, 90}).Draw(rt, "age")
		o.Preloads = genPreloads(rt, 0)
	case "migrate":
		o.Form = rapid.SampledFrom([]string{"auto-new-table", "auto-add-column", "create-drop"}).Draw(rt, "form")
	case "delete-assoc":
		if rapid.Bool().Draw(rt, "all") {
			o.Sel = []string{clause.Associations}
		} else {
			perm := rapid.Permutation([]string{"Profile", "Items", "Tags", "Notes", "Company"}).Draw(rt, "sel")
			o.Sel = append([]string(nil), perm[:rapid.IntRange(1, 3).Draw(rt, "sel.n")]...)
			sort.Strings(o.Sel)
			for _, s := range o.Sel {
				if s == "Items" && rapid.Bool().Draw(rt, "sel.nested") {
					o.Sel = append(o.Sel, "Items.Parts") // nested: the parts of the deleted items go too
				}
			}
		}
		o.Unscoped = rapid.IntRange(0, 3).Draw(rt, "unscoped") == 0
		if rapid.Bool().Draw(rt, "multi") {
			o.IDs = genIDs(rt, "ids", 2, 3)
		} else {
			o.ID = rapid.IntRange(1, 5).Draw(rt, "id")
		}
	case "find":
		o.Preloads = genPreloads(rt, 1)
		if rapid.Bool().Draw(rt, "cond") {
			o.Age = rapid.SampledFrom([]int{20, 33, 50, 90}).Draw(rt, "age")
			o.Scoped = rapid.IntRange(0, 2).Draw(rt, "scoped") == 0
		}
		o.Sub = rapid.SampledFrom([]string{"", "", "same", "foreign"}).Draw(rt, "sub")
	case "find-joins":
		o.Kind = "find"
		perm := rapid.Permutation([]string{"Company", "Profile"}).Draw(rt, "joins")
		o.Joins = append([]string(nil), perm[:rapid.IntRange(1, 2).Draw(rt, "joins.n")]...)
		o.InnerJ = rapid.IntRange(0, 2).Draw(rt, "innerjoins") == 0
		o.JoinCond = !o.InnerJ && o.Joins[0] == "Company" && rapid.IntRange(0, 2).Draw(rt, "joincond") == 0
		switch rapid.IntRange(0, 2).Draw(rt, "joinpreload") {
		case 1:
			o.Preloads = genPreloads(rt, 1)
		case 2:
			// nested preload below a joined relation goes through preloadDB
			if o.Joins[0] == "Company" || len(o.Joins) == 2 {
				o.Preloads = []Preload{{Path: "Company.Offices"}}
			} else {
				o.Preloads = genPreloads(rt, 1)
			}
		}
	case "first", "take", "last":
		if rapid.Bool().Draw(rt, "byid") {
			o.ID = rapid.SampledFrom([]int{1, 2, 3, 4, 5, 77}).Draw(rt, "id")
		}
		o.Preloads = genPreloads(rt, 0)
		if rapid.IntRange(0, 3).Draw(rt, "join") == 0 {
			o.Joins = []string{"Company"}
		}
	case "assoc":
		o.Name = rapid.SampledFrom([]string{"Company", "Profile", "Items", "Tags", "Notes"}).Draw(rt, "assoc")
		o.Verb = rapid.SampledFrom([]string{"replace", "clear", "delete", "append", "find", "count"}).Draw(rt, "verb")
		maxID := map[string]int{"Company": 2, "Profile": 3, "Items": 6, "Tags": 3, "Notes": 4}[o.Name]
		single := o.Name == "Company" || o.Name == "Profile"
		o.ID = rapid.IntRange(1, 5).Draw(rt, "id")
		switch o.Verb {
		case "find", "count":
			if rapid.Bool().Draw(rt, "multi") {
				o.ID = 0
				o.IDs = genIDs(rt, "ids", 2, 3)
			}
			if o.Verb == "find" && rapid.Bool().Draw(rt, "cond") {
				o.Age = 1
			}
			o.Unscoped = rapid.IntRange(0, 3).Draw(rt, "unscoped") == 0
		case "append", "replace":
			if single {
				o.Vals = []int{genRef(rt, "val", maxID)}
			} else {
				o.Vals = genRefs(rt, "vals", maxID, 3)
				if len(o.Vals) == 0 {
					o.Vals = []int{-1}
				}
			}
			o.Unscoped = rapid.Bool().Draw(rt, "unscoped")
		case "delete":
			n := 1
			if !single {
				n = rapid.IntRange(1, 2).Draw(rt, "n")
			}
			perm := rapid.Permutation([]int{1, 2, 3, 4, 5, 6}[:maxID]).Draw(rt, "vals")
			o.Vals = append([]int(nil), perm[:n]...)
			sort.Ints(o.Vals)
			o.Unscoped = rapid.Bool().Draw(rt, "unscoped")
		case "clear":
			o.Unscoped = rapid.Bool().Draw(rt, "unscoped")
		}
		if rapid.IntRange(0, 2).Draw(rt, "loaded") != 0 {
			o.Form = "loaded" // the owner values carry their foreign keys, like records read from the database
		}
		if o.Verb != "find" && o.Verb != "count" && rapid.IntRange(0, 2).Draw(rt, "multi") == 0 {
			// a slice of owners as the model: append / replace take one value per owner
			o.ID = 0
			o.IDs = genIDs(rt, "ids", 2, 2)
			if o.Verb == "append" || o.Verb == "replace" {
				o.Vals = []int{genRef(rt, "val0", maxID), -1}
			}
		}
	case "batches":
		o.Batch = rapid.IntRange(1, 3).Draw(rt, "batch")
		o.Inner = rapid.SampledFrom([]string{"", "count", "save", "assoc", "update"}).Draw(rt, "inner")
		if rapid.IntRange(0, 2).Draw(rt, "limit") == 0 {
			o.Limit = rapid.SampledFrom([]int{2, 4}).Draw(rt, "limit.n")
		}
		o.Preloads = genPreloads(rt, 0)
		if rapid.Bool().Draw(rt, "cond") {
			o.Age = rapid.SampledFrom([]int{20, 33, 50}).Draw(rt, "age")
		}
	case "rows":
		o.Age = rapid.SampledFrom([]int{1, 33, 90}).Draw(rt, "age")
	case "pluck":
		o.Age = rapid.SampledFrom([]int{1, 33, 90}).Draw(rt, "age")
		o.Form = rapid.SampledFrom([]string{"", "distinct"}).Draw(rt, "form")
	case "raw":
		o.Age = rapid.SampledFrom([]int{1, 33, 90}).Draw(rt, "age")
		o.Form = rapid.SampledFrom([]string{"", "rows", "row"}).Draw(rt, "form")
	case "scan":
		o.Age = rapid.SampledFrom([]int{1, 33, 90}).Draw(rt, "age")
		o.Form = rapid.SampledFrom([]string{"model", "table", "find-maps", "take-map", "sub-table"}).Draw(rt, "form")
	case "count":
		o.Age = rapid.SampledFrom([]int{1, 33, 90}).Draw(rt, "age")
		if rapid.Bool().Draw(rt, "join") {
			o.Joins = []string{"Company"}
		}
		o.Form = rapid.SampledFrom([]string{"", "", "group", "distinct"}).Draw(rt, "form")
		o.Scoped = rapid.IntRange(0, 2).Draw(rt, "scoped") == 0
	case "firstorcreate", "firstorinit":
		o.Form = rapid.SampledFrom([]string{"", "model", "conds"}).Draw(rt, "form")
		o.Found = rapid.Bool().Draw(rt, "found")
		o.Attrs = rapid.Bool().Draw(rt, "attrs")
		o.Assign = rapid.Bool().Draw(rt, "assign")
	case "exec":
		o.ID = rapid.IntRange(1, 5).Draw(rt, "id")
	case "row":
		o.ID = rapid.SampledFrom([]int{1, 2, 3, 4, 5, 77}).Draw(rt, "id")
	}
	return o
}

func genCase(rt *rapid.T) Case {
	c := Case{}
	c.Bind = rapid.SampledFrom([]string{"withcontext", "withcontext", "withcontext", "session", "session", "session", "rebound-withcontext", "rebound-session", "session-initialized", "session-initialized-newdb"}).Draw(rt, "bind")
	initialized := strings.HasPrefix(c.Bind, "session-initialized")
	preps := []string{"off", "off", "off", "config", "config", "session-before", "session-after", "session-late"}
	if strings.HasSuffix(c.Bind, "session") {
		preps = append(preps, "session-same")
	}
	if initialized {
		// nothing may be derived from the ready instance: only the switches applied before it
		preps = []string{"off", "config", "session-before"}
	}
	c.Prepare = rapid.SampledFrom(preps).Draw(rt, "prepare")
	c.SkipTx = rapid.IntRange(0, 3).Draw(rt, "skiptx") == 0
	c.Derive = rapid.SampledFrom([]string{"none", "none", "session", "newdb", "skiphooks", "skip-default-tx", "no-nested-tx", "allow-global-update+query-fields"}).Draw(rt, "derive")
	c.Tx = rapid.SampledFrom([]string{"none", "none", "block", "block", "manual"}).Draw(rt, "tx")
	if initialized {
		c.Derive, c.Tx = "none", "none"
	}
	if c.Tx != "none" {
		c.Depth = rapid.IntRange(1, 2).Draw(rt, "depth")
		for i := 0; i < c.Depth; i++ {
			fail := rapid.IntRange(0, 3).Draw(rt, "fail") == 0
			c.Fail = append(c.Fail, fail)
			c.After = append(c.After, rapid.IntRange(0, 2).Draw(rt, "after") == 0)
			c.Panic = append(c.Panic, fail && !(c.Tx == "manual" && i == 0) && rapid.IntRange(0, 2).Draw(rt, "panic") == 0)
		}
		c.TxOpts = rapid.IntRange(0, 3).Draw(rt, "txopts") == 0
		if c.Tx == "manual" {
			c.Savepoint = rapid.SampledFrom([]string{"", "", "keep", "rollback"}).Draw(rt, "savepoint")
		}
	}
	c.NoReturning = rapid.IntRange(0, 3).Draw(rt, "noreturning") == 0
	c.Cfg = rapid.SampledFrom([]string{"", "", "", "no-nested-tx", "full-save", "translate-error", "query-fields", "create-batch-size"}).Draw(rt, "cfg")
	c.Plugin = rapid.IntRange(0, 4).Draw(rt, "plugin") == 0
	c.JoinModel = rapid.IntRange(0, 3).Draw(rt, "joinmodel") == 0
	if c.Prepare != "off" {
		c.Warm = rapid.Bool().Draw(rt, "warm")
	}
	c.CancelFirst = rapid.Bool().Draw(rt, "cancelfirst")
	c.Ctx = rapid.SampledFrom([]string{"deadline", "cancel", "timeout", "value", "background", "todo"}).Draw(rt, "ctx")
	c.Dead = rapid.SampledFrom([]string{"cancelled", "expired"}).Draw(rt, "dead")
	if cancellable(c.Ctx) && rapid.Bool().Draw(rt, "mid") {
		c.Mid = rapid.IntRange(1, 8).Draw(rt, "mid.k")
	}
	c.Hook = rapid.SampledFrom([]string{"", "", "exec", "create", "count", "preload"}).Draw(rt, "hook")
	if c.Hook != "" {
		c.HookAt = rapid.SampledFrom([]string{"before", "after", "all"}).Draw(rt, "hookat")
	}
	if !initialized && rapid.Bool().Draw(rt, "fork") {
		f := &Fork{}
		f.At = rapid.SampledFrom([]string{"bound", "inner"}).Draw(rt, "fork.at")
		f.Ctx = rapid.SampledFrom([]string{"own", "own-dead", "inherit", "background", "todo"}).Draw(rt, "fork.ctx")
		f.Form = "session"
		if f.Ctx != "inherit" && rapid.IntRange(0, 3).Draw(rt, "fork.withcontext") == 0 {
			f.Form = "withcontext"
		} else {
			f.Initialized = rapid.Bool().Draw(rt, "fork.initialized")
			f.NewDB = rapid.Bool().Draw(rt, "fork.newdb")
			f.PrepareStmt = rapid.IntRange(0, 2).Draw(rt, "fork.prepare") == 0
			f.SkipHooks = rapid.IntRange(0, 2).Draw(rt, "fork.skiphooks") == 0
		}
		f.Use = rapid.SampledFrom([]string{"before", "unused", "after"}).Draw(rt, "fork.use")
		f.Op = rapid.SampledFrom([]string{"create", "count"}).Draw(rt, "fork.op")
		c.Fork = f
	}
	n := 1
	if !initialized && rapid.IntRange(0, 3).Draw(rt, "twoops") == 0 {
		n = 2
	}
	for i := 0; i < n; i++ {
		migrated := false
		for _, o := range c.Ops {
			migrated = migrated || o.Kind == "migrate"
		}
		c.Ops = append(c.Ops, genOp(rt, c.Tx == "none", initialized, migrated))
	}
	return c
}

// ---- classes ---------------------------------------------------------------------------------------------

func classes(c Case) []string {
	set := map[string]bool{
		"bind:" + c.Bind:                            true,
		"prepare:" + c.Prepare:                      true,
		"ctx:" + c.Ctx:                              true,
		"dead-ctx:" + c.Dead:                        true,
		"derive:" + c.Derive:                        true,
		fmt.Sprintf("tx:%s", c.Tx):                  true,
		fmt.Sprintf("tx-depth:%d", c.Depth):         true,
		fmt.Sprintf("ops:%d", len(c.Ops)):           true,
		fmt.Sprintf("skip-default-tx:%v", c.SkipTx): true,
	}
	if c.Warm {
		set["prepare-cache:warmed-by-other-context"] = true
	}
	if f := c.Fork; f != nil {
		set["fork:at-"+f.At] = true
		set["fork:child-ctx-"+f.Ctx] = true
		set["fork:"+f.Form] = true
		set["fork:child-"+f.Use] = true
		if f.Initialized {
			set["fork:session-initialized"] = true
			if f.Ctx != "inherit" {
				set["fork:session-context+initialized"] = true
			}
		}
		if f.NewDB {
			set["fork:session-newdb"] = true
		}
		if f.PrepareStmt {
			set["fork:session-preparestmt"] = true
		}
		if f.SkipHooks {
			set["fork:session-skiphooks"] = true
		}
	} else {
		set["fork:none"] = true
	}
	if c.Mid > 0 {
		set["cancel-in-flight"] = true
	}
	if c.NoReturning {
		set["dialector:no-returning"] = true
	} else {
		set["dialector:returning"] = true
	}
	if c.Cfg != "" {
		set["config:"+c.Cfg] = true
	}
	if c.Plugin {
		set["plugin-callbacks"] = true
	}
	if c.JoinModel {
		set["join-model:setup-join-table"] = true
	}
	if c.TxOpts {
		set["tx:with-options"] = true
	}
	if c.Savepoint != "" {
		set["tx:explicit-savepoint-"+c.Savepoint] = true
	}
	for _, p := range c.Panic {
		if p {
			set["tx:block-panics"] = true
		}
	}
	if c.Hook != "" {
		set["hook:"+c.Hook+":"+c.HookAt] = true
	} else {
		set["hook:none"] = true
	}
	for _, f := range c.Fail {
		if f {
			set["tx:level-rolled-back"] = true
		}
	}
	for _, o := range c.Ops {
		k := o.Kind
		if o.Form == "fallback" || o.Form == "new" {
			k += "-" + o.Form
		}
		set["op:"+k] = true
		switch o.Kind {
		case "create", "create-slice", "create-map", "update-form", "delete", "migrate", "scan", "pluck", "count", "raw", "firstorcreate", "firstorinit":
			if o.Form != "" && o.Form != "fallback" && o.Form != "new" {
				set["form:"+o.Kind+":"+o.Form] = true
			}
		}
		if o.Ret {
			set["clause:returning-on-"+o.Kind] = true
		}
		if o.Scoped {
			set["chain:scopes"] = true
		}
		if o.Sub != "" {
			set["handle-as-argument:subquery-"+o.Sub] = true
		}
		if o.Form == "sub-table" {
			set["handle-as-argument:table-subquery-foreign"] = true
		}
		if o.JoinCond {
			set["handle-as-argument:join-condition-foreign"] = true
		}
		if o.InnerJ {
			set["joins:inner"] = true
		}
		if o.Limit > 0 {
			set["batches:with-limit"] = true
		}
		if o.Kind == "assoc" && o.Form == "loaded" {
			set["assoc:owner-with-loaded-keys"] = true
		}
		if o.Kind == "assoc" && o.Unscoped {
			set["assoc:unscoped:"+o.Name+":"+o.Verb] = true
		}
		if o.Kind == "assoc" && len(o.IDs) > 0 {
			set["assoc:slice-model-"+o.Verb] = true
		}
		for _, p := range o.Preloads {
			if p.Path == "Contact.Region" {
				set["preload:embedded-relation"] = true
			}
		}
		for _, s := range o.Sel {
			if s == "Items.Parts" {
				set["delete:select-nested-association"] = true
			}
		}
		if o.Full {
			set["write:full-save-associations"] = true
		}
		if o.Upsert {
			set["write:upsert"] = true
		}
		for _, g := range o.G {
			if !g.empty() {
				set["write:with-associations"] = true
			}
		}
		if o.Kind == "assoc" {
			set["assoc:"+o.Name+":"+o.Verb] = true
			if o.Unscoped {
				set["assoc:unscoped"] = true
			}
		}
		for _, p := range o.Preloads {
			switch {
			case p.Path == clause.Associations:
				set["preload:all-associations"] = true
			case strings.Contains(p.Path, "."):
				set["preload:nested"] = true
			default:
				set["preload:single"] = true
			}
			if p.Cond != "" {
				set["preload:cond-"+p.Cond] = true
			}
		}
		if len(o.Joins) > 0 {
			set["joins"] = true
			for _, p := range o.Preloads {
				if strings.HasPrefix(p.Path, o.Joins[0]+".") || (len(o.Joins) > 1 && strings.HasPrefix(p.Path, o.Joins[1]+".")) {
					set["preload:below-joined-relation"] = true
				}
			}
		}
		if o.Kind == "batches" {
			set["batches:inner-"+o.Inner] = true
		}
		if o.Kind == "delete-assoc" {
			if o.Sel[0] == clause.Associations {
				set["delete:select-all-associations"] = true
			} else {
				set["delete:select-named-associations"] = true
			}
		}
	}
	out := make([]string, 0, len(set))
	for k := range set {
		out = append(out, k)
	}
	sort.Strings(out)
	return out
}

// ---- the oracle -------------------------------------------------------------------------------------------

func judged(kind string) bool {
	return kind == recdrv.Begin || kind == recdrv.Prepare || kind == recdrv.Exec || kind == recdrv.Query
}

func isSavepoint(text string) bool {
	t := strings.ToUpper(strings.TrimSpace(text))
	return strings.HasPrefix(t, "SAVEPOINT") || strings.HasPrefix(t, "ROLLBACK TO") || strings.HasPrefix(t, "RELEASE")
}

func markerOf(ctx context.Context) string {
	if ctx == nil {
		return "<nil context>"
	}
	v := ctx.Value(markerKey{})
	if v == nil {
		return "<no marker>"
	}
	return fmt.Sprint(v)
}

func renderEvents(evs []recdrv.Event) string {
	var sb strings.Builder
	for _, e := range evs {
		if e.Kind == recdrv.StmtClose || e.Kind == recdrv.ConnClose || e.Kind == recdrv.ConnOpen {
			continue
		}
		m := ""
		if judged(e.Kind) {
			m = " ctx=" + markerOf(e.Ctx)
		}
		fmt.Fprintf(&sb, "    %s%s\n", e.String(), m)
	}
	return sb.String()
}

var caseSeq int64

// farDeadline is the generous deadline of the live deadline-bearing contexts.
var farDeadline = time.Date(2099, 1, 2, 3, 4, 5, 0, time.UTC)

// liveContext builds the caller's context of the live half: always the marker
// value, plus a cancellation and/or deadline of its own depending on kind.
func liveContext(kind, id string) (context.Context, context.CancelFunc) {
	base := context.WithValue(context.Background(), markerKey{}, id)
	switch kind {
	case "cancel":
		return context.WithCancel(base)
	case "timeout":
		return context.WithTimeout(base, 24*time.Hour)
	case "deadline":
		return context.WithDeadline(base, farDeadline)
	case "background":
		// the literal empty contexts: no value, no deadline, never done. Binding a handle to one of them must
		// drop whatever the handle was bound to before
		return context.Background(), func() {}
	case "todo":
		return context.TODO(), func() {}
	}
	return base, func() {}
}

// cancellable: kinds of caller context that can be cancelled after the operation.
func cancellable(kind string) bool {
	return kind == "cancel" || kind == "timeout" || kind == "deadline"
}

// deadContext builds a context that is already done before the program starts.
func deadContext(kind, id string) (context.Context, context.CancelFunc, error) {
	base := context.WithValue(context.Background(), markerKey{}, id)
	if kind == "expired" {
		ctx, cancel := context.WithDeadline(base, time.Unix(1, 0))
		return ctx, cancel, context.DeadlineExceeded
	}
	ctx, cancel := context.WithCancel(base)
	cancel()
	return ctx, cancel, context.Canceled
}

// notCallers judges identity of cancellation: got is the context a driver call
// received, caller the context the handle was bound to. Called after the
// caller's context has been cancelled (when it can be): the caller's context
// itself, or any context database/sql derived from it, is done by then and
// reports the caller's deadline; a detached copy that only forwards values is not.
func notCallers(got, caller context.Context, callerCancelled bool) string {
	wantDl, wantOk := caller.Deadline()
	dl, ok := got.Deadline()
	if ok != wantOk || !dl.Equal(wantDl) {
		return fmt.Sprintf("reports deadline (%v, %v), the caller's context reports (%v, %v)", dl, ok, wantDl, wantOk)
	}
	if callerCancelled && got.Err() == nil {
		return "is still live (Err() == nil) after the caller's context was cancelled: it is not the caller's context nor derived from it"
	}
	if caller.Err() == nil && got.Err() != nil {
		return fmt.Sprintf("is done (%v) although the caller's context is alive: it belongs to another, cancelled context", got.Err())
	}
	return ""
}

// rowPrepareFails: known finding class. Row() reached first under the cancelled
// context on a prepared-statement handle whose cache does not hold the statement yet:
// PreparedStmtDB.QueryRowContext drops the prepare error and returns an empty sql.Row.
func rowPrepareFails(c Case) bool {
	return c.Tx == "none" && c.Prepare != "off" && c.CancelFirst && c.Ops[0].Kind == "row"
}

// checkCase runs both halves of one case; a non-empty message is a violation,
// a non-nil error a harness problem. stmts is the number of exec/query events
// (save-point statements aside) the operation issued under the live context.
func checkCase(c Case) (msg string, stmts int, herr error) {
	id := fmt.Sprintf("c18-%d", atomic.AddInt64(&caseSeq, 1))
	childID := "child-" + id
	hk.stmt, hk.at, hk.fired = c.Hook, c.HookAt, 0
	defer func() { hk.stmt = "" }()

	d, err := openDB(c)
	if err != nil {
		return "", 0, err
	}
	defer d.Close()

	live, liveCancel := liveContext(c.Ctx, id)
	defer liveCancel()
	childAlive := context.WithValue(context.Background(), markerKey{}, childID)
	if c.Fork != nil {
		switch c.Fork.Ctx {
		case "background":
			childAlive = context.Background()
		case "todo":
			childAlive = context.TODO()
		}
	}
	// the "other" context (a handle is re-bound over it, foreign handles carry it) is cancelled before the
	// contexts of the driver calls are judged: anything that kept it shows up as done
	otherBase, otherCancel := context.WithDeadline(context.WithValue(context.Background(), markerKey{}, "other-"+id), farDeadline.Add(time.Hour))
	defer otherCancel()
	var other context.Context = otherBase

	// judgeChild checks the driver calls the forked child made in one half. childCtx is the
	// child's own context (nil: it inherits the parent's), childDead whether that context
	// was already cancelled, parentErr what a child that inherits a dead parent context must get.
	judgeChild := func(half string, evs []recdrv.Event, spans []span, childCtx context.Context, childDead bool, parentErr error) string {
		for _, sp := range spans {
			n := 0
			for _, e := range evs {
				if !judged(e.Kind) || !(e.Seq > sp.from && e.Seq <= sp.to) {
					continue
				}
				n++
				if childDead || (childCtx == nil && parentErr != nil) {
					return fmt.Sprintf("%s: the forked child handle's context is already done, yet its driver call %s happened (ctx marker %s)\n  driver events:\n%s",
						half, e.String(), markerOf(e.Ctx), renderEvents(evs))
				}
				if childCtx != nil {
					if e.Ctx == nil || e.Ctx.Value(markerKey{}) != childCtx.Value(markerKey{}) {
						return fmt.Sprintf("%s: driver call %s of the forked child handle received a context with marker %s, want the child's marker %s\n  driver events:\n%s",
							half, e.String(), markerOf(e.Ctx), markerOf(childCtx), renderEvents(evs))
					}
					if why := notCallers(e.Ctx, childCtx, false); why != "" {
						return fmt.Sprintf("%s: driver call %s of the forked child handle received a context that %s\n  driver events:\n%s", half, e.String(), why, renderEvents(evs))
					}
				}
				// a child that inherits is judged with the parent's events by the caller
			}
			switch {
			case childDead:
				if !errors.Is(sp.err, context.Canceled) {
					return fmt.Sprintf("%s: the forked child handle has an already-cancelled context but its operation returned %v, want context.Canceled\n  driver events:\n%s", half, sp.err, renderEvents(evs))
				}
			case childCtx == nil && parentErr != nil:
				if !errors.Is(sp.err, parentErr) {
					return fmt.Sprintf("%s: the forked child handle inherits the parent's dead context but its operation returned %v, want %v\n  driver events:\n%s", half, sp.err, parentErr, renderEvents(evs))
				}
			default:
				if sp.err != nil {
					return fmt.Sprintf("%s: the forked child handle's context is alive but its operation returned %v (the parent's context: %s)\n  driver events:\n%s", half, sp.err, half, renderEvents(evs))
				}
				if n == 0 {
					return fmt.Sprintf("%s: the forked child handle's operation made no driver call", half)
				}
			}
		}
		return ""
	}
	childInherits := c.Fork != nil && c.Fork.Ctx == "inherit"

	cancelled := func() string {
		if rowPrepareFails(c) && harness.OpenClass("C18", "row-prepare-fails") {
			evid.Excluded("row-prepare-fails")
			return ""
		}
		cctx, cancel, wantErr := deadContext(c.Dead, id)
		defer cancel()
		// the parent's context is dead: a forked child with a context of its own is alive
		var childCtx context.Context
		if c.Fork != nil && !childInherits {
			childCtx = childAlive
		}
		d.Rec.Reset()
		err, spans := runProgram(d, c, cctx, other, childCtx)
		evs := d.Rec.Events()
		half := "parent context already " + c.Dead
		for _, e := range evs {
			// BEGIN is a statement too: database/sql refuses BeginTx/Exec/Query on a context that is
			// already done before calling the driver, so any such event means another context was passed
			// ... and a PREPARE as well (database/sql checks the context before it hands the
			// text to the driver), so a preparation that still happens used another context
			if judged(e.Kind) && !inSpan(spans, e.Seq) {
				return fmt.Sprintf("with an already-%s context the driver call %s still happened (ctx marker %s, returned error: %v)\n  driver events:\n%s",
					c.Dead, e.String(), markerOf(e.Ctx), err, renderEvents(evs))
			}
		}
		var pe errPanic
		if errors.As(err, &pe) {
			return fmt.Sprintf("with an already-%s context the operation panicked (%v) instead of returning %v\n  driver events:\n%s", c.Dead, pe.v, wantErr, renderEvents(evs))
		}
		if !errors.Is(err, wantErr) {
			return fmt.Sprintf("with an already-%s context the operation returned %v, want an error wrapping %v\n  driver events:\n%s", c.Dead, err, wantErr, renderEvents(evs))
		}
		return judgeChild(half, evs, spans, childCtx, false, wantErr)
	}

	if c.CancelFirst {
		if m := cancelled(); m != "" {
			return m, 0, nil
		}
	}

	if c.Warm {
		warm := context.WithValue(context.Background(), markerKey{}, "warm-"+id)
		var wchild context.Context
		if c.Fork != nil && !childInherits {
			wchild = context.WithValue(context.Background(), markerKey{}, "warm-"+childID)
		}
		if err, _ := runProgram(d, c, warm, other, wchild); err != nil {
			return "", 0, fmt.Errorf("warm-up run failed: %w", err)
		}
		if err := reseed(d); err != nil {
			return "", 0, fmt.Errorf("reseed: %w", err)
		}
	}

	// live half: the parent's context is alive, the child's own context alive or already cancelled
	var childCtx context.Context
	childDead := false
	if c.Fork != nil && !childInherits {
		childCtx = childAlive
		if c.Fork.Ctx == "own-dead" {
			cc, ccancel := context.WithCancel(childAlive)
			ccancel()
			childCtx, childDead = cc, true
		}
	}
	d.Rec.Reset()
	err, spans := runProgram(d, c, live, other, childCtx)
	evs := d.Rec.Events()
	// the operation has finished: cancel the caller's context, every context a driver call received must follow
	// (and cancel the context the handle was bound to before: nothing may have kept it)
	liveCancel()
	otherCancel()
	for _, e := range evs {
		if !judged(e.Kind) {
			continue
		}
		if inSpan(spans, e.Seq) && !childInherits {
			continue // the child's own calls: judged below
		}
		if (e.Kind == recdrv.Exec || e.Kind == recdrv.Query) && !inSpan(spans, e.Seq) {
			if !isSavepoint(e.Text) {
				stmts++
			}
		}
		if e.Ctx == nil || e.Ctx.Value(markerKey{}) != live.Value(markerKey{}) {
			return fmt.Sprintf("driver call %s received a context with marker %s, want the caller's marker %s\n  driver events:\n%s",
				e.String(), markerOf(e.Ctx), markerOf(live), renderEvents(evs)), stmts, nil
		}
		if why := notCallers(e.Ctx, live, cancellable(c.Ctx)); why != "" {
			return fmt.Sprintf("driver call %s received a context that carries the caller's marker but %s (caller's context kind: %s)\n  driver events:\n%s",
				e.String(), why, c.Ctx, renderEvents(evs)), stmts, nil
		}
	}
	if err != nil {
		if errors.Is(err, context.Canceled) || errors.Is(err, context.DeadlineExceeded) {
			return fmt.Sprintf("the caller's context is alive but the operation returned %v: some call was made under another, dead context\n  driver events:\n%s", err, renderEvents(evs)), stmts, nil
		}
		return "", stmts, fmt.Errorf("operation failed under a live context: %w\n  driver events:\n%s", err, renderEvents(evs))
	}
	if m := judgeChild("parent context alive", evs, spans, childCtx, childDead, nil); m != "" {
		return m, stmts, nil
	}

	if !c.CancelFirst {
		if m := cancelled(); m != "" {
			return m, stmts, nil
		}
	}

	// third run: the caller's context is cancelled in flight, at the start of the Mid-th driver call.
	// What the operation returns then depends on the driver and on database/sql's own rollback of the
	// transaction (context.Canceled, sql.ErrTxDone, an interrupted statement, or success): not judged. Judged:
	// no panic, and every driver call - before and after the cancellation - was handed the caller's context
	// (code that switches to another context once the caller's is done shows up here only).
	if c.Mid > 0 {
		if err := reseed(d); err != nil {
			return "", stmts, fmt.Errorf("reseed: %w", err)
		}
		mctx, mcancel := liveContext(c.Ctx, id)
		defer mcancel()
		var mchild context.Context
		if c.Fork != nil && !childInherits {
			mchild = childAlive
		}
		seen, fired := 0, false
		d.Rec.Reset()
		d.Rec.Hook = func(e *recdrv.Event) {
			if judged(e.Kind) {
				if seen++; seen == c.Mid {
					fired = true
					mcancel()
				}
			}
		}
		err, spans := runProgram(d, c, mctx, other, mchild)
		d.Rec.Hook = nil
		evs := d.Rec.Events()
		mcancel()
		if fired {
			evid.Class("cancel-in-flight:fired")
		}
		var pe errPanic
		if errors.As(err, &pe) {
			return fmt.Sprintf("the caller's context was cancelled in flight (at driver call %d) and the operation panicked: %v\n  driver events:\n%s", c.Mid, pe.v, renderEvents(evs)), stmts, nil
		}
		for _, e := range evs {
			if !judged(e.Kind) {
				continue
			}
			wantCtx, cancelledNow := mctx, true
			if inSpan(spans, e.Seq) && !childInherits {
				wantCtx, cancelledNow = mchild, false
			}
			want := markerOf(wantCtx)
			if e.Ctx == nil || e.Ctx.Value(markerKey{}) != wantCtx.Value(markerKey{}) {
				return fmt.Sprintf("the caller's context was cancelled in flight (at driver call %d): driver call %s received a context with marker %s, want %s\n  driver events:\n%s",
					c.Mid, e.String(), markerOf(e.Ctx), want, renderEvents(evs)), stmts, nil
			}
			if why := notCallers(e.Ctx, wantCtx, cancelledNow); why != "" {
				return fmt.Sprintf("the caller's context was cancelled in flight (at driver call %d): driver call %s received a context that carries the right marker but %s\n  driver events:\n%s",
					c.Mid, e.String(), why, renderEvents(evs)), stmts, nil
			}
		}
	}
	return "", stmts, nil
}

const rule = "C18: a program = handle bound by WithContext / Session{Context} (also re-bound over another context, derived by Session{} / Session{NewDB}), " +
	"PrepareStmt off / Config / Session{PrepareStmt} before, with, after the binding or on the innermost handle (optionally with the statement cache filled by the same program under another context), " +
	"optionally a child handle forked from the bound or the innermost handle by Session{Context, Initialized, NewDB, PrepareStmt, SkipHooks in any mix} / WithContext with a context of its own (alive, or cancelled while the parent's lives; alive while the parent's is dead) or inheriting, used before / after the parent's part or not at all, each handle judged against its own context, " +
	"the caller's (and a forked child's) context a plain value context, one with its own cancellation / timeout / far deadline, or the literal context.Background() / context.TODO() (re-binding to them must drop the old context: no marker, no deadline, never done, also after the old context is cancelled), SkipDefaultTransaction on/off, none / Transaction blocks / manual Begin at depth 0..2 with levels committing or rolling back, hooks issuing a statement through their tx, " +
	"Config / dialector switches (RETURNING on/off, DisableNestedTransaction, FullSaveAssociations, TranslateError, QueryFields, CreateBatchSize), plugin callbacks and a SetupJoinTable join model with a hook issuing statements, Session{Initialized} as the bound handle, derivations by Session{SkipHooks / SkipDefaultTransaction / DisableNestedTransaction / AllowGlobalUpdate+QueryFields}, Begin / Transaction with *sql.TxOptions, blocks that panic, explicit SavePoint / RollbackTo, " +
	"Connection, AutoMigrate / Migrator().CreateTable+DropTable, Create from map / []map / []*T / with Select / Omit, Updates(map, also with a belongs-to value) / UpdateColumn(s), clause.Returning on Update / Delete, Delete by ids / conditions / nested Select, Scopes, handles passed as arguments (sub-query, Table sub-query, join condition; built from a handle bound to another context), InnerJoins, a preload through an embedded struct, Count-then-Find on one Session value, Find into maps, Raw().Rows()/Row(), association mode on a slice of owners, " +
	"and 1-2 operations out of create / create-slice / CreateInBatches / Updates / Model.Update / Save (update, fallback, new, slice) with association graphs (belongs-to, has-one, has-many, nested, many2many, polymorphic; FullSaveAssociations), " +
	"Delete with Select(associations), Find/First/Take/Last with Preload (single, nested, clause.Associations, conditions) and relation Joins, Association(name).Find/Count/Append/Replace/Delete/Clear, " +
	"FindInBatches (with statements in the callback), Rows+ScanRows, Row, Scan, Pluck, Count, FirstOrCreate/FirstOrInit, Raw, Exec over a seeded family; " +
	"judged: every begin/prepare/exec/query driver event of the program carries the case's marker, reports the caller's deadline and is done once the caller's context is cancelled after the operation (a detached copy forwarding only values fails), " +
	"optionally a third run in which the caller's context is cancelled when the k-th driver call starts (only the contexts of the driver calls and the absence of a panic are judged then), " +
	"and under an already-cancelled context or one whose deadline has already passed no begin/prepare/exec/query event occurs and the error wraps context.Canceled / context.DeadlineExceeded (no panic); " +
	"non-trivial = the operations issued at least 2 exec/query statements (save-point statements not counted) under the live context; distinct = the full program description"

func TestC18(t *testing.T) {
	evid.Rule(rule)
	evid.Assume("recdrv records the context database/sql hands to the driver; database/sql may wrap it, Value lookup still resolves the marker")
	evid.Assume("commit/rollback driver calls carry no context in database/sql and are not judged")
	rapid.Check(t, func(rt *rapid.T) {
		c := genCase(rt)
		desc := c.String()
		evid.Journal(desc)
		msg, stmts, herr := checkCase(c)
		evid.Case(desc, stmts >= 2, nil, classes(c)...)
		if msg != "" {
			rt.Fatalf("C18 violated: %s  case: %s", msg, desc)
		}
		if herr != nil {
			rt.Fatalf("harness: %v\n  case: %s", herr, desc)
		}
	})
}

// TestC18Guard checks the observation path itself: an unbound handle must be
// seen without the marker (the oracle would flag it), a bound one with it.
func TestC18Guard(t *testing.T) {
	c := Case{Prepare: "off", Bind: "withcontext", Derive: "none", Tx: "none"}
	d, err := openDB(c)
	if err != nil {
		t.Fatalf("harness: %v", err)
	}
	defer d.Close()
	op := Op{Kind: "create", G: []Graph{{Company: -1, Offices: 1, Items: []int{-1}, Tags: []int{1}}}}
	d.Rec.Reset()
	if err := execOp(d.DB, op); err != nil {
		t.Fatalf("harness: %v", err)
	}
	n := 0
	for _, e := range d.Rec.Events() {
		if judged(e.Kind) {
			n++
			if e.Ctx == nil || e.Ctx.Value(markerKey{}) != nil {
				t.Errorf("C18 guard: unbound handle produced an event with marker %s", markerOf(e.Ctx))
			}
		}
	}
	if n < 5 {
		t.Errorf("C18 guard: expected at least 5 judged events for a create with associations, saw %d", n)
	}
	ctx := context.WithValue(context.Background(), markerKey{}, "guard")
	d.Rec.Reset()
	if err := execOp(d.DB.WithContext(ctx), op); err != nil {
		t.Fatalf("harness: %v", err)
	}
	for _, e := range d.Rec.Events() {
		if judged(e.Kind) && markerOf(e.Ctx) != "guard" {
			t.Errorf("C18 violated: bound handle produced %s with marker %s", e.String(), markerOf(e.Ctx))
		}
	}

	// identity of cancellation: a derived child passes, a detached copy that forwards values does not
	for _, kind := range []string{"cancel", "timeout", "deadline"} {
		caller, cancel := liveContext(kind, "guard")
		child, childCancel := context.WithCancel(context.WithValue(caller, struct{}{}, 1))
		copyOf := valuesOnly{caller}
		d.Rec.Reset()
		if err := execOp(d.DB.WithContext(caller), op); err != nil {
			t.Fatalf("harness: %v", err)
		}
		evs := d.Rec.Events()
		cancel()
		for _, e := range evs {
			if judged(e.Kind) {
				if why := notCallers(e.Ctx, caller, true); why != "" {
					t.Errorf("C18 violated (%s context): %s received a context that %s", kind, e.String(), why)
				}
			}
		}
		if why := notCallers(child, caller, true); why != "" {
			t.Errorf("C18 guard (%s): a context derived from the caller's is rejected: %s", kind, why)
		}
		if why := notCallers(copyOf, caller, true); why == "" {
			t.Errorf("C18 guard (%s): a detached copy forwarding only the values is accepted", kind)
		}
		if copyOf.Value(markerKey{}) != interface{}("guard") {
			t.Errorf("C18 guard: the detached copy should forward the marker")
		}
		childCancel()
	}
}

// valuesOnly forwards the values of a context but none of its cancellation (guard only).
type valuesOnly struct{ context.Context }

func (valuesOnly) Deadline() (time.Time, bool) { return time.Time{}, false }
func (valuesOnly) Done() <-chan struct{}       { return nil }
func (valuesOnly) Err() error                  { return nil }

// ---- witness of an open finding -----------------------------------------------------------------------

// Row() on a prepared-statement handle under an already-cancelled context:
// PreparedStmtDB.QueryRowContext (prepare_stmt.go) discards the error of the
// failed preparation and returns an empty *sql.Row, whose Scan dereferences a
// nil *sql.Rows. The caller gets a panic instead of context.Canceled.
func TestC18WitnessRowPrepareCancelled(t *testing.T) {
	for _, prep := range []string{"config", "session-after"} {
		c := Case{Prepare: prep, Bind: "withcontext", Derive: "none", Tx: "none", CancelFirst: true,
			Ops: []Op{{Kind: "row", ID: 1}}}
		d, err := openDB(c)
		if err != nil {
			t.Fatalf("harness: %v", err)
		}
		ctx, cancel := context.WithCancel(context.Background())
		cancel()
		d.Rec.Reset()
		err, _ = runProgram(d, c, ctx, context.Background(), nil)
		if n := len(d.Rec.Statements()); n != 0 {
			t.Errorf("C18 violated: %d statements reached the driver under a cancelled context", n)
		}
		if !errors.Is(err, context.Canceled) {
			t.Errorf("C18 violated (prepare mode %s): db.WithContext(cancelled).Model(&Owner{}).Select(\"name\").Where(\"id = ?\", 1).Row().Scan(&name) gave %v, want an error wrapping context.Canceled", prep, err)
		}
		d.Close()
	}
}
