package c15

import (
	"math"
	"sort"
	"testing"

	"pgregory.net/rapid"

	"verif/internal/evid"
	"verif/internal/testdb"
)

// Run-time failures while the rows are produced.
//
// One row (neither the first nor the last by key) holds the smallest 64 bit
// integer in column b and the chain carries abs(b) - in a condition or in the
// select list. SQLite raises "integer overflow" when, and only when, it
// evaluates the expression for that row; with a streaming plan that happens
// after earlier rows were already handed out. Oracle: every read path returns
// either a non-nil error or the complete correct result; a nil error with
// anything else (a truncated result) is a violation. For FindInBatches: the
// concatenation is complete or the call returns an error. Count with the
// expression in the select list issues count(*) and must agree with the
// reference. The reference treats abs(b) >= 0 as true for every row: if the
// database gets by without evaluating the failing row (limit reached, other
// condition false first) the result is the same either way.

const runtimeRule = "C15 run-time errors: 3..14 rows, one row (not first/last by key) holds MinInt64 in b, the chain carries " +
	"Where(\"abs(b) >= ?\", 0) or Select(\"id, a, abs(b) AS b, s, c, d, brand, for_n\") plus the usual conditions/orderings/Limit/Offset calls; " +
	"every read path must return an error or the complete reference result. non-trivial = the hand-driven Rows iteration of the " +
	"chain delivered at least one row and then failed (the failure happens in mid iteration); distinct = canonical rendering of the case"

func genRuntimeCase(rt *rapid.T) Case {
	c := genCase(rt)
	rows := genRowsN(rt, 3, 14)
	for i := range rows {
		if rows[i].B < 0 {
			rows[i].B = -rows[i].B // abs(b) == b for every row that can be delivered
		}
	}
	// the failing row: an inner position in key order
	ids := make([]int64, len(rows))
	for i, r := range rows {
		ids[i] = r.ID
	}
	sort.Slice(ids, func(i, j int) bool { return ids[i] < ids[j] })
	bad := ids[rapid.IntRange(1, len(ids)-2).Draw(rt, "failing-row")]
	for i := range rows {
		if rows[i].ID == bad {
			rows[i].B = math.MinInt64
		}
	}
	c.Rows = rows
	// the dimensions of the main test that do not combine with the failing expression
	c.ColMode, c.Cols, c.Distinct, c.Handle, c.Config, c.PresetID, c.StopAt = "", nil, false, "", "", 0, 0
	c.Or, c.CallbackWrites = nil, ""
	c.Expr = rapid.SampledFrom([]string{"where", "where", "select"}).Draw(rt, "expr")
	// mostly orderings SQLite can stream (no sorter): the failure then comes in mid iteration
	c.Order = rapid.SampledFrom([]string{"none", "none", "id", "pk", "id desc", "pk desc", "a desc, id", "b, a desc"}).Draw(rt, "order2")
	if rapid.IntRange(0, 2).Draw(rt, "drop-calls") != 0 {
		c.Calls = nil
	}
	if rapid.IntRange(0, 1).Draw(rt, "drop-conds") != 0 {
		c.Conds, c.Inline = nil, false
	}
	return c
}

func TestC15RuntimeError(t *testing.T) {
	evid.Rule(runtimeRule)
	rapid.Check(t, func(rt *rapid.T) {
		c := genRuntimeCase(rt)
		desc := c.String()
		evid.Journal(desc)
		d := testdb.Open(testdb.Options{})
		defer d.Close()
		if err := insertRows(d, c.Rows); err != nil {
			rt.Fatalf("harness: cannot prepare the table: %v, case: %s", err, desc)
		}
		k := &runner{c: c, db: d, ref: newReference(c), lenient: true}
		msg := k.run()
		_, cl := classify(c, k.ref)
		cl = append(cl, "runtime-error:expr-"+c.Expr)
		switch {
		case k.midFail:
			cl = append(cl, "runtime-error:mid-iteration")
		case k.errored > 0:
			cl = append(cl, "runtime-error:before-first-row-or-other-path")
		default:
			cl = append(cl, "runtime-error:never-raised")
		}
		if k.errored > 0 && k.completed > 0 {
			cl = append(cl, "runtime-error:some-paths-complete")
		}
		evid.Case(desc, k.midFail, c.sample(), cl...)
		evid.AddExtra("runtime_error_paths_errored", int64(k.errored))
		evid.AddExtra("runtime_error_paths_completed", int64(k.completed))
		if msg != "" {
			rt.Fatalf("C15 violated (nil error with an incomplete result while the database fails on one row): %s, case: %s", msg, desc)
		}
	})
}
