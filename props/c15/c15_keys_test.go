package c15

import (
	"errors"
	"fmt"
	"sort"
	"strings"
	"testing"

	"gorm.io/gorm"
	"pgregory.net/rapid"

	"verif/internal/evid"
	"verif/internal/testdb"
)

// A model whose primary key is a string in a column that is not called id:
// "key order" is the order of the strings (SQLite compares text bytewise, like
// Go), FindInBatches moves its cursor over string values.

const keysRule = "C15 string keys: 0..14 rows of a model with primary key `code text` (non-empty distinct strings of mixed case, digits, " +
	"prefixes of each other), optional condition n >= k, optional Limit/Offset, batch sizes 1..5: FindInBatches == Find under key order == " +
	"reference, First/Last == lowest/highest key, Pluck and Count agree. non-trivial = at least 3 matching rows and more rows than the batch size; " +
	"distinct = canonical rendering"

type Doc struct {
	Code string `gorm:"primaryKey"`
	N    int
}

func (Doc) TableName() string { return "docs" }

var codePool = []string{"a", "B", "ab", "a b", "b", "aa", "a_", "10", "9", "Z", "z", "_", "a.b", "ä", "A", "0"}

type KeyCase struct {
	Docs   []Doc `json:"docs"`  // insertion order
	MinN   int   `json:"min_n"` // -1: no condition
	Limit  int   `json:"limit"` // 0: none
	Offset int   `json:"offset"`
	Batch  int   `json:"batch"`
	Reuse  bool  `json:"reuse"`
}

func (c KeyCase) String() string {
	parts := make([]string, len(c.Docs))
	for i, d := range c.Docs {
		parts[i] = fmt.Sprintf("(%q,%d)", d.Code, d.N)
	}
	return fmt.Sprintf("keys docs=[%s] n>=%d limit=%d offset=%d batch=%d reuse=%v", strings.Join(parts, " "), c.MinN, c.Limit, c.Offset, c.Batch, c.Reuse)
}

func docsString(ds []Doc) string {
	parts := make([]string, len(ds))
	for i, d := range ds {
		parts[i] = fmt.Sprintf("(%q,%d)", d.Code, d.N)
	}
	return "[" + strings.Join(parts, " ") + "]"
}

func TestC15StringKeys(t *testing.T) {
	evid.Rule(keysRule)
	rapid.Check(t, func(rt *rapid.T) {
		codes := rapid.Permutation(codePool).Draw(rt, "codes")
		n := rapid.IntRange(0, 14).Draw(rt, "size")
		c := KeyCase{MinN: rapid.IntRange(-1, 3).Draw(rt, "min-n"), Batch: rapid.IntRange(1, 5).Draw(rt, "batch"), Reuse: rapid.Bool().Draw(rt, "reuse")}
		for i := 0; i < n; i++ {
			c.Docs = append(c.Docs, Doc{Code: codes[i], N: rapid.IntRange(0, 4).Draw(rt, "n")})
		}
		if rapid.Bool().Draw(rt, "with-limit") {
			c.Limit = rapid.IntRange(1, 8).Draw(rt, "limit")
		}
		if rapid.Bool().Draw(rt, "with-offset") {
			c.Offset = rapid.IntRange(1, 6).Draw(rt, "offset")
		}
		desc := c.String()
		evid.Journal(desc)

		var matched []Doc
		for _, d := range c.Docs {
			if d.N >= c.MinN {
				matched = append(matched, d)
			}
		}
		sort.Slice(matched, func(i, j int) bool { return matched[i].Code < matched[j].Code })
		want := matched
		if c.Offset >= len(want) {
			want = nil
		} else {
			want = want[c.Offset:]
		}
		if c.Limit > 0 && c.Limit < len(want) {
			want = want[:c.Limit]
		}
		cl := []string{"keys:matched-" + bucket(len(matched)), fmt.Sprintf("keys:batch-%d", c.Batch)}
		if c.Limit > 0 {
			cl = append(cl, "keys:limit")
		}
		if c.Offset > 0 {
			cl = append(cl, "keys:offset")
		}
		evid.Case(desc, len(matched) >= 3 && len(want) > c.Batch, nil, cl...)

		d := testdb.Open(testdb.Options{})
		defer d.Close()
		if _, err := d.SQL.Exec("CREATE TABLE docs (n integer NOT NULL, code text NOT NULL PRIMARY KEY)"); err != nil {
			rt.Fatalf("harness: %v", err)
		}
		for _, doc := range c.Docs {
			if _, err := d.SQL.Exec("INSERT INTO docs (code, n) VALUES (?, ?)", doc.Code, doc.N); err != nil {
				rt.Fatalf("harness: %v", err)
			}
		}
		chain := func() *gorm.DB {
			db := d.DB
			if c.MinN >= 0 {
				db = db.Where("n >= ?", c.MinN)
			}
			if c.Limit > 0 {
				db = db.Limit(c.Limit)
			}
			if c.Offset > 0 {
				db = db.Offset(c.Offset)
			}
			if c.Reuse {
				db = db.Session(&gorm.Session{})
			}
			return db
		}
		fail := func(format string, a ...interface{}) {
			rt.Fatalf("C15 violated: %s, case: %s", fmt.Sprintf(format, a...), desc)
		}

		var viaFind []Doc
		if err := chain().Order("code").Find(&viaFind).Error; err != nil {
			fail("Find under key order: unexpected error %v", err)
		}
		if docsString(viaFind) != docsString(want) {
			fail("Find under key order returned %s, reference %s", docsString(viaFind), docsString(want))
		}
		var (
			dest   []Doc
			concat []Doc
			sizes  []int
		)
		res := chain().FindInBatches(&dest, c.Batch, func(tx *gorm.DB, batch int) error {
			if len(concat)+len(dest) > len(c.Docs) {
				return errRunaway
			}
			concat = append(concat, dest...)
			sizes = append(sizes, len(dest))
			if batch != len(sizes) {
				return fmt.Errorf("batch number %d in call %d", batch, len(sizes))
			}
			return nil
		})
		if res.Error != nil {
			fail("FindInBatches(batch=%d): unexpected error %v; delivered %s in batches %v, reference %s", c.Batch, res.Error, docsString(concat), sizes, docsString(want))
		}
		if docsString(concat) != docsString(want) {
			fail("FindInBatches(batch=%d) delivered %s in batches %v, Find under key order returns %s", c.Batch, docsString(concat), sizes, docsString(want))
		}
		for i, s := range sizes {
			if s > c.Batch || s == 0 {
				fail("FindInBatches(batch=%d): batch %d holds %d rows", c.Batch, i+1, s)
			}
		}
		if int(res.RowsAffected) != len(want) {
			fail("FindInBatches: RowsAffected=%d but %d rows delivered", res.RowsAffected, len(want))
		}
		var codesGot []string
		if err := chain().Model(&Doc{}).Order("code").Pluck("code", &codesGot).Error; err != nil {
			fail("Pluck(code): unexpected error %v", err)
		}
		if len(codesGot) != len(want) {
			fail("Pluck(code) returned %q, reference %s", codesGot, docsString(want))
		}
		for i := range codesGot {
			if codesGot[i] != want[i].Code {
				fail("Pluck(code) returned %q, reference %s", codesGot, docsString(want))
			}
		}
		if c.Limit == 0 && c.Offset == 0 {
			var cnt int64
			if err := chain().Model(&Doc{}).Count(&cnt).Error; err != nil || int(cnt) != len(matched) {
				fail("Count = %d (error %v), Find returns %d rows", cnt, err, len(matched))
			}
		}
		if c.Offset == 0 {
			for _, last := range []bool{false, true} {
				var got Doc
				name, tx := "First", (*gorm.DB)(nil)
				if last {
					name, tx = "Last", chain().Last(&got)
				} else {
					tx = chain().First(&got)
				}
				if len(matched) == 0 {
					if !errors.Is(tx.Error, gorm.ErrRecordNotFound) {
						fail("%s: nothing matches but the error is %v", name, tx.Error)
					}
					continue
				}
				w := matched[0]
				if last {
					w = matched[len(matched)-1]
				}
				if tx.Error != nil || got != w {
					fail("%s returned %v (error %v), want %v", name, got, tx.Error, w)
				}
			}
		}
	})
}
