package c15

import (
	"errors"
	"fmt"
	"sort"
	"strings"
	"testing"

	"gorm.io/gorm"
	"pgregory.net/rapid"

	"verif/internal/evid"
	"verif/internal/testdb"
)

// A model whose primary key is a string in a column that is not called id:
// "key order" is the order of the strings (SQLite compares text bytewise, like
// Go), FindInBatches moves its cursor over string values.

const keysRule = "C15 string keys: 0..14 rows of a model with primary key `code text` (non-empty distinct strings of mixed case, digits, " +
	"prefixes of each other), optional condition n >= k, optional Limit/Offset, batch sizes 1..5: FindInBatches == Find under key order == " +
	"reference, First/Last == lowest/highest key, Pluck and Count agree. non-trivial = at least 3 matching rows and more rows than the batch size; " +
	"distinct = canonical rendering"

type Doc struct {
	Code string `gorm:"primaryKey"`
	N    int
}

func (Doc) TableName() string { return "docs" }

var codePool = []string{"a", "B", "ab", "a b", "b", "aa", "a_", "10", "9", "Z", "z", "_", "a.b", "ä", "A", "0"}

type KeyCase struct {
	Docs   []Doc `json:"docs"`  // insertion order
	MinN   int   `json:"min_n"` // -1: no condition
	Limit  int   `json:"limit"` // 0: none
	Offset int   `json:"offset"`
	Batch  int   `json:"batch"`
	Reuse  bool  `json:"reuse"`
}

func (c KeyCase) String() string {
	parts := make([]string, len(c.Docs))
	for i, d := range c.Docs {
		parts[i] = fmt.Sprintf("(%q,%d)", d.Code, d.N)
	}
	return fmt.Sprintf("keys docs=[%s] n>=%d limit=%d offset=%d batch=%d reuse=%v", strings.Join(parts, " "), c.MinN, c.Limit, c.Offset, c.Batch, c.Reuse)
}

func docsString(ds []Doc) string {
	parts := make([]string, len(ds))
	for i, d := range ds {
		parts[i] = fmt.Sprintf("(%q,%d)", d.Code, d.N)
	}
	return "[" + strings.Join(parts, " ") + "]"
}

func TestC15StringKeys(t *testing.T) {
	evid.Rule(keysRule)
	rapid.Check(t, func(rt *rapid.T) {
		codes := rapid.Permutation(codePool).Draw(rt, "codes")
		n := rapid.IntRange(0, 14).Draw(rt, "size")
		c := KeyCase{MinN: rapid.IntRange(-1, 3).Draw(rt, "min-n"), Batch: rapid.IntRange(1, 5).Draw(rt, "batch"), Reuse: rapid.Bool().Draw(rt, "reuse")}
		for i := 0; i < n; i++ {
			c.Docs = append(c.Docs, Doc{Code: codes[i], N: rapid.IntRange(0, 4).Draw(rt, "n")})
		}
		if rapid.Bool().Draw(rt, "with-limit") {
			c.Limit = rapid.IntRange(1, 8).Draw(rt, "limit")
		}
		if rapid.Bool().Draw(rt, "with-offset") {
			c.Offset = rapid.IntRange(1, 6).Draw(rt, "offset")
		}
		desc := c.String()
		evid.Journal(desc)

		var matched []Doc
		for _, d := range c.Docs {
			if d.N >= c.MinN {
				matched = append(matched, d)
			}
		}
		sort.Slice(matched, func(i, j int) bool { return matched[i].Code < matched[j].Code })
		want := matched
		if c.Offset >= len(want) {
			want = nil
		} else {
			want = want[c.Offset:]
		}
		if c.Limit > 0 && c.Limit < len(want) {
			want = want[:c.Limit]
		}
		cl := []string{"keys:matched-" + bucket(len(matched)), fmt.Sprintf("keys:batch-%d", c.Batch)}
		if c.Limit > 0 {
			cl = append(cl, "keys:limit")
		}
		if c.Offset > 0 {
			cl = append(cl, "keys:offset")
		}
		evid.Case(desc, len(matched) >= 3 && len(want) > c.Batch, nil, cl...)

		d := testdb.Open(testdb.Options{})
		defer d.Close()
		if _, err := d.SQL.Exec("CREATE TABLE docs (n integer NOT NULL, code text NOT NULL PRIMARY KEY)"); err != nil {
			rt.Fatalf("harness: %v", err)
		}
		for _, doc := range c.Docs {
			if _, err := d.SQL.Exec("INSERT INTO docs (code, n) VALUES (?, ?)", doc.Code, doc.N); err != nil {
				rt.Fatalf("harness: %v", err)
			}
		}
		chain := func() *gorm.DB {
			db := d.DB
			if c.MinN >= 0 {
				db = db.Where("n >= ?", c.MinN)
			}
			if c.Limit > 0 {
				db = db.Limit(c.Limit)
			}
			if c.Offset > 0 {
				db = db.Offset(c.Offset)
			}
			if c.Reuse {
				db = db.Session(&gorm.Session{})
			}
			return db
		}
		fail := func(format string, a ...interface{}) {
			rt.Fatalf("C15 violated: %s, case: %s", fmt.Sprintf(format, a...), desc)
		}

		var viaFind []Doc
		if err := chain().Order("code").Find(&viaFind).Error; err != nil {
			fail("Find under key order: unexpected error %v", err)
		}
		if docsString(viaFind) != docsString(want) {
			fail("Find under key order returned %s, reference %s", docsString(viaFind), docsString(want))
		}
		var (
			dest   []Doc
			concat []Doc
			sizes  []int
		)
		res := chain().FindInBatches(&dest, c.Batch, func(tx *gorm.DB, batch int) error {
			if len(concat)+len(dest) > len(c.Docs) {
				return errRunaway
			}
			concat = append(concat, dest...)
			sizes = append(sizes, len(dest))
			if batch != len(sizes) {
				return fmt.Errorf("batch number %d in call %d", batch, len(sizes))
			}
			return nil
		})
		if res.Error != nil {
			fail("FindInBatches(batch=%d): unexpected error %v; delivered %s in batches %v, reference %s", c.Batch, res.Error, docsString(concat), sizes, docsString(want))
		}
		if docsString(concat) != docsString(want) {
			fail("FindInBatches(batch=%d) delivered %s in batches %v, Find under key order returns %s", c.Batch, docsString(concat), sizes, docsString(want))
		}
		for i, s := range sizes {
			if s > c.Batch || s == 0 {
				fail("FindInBatches(batch=%d): batch %d holds %d rows", c.Batch, i+1, s)
			}
		}
		if int(res.RowsAffected) != len(want) {
			fail("FindInBatches: RowsAffected=%d but %d rows delivered", res.RowsAffected, len(want))
		}
		var codesGot []string
		if err := chain().Model(&Doc{}).Order("code").Pluck("code", &codesGot).Error; err != nil {
			fail("Pluck(code): unexpected error %v", err)
		}
		if len(codesGot) != len(want) {
			fail("Pluck(code) returned %q, reference %s", codesGot, docsString(want))
		}
		for i := range codesGot {
			if codesGot[i] != want[i].Code {
				fail("Pluck(code) returned %q, reference %s", codesGot, docsString(want))
			}
		}
		if c.Limit == 0 && c.Offset == 0 {
			var cnt int64
			if err := chain().Model(&Doc{}).Count(&cnt).Error; err != nil || int(cnt) != len(matched) {
				fail("Count = %d (error %v), Find returns %d rows", cnt, err, len(matched))
			}
		}
		if c.Offset == 0 {
			for _, last := range []bool{false, true} {
				var got Doc
				name, tx := "First", (*gorm.DB)(nil)
				if last {
					name, tx = "Last", chain().Last(&got)
				} else {
					tx = chain().First(&got)
				}
				if len(matched) == 0 {
					if !errors.Is(tx.Error, gorm.ErrRecordNotFound) {
						fail("%s: nothing matches but the error is %v", name, tx.Error)
					}
					continue
				}
				w := matched[0]
				if last {
					w = matched[len(matched)-1]
				}
				if tx.Error != nil || got != w {
					fail("%s returned %v (error %v), want %v", name, got, tx.Error, w)
				}
			}
		}
	})
}

// ---- composite primary key without a prioritized field ---------------------------------------
//
// With a composite key and no auto-increment member the schema has no
// prioritized primary field: FindInBatches cannot move a cursor and refuses with
// ErrPrimaryKeyRequired as soon as a second batch would be needed. What the
// statement needs either way: every matching row exactly once, or an error.

const compositeRule = "C15 composite key: 0..12 rows of a model with primary key (g, h) and no auto-increment member, optional condition h >= k, " +
	"batch sizes 1..5: FindInBatches either returns an error or delivers every row Find returns exactly once (batches no larger than requested); " +
	"Find and Count agree with the reference. non-trivial = more matching rows than the batch size and a group of rows with equal g that " +
	"straddles the first batch boundary in (g, h) order; distinct = canonical rendering"

type Pair struct {
	G int `gorm:"primaryKey;autoIncrement:false"`
	H int `gorm:"primaryKey;autoIncrement:false"`
	V string
}

func (Pair) TableName() string { return "pairs" }

func pairsString(ps []Pair) string {
	parts := make([]string, len(ps))
	for i, p := range ps {
		parts[i] = fmt.Sprintf("(%d,%d,%q)", p.G, p.H, p.V)
	}
	return "[" + strings.Join(parts, " ") + "]"
}

func TestC15CompositeKey(t *testing.T) {
	evid.Rule(compositeRule)
	rapid.Check(t, func(rt *rapid.T) {
		var all []Pair
		for g := 0; g < 3; g++ {
			for h := 0; h < 5; h++ {
				all = append(all, Pair{G: g + 1, H: h + 1})
			}
		}
		all = rapid.Permutation(all).Draw(rt, "pairs")
		n := rapid.IntRange(0, 12).Draw(rt, "size")
		rows := all[:n]
		for i := range rows {
			rows[i].V = rapid.SampledFrom(dPool).Draw(rt, "v")
		}
		minH := rapid.IntRange(0, 3).Draw(rt, "min-h")
		batch := rapid.IntRange(1, 5).Draw(rt, "batch")
		reuse := rapid.Bool().Draw(rt, "reuse")
		desc := fmt.Sprintf("composite pairs=%s h>=%d batch=%d reuse=%v", pairsString(rows), minH, batch, reuse)
		evid.Journal(desc)

		var matched []Pair
		for _, p := range rows {
			if p.H >= minH {
				matched = append(matched, p)
			}
		}
		sort.Slice(matched, func(i, j int) bool {
			if matched[i].G != matched[j].G {
				return matched[i].G < matched[j].G
			}
			return matched[i].H < matched[j].H
		})
		straddle := len(matched) > batch && matched[batch-1].G == matched[batch].G
		cl := []string{"composite:matched-" + bucket(len(matched)), fmt.Sprintf("composite:batch-%d", batch)}
		if len(matched) >= batch {
			cl = append(cl, "composite:second-batch-needed")
		}
		if straddle {
			cl = append(cl, "composite:equal-leading-key-across-boundary")
		}

		d := testdb.Open(testdb.Options{})
		defer d.Close()
		if _, err := d.SQL.Exec("CREATE TABLE pairs (v text NOT NULL, h integer NOT NULL, g integer NOT NULL, PRIMARY KEY (g, h))"); err != nil {
			rt.Fatalf("harness: %v", err)
		}
		for _, p := range rows {
			if _, err := d.SQL.Exec("INSERT INTO pairs (g, h, v) VALUES (?, ?, ?)", p.G, p.H, p.V); err != nil {
				rt.Fatalf("harness: %v", err)
			}
		}
		chain := func() *gorm.DB {
			db := d.DB
			if minH > 0 {
				db = db.Where("h >= ?", minH)
			}
			if reuse {
				db = db.Session(&gorm.Session{})
			}
			return db
		}
		fail := func(format string, a ...interface{}) {
			rt.Fatalf("C15 violated: %s, case: %s", fmt.Sprintf(format, a...), desc)
		}
		var viaFind []Pair
		if err := chain().Order("g, h").Find(&viaFind).Error; err != nil {
			fail("Find: unexpected error %v", err)
		}
		if pairsString(viaFind) != pairsString(matched) {
			fail("Find returned %s, reference %s", pairsString(viaFind), pairsString(matched))
		}
		var cnt int64
		if err := chain().Model(&Pair{}).Count(&cnt).Error; err != nil || int(cnt) != len(matched) {
			fail("Count = %d (error %v), Find returns %d rows", cnt, err, len(matched))
		}
		var (
			dest   []Pair
			concat []Pair
			sizes  []int
		)
		res := chain().FindInBatches(&dest, batch, func(tx *gorm.DB, nr int) error {
			if len(concat)+len(dest) > len(rows) {
				return errRunaway
			}
			concat = append(concat, dest...)
			sizes = append(sizes, len(dest))
			return nil
		})
		outcome := "composite:complete"
		if res.Error != nil {
			outcome = "composite:refused-with-error"
		}
		evid.Case(desc, straddle, nil, append(cl, outcome)...)
		if errors.Is(res.Error, errRunaway) {
			fail("FindInBatches(batch=%d) delivered more rows than the table holds: %s in batches %v", batch, pairsString(concat), sizes)
		}
		for i, s := range sizes {
			if s > batch || s == 0 {
				fail("FindInBatches(batch=%d): batch %d holds %d rows", batch, i+1, s)
			}
		}
		seen := map[[2]int]bool{}
		for _, p := range concat {
			k := [2]int{p.G, p.H}
			if seen[k] {
				fail("FindInBatches(batch=%d) delivered (%d,%d) twice: %s in batches %v", batch, p.G, p.H, pairsString(concat), sizes)
			}
			seen[k] = true
		}
		if res.Error != nil {
			return // a refusal is an outcome
		}
		got := append([]Pair(nil), concat...)
		sort.Slice(got, func(i, j int) bool {
			if got[i].G != got[j].G {
				return got[i].G < got[j].G
			}
			return got[i].H < got[j].H
		})
		if pairsString(got) != pairsString(matched) {
			fail("FindInBatches(batch=%d) returned no error but delivered %s in batches %v; Find returns %s", batch, pairsString(concat), sizes, pairsString(matched))
		}
		if int(res.RowsAffected) != len(matched) {
			fail("FindInBatches(batch=%d): RowsAffected=%d but %d rows delivered", batch, res.RowsAffected, len(matched))
		}
	})
}
