package c15

import (
	"context"
	"errors"
	"fmt"
	"strings"
	"testing"

	"gorm.io/gorm"
	"pgregory.net/rapid"

	"verif/internal/evid"
	"verif/internal/testdb"
)

// Chains derived from one reusable base while another derived chain is still in use.
//
// The base (conditions, 0..7 Order calls, made reusable with Session /
// WithContext) is never finished itself; chains are derived from it:
//
//	pair    A := base.Order(x); then B is derived from the base and finished
//	        (Order(y).Find, Order(y).Pluck, First, Last, Take, FindInBatches);
//	        only then A is finished (Find, Pluck, Limit(k).Find)
//	nested  base.FindInBatches(...) whose callback runs another read from the
//	        base between the batches (First, Last, Take, Order(y).Find, Order(y).Pluck)
//
// Every read must equal the reference of the base's conditions and of the
// ordering that read itself asked for. The base's own Order calls all name
// column a, which holds the same value in every row, so they tie everywhere and
// decide nothing: the primary key (First/Last/FindInBatches) or the derived
// ordering decides, and FindInBatches / First / Last stay inside the stated
// domain (no effective ordering of the chain's own).

const sharedRule = "C15 shared base: 2..12 rows (column a constant, b in {0,1}), 0..1 conditions, a reusable base carrying 0..7 Order calls on the " +
	"constant column a; shape pair (derive A with an ordering, derive and finish B = Order.Find/Order.Pluck/First/Last/Take/FindInBatches, " +
	"then finish A) or nested (FindInBatches whose callback reads from the same base between batches); every read is compared with the " +
	"reference for its own ordering. non-trivial = at least 3 matching rows and at least 2 Order calls on the base; distinct = canonical rendering"

type SharedCase struct {
	Rows       []Row    `json:"rows"`
	Conds      []Cond   `json:"conds"`
	BaseOrders []string `json:"base_orders"` // each "a" or "a desc"
	Reuse      string   `json:"reuse"`       // session | context
	Source     string   `json:"source"`      // model | table
	Shape      string   `json:"shape"`       // pair | nested
	AOrder     string   `json:"a_order"`
	AFinish    string   `json:"a_finish"` // find | pluck | limitfind
	ALimit     int      `json:"a_limit"`
	BOp        string   `json:"b_op"` // orderfind | orderpluck | first | last | take | batches
	BOrder     string   `json:"b_order"`
	Batch      int      `json:"batch"`
}

func (c SharedCase) String() string {
	var conds []string
	for _, cd := range c.Conds {
		conds = append(conds, cd.String())
	}
	base := fmt.Sprintf("base=%s.%s", c.Source, strings.Join(conds, "."))
	for _, o := range c.BaseOrders {
		base += ".Order(" + o + ")"
	}
	base += "." + c.Reuse
	b := c.BOp
	if b == "orderfind" || b == "orderpluck" {
		b += "(" + c.BOrder + ")"
	}
	if c.Shape == "pair" {
		return fmt.Sprintf("shared table=%s %s; A:=base.Order(%s); B=base.%s batch=%d; then A.%s limit=%d",
			rowsString(c.Rows), base, c.AOrder, b, c.Batch, c.AFinish, c.ALimit)
	}
	return fmt.Sprintf("shared table=%s %s; base.FindInBatches(batch=%d) with base.%s in the callback", rowsString(c.Rows), base, c.Batch, b)
}

func (c SharedCase) sample() string {
	s := c.String()
	i := strings.Index(s, " base=")
	return fmt.Sprintf("shared rows=%d%s", len(c.Rows), s[i:])
}

var derivedOrders = []string{"id", "id desc", "pk", "pk desc", "b, id", "b desc, id desc"}

func genSharedCase(rt *rapid.T) SharedCase {
	rows := genRowsN(rt, 2, 12)
	for i := range rows {
		rows[i].A = 2
		if rows[i].B < 0 {
			rows[i].B = -rows[i].B
		}
		rows[i].B %= 2
	}
	c := SharedCase{Rows: rows}
	var maxID int64
	for _, r := range rows {
		if r.ID > maxID {
			maxID = r.ID
		}
	}
	if rapid.IntRange(0, 2).Draw(rt, "with-cond") == 0 {
		c.Conds = []Cond{genCond(rt, maxID)}
	}
	n := rapid.SampledFrom([]int{0, 1, 2, 3, 3, 3, 4, 5, 6, 7}).Draw(rt, "base-orders")
	for i := 0; i < n; i++ {
		c.BaseOrders = append(c.BaseOrders, rapid.SampledFrom([]string{"a", "a desc"}).Draw(rt, "base-order"))
	}
	c.Reuse = rapid.SampledFrom([]string{"session", "session", "context"}).Draw(rt, "reuse")
	c.Source = rapid.SampledFrom([]string{"model", "model", "table"}).Draw(rt, "source")
	for _, cd := range c.Conds {
		if strings.HasPrefix(cd.Kind, "pk") {
			c.Source = "model" // a primary-key lookup on a bare table cannot be resolved for Pluck (documented)
		}
	}
	c.Shape = rapid.SampledFrom([]string{"pair", "pair", "nested"}).Draw(rt, "shape")
	orders := derivedOrders
	if c.Source == "table" {
		// without a model the primary-key placeholder of an explicit Order cannot be resolved for Pluck (documented)
		orders = []string{"id", "id desc", "b, id", "b desc, id desc"}
	}
	c.AOrder = rapid.SampledFrom(orders).Draw(rt, "a-order")
	c.AFinish = rapid.SampledFrom([]string{"find", "find", "pluck", "limitfind"}).Draw(rt, "a-finish")
	c.ALimit = rapid.IntRange(1, 4).Draw(rt, "a-limit")
	ops := []string{"orderfind", "orderfind", "orderpluck", "first", "last", "take", "batches"}
	if c.Shape == "nested" {
		ops = ops[:6]
	}
	c.BOp = rapid.SampledFrom(ops).Draw(rt, "b-op")
	c.BOrder = rapid.SampledFrom(orders).Draw(rt, "b-order")
	c.Batch = rapid.IntRange(1, 4).Draw(rt, "batch")
	return c
}

type sharedRunner struct {
	c    SharedCase
	db   *testdb.DB
	base *gorm.DB
	fail string
}

func (k *sharedRunner) failf(format string, a ...interface{}) {
	if k.fail == "" {
		k.fail = fmt.Sprintf(format, a...)
	}
}

func (k *sharedRunner) ref(order string, calls ...Call) *reference {
	return newReference(Case{Rows: k.c.Rows, Conds: k.c.Conds, Order: order, Calls: calls})
}

func (k *sharedRunner) buildBase() {
	var db *gorm.DB
	if k.c.Source == "table" {
		db = k.db.Table("recs")
	} else {
		db = k.db.Model(&Rec{})
	}
	for _, cd := range k.c.Conds {
		q, a := cd.args()
		db = db.Where(q, a...)
	}
	for _, o := range k.c.BaseOrders {
		db = db.Order(o)
	}
	if k.c.Reuse == "context" {
		db = db.WithContext(context.Background())
	} else {
		db = db.Session(&gorm.Session{})
	}
	k.base = db
}

func (k *sharedRunner) rowsAre(path string, ref *reference, tx *gorm.DB, got []Row) {
	if tx.Error != nil {
		k.failf("%s: unexpected error %v", path, tx.Error)
		return
	}
	if msg := ref.checkRows(got, len(ref.window)); msg != "" {
		k.failf("%s: %s; got %s, reference %s", path, msg, rowsString(got), rowsString(ref.window))
		return
	}
	if int(tx.RowsAffected) != len(got) {
		k.failf("%s: RowsAffected=%d but %d rows returned", path, tx.RowsAffected, len(got))
	}
}

func (k *sharedRunner) idsAre(path string, ref *reference, tx *gorm.DB, ids []int64) {
	if tx.Error != nil {
		k.failf("%s: unexpected error %v", path, tx.Error)
		return
	}
	got := make([]string, len(ids))
	for i, x := range ids {
		got[i] = fmt.Sprint(x)
	}
	if msg := ref.checkValues("id", got); msg != "" {
		k.failf("%s: %s; got %v, reference %s", path, msg, got, rowsString(ref.window))
	}
}

func (k *sharedRunner) single(path string, tx *gorm.DB, r Rec, want string) {
	ref := k.ref("none")
	if len(ref.matched) == 0 {
		if !errors.Is(tx.Error, gorm.ErrRecordNotFound) {
			k.failf("%s: nothing matches but the error is %v, want ErrRecordNotFound", path, tx.Error)
		}
		return
	}
	got := fromRec(r)
	switch {
	case tx.Error != nil:
		k.failf("%s: %d rows match but the error is %v", path, len(ref.matched), tx.Error)
	case !ref.inMatch[got.ID] || ref.byID[got.ID].String() != got.String():
		k.failf("%s: returned %v which is not a matching table row", path, got)
	case want == "lowest" && got.ID != ref.matched[0].ID:
		k.failf("%s: returned %v, the lowest matching key is %v", path, got, ref.matched[0])
	case want == "highest" && got.ID != ref.matched[len(ref.matched)-1].ID:
		k.failf("%s: returned %v, the highest matching key is %v", path, got, ref.matched[len(ref.matched)-1])
	}
}

// bOp derives a chain from the base and finishes it (not FindInBatches).
func (k *sharedRunner) bOp(where string) {
	switch k.c.BOp {
	case "orderfind":
		var rs []Rec
		tx := applyOrder(k.base, k.c.BOrder).Find(&rs)
		k.rowsAre(where+"base.Order("+k.c.BOrder+").Find", k.ref(k.c.BOrder), tx, recsToRows(rs))
	case "orderpluck":
		var ids []int64
		tx := applyOrder(k.base, k.c.BOrder).Pluck("id", &ids)
		k.idsAre(where+"base.Order("+k.c.BOrder+").Pluck(id)", k.ref(k.c.BOrder), tx, ids)
	case "first":
		var r Rec
		k.single(where+"base.First", k.base.First(&r), r, "lowest")
	case "last":
		var r Rec
		k.single(where+"base.Last", k.base.Last(&r), r, "highest")
	case "take":
		var r Rec
		k.single(where+"base.Take", k.base.Take(&r), r, "")
	}
}

// batches runs base.FindInBatches; inner (may be nil) runs between the batches.
func (k *sharedRunner) batches(where string, inner func(batch int)) {
	want := k.ref("none").matched
	var (
		dest   []Rec
		concat []Row
		sizes  []int
	)
	res := k.base.FindInBatches(&dest, k.c.Batch, func(tx *gorm.DB, batch int) error {
		if len(concat)+len(dest) > len(k.c.Rows) {
			return errRunaway
		}
		concat = append(concat, recsToRows(dest)...)
		sizes = append(sizes, len(dest))
		if inner != nil {
			inner(batch)
		}
		if k.fail != "" {
			return errors.New("c15: stop, a read in the callback already failed")
		}
		return nil
	})
	if k.fail != "" {
		return
	}
	path := fmt.Sprintf("%sbase.FindInBatches(batch=%d)", where, k.c.Batch)
	if res.Error != nil {
		k.failf("%s: unexpected error %v; batches so far %v, rows so far %s, Find under key order returns %s", path, res.Error, sizes, rowsString(concat), rowsString(want))
		return
	}
	if rowsString(concat) != rowsString(want) {
		k.failf("%s delivered %s in batches %v, Find under key order returns %s", path, rowsString(concat), sizes, rowsString(want))
		return
	}
	for i, s := range sizes {
		if s > k.c.Batch || s == 0 {
			k.failf("%s: batch %d holds %d rows", path, i+1, s)
		}
	}
	if int(res.RowsAffected) != len(want) {
		k.failf("%s: RowsAffected=%d but %d rows delivered", path, res.RowsAffected, len(want))
	}
}

func (k *sharedRunner) run() string {
	k.buildBase()
	if k.c.Shape == "nested" {
		k.batches("", func(batch int) { k.bOp(fmt.Sprintf("in the callback of batch %d: ", batch)) })
		return k.fail
	}
	// pair: derive A, derive B, finish B, finish A
	a := applyOrder(k.base, k.c.AOrder)
	if k.c.BOp == "batches" {
		k.batches("while A is pending: ", nil)
	} else {
		k.bOp("while A is pending: ")
	}
	if k.fail != "" {
		return k.fail
	}
	after := fmt.Sprintf("A := base.Order(%s), finished after B: ", k.c.AOrder)
	switch k.c.AFinish {
	case "find":
		var rs []Rec
		tx := a.Find(&rs)
		k.rowsAre(after+"A.Find", k.ref(k.c.AOrder), tx, recsToRows(rs))
	case "pluck":
		var ids []int64
		tx := a.Pluck("id", &ids)
		k.idsAre(after+"A.Pluck(id)", k.ref(k.c.AOrder), tx, ids)
	case "limitfind":
		var rs []Rec
		tx := a.Limit(k.c.ALimit).Find(&rs)
		k.rowsAre(fmt.Sprintf("%sA.Limit(%d).Find", after, k.c.ALimit), k.ref(k.c.AOrder, Call{Kind: "limit", N: k.c.ALimit}), tx, recsToRows(rs))
	}
	if k.fail != "" {
		return k.fail
	}
	// the base itself still selects the same rows (its orderings tie everywhere)
	var rs []Rec
	tx := k.base.Find(&rs)
	k.rowsAre("base.Find after A and B", k.ref("none"), tx, recsToRows(rs))
	return k.fail
}

func TestC15SharedBase(t *testing.T) {
	evid.Rule(sharedRule)
	rapid.Check(t, func(rt *rapid.T) {
		c := genSharedCase(rt)
		desc := c.String()
		evid.Journal(desc)
		matched := len(newReference(Case{Rows: c.Rows, Conds: c.Conds, Order: "none"}).matched)
		cl := []string{"shared:shape-" + c.Shape, "shared:b-" + c.BOp, fmt.Sprintf("shared:base-orders-%d", len(c.BaseOrders)),
			"shared:reuse-" + c.Reuse, "shared:source-" + c.Source, "matched:" + bucket(matched)}
		if c.Shape == "pair" {
			cl = append(cl, "shared:a-"+c.AFinish)
		}
		evid.Case(desc, matched >= 3 && len(c.BaseOrders) >= 2, c.sample(), cl...)
		d := testdb.Open(testdb.Options{})
		defer d.Close()
		if err := insertRows(d, c.Rows); err != nil {
			rt.Fatalf("harness: cannot prepare the table: %v, case: %s", err, desc)
		}
		k := &sharedRunner{c: c, db: d}
		if msg := k.run(); msg != "" {
			rt.Fatalf("C15 violated: %s, case: %s", msg, desc)
		}
	})
}
