// C15 — all read paths agree; batched reads visit every row exactly once in
// key order. See DESIGN.md §3 C15.
//
// One generated case = a small table (ids with gaps, inserted in a shuffled
// order into a table whose primary key is NOT the rowid, so that an unordered
// scan is not accidentally sorted), a chain (conditions, ordering, a sequence of
// Limit/Offset calls) and a batch size. The case is evaluated through every
// read path gorm offers and each result is compared with an in-memory
// reference (filter, sort, offset, limit).
package c15

import (
	"context"
	"database/sql"
	"database/sql/driver"
	"errors"
	"fmt"
	"math"
	"reflect"
	"sort"
	"strconv"
	"strings"
	"testing"

	"gorm.io/gorm"
	"gorm.io/gorm/clause"
	"pgregory.net/rapid"

	"verif/internal/evid"
	"verif/internal/harness"
	"verif/internal/testdb"
)

func TestMain(m *testing.M) { harness.Main(m) }

const ruleText = "C15: tables of 0..25 rows (ids with gaps, shuffled insertion), 0..2 simple conditions (raw '?', map, struct), " +
	"orderings (none, 'a desc, id', primary key asc/desc, partial 'a desc'), 0..4 Limit/Offset calls with positive and negative values, " +
	"batch sizes 1..8; every case is read through Find (struct, *struct, slice, []*T, array, map, []map), Rows+ScanRows, Scan, " +
	"Pluck per column, Count, First/Last/Take and FindInBatches and compared with an in-memory reference; the grid test enumerates " +
	"size x batch x limit x offset for FindInBatches against Find. non-trivial = at least 3 matching rows and a boundary " +
	"(rows delivered not a multiple of the batch size, limit not a multiple of the batch size, effective offset >= 1, or an " +
	"overriding/cancelling Limit/Offset call); distinct = canonical rendering of table, chain and batch size"

// ---- the model under test -------------------------------------------------------------------

// Tag is a field type with its own Scanner/Valuer: the database holds "t:" + V.
type Tag struct{ V string }

func (t Tag) Value() (driver.Value, error) { return "t:" + t.V, nil }

func (t *Tag) Scan(src interface{}) error {
	var s string
	switch x := src.(type) {
	case string:
		s = x
	case []byte:
		s = string(x)
	default:
		return fmt.Errorf("Tag: cannot scan %T", src)
	}
	if !strings.HasPrefix(s, "t:") {
		return fmt.Errorf("Tag: stored value %q lacks the prefix", s)
	}
	t.V = s[2:]
	return nil
}

// Meta is embedded into Rec with a column prefix.
type Meta struct{ N int }

// Rec is the gorm model. c and d are nullable, k has a custom Scanner/Valuer
// type, for_n comes from an embedded struct.
type Rec struct {
	ID uint `gorm:"primaryKey"`
	A  int
	B  int64
	S  string
	C  *int
	D  sql.NullString
	K  Tag  `gorm:"column:brand"`
	M  Meta `gorm:"embedded;embeddedPrefix:for_"`
}

func (Rec) TableName() string { return "recs" }

const ddl = "CREATE TABLE recs (id bigint NOT NULL PRIMARY KEY, a integer NOT NULL, b integer NOT NULL, s text NOT NULL, c integer, d text, brand text NOT NULL, for_n integer NOT NULL)"

var columns = []string{"id", "a", "b", "s", "c", "d", "brand", "for_n"}

// Row is the reference representation of one table row.
type Row struct {
	ID int64   `json:"id"`
	A  int64   `json:"a"`
	B  int64   `json:"b"`
	S  string  `json:"s"`
	C  *int64  `json:"c"`
	D  *string `json:"d"`
	K  string  `json:"brand"` // the Tag's V (the database holds "t:"+K)
	MN int64   `json:"for_n"` // embedded Meta.N
}

func (r Row) intCol(col string) *int64 {
	switch col {
	case "id":
		return &r.ID
	case "a":
		return &r.A
	case "b":
		return &r.B
	case "c":
		return r.C
	case "for_n":
		return &r.MN
	}
	panic("harness: not an int column: " + col)
}

func (r Row) strCol(col string) *string {
	switch col {
	case "s":
		return &r.S
	case "d":
		return r.D
	case "brand":
		return &r.K
	}
	panic("harness: not a string column: " + col)
}

func isStrCol(col string) bool { return col == "s" || col == "d" || col == "brand" }

// cell renders one column value canonically ("NULL" for SQL NULL).
func (r Row) cell(col string) string {
	if isStrCol(col) {
		if p := r.strCol(col); p != nil {
			return strconv.Quote(*p)
		}
		return "NULL"
	}
	if p := r.intCol(col); p != nil {
		return strconv.FormatInt(*p, 10)
	}
	return "NULL"
}

func (r Row) String() string {
	parts := make([]string, len(columns))
	for i, c := range columns {
		parts[i] = r.cell(c)
	}
	return "(" + strings.Join(parts, ",") + ")"
}

func rowsString(rs []Row) string {
	parts := make([]string, len(rs))
	for i, r := range rs {
		parts[i] = r.String()
	}
	return "[" + strings.Join(parts, " ") + "]"
}

func fromRec(r Rec) Row {
	out := Row{ID: int64(r.ID), A: int64(r.A), B: r.B, S: r.S, K: r.K.V, MN: int64(r.M.N)}
	if r.C != nil {
		v := int64(*r.C)
		out.C = &v
	}
	if r.D.Valid {
		v := r.D.String
		out.D = &v
	}
	return out
}

// fromMap converts a scanned map; it reports an error for a missing column or a
// value of an unexpected kind. cols (nil = all) are the columns the query selected:
// exactly those keys must be present.
func fromMap(m map[string]interface{}, cols map[string]bool) (Row, error) {
	var out Row
	want := 0
	for _, col := range columns {
		if cols == nil || cols[col] {
			want++
		}
	}
	if len(m) != want {
		return out, fmt.Errorf("map has %d keys, want %d: %v", len(m), want, m)
	}
	for _, col := range columns {
		if cols != nil && !cols[col] {
			continue
		}
		raw, ok := m[col]
		if !ok {
			return out, fmt.Errorf("map lacks column %q: %v", col, m)
		}
		v, err := normalize(raw)
		if err != nil {
			return out, fmt.Errorf("column %q: %v", col, err)
		}
		nullable := col == "c" || col == "d"
		if v == nil {
			if !nullable {
				return out, fmt.Errorf("column %q is NULL", col)
			}
			continue
		}
		if isStrCol(col) {
			x, ok := v.(string)
			if !ok {
				return out, fmt.Errorf("column %q holds %T(%v), want text", col, raw, raw)
			}
			switch col {
			case "s":
				out.S = x
			case "d":
				out.D = &x
			case "brand": // a map shows the stored form
				if !strings.HasPrefix(x, "t:") {
					return out, fmt.Errorf("column brand holds %q, want the stored form t:...", x)
				}
				out.K = x[2:]
			}
			continue
		}
		x, ok := v.(int64)
		if !ok {
			return out, fmt.Errorf("column %q holds %T(%v), want integer", col, raw, raw)
		}
		switch col {
		case "id":
			out.ID = x
		case "a":
			out.A = x
		case "b":
			out.B = x
		case "c":
			out.C = &x
		case "for_n":
			out.MN = x
		}
	}
	return out, nil
}

// normalize reduces a scanned value to nil, int64 or string.
func normalize(v interface{}) (interface{}, error) {
	for depth := 0; depth < 4; depth++ {
		if v == nil {
			return nil, nil
		}
		if val, ok := v.(driver.Valuer); ok {
			rv := reflect.ValueOf(v)
			if rv.Kind() == reflect.Ptr && rv.IsNil() {
				return nil, nil
			}
			x, err := val.Value()
			if err != nil {
				return nil, err
			}
			v = x
			continue
		}
		rv := reflect.ValueOf(v)
		switch rv.Kind() {
		case reflect.Ptr, reflect.Interface:
			if rv.IsNil() {
				return nil, nil
			}
			v = rv.Elem().Interface()
			continue
		case reflect.Int, reflect.Int8, reflect.Int16, reflect.Int32, reflect.Int64:
			return rv.Int(), nil
		case reflect.Uint, reflect.Uint8, reflect.Uint16, reflect.Uint32, reflect.Uint64:
			return int64(rv.Uint()), nil
		case reflect.String:
			return rv.String(), nil
		case reflect.Slice:
			if b, ok := v.([]byte); ok {
				return string(b), nil
			}
		}
		return nil, fmt.Errorf("unexpected value %T(%v)", v, v)
	}
	return nil, fmt.Errorf("value nested too deeply: %T", v)
}

// ---- the case -------------------------------------------------------------------------------

// Atom is one comparison. Op: = <> < <= > >= in between isnull notnull.
type Atom struct {
	Col string   `json:"col"`
	Op  string   `json:"op"`
	I   []int64  `json:"i,omitempty"`
	S   []string `json:"s,omitempty"`
}

func (a Atom) eval(r Row) bool {
	if isStrCol(a.Col) {
		v := r.strCol(a.Col)
		switch a.Op {
		case "isnull":
			return v == nil
		case "notnull":
			return v != nil
		}
		if v == nil {
			return false
		}
		switch a.Op {
		case "=":
			return *v == a.S[0]
		case "<>":
			return *v != a.S[0]
		case "<":
			return *v < a.S[0]
		case "<=":
			return *v <= a.S[0]
		case ">":
			return *v > a.S[0]
		case ">=":
			return *v >= a.S[0]
		case "in":
			for _, x := range a.S {
				if *v == x {
					return true
				}
			}
			return false
		case "between":
			return a.S[0] <= *v && *v <= a.S[1]
		}
		panic("harness: bad op " + a.Op)
	}
	v := r.intCol(a.Col)
	switch a.Op {
	case "isnull":
		return v == nil
	case "notnull":
		return v != nil
	}
	if v == nil {
		return false
	}
	switch a.Op {
	case "=":
		return *v == a.I[0]
	case "<>":
		return *v != a.I[0]
	case "<":
		return *v < a.I[0]
	case "<=":
		return *v <= a.I[0]
	case ">":
		return *v > a.I[0]
	case ">=":
		return *v >= a.I[0]
	case "in":
		for _, x := range a.I {
			if *v == x {
				return true
			}
		}
		return false
	case "between":
		return a.I[0] <= *v && *v <= a.I[1]
	}
	panic("harness: bad op " + a.Op)
}

// sql renders the atom as a raw template and its arguments.
func (a Atom) sql() (string, []interface{}) {
	var args []interface{}
	strs := a.S
	if a.Col == "brand" { // the column holds the stored form of the Tag
		strs = make([]string, len(a.S))
		for i, s := range a.S {
			strs[i] = "t:" + s
		}
	}
	if isStrCol(a.Col) {
		for _, s := range strs {
			args = append(args, s)
		}
	} else {
		for _, i := range a.I {
			args = append(args, i)
		}
	}
	switch a.Op {
	case "isnull":
		return a.Col + " IS NULL", nil
	case "notnull":
		return a.Col + " IS NOT NULL", nil
	case "in":
		if isStrCol(a.Col) {
			return a.Col + " IN ?", []interface{}{append([]string(nil), strs...)}
		}
		return a.Col + " IN ?", []interface{}{append([]int64(nil), a.I...)}
	case "between":
		return a.Col + " BETWEEN ? AND ?", args
	}
	return a.Col + " " + a.Op + " ?", args
}

func (a Atom) String() string {
	s, args := a.sql()
	for _, x := range args {
		s = strings.Replace(s, "?", fmt.Sprintf("%#v", x), 1)
	}
	return s
}

// Cond is one Where call (or the inline condition of a finder).
//
//	raw        Where("<atom>", args...)
//	rawor      Where("<atom> OR <atom>", args...)
//	map        Where(map[string]interface{}{col: value | list | nil})    atoms ANDed, ops = / in / isnull
//	struct     Where(Rec{...}) / structptr Where(&Rec{...})               non-zero fields ANDed, op =
//	pkint      Where(7) / First(&r, 7)            primary key lookups: one atom id IN (values)
//	pkstring   Where("7") / First(&r, "7")
//	pksigned   Where("+7") / First(&r, "-1"): a signed numeric string is a key as well (strconv.Atoi)
//	pkslice    Where([]int64{2, 3, 5}) / Last(&r, []int64{2, 3, 5})
//	pkvariadic Where(2, 3, 5) / Last(&r, 2, 3, 5)
type Cond struct {
	Kind  string `json:"kind"`
	Atoms []Atom `json:"atoms"`
}

// zeroField reports whether the struct field carrying this atom holds its zero
// value (gorm ignores zero fields of a struct condition).
func zeroField(a Atom) bool {
	switch a.Col {
	case "id", "a", "b":
		return a.I[0] == 0
	case "s":
		return a.S[0] == ""
	}
	return false // c, d: a non-nil pointer / Valid NullString is never zero
}

// empty reports whether the condition builds no SQL at all: a struct whose
// fields are all zero. Where/Or of such a value add nothing (an empty Or branch
// is not "OR true").
func (c Cond) empty() bool {
	if c.Kind != "struct" && c.Kind != "structptr" {
		return false
	}
	for _, a := range c.Atoms {
		if !zeroField(a) {
			return false
		}
	}
	return true
}

func (c Cond) eval(r Row) bool {
	switch c.Kind {
	case "raw", "pkint", "pkstring", "pksigned", "pkslice", "pkvariadic":
		return c.Atoms[0].eval(r)
	case "rawor":
		return c.Atoms[0].eval(r) || c.Atoms[1].eval(r)
	case "map":
		for _, a := range c.Atoms {
			if !a.eval(r) {
				return false
			}
		}
		return true
	case "struct", "structptr":
		for _, a := range c.Atoms {
			if !zeroField(a) && !a.eval(r) {
				return false
			}
		}
		return true
	}
	panic("harness: bad cond kind " + c.Kind)
}

// args renders the condition as the arguments of Where / an inline finder condition.
func (c Cond) args() (interface{}, []interface{}) {
	switch c.Kind {
	case "raw":
		s, a := c.Atoms[0].sql()
		return s, a
	case "pkint":
		return c.Atoms[0].I[0], nil
	case "pkstring":
		return strconv.FormatInt(c.Atoms[0].I[0], 10), nil
	case "pksigned":
		if v := c.Atoms[0].I[0]; v >= 0 {
			return "+" + strconv.FormatInt(v, 10), nil
		}
		return strconv.FormatInt(c.Atoms[0].I[0], 10), nil
	case "pkslice":
		return append([]int64(nil), c.Atoms[0].I...), nil
	case "pkvariadic":
		var rest []interface{}
		for _, v := range c.Atoms[0].I[1:] {
			rest = append(rest, v)
		}
		return c.Atoms[0].I[0], rest
	case "rawor":
		s1, a1 := c.Atoms[0].sql()
		s2, a2 := c.Atoms[1].sql()
		return s1 + " OR " + s2, append(append([]interface{}{}, a1...), a2...)
	case "map":
		m := map[string]interface{}{}
		for _, a := range c.Atoms {
			switch {
			case a.Op == "isnull":
				m[a.Col] = nil
			case a.Op == "in" && isStrCol(a.Col):
				m[a.Col] = append([]string(nil), a.S...)
			case a.Op == "in":
				m[a.Col] = append([]int64(nil), a.I...)
			case isStrCol(a.Col):
				m[a.Col] = a.S[0]
			default:
				m[a.Col] = a.I[0]
			}
		}
		return m, nil
	case "struct", "structptr":
		var r Rec
		for _, a := range c.Atoms {
			switch a.Col {
			case "id":
				r.ID = uint(a.I[0])
			case "a":
				r.A = int(a.I[0])
			case "b":
				r.B = a.I[0]
			case "s":
				r.S = a.S[0]
			case "c":
				v := int(a.I[0])
				r.C = &v
			case "d":
				r.D = sql.NullString{String: a.S[0], Valid: true}
			}
		}
		if c.Kind == "structptr" {
			return &r, nil
		}
		return r, nil
	}
	panic("harness: bad cond kind " + c.Kind)
}

func (c Cond) String() string {
	parts := make([]string, len(c.Atoms))
	for i, a := range c.Atoms {
		parts[i] = a.String()
	}
	switch c.Kind {
	case "pkint", "pkstring", "pksigned", "pkslice", "pkvariadic":
		return fmt.Sprintf("Where(%s:%v)", c.Kind, c.Atoms[0].I)
	case "raw":
		return "Where(`" + parts[0] + "`)"
	case "rawor":
		return "Where(`" + parts[0] + " OR " + parts[1] + "`)"
	case "map":
		return "Where(map{" + strings.Join(parts, ", ") + "})"
	case "struct":
		return "Where(Rec{" + strings.Join(parts, ", ") + "})"
	}
	return "Where(&Rec{" + strings.Join(parts, ", ") + "})"
}

// Scope is one function passed to Scopes(...); scopes run when the finisher executes.
//
//	cond     adds Where("b >= ?", K)
//	inspect  a generic scope that looks at Statement.Model (or, without a model, Statement.Dest)
//	         and adds `a <= K` when what is being queried has a field A
//	order    adds Order("a desc") (it lands behind the chain's own ordering and behind the key
//	         ordering First/Last/FindInBatches add, so those keep their meaning)
//	page     adds Limit(K).Offset(O) (O > 0); First/Last/Take, FindInBatches and continued reads
//	         are not judged with it: a Limit that arrives while the finisher already runs replaces
//	         the finder's LIMIT 1 / the batch size, which nothing documents
//
// Derive: before adding its clauses the scope derives a new session from the handle it is
// given ("" | context: db.WithContext(ctx) | session: db.Session(&gorm.Session{}) | debug:
// db.Debug()) - the usual shape of a "tenant from the request context" scope. The finisher
// then goes on with the statement of the handle the scope returned.
type Scope struct {
	Kind   string `json:"kind"`
	K      int    `json:"k"`
	O      int    `json:"o,omitempty"`
	Derive string `json:"derive,omitempty"`
}

func (s Scope) String() string {
	if s.Derive != "" {
		plain := s
		plain.Derive = ""
		return "derive-" + s.Derive + ":" + plain.String()
	}
	switch s.Kind {
	case "cond":
		return fmt.Sprintf("scope{Where(b >= %d)}", s.K)
	case "inspect":
		return fmt.Sprintf("scope{if model-or-dest has A: Where(a <= %d)}", s.K)
	case "order":
		return "scope{Order(a desc)}"
	}
	if s.O > 0 {
		return fmt.Sprintf("scope{Limit(%d).Offset(%d)}", s.K, s.O)
	}
	return fmt.Sprintf("scope{Limit(%d)}", s.K)
}

func (s Scope) fn() func(*gorm.DB) *gorm.DB {
	body := s.body()
	switch s.Derive {
	case "context":
		return func(db *gorm.DB) *gorm.DB { return body(db.WithContext(context.Background())) }
	case "session":
		return func(db *gorm.DB) *gorm.DB { return body(db.Session(&gorm.Session{})) }
	case "debug":
		return func(db *gorm.DB) *gorm.DB { return body(db.Debug()) }
	}
	return body
}

func (s Scope) body() func(*gorm.DB) *gorm.DB {
	switch s.Kind {
	case "cond":
		return func(db *gorm.DB) *gorm.DB { return db.Where("b >= ?", s.K) }
	case "inspect":
		return func(db *gorm.DB) *gorm.DB {
			target := db.Statement.Model
			if target == nil {
				target = db.Statement.Dest
			}
			if target == nil {
				return db
			}
			stmt := &gorm.Statement{DB: db}
			if err := stmt.Parse(target); err != nil {
				return db
			}
			if f := stmt.Schema.LookUpField("A"); f != nil {
				return db.Where(clause.Lte{Column: clause.Column{Table: clause.CurrentTable, Name: f.DBName}, Value: s.K})
			}
			return db
		}
	case "order":
		return func(db *gorm.DB) *gorm.DB { return db.Order("a desc") }
	}
	return func(db *gorm.DB) *gorm.DB {
		db = db.Limit(s.K)
		if s.O > 0 {
			db = db.Offset(s.O)
		}
		return db
	}
}

func (s Scope) eval(r Row) bool {
	switch s.Kind {
	case "cond":
		return r.B >= int64(s.K)
	case "inspect":
		return r.A <= int64(s.K)
	}
	return true
}

// selected returns the set of columns the chain reads, nil = all.
func (c Case) selected() map[string]bool {
	if c.ColMode == "" {
		return nil
	}
	m := map[string]bool{}
	for _, col := range c.Cols {
		m[col] = true
	}
	return m
}

// mask clears the columns the chain does not read.
func (c Case) mask(r Row) Row {
	sel := c.selected()
	if sel == nil {
		return r
	}
	out := Row{ID: r.ID}
	if sel["a"] {
		out.A = r.A
	}
	if sel["b"] {
		out.B = r.B
	}
	if sel["s"] {
		out.S = r.S
	}
	if sel["c"] {
		out.C = r.C
	}
	if sel["d"] {
		out.D = r.D
	}
	if sel["brand"] {
		out.K = r.K
	}
	if sel["for_n"] {
		out.MN = r.MN
	}
	return out
}

func (c Case) hasScope(kind string) bool {
	for _, s := range c.Scopes {
		if s.Kind == kind {
			return true
		}
	}
	return false
}

// Call is one Limit(n) / Offset(n) call; n is never 0 (DESIGN.md §2.9).
//
// Kind "clause" is Clauses(clause.Limit{Limit: &N, Offset: O}) (N > 0, O >= 0): by
// Limit.MergeClause the same as Limit(N) followed, when O > 0, by Offset(O).
type Call struct {
	Kind string `json:"kind"` // limit | offset | clause
	N    int    `json:"n"`
	O    int    `json:"o,omitempty"`
}

func (k Call) String() string {
	switch k.Kind {
	case "limit":
		return fmt.Sprintf("Limit(%d)", k.N)
	case "offset":
		return fmt.Sprintf("Offset(%d)", k.N)
	}
	return fmt.Sprintf("Clauses(clause.Limit{Limit:%d,Offset:%d})", k.N, k.O)
}

// expandCalls rewrites clause calls into the Limit/Offset calls they equal.
func expandCalls(calls []Call) []Call {
	var out []Call
	for _, k := range calls {
		if k.Kind == "clause" {
			out = append(out, Call{Kind: "limit", N: k.N})
			if k.O > 0 {
				out = append(out, Call{Kind: "offset", N: k.O})
			}
			continue
		}
		out = append(out, k)
	}
	return out
}

// orderings: name -> reference sort keys. An ordering is total when it contains id.
type sortKey struct {
	col  string
	desc bool
}

var orderKeys = map[string][]sortKey{
	"none":                         nil,
	"a desc, id":                   {{"a", true}, {"id", false}},
	"a desc | id":                  {{"a", true}, {"id", false}}, // two Order calls
	"id":                           {{"id", false}},
	"id desc":                      {{"id", true}},
	"pk":                           {{"id", false}}, // clause.OrderByColumn on clause.PrimaryKey
	"pk desc":                      {{"id", true}},
	"a desc":                       {{"a", true}},                // partial
	"b, a desc":                    {{"b", false}, {"a", true}},  // partial
	"a desc, id (columns)":         {{"a", true}, {"id", false}}, // Order(clause.OrderBy{Columns: ...})
	"a desc, id (expr)":            {{"a", true}, {"id", false}}, // Order(clause.OrderBy{Expression: clause.Expr{...}})
	"b desc, a (expr via Clauses)": {{"b", true}, {"a", false}},  // Clauses(clause.OrderBy{Expression: ...}), partial
	"(empty string)":               nil,                          // Order(""): documented no-op of the string form
	"b | id reorder":               {{"id", false}},              // Order("b") then an OrderByColumn with Reorder: only that one counts
	// used by the shared-base test only (not drawn by the main generator)
	"b, id":           {{"b", false}, {"id", false}},
	"b desc, id desc": {{"b", true}, {"id", true}},
}

var orderNames = []string{"none", "none", "none", "a desc, id", "a desc | id", "id", "id desc", "pk", "pk desc", "a desc", "b, a desc",
	"a desc, id (columns)", "a desc, id (expr)", "b | id reorder", "(empty string)",
	"b desc, a (expr via Clauses)", "a desc, id (expr)", "id", "pk"}

// keyOrdered reports whether First / Last / FindInBatches on a chain with this
// ordering are ordered by the primary key alone: chains without an ordering,
// and chains whose ordering was given in expression form
// (clause.OrderBy{Expression: ...}) - merging the key column into such a
// clause drops the expression (OrderBy.MergeClause keeps columns only), so the
// finders return the lowest / highest key and the batches run in key order,
// which is what the statement says.
func keyOrdered(o string) bool {
	return o == "none" || o == "a desc, id (expr)" || o == "b desc, a (expr via Clauses)"
}

// batchOrdered: orderings under which FindInBatches is in the generated domain: those of
// keyOrdered plus an explicit ascending key ordering of the chain's own (the redundant
// Order("id") people add to be sure: `ORDER BY id, recs.id` is the key order).
func batchOrdered(o string) bool { return keyOrdered(o) || o == "id" || o == "pk" }

func orderUsesPKSymbol(o string) bool { return o == "pk" || o == "pk desc" }

func applyOrder(db *gorm.DB, o string) *gorm.DB {
	pk := clause.Column{Table: clause.CurrentTable, Name: clause.PrimaryKey}
	switch o {
	case "none":
		return db
	case "a desc | id":
		return db.Order("a desc").Order("id")
	case "a desc, id (columns)":
		return db.Order(clause.OrderBy{Columns: []clause.OrderByColumn{{Column: clause.Column{Name: "a"}, Desc: true}, {Column: clause.Column{Name: "id"}}}})
	case "a desc, id (expr)":
		return db.Order(clause.OrderBy{Expression: clause.Expr{SQL: "a desc, id"}})
	case "b desc, a (expr via Clauses)":
		return db.Clauses(clause.OrderBy{Expression: clause.Expr{SQL: "b desc, a"}})
	case "(empty string)":
		return db.Order("")
	case "b | id reorder":
		return db.Order("b").Order(clause.OrderByColumn{Column: clause.Column{Name: "id"}, Reorder: true})
	case "pk":
		return db.Order(clause.OrderByColumn{Column: pk})
	case "pk desc":
		return db.Order(clause.OrderByColumn{Column: pk, Desc: true})
	}
	return db.Order(o)
}

// Case is one generated input.
type Case struct {
	Rows       []Row  `json:"rows"` // in insertion order
	Conds      []Cond `json:"conds"`
	Inline     bool   `json:"inline"` // the last condition is passed to Find/First/Last/Take instead of Where
	Order      string `json:"order"`
	Calls      []Call `json:"calls"`
	CallsFirst bool   `json:"calls_first"` // Limit/Offset calls precede Where/Order in the chain
	Source     string `json:"source"`      // dest | model | table: how the chain learns the table
	Batch      int    `json:"batch"`
	ArrayLen   int    `json:"array_len"`
	Mode       string `json:"mode"` // all | batch (grid: only Find under key order and FindInBatches)
	PtrBatch   bool   `json:"ptr_batch"`
	Prefill    int    `json:"prefill"` // elements the []Rec destination of Find holds beforehand
	// Or: a top-level OR branch, Where(Conds[0]).Or(Or): matches rows of either. Generated
	// only with exactly one Where condition, no inline condition, no condition-adding scope
	// and no preset key (what a condition appended behind an OR branch means is property C02's).
	Or *Cond `json:"or,omitempty"`
	// Cols / ColMode: the chain restricts the columns. Cols are the columns that
	// are read (id is always among them: rows are identified by it and FindInBatches
	// needs it for its cursor). ColMode args: Select("id", "a"), slice:
	// Select([]string{...}), string: Select("id, a"), omit: Omit(<the other columns>).
	Cols    []string `json:"cols,omitempty"`
	ColMode string   `json:"col_mode,omitempty"`
	// Distinct: Distinct() on the chain (rows are distinct anyway: id is selected).
	Distinct bool `json:"distinct,omitempty"`
	// Config: "" | queryfields | prepare: gorm.Config{QueryFields: true} / {PrepareStmt: true} at Open
	Config string `json:"config,omitempty"`
	// Handle: "" the opened handle | tx: db.Begin() | conn: inside db.Connection(func(tx)...)
	Handle string `json:"handle,omitempty"`
	// PresetID > 0: a struct destination whose primary key is already set (documented: it
	// is used as an additional condition)
	PresetID int64 `json:"preset_id,omitempty"`
	// CallbackWrites: "" | delete: a last FindInBatches whose callback deletes the rows it was handed
	CallbackWrites string `json:"callback_writes,omitempty"`
	// StopAt > 0: the FindInBatches callback returns an error in that batch (documented: stops)
	StopAt int `json:"stop_at,omitempty"`
	// Scopes: functions handed to Scopes(...) (they run inside the finisher).
	Scopes []Scope `json:"scopes,omitempty"`
	// Expr "dup": Select("*, s || '!' AS s"): the result carries the column name s twice with
	// different values. DupLast (set by checkCase, not generated) is the reading the reference uses.
	DupLast bool `json:"-"`
	// Expr: "" | where | select: the chain carries abs(b), which SQLite cannot
	// evaluate for the smallest 64 bit integer ("integer overflow", raised when
	// that row is reached): Where("abs(b) >= ?", 0) / Select("id, a, abs(b) AS b, s, c, d, brand, for_n").
	Expr string `json:"expr"`
	// Reuse: "" | session | context: the finished chain is made reusable with
	// Session(&gorm.Session{}) / WithContext(ctx) before any finisher is called.
	Reuse string `json:"reuse"`
	// ContLimit / ContOffset: the Limit(k) (and Offset(o) if > 0) added when a
	// read is continued from the value another read finisher returned.
	ContLimit  int `json:"cont_limit"`
	ContOffset int `json:"cont_offset"`
}

func (c Case) String() string {
	var b strings.Builder
	fmt.Fprintf(&b, "mode=%s table=%s chain: ", c.Mode, rowsString(c.Rows))
	var calls []string
	for _, k := range c.Calls {
		calls = append(calls, k.String())
	}
	var parts []string
	parts = append(parts, "source:"+c.Source)
	if c.CallsFirst {
		parts = append(parts, calls...)
	}
	for i, cd := range c.Conds {
		s := cd.String()
		if c.Inline && i == len(c.Conds)-1 {
			s = "inline:" + s
		}
		parts = append(parts, s)
	}
	if c.Or != nil {
		parts = append(parts, "Or:"+c.Or.String())
	}
	if c.Order != "none" {
		parts = append(parts, "Order("+c.Order+")")
	}
	if !c.CallsFirst {
		parts = append(parts, calls...)
	}
	b.WriteString(strings.Join(parts, "."))
	fmt.Fprintf(&b, " batch=%d array=%d ptrbatch=%v prefill=%d", c.Batch, c.ArrayLen, c.PtrBatch, c.Prefill)
	if c.Expr != "" {
		fmt.Fprintf(&b, " runtime-error-expr=%s", c.Expr)
	}
	for _, sc := range c.Scopes {
		b.WriteString(" +" + sc.String())
	}
	if c.ColMode != "" {
		fmt.Fprintf(&b, " columns(%s)=%v", c.ColMode, c.Cols)
	}
	if c.Distinct {
		b.WriteString(" distinct")
	}
	if c.Handle != "" {
		b.WriteString(" handle=" + c.Handle)
	}
	if c.Config != "" {
		b.WriteString(" config=" + c.Config)
	}
	if c.PresetID > 0 {
		fmt.Fprintf(&b, " preset-id=%d", c.PresetID)
	}
	if c.StopAt > 0 {
		fmt.Fprintf(&b, " stop-at-batch=%d", c.StopAt)
	}
	if c.CallbackWrites != "" {
		b.WriteString(" callback-writes=" + c.CallbackWrites)
	}
	if c.Mode == "all" {
		fmt.Fprintf(&b, " reuse=%q continue-with=Limit(%d)", c.Reuse, c.ContLimit)
		if c.ContOffset > 0 {
			fmt.Fprintf(&b, ".Offset(%d)", c.ContOffset)
		}
	}
	return b.String()
}

// sample is the short rendering written to the evidence file (the table is
// abbreviated to its ids; desc, which is hashed, carries everything).
func (c Case) sample() string {
	ids := make([]string, len(c.Rows))
	for i, r := range c.Rows {
		ids[i] = strconv.FormatInt(r.ID, 10)
	}
	s := c.String()
	s = s[strings.Index(s, " chain: "):]
	if len(s) > 300 {
		s = s[:300] + "..."
	}
	return fmt.Sprintf("mode=%s rows=%d ids(insertion order)=[%s]%s", c.Mode, len(c.Rows), strings.Join(ids, " "), s)
}

// ---- reference ------------------------------------------------------------------------------

type reference struct {
	byID     map[int64]Row
	matched  []Row // matching rows in primary-key order
	inMatch  map[int64]bool
	keys     []sortKey
	total    bool // the ordering is total (contains the unique id)
	limit    int  // effective limit, -1 = none
	offset   int  // effective offset, 0 = none
	override bool // a later positive value replaced an earlier positive one
	cancel   bool // a negative value cancelled an earlier positive one
	sorted   []Row
	window   []Row // sorted, then offset, then limit
	keyWin   []Row // the same under primary-key order (what FindInBatches must deliver)
}

func cmpKey(x, y Row, k sortKey) int {
	var c int
	if isStrCol(k.col) {
		c = strings.Compare(*x.strCol(k.col), *y.strCol(k.col))
	} else {
		a, b := *x.intCol(k.col), *y.intCol(k.col)
		switch {
		case a < b:
			c = -1
		case a > b:
			c = 1
		}
	}
	if k.desc {
		c = -c
	}
	return c
}

func window(rows []Row, offset, limit int) []Row {
	if offset >= len(rows) {
		return nil
	}
	out := rows[offset:]
	if limit >= 0 && limit < len(out) {
		out = out[:limit]
	}
	return out
}

func newReference(c Case) *reference {
	r := &reference{byID: map[int64]Row{}, inMatch: map[int64]bool{}, limit: -1}
	all := append([]Row(nil), c.Rows...)
	sort.Slice(all, func(i, j int) bool { return all[i].ID < all[j].ID })
	for _, row := range all {
		r.byID[row.ID] = row
		ok := true
		for _, cd := range c.Conds {
			if !cd.eval(row) {
				ok = false
				break
			}
		}
		if c.Or != nil && !c.Or.empty() {
			// a Where that builds no SQL leaves the OR branch as the only condition
			whereBuilt := false
			for _, cd := range c.Conds {
				whereBuilt = whereBuilt || !cd.empty()
			}
			if whereBuilt {
				ok = ok || c.Or.eval(row)
			} else {
				ok = c.Or.eval(row)
			}
		}
		for _, sc := range c.Scopes {
			ok = ok && sc.eval(row)
		}
		if ok {
			r.matched = append(r.matched, row)
			r.inMatch[row.ID] = true
		}
	}
	r.keys = orderKeys[c.Order]
	if c.hasScope("order") {
		r.keys = append(append([]sortKey(nil), r.keys...), sortKey{"a", true})
	}
	calls := c.Calls
	for _, sc := range c.Scopes {
		if sc.Kind == "page" { // runs after every call of the chain
			calls = append(append([]Call(nil), calls...), Call{Kind: "limit", N: sc.K})
			if sc.O > 0 {
				calls = append(calls, Call{Kind: "offset", N: sc.O})
			}
		}
	}
	for _, k := range r.keys {
		if k.col == "id" {
			r.total = true
		}
	}
	// later positive values override, negative values cancel
	for _, k := range expandCalls(calls) {
		switch {
		case k.Kind == "limit" && k.N > 0:
			if r.limit > 0 {
				r.override = true
			}
			r.limit = k.N
		case k.Kind == "limit":
			if r.limit > 0 {
				r.cancel = true
			}
			r.limit = -1
		case k.N > 0:
			if r.offset > 0 {
				r.override = true
			}
			r.offset = k.N
		default:
			if r.offset > 0 {
				r.cancel = true
			}
			r.offset = 0
		}
	}
	r.sorted = append([]Row(nil), r.matched...)
	keys := r.keys
	sort.SliceStable(r.sorted, func(i, j int) bool {
		for _, k := range keys {
			if c := cmpKey(r.sorted[i], r.sorted[j], k); c != 0 {
				return c < 0
			}
		}
		return false
	})
	r.window = window(r.sorted, r.offset, r.limit)
	r.keyWin = window(r.matched, r.offset, r.limit)
	if c.Expr == "dup" && c.DupLast {
		for id, row := range r.byID {
			row.S += "!"
			r.byID[id] = row
		}
		for _, list := range [][]Row{r.matched, r.sorted} { // window and keyWin are slices of these two
			for i := range list {
				list[i].S += "!"
			}
		}
	}
	if c.selected() != nil {
		// what is delivered holds the selected columns only (filtering and sorting saw all of them)
		for id, row := range r.byID {
			r.byID[id] = c.mask(row)
		}
		for _, list := range [][]Row{r.matched, r.sorted, r.window, r.keyWin} {
			for i := range list {
				list[i] = c.mask(list[i])
			}
		}
	}
	return r
}

func (r *reference) windowed() bool { return r.limit >= 0 || r.offset > 0 }

// project renders the order-key columns of a row.
func (r *reference) project(row Row) string {
	parts := make([]string, len(r.keys))
	for i, k := range r.keys {
		parts[i] = row.cell(k.col)
	}
	return strings.Join(parts, ",")
}

// checkRows judges a sequence of rows delivered by a read path that should
// hold the first `want` rows of the window. It returns "" or what is wrong.
//
//   - the count is exact;
//   - every delivered row is a table row, unchanged in every column, matches
//     the conditions and is delivered once;
//   - projected on the ordering's columns the sequence equals the reference
//     (for a total order this is the exact sequence; for a partial order ties
//     may be delivered in any order; without an order only the multiset is
//     determined, and with limit/offset on top of that only its size).
func (r *reference) checkRows(got []Row, want int) string {
	if want > len(r.window) {
		want = len(r.window)
	}
	if len(got) != want {
		return fmt.Sprintf("%d rows, want %d", len(got), want)
	}
	seen := map[int64]bool{}
	for i, g := range got {
		t, ok := r.byID[g.ID]
		if !ok {
			return fmt.Sprintf("row %d %v has an id that is not in the table", i, g)
		}
		if g.String() != t.String() {
			return fmt.Sprintf("row %d is %v, the table holds %v", i, g, t)
		}
		if !r.inMatch[g.ID] {
			return fmt.Sprintf("row %d %v does not match the conditions", i, g)
		}
		if seen[g.ID] {
			return fmt.Sprintf("row %d %v delivered twice", i, g)
		}
		seen[g.ID] = true
		if r.project(g) != r.project(r.window[i]) {
			return fmt.Sprintf("row %d is %v, reference position holds %v (order columns differ)", i, g, r.window[i])
		}
	}
	return ""
}

// checkValues judges a Pluck result (canonical cells) for column col.
func (r *reference) checkValues(col string, got []string) string {
	if len(got) != len(r.window) {
		return fmt.Sprintf("%d values, want %d", len(got), len(r.window))
	}
	if r.total {
		for i, g := range got {
			if w := r.window[i].cell(col); g != w {
				return fmt.Sprintf("value %d is %s, want %s", i, g, w)
			}
		}
		return ""
	}
	// multiset: equal to the matching rows' column when nothing is cut off, else contained in it
	pool := map[string]int{}
	for _, m := range r.matched {
		pool[m.cell(col)]++
	}
	for i, g := range got {
		if pool[g] == 0 {
			return fmt.Sprintf("value %d (%s) occurs more often than among the matching rows", i, g)
		}
		pool[g]--
	}
	return ""
}

// ---- running a case against gorm ------------------------------------------------------------

type runner struct {
	c    Case
	db   *testdb.DB
	ref  *reference
	root *gorm.DB // see rootDB
	fail string
	// lenient (cases whose chain carries an expression that raises a run-time
	// error on one row): a read path may return an error instead of a result; what
	// it may not do is return a nil error with anything but the complete result.
	lenient   bool
	errored   int  // read paths that returned an error
	completed int  // read paths that returned a result
	midFail   bool // the hand-driven Rows iteration delivered rows and then failed
}

// tolerated reports whether err is an acceptable outcome of a read path.
func (k *runner) tolerated(err error) bool {
	if !k.lenient {
		return false
	}
	if err != nil {
		k.errored++
		return true
	}
	k.completed++
	return false
}

func (k *runner) failf(format string, a ...interface{}) {
	if k.fail == "" {
		k.fail = fmt.Sprintf(format, a...)
	}
}

// chain builds the case's chain. src: dest | model | table. inline: leave the
// last condition out (the caller passes it to the finder).
func (k *runner) chain(src string, inline bool) *gorm.DB {
	var db *gorm.DB
	switch src {
	case "model":
		db = k.rootDB().Model(&Rec{})
	case "table":
		db = k.rootDB().Table("recs")
	default:
		db = k.rootDB()
	}
	switch k.c.ColMode {
	case "args":
		rest := make([]interface{}, len(k.c.Cols)-1)
		for i, col := range k.c.Cols[1:] {
			rest[i] = col
		}
		db = db.Select(k.c.Cols[0], rest...)
	case "slice":
		db = db.Select(append([]string(nil), k.c.Cols...))
	case "string":
		db = db.Select(strings.Join(k.c.Cols, ", "))
	case "omit":
		sel := k.c.selected()
		var omit []string
		for _, col := range columns {
			if !sel[col] {
				omit = append(omit, col)
			}
		}
		db = db.Omit(omit...)
	}
	if k.c.Distinct {
		db = db.Distinct()
	}
	calls := func() {
		for _, cl := range k.c.Calls {
			switch cl.Kind {
			case "limit":
				db = db.Limit(cl.N)
			case "offset":
				db = db.Offset(cl.N)
			default:
				n := cl.N
				db = db.Clauses(clause.Limit{Limit: &n, Offset: cl.O})
			}
		}
	}
	if k.c.CallsFirst {
		calls()
	}
	conds := k.c.Conds
	if inline && len(conds) > 0 {
		conds = conds[:len(conds)-1]
	}
	for _, cd := range conds {
		q, a := cd.args()
		db = db.Where(q, a...)
	}
	if k.c.Or != nil {
		q, a := k.c.Or.args()
		db = db.Or(q, a...)
	}
	if len(k.c.Scopes) > 0 {
		fns := make([]func(*gorm.DB) *gorm.DB, len(k.c.Scopes))
		for i, sc := range k.c.Scopes {
			fns[i] = sc.fn()
		}
		db = db.Scopes(fns...)
	}
	switch k.c.Expr {
	case "where":
		db = db.Where("abs(b) >= ?", 0)
	case "select":
		db = db.Select("id, a, abs(b) AS b, s, c, d, brand, for_n")
	case "dup":
		db = db.Select("*, s || '!' AS s")
	}
	db = applyOrder(db, k.c.Order)
	if !k.c.CallsFirst {
		calls()
	}
	switch k.c.Reuse {
	case "session":
		db = db.Session(&gorm.Session{})
	case "context":
		db = db.WithContext(context.Background())
	case "queryfields":
		db = db.Session(&gorm.Session{QueryFields: true})
	case "prepare":
		db = db.Session(&gorm.Session{PrepareStmt: true})
	}
	return db
}

// rootDB is the handle chains start from: the opened handle, a transaction or a
// dedicated connection (Case.Handle).
func (k *runner) rootDB() *gorm.DB {
	if k.root != nil {
		return k.root
	}
	return k.db.DB
}

// inlineArgs are the finder's trailing arguments when the case is inline.
func (k *runner) inlineArgs() []interface{} {
	if !k.c.Inline || len(k.c.Conds) == 0 {
		return nil
	}
	q, a := k.c.Conds[len(k.c.Conds)-1].args()
	return append([]interface{}{q}, a...)
}

// structSrc: source for destinations that carry the model type.
func (k *runner) structSrc() string { return k.c.Source }

// plainSrc: source for destinations without a model type (maps, primitives,
// Rows): "dest" is impossible, and without a parsed model the primary-key
// placeholder cannot be resolved (ErrModelValueRequired, documented).
func (k *runner) plainSrc() string {
	if k.c.Source == "dest" || orderUsesPKSymbol(k.c.Order) {
		return "model"
	}
	for _, cd := range k.c.Conds {
		if strings.HasPrefix(cd.Kind, "pk") { // a primary-key lookup needs the model as well
			return "model"
		}
	}
	if k.c.Or != nil && strings.HasPrefix(k.c.Or.Kind, "pk") {
		return "model"
	}
	if k.c.ColMode == "omit" { // Omit is resolved against the model's columns
		return "model"
	}
	for _, sc := range k.c.Scopes {
		if sc.Kind == "inspect" { // a scope that looks at Model/Dest finds nothing to look at in a map or []int64
			return "model"
		}
	}
	return k.c.Source
}

func recsToRows(rs []Rec) []Row {
	out := make([]Row, len(rs))
	for i, r := range rs {
		out[i] = fromRec(r)
	}
	return out
}

func (k *runner) mapsToRows(path string, ms []map[string]interface{}) ([]Row, bool) {
	out := make([]Row, len(ms))
	for i, m := range ms {
		r, err := fromMap(m, k.c.selected())
		if err != nil {
			k.failf("%s: row %d: %v", path, i, err)
			return nil, false
		}
		out[i] = r
	}
	return out, true
}

// expect checks error, RowsAffected and rows of a multi-row path.
func (k *runner) expect(path string, tx *gorm.DB, got []Row, want int, checkAffected bool) {
	k.expectRef(k.ref, path, tx, got, want, checkAffected)
}

func (k *runner) expectRef(ref *reference, path string, tx *gorm.DB, got []Row, want int, checkAffected bool) {
	if k.tolerated(tx.Error) {
		return
	}
	if tx.Error != nil {
		k.failf("%s: unexpected error %v", path, tx.Error)
		return
	}
	if msg := ref.checkRows(got, want); msg != "" {
		k.failf("%s: %s; got %s, reference window %s", path, msg, rowsString(got), rowsString(ref.window))
		return
	}
	if checkAffected && int(tx.RowsAffected) != len(got) {
		k.failf("%s: RowsAffected=%d but %d rows returned", path, tx.RowsAffected, len(got))
	}
}

func (k *runner) findPaths() {
	n := len(k.ref.window)
	one := 0
	if n > 0 {
		one = 1
	}
	ss, ps := k.structSrc(), k.plainSrc()
	inl := k.inlineArgs()
	useInline := len(inl) > 0

	{ // []Rec, optionally a slice that already holds elements (gorm resets it)
		var rs []Rec
		for i := 0; i < k.c.Prefill; i++ {
			rs = append(rs, Rec{ID: uint(900 + i), A: 9, S: "stale"})
		}
		tx := k.chain(ss, useInline).Find(&rs, inl...)
		k.expect(fmt.Sprintf("Find(&[]Rec prefilled with %d)", k.c.Prefill), tx, recsToRows(rs), n, true)
	}
	{ // []*Rec
		var rs []*Rec
		tx := k.chain(ss, useInline).Find(&rs, inl...)
		got := make([]Row, 0, len(rs))
		for i, p := range rs {
			if p == nil {
				k.failf("Find(&[]*Rec): element %d is nil", i)
				return
			}
			got = append(got, fromRec(*p))
		}
		k.expect("Find(&[]*Rec)", tx, got, n, true)
	}
	{ // array of ArrayLen elements: holds the first rows, the rest stay zero
		arr := reflect.New(reflect.ArrayOf(k.c.ArrayLen, reflect.TypeOf(Rec{})))
		tx := k.chain(ss, false).Find(arr.Interface())
		filled := n
		if filled > k.c.ArrayLen {
			filled = k.c.ArrayLen
		}
		var got []Row
		for i := 0; i < filled; i++ {
			got = append(got, fromRec(arr.Elem().Index(i).Interface().(Rec)))
		}
		// RowsAffected is asserted only when the array is large enough (what it should be
		// for an overflowing array is not stated by the property)
		k.expect(fmt.Sprintf("Find(&[%d]Rec)", k.c.ArrayLen), tx, got, filled, n <= k.c.ArrayLen)
		for i := filled; i < k.c.ArrayLen && k.fail == ""; i++ {
			if z := arr.Elem().Index(i).Interface().(Rec); !reflect.DeepEqual(z, Rec{}) {
				k.failf("Find(&[%d]Rec): element %d beyond the %d rows returned is not zero: %v", k.c.ArrayLen, i, n, fromRec(z))
			}
		}
	}
	{ // struct
		var r Rec
		tx := k.chain(ss, useInline).Find(&r, inl...)
		var got []Row
		if tx.RowsAffected > 0 {
			got = []Row{fromRec(r)}
		} else if !reflect.DeepEqual(r, Rec{}) {
			k.failf("Find(&Rec): RowsAffected=0 but the destination was written: %v", fromRec(r))
		}
		k.expect("Find(&Rec)", tx, got, one, true)
	}
	{ // pointer to struct (nil *Rec, gorm allocates)
		var p *Rec
		tx := k.chain(ss, false).Find(&p)
		var got []Row
		if tx.RowsAffected > 0 {
			if p == nil {
				k.failf("Find(&*Rec): RowsAffected=%d but the pointer is nil", tx.RowsAffected)
				return
			}
			got = []Row{fromRec(*p)}
		}
		k.expect("Find(&*Rec)", tx, got, one, true)
	}
	{ // []map
		var ms []map[string]interface{}
		tx := k.chain(ps, useInline).Find(&ms, inl...)
		if got, ok := k.mapsToRows("Find(&[]map)", ms); ok {
			k.expect("Find(&[]map) via "+ps, tx, got, n, true)
		}
	}
	{ // map
		m := map[string]interface{}{}
		tx := k.chain(ps, false).Find(&m)
		var ms []map[string]interface{}
		if tx.RowsAffected > 0 {
			ms = append(ms, m)
		} else if len(m) != 0 {
			k.failf("Find(&map): RowsAffected=0 but the map was written: %v", m)
		}
		if got, ok := k.mapsToRows("Find(&map)", ms); ok {
			k.expect("Find(&map) via "+ps, tx, got, one, true)
		}
	}
}

func (k *runner) rowsPaths() {
	n := len(k.ref.window)
	ps := k.plainSrc()
	for _, intoMap := range []bool{false, true} {
		path := "Rows+ScanRows(&Rec)"
		if intoMap {
			path = "Rows+ScanRows(&map)"
		}
		rows, err := k.chain(ps, false).Rows()
		if k.tolerated(err) {
			continue
		}
		if err != nil {
			k.failf("%s: Rows: unexpected error %v", path, err)
			return
		}
		var got []Row
		for rows.Next() {
			if intoMap {
				m := map[string]interface{}{}
				if err := k.rootDB().ScanRows(rows, &m); err != nil {
					k.failf("%s: unexpected error %v", path, err)
					break
				}
				r, err := fromMap(m, k.c.selected())
				if err != nil {
					k.failf("%s: row %d: %v", path, len(got), err)
					break
				}
				got = append(got, r)
			} else {
				var r Rec
				if err := k.rootDB().ScanRows(rows, &r); err != nil {
					k.failf("%s: unexpected error %v", path, err)
					break
				}
				got = append(got, fromRec(r))
			}
		}
		if err := rows.Err(); err != nil {
			if k.lenient && k.fail == "" {
				// the database failed while it produced a row: that is the caller's to see
				// (database/sql reports it), not a result to compare
				k.errored++
				if len(got) > 0 {
					k.midFail = true
				}
				rows.Close()
				continue
			}
			k.failf("%s: rows.Err: %v", path, err)
		}
		if err := rows.Close(); err != nil {
			k.failf("%s: rows.Close: %v", path, err)
		}
		if k.fail != "" {
			return
		}
		if msg := k.ref.checkRows(got, n); msg != "" {
			k.failf("%s: %s; got %s, reference window %s", path, msg, rowsString(got), rowsString(k.ref.window))
			return
		}
	}
}

func (k *runner) scanPaths() {
	n := len(k.ref.window)
	one := 0
	if n > 0 {
		one = 1
	}
	ps := k.plainSrc()
	{
		var rs []Rec
		tx := k.chain(ps, false).Scan(&rs)
		k.expect("Scan(&[]Rec) via "+ps, tx, recsToRows(rs), n, true)
	}
	{
		var rs []*Rec
		tx := k.chain(ps, false).Scan(&rs)
		got := make([]Row, 0, len(rs))
		for i, p := range rs {
			if p == nil {
				k.failf("Scan(&[]*Rec): element %d is nil", i)
				return
			}
			got = append(got, fromRec(*p))
		}
		k.expect("Scan(&[]*Rec) via "+ps, tx, got, n, true)
	}
	{
		var r Rec
		tx := k.chain(ps, false).Scan(&r)
		var got []Row
		if tx.RowsAffected > 0 {
			got = []Row{fromRec(r)}
		}
		k.expect("Scan(&Rec) via "+ps, tx, got, one, true)
	}
	{
		var ms []map[string]interface{}
		tx := k.chain(ps, false).Scan(&ms)
		if got, ok := k.mapsToRows("Scan(&[]map)", ms); ok {
			k.expect("Scan(&[]map) via "+ps, tx, got, n, true)
		}
	}
	{
		m := map[string]interface{}{}
		tx := k.chain(ps, false).Scan(&m)
		var ms []map[string]interface{}
		if tx.RowsAffected > 0 {
			ms = append(ms, m)
		}
		if got, ok := k.mapsToRows("Scan(&map)", ms); ok {
			k.expect("Scan(&map) via "+ps, tx, got, one, true)
		}
	}
}

func (k *runner) pluckPaths() {
	if k.c.ColMode != "" || k.c.Distinct {
		// Pluck together with a select list / DISTINCT reads something else than "the column
		// of every row" (one selected column replaces the plucked one, DISTINCT drops values)
		return
	}
	ps := k.plainSrc()
	check := func(col, kind string, tx *gorm.DB, got []string) {
		path := fmt.Sprintf("Pluck(%q, &%s) via %s", col, kind, ps)
		if k.tolerated(tx.Error) {
			return
		}
		if tx.Error != nil {
			k.failf("%s: unexpected error %v", path, tx.Error)
			return
		}
		if msg := k.ref.checkValues(col, got); msg != "" {
			k.failf("%s: %s; got %v, reference window %s", path, msg, got, rowsString(k.ref.window))
			return
		}
		if int(tx.RowsAffected) != len(got) {
			k.failf("%s: RowsAffected=%d but %d values returned", path, tx.RowsAffected, len(got))
		}
	}
	itoa := func(i int64) string { return strconv.FormatInt(i, 10) }
	{
		var v []uint
		tx := k.chain(ps, false).Pluck("id", &v)
		got := make([]string, len(v))
		for i, x := range v {
			got[i] = itoa(int64(x))
		}
		check("id", "[]uint", tx, got)
	}
	{
		var v []int64
		tx := k.chain(ps, false).Pluck("id", &v)
		got := make([]string, len(v))
		for i, x := range v {
			got[i] = itoa(x)
		}
		check("id", "[]int64", tx, got)
	}
	{
		var v []int
		tx := k.chain(ps, false).Pluck("a", &v)
		got := make([]string, len(v))
		for i, x := range v {
			got[i] = itoa(int64(x))
		}
		check("a", "[]int", tx, got)
	}
	{
		var v []int64
		tx := k.chain(ps, false).Pluck("b", &v)
		got := make([]string, len(v))
		for i, x := range v {
			got[i] = itoa(x)
		}
		check("b", "[]int64", tx, got)
	}
	{
		var v []string
		tx := k.chain(ps, false).Pluck("s", &v)
		got := make([]string, len(v))
		for i, x := range v {
			got[i] = strconv.Quote(x)
		}
		check("s", "[]string", tx, got)
	}
	{
		var v []sql.NullInt64
		tx := k.chain(ps, false).Pluck("c", &v)
		got := make([]string, len(v))
		for i, x := range v {
			got[i] = "NULL"
			if x.Valid {
				got[i] = itoa(x.Int64)
			}
		}
		check("c", "[]sql.NullInt64", tx, got)
	}
	{
		var v []interface{}
		tx := k.chain(ps, false).Pluck("d", &v)
		got := make([]string, len(v))
		for i, x := range v {
			n, err := normalize(x)
			switch y := n.(type) {
			case nil:
				got[i] = "NULL"
			case string:
				got[i] = strconv.Quote(y)
			default:
				got[i] = fmt.Sprintf("%T(%v)", x, x)
			}
			if err != nil {
				got[i] = err.Error()
			}
		}
		check("d", "[]interface{}", tx, got)
	}
	// slices of pointers: NULL must arrive as nil. Known finding pluck-pointer-null: gorm
	// scans into the element itself, so a NULL fails with "converting NULL to ... is
	// unsupported"; while that is open the two destinations are used only when no
	// matching row holds NULL in the column.
	hasNull := func(col string) bool {
		for _, m := range k.ref.matched {
			if m.cell(col) == "NULL" {
				return true
			}
		}
		return false
	}
	if harness.OpenClass("C15", "pluck-pointer-null") && hasNull("c") {
		evid.Excluded("pluck-pointer-null")
	} else {
		evid.Class("pluck:pointer-slice-checked")
		var v []*int64
		tx := k.chain(ps, false).Pluck("c", &v)
		got := make([]string, len(v))
		for i, x := range v {
			got[i] = "NULL"
			if x != nil {
				got[i] = itoa(*x)
			}
		}
		check("c", "[]*int64", tx, got)
	}
	if harness.OpenClass("C15", "pluck-pointer-null") && hasNull("d") {
		evid.Excluded("pluck-pointer-null")
	} else {
		evid.Class("pluck:pointer-slice-checked")
		var v []*string
		tx := k.chain(ps, false).Pluck("d", &v)
		got := make([]string, len(v))
		for i, x := range v {
			got[i] = "NULL"
			if x != nil {
				got[i] = strconv.Quote(*x)
			}
		}
		check("d", "[]*string", tx, got)
	}
	{ // custom Scanner element type
		var v []Tag
		tx := k.chain(ps, false).Pluck("brand", &v)
		got := make([]string, len(v))
		for i, x := range v {
			got[i] = strconv.Quote(x.V)
		}
		check("brand", "[]Tag", tx, got)
	}
	{ // the same column into strings: the stored form
		var v []string
		tx := k.chain(ps, false).Pluck("brand", &v)
		got := make([]string, len(v))
		for i, x := range v {
			if !strings.HasPrefix(x, "t:") {
				k.failf("Pluck(\"brand\", &[]string): value %d is %q, want the stored form t:...", i, x)
				return
			}
			got[i] = strconv.Quote(x[2:])
		}
		check("brand", "[]string", tx, got)
	}
	{ // column of an embedded struct
		var v []int
		tx := k.chain(ps, false).Pluck("for_n", &v)
		got := make([]string, len(v))
		for i, x := range v {
			got[i] = itoa(int64(x))
		}
		check("for_n", "[]int", tx, got)
	}
	{
		var v []sql.NullString
		tx := k.chain(ps, false).Pluck("d", &v)
		got := make([]string, len(v))
		for i, x := range v {
			got[i] = "NULL"
			if x.Valid {
				got[i] = strconv.Quote(x.String)
			}
		}
		check("d", "[]sql.NullString", tx, got)
	}
}

func (k *runner) countPath() {
	// Count is specified without limit and offset (cancelled ones count as absent)
	if k.ref.windowed() {
		return
	}
	ps := k.plainSrc()
	var n int64 = -7
	tx := k.chain(ps, false).Count(&n)
	if k.c.Expr != "select" && k.tolerated(tx.Error) { // with Select(expr) Count issues count(*) and must not fail
		return
	}
	if tx.Error != nil {
		k.failf("Count via %s: unexpected error %v", ps, tx.Error)
		return
	}
	if int(n) != len(k.ref.matched) {
		k.failf("Count via %s = %d, but Find returns %d rows", ps, n, len(k.ref.matched))
	}
}

// singlePaths: First / Last / Take. First and Last are specified for chains
// without an ordering of their own; an effective offset is left out for all
// three (the statement speaks of the lowest/highest key only).
func (k *runner) singlePaths() {
	if k.ref.offset > 0 || k.c.hasScope("page") {
		return
	}
	inl := k.inlineArgs()
	useInline := len(inl) > 0
	ss := k.structSrc()
	judge := func(path string, tx *gorm.DB, have bool, got Row, want *Row) {
		if k.lenient && tx.Error != nil && !errors.Is(tx.Error, gorm.ErrRecordNotFound) {
			k.errored++
			return
		}
		if len(k.ref.matched) == 0 {
			if !errors.Is(tx.Error, gorm.ErrRecordNotFound) {
				k.failf("%s: nothing matches but the error is %v, want ErrRecordNotFound", path, tx.Error)
			} else if tx.RowsAffected != 0 {
				k.failf("%s: ErrRecordNotFound with RowsAffected=%d", path, tx.RowsAffected)
			}
			return
		}
		if tx.Error != nil {
			k.failf("%s: %d rows match but the error is %v", path, len(k.ref.matched), tx.Error)
			return
		}
		if tx.RowsAffected != 1 || !have {
			k.failf("%s: RowsAffected=%d (row delivered: %v), want exactly one row", path, tx.RowsAffected, have)
			return
		}
		t, ok := k.ref.byID[got.ID]
		if !ok || t.String() != got.String() || !k.ref.inMatch[got.ID] {
			k.failf("%s: returned %v which is not a matching table row", path, got)
			return
		}
		if want != nil && got.ID != want.ID {
			k.failf("%s: returned %v, want %v", path, got, *want)
			return
		}
		if want == nil && k.ref.project(got) != k.ref.project(k.ref.sorted[0]) {
			k.failf("%s: returned %v, the ordering puts %v first", path, got, k.ref.sorted[0])
		}
	}
	var lo, hi *Row
	if len(k.ref.matched) > 0 {
		lo, hi = &k.ref.matched[0], &k.ref.matched[len(k.ref.matched)-1]
	}
	type finder struct {
		name string
		call func(tx *gorm.DB, dest interface{}, conds ...interface{}) *gorm.DB
		want *Row
	}
	finders := []finder{{"Take", (*gorm.DB).Take, nil}}
	if keyOrdered(k.c.Order) {
		finders = append(finders,
			finder{"First", (*gorm.DB).First, lo},
			finder{"Last", (*gorm.DB).Last, hi})
	}
	for _, f := range finders {
		{
			var r Rec
			tx := f.call(k.chain(ss, useInline), &r, inl...)
			judge(f.name+"(&Rec)", tx, tx.RowsAffected > 0, fromRec(r), f.want)
		}
		{
			var rs []Rec
			tx := f.call(k.chain(ss, false), &rs)
			var got Row
			if len(rs) > 0 {
				got = fromRec(rs[0])
			}
			if len(rs) > 1 {
				k.failf("%s(&[]Rec): %d rows delivered", f.name, len(rs))
			}
			judge(f.name+"(&[]Rec)", tx, len(rs) == 1, got, f.want)
		}
		{
			// maps need Model for First/Last (primary key lookup), Take works on a bare table too
			src := "model"
			if f.name == "Take" {
				src = k.plainSrc()
			}
			m := map[string]interface{}{}
			tx := f.call(k.chain(src, false), &m)
			var got Row
			have := false
			if tx.Error == nil && len(m) > 0 {
				r, err := fromMap(m, k.c.selected())
				if err != nil {
					k.failf("%s(&map): %v", f.name, err)
					return
				}
				got, have = r, true
			}
			judge(f.name+"(&map) via "+src, tx, have, got, f.want)
		}
		if k.fail != "" {
			return
		}
	}
}

// errRunaway stops a FindInBatches that delivers more rows than the table
// holds (a cursor that does not advance would otherwise loop for ever and the
// collected rows would grow without bound).
var errRunaway = errors.New("c15: more rows delivered than the table holds")

// errStop is what the batch callback returns when the case asks it to stop.
var errStop = errors.New("c15: callback asked to stop")

// batchPaths: FindInBatches against Find under primary-key order and the
// reference. Domain: no ordering of the chain's own.
func (k *runner) batchPaths() {
	if !batchOrdered(k.c.Order) || k.c.hasScope("page") {
		return
	}
	ss := k.structSrc()
	want := k.ref.keyWin
	pk := clause.OrderByColumn{Column: clause.Column{Table: clause.CurrentTable, Name: clause.PrimaryKey}}

	// Find under key order with the same limit/offset
	var viaFind []Rec
	tx := k.chain(ss, false).Order(pk).Find(&viaFind)
	if !k.tolerated(tx.Error) {
		if tx.Error != nil {
			k.failf("Find under key order: unexpected error %v", tx.Error)
			return
		}
		findRows := recsToRows(viaFind)
		if rowsString(findRows) != rowsString(want) {
			k.failf("Find under key order returned %s, reference %s", rowsString(findRows), rowsString(want))
			return
		}
	}

	var (
		concat  []Row
		sizes   []int
		numbers []int
		cbAff   []int64
	)
	var res *gorm.DB
	if k.c.PtrBatch {
		var dest []*Rec
		res = k.chain(ss, false).FindInBatches(&dest, k.c.Batch, func(tx *gorm.DB, batch int) error {
			if len(concat)+len(dest) > len(k.c.Rows) {
				return errRunaway
			}
			for _, p := range dest {
				if p == nil {
					return errors.New("nil element in batch")
				}
				concat = append(concat, fromRec(*p))
			}
			sizes = append(sizes, len(dest))
			numbers = append(numbers, batch)
			cbAff = append(cbAff, tx.RowsAffected)
			if k.c.StopAt > 0 && batch == k.c.StopAt {
				return errStop
			}
			return nil
		})
	} else {
		var dest []Rec
		res = k.chain(ss, false).FindInBatches(&dest, k.c.Batch, func(tx *gorm.DB, batch int) error {
			if len(concat)+len(dest) > len(k.c.Rows) {
				return errRunaway
			}
			for _, r := range dest {
				concat = append(concat, fromRec(r)) // copies: gorm reuses the slice
			}
			sizes = append(sizes, len(dest))
			numbers = append(numbers, batch)
			cbAff = append(cbAff, tx.RowsAffected)
			if k.c.StopAt > 0 && batch == k.c.StopAt {
				return errStop
			}
			return nil
		})
	}
	path := fmt.Sprintf("FindInBatches(batch=%d)", k.c.Batch)
	if errors.Is(res.Error, errStop) {
		// documented: an error returned by the callback stops further batches and is returned
		switch {
		case len(sizes) != k.c.StopAt:
			k.failf("%s: the callback failed in batch %d but was invoked %d times", path, k.c.StopAt, len(sizes))
		case len(concat) > len(want) || rowsString(concat) != rowsString(want[:len(concat)]):
			k.failf("%s stopped in batch %d: delivered %s, not a prefix of %s", path, k.c.StopAt, rowsString(concat), rowsString(want))
		case int(res.RowsAffected) != len(concat):
			k.failf("%s stopped in batch %d: RowsAffected=%d but %d rows delivered", path, k.c.StopAt, res.RowsAffected, len(concat))
		}
		for i, s := range sizes {
			if s > k.c.Batch || s == 0 {
				k.failf("%s: batch %d holds %d rows", path, i+1, s)
			}
		}
		return
	}
	if k.c.StopAt > 0 && len(sizes) >= k.c.StopAt {
		k.failf("%s: the callback returned an error in batch %d, but the call returned %v after %d callbacks", path, k.c.StopAt, res.Error, len(sizes))
		return
	}
	if errors.Is(res.Error, errRunaway) {
		k.failf("%s delivered more rows than the table holds (%d): batches so far %v, rows so far %s, Find under key order returns %s",
			path, len(k.c.Rows), sizes, rowsString(concat), rowsString(want))
		return
	}
	if k.tolerated(res.Error) {
		// an error is an outcome; batches handed out before it must still respect the size
		for i, s := range sizes {
			if s > k.c.Batch {
				k.failf("%s: batch %d holds %d rows (the call then failed with %v)", path, i+1, s, res.Error)
			}
		}
		return
	}
	if res.Error != nil {
		k.failf("%s: unexpected error %v (batches so far %v)", path, res.Error, sizes)
		return
	}
	if rowsString(concat) != rowsString(want) {
		k.failf("%s delivered %s in batches %v, Find under key order returns %s", path, rowsString(concat), sizes, rowsString(want))
		return
	}
	for i, s := range sizes {
		if s > k.c.Batch {
			k.failf("%s: batch %d holds %d rows", path, i+1, s)
		}
		if s == 0 {
			k.failf("%s: the callback was invoked with an empty batch (call %d)", path, i+1)
		}
		if numbers[i] != i+1 {
			k.failf("%s: batch numbers %v are not 1,2,3,...", path, numbers)
		}
		if int(cbAff[i]) != s {
			k.failf("%s: callback %d saw RowsAffected=%d for a batch of %d rows", path, i+1, cbAff[i], s)
		}
	}
	if int(res.RowsAffected) != len(want) {
		k.failf("%s: RowsAffected=%d but %d rows delivered", path, res.RowsAffected, len(want))
	}
}

// continuationPaths: a read reached by continuing from the value another read
// finisher returned (the pagination idiom q.Count(&total).Limit(k).Offset(o).Find(&page)),
// and, for a reusable chain, the same reads from the original chain value after
// it has been used by those finishers. Every read must equal the reference of
// the chain's conditions and ordering; Count itself is judged only without an
// effective limit/offset.
//
// Supported pairs (read in finisher_api.go): Count restores SELECT / ORDER BY /
// Model before returning, so any read may follow it; Find leaves only an empty
// SELECT clause that Count replaces, so Count may follow Find. Pluck leaves its
// single-column SELECT clause in the statement it returns (no restore code
// exists), so a Find continued from Pluck's return value is not a supported
// idiom and is not generated; Pluck followed by reads from the original
// reusable chain is.
func (k *runner) continuationPaths() {
	// scopes: running them consumes them and writes what they add into the statement the
	// finisher returns; Count's ORDER BY bookkeeping then replaces an ordering a scope added.
	// What a read continued from there should see is not stated anywhere: left out.
	if k.c.hasScope("order") || k.c.hasScope("page") || k.c.ColMode != "" || k.c.Distinct {
		return
	}
	for _, sc := range k.c.Scopes {
		if sc.Derive != "" && harness.OpenClass("C15", "count-continue-derived-scope") {
			// known finding: when a scope derives a new session, Count hands back the derived
			// statement still carrying its SELECT count(*) (the deferred clean-up was bound to the
			// statement Count started with); a Find continued from there reads the count as a row
			evid.Excluded("count-continue-derived-scope")
			return
		}
	}
	ps := k.plainSrc() // Count needs Model or Table
	extra := k.c
	extra.Calls = append(append([]Call(nil), k.c.Calls...), Call{Kind: "limit", N: k.c.ContLimit})
	page := fmt.Sprintf("Limit(%d)", k.c.ContLimit)
	if k.c.ContOffset > 0 {
		extra.Calls = append(extra.Calls, Call{Kind: "offset", N: k.c.ContOffset})
		page += fmt.Sprintf(".Offset(%d)", k.c.ContOffset)
	}
	pageRef := newReference(extra)
	paged := func(db *gorm.DB) *gorm.DB {
		db = db.Limit(k.c.ContLimit)
		if k.c.ContOffset > 0 {
			db = db.Offset(k.c.ContOffset)
		}
		return db
	}

	// the reads, each applicable to Count's return value and to the original chain
	type read struct {
		name string
		ok   bool
		run  func(path string, db *gorm.DB)
	}
	var lo *Row
	if len(k.ref.matched) > 0 {
		lo = &k.ref.matched[0]
	}
	single := func(path string, tx *gorm.DB, r Rec, want *Row) {
		if len(k.ref.matched) == 0 {
			if !errors.Is(tx.Error, gorm.ErrRecordNotFound) {
				k.failf("%s: nothing matches but the error is %v, want ErrRecordNotFound", path, tx.Error)
			}
			return
		}
		got := fromRec(r)
		switch {
		case tx.Error != nil:
			k.failf("%s: %d rows match but the error is %v", path, len(k.ref.matched), tx.Error)
		case tx.RowsAffected != 1:
			k.failf("%s: RowsAffected=%d, want 1", path, tx.RowsAffected)
		case !k.ref.inMatch[got.ID] || k.ref.byID[got.ID].String() != got.String():
			k.failf("%s: returned %v which is not a matching table row", path, got)
		case want != nil && got.ID != want.ID:
			k.failf("%s: returned %v, want %v", path, got, *want)
		case want == nil && k.ref.project(got) != k.ref.project(k.ref.sorted[0]):
			k.failf("%s: returned %v, the ordering puts %v first", path, got, k.ref.sorted[0])
		}
	}
	reads := []read{
		{"Find(&[]Rec)", true, func(path string, db *gorm.DB) {
			var rs []Rec
			tx := db.Find(&rs)
			k.expect(path, tx, recsToRows(rs), len(k.ref.window), true)
		}},
		{page + ".Find(&[]Rec)", true, func(path string, db *gorm.DB) {
			var rs []Rec
			tx := paged(db).Find(&rs)
			k.expectRef(pageRef, path, tx, recsToRows(rs), len(pageRef.window), true)
		}},
		{"Find(&[]map)", true, func(path string, db *gorm.DB) {
			var ms []map[string]interface{}
			tx := db.Find(&ms)
			if got, ok := k.mapsToRows(path, ms); ok {
				k.expect(path, tx, got, len(k.ref.window), true)
			}
		}},
		{`Pluck("s", &[]string)`, true, func(path string, db *gorm.DB) {
			var v []string
			tx := db.Pluck("s", &v)
			if tx.Error != nil {
				k.failf("%s: unexpected error %v", path, tx.Error)
				return
			}
			got := make([]string, len(v))
			for i, x := range v {
				got[i] = strconv.Quote(x)
			}
			if msg := k.ref.checkValues("s", got); msg != "" {
				k.failf("%s: %s; got %v, reference window %s", path, msg, got, rowsString(k.ref.window))
			}
		}},
		{"First(&Rec)", keyOrdered(k.c.Order) && k.ref.offset == 0, func(path string, db *gorm.DB) {
			var r Rec
			single(path, db.First(&r), r, lo)
		}},
		{"Take(&Rec)", k.ref.offset == 0, func(path string, db *gorm.DB) {
			var r Rec
			single(path, db.Take(&r), r, nil)
		}},
	}
	count := func(path string, db *gorm.DB) *gorm.DB {
		var n int64 = -7
		tx := db.Count(&n)
		if tx.Error != nil {
			k.failf("%s: unexpected error %v", path, tx.Error)
		} else if !k.ref.windowed() && int(n) != len(k.ref.matched) {
			k.failf("%s = %d, but Find returns %d rows", path, n, len(k.ref.matched))
		}
		return tx
	}

	// 1. Count, then one read from the value Count returned (fresh chain per pair)
	for _, rd := range reads {
		if !rd.ok {
			continue
		}
		chain := k.chain(ps, false)
		r := count("Count (before "+rd.name+")", chain)
		if k.fail != "" {
			return
		}
		rd.run("Count(&n), then from the returned value "+rd.name+" via "+ps, r)
		if k.fail != "" {
			return
		}
	}
	// 2. Find, then Count from the value Find returned
	if !k.ref.windowed() {
		var rs []Rec
		r := k.chain(ps, false).Find(&rs)
		k.expect("Find(&[]Rec) (before Count)", r, recsToRows(rs), len(k.ref.window), true)
		if k.fail != "" {
			return
		}
		count("Find(&[]Rec), then from the returned value Count via "+ps, r)
		if k.fail != "" {
			return
		}
	}
	// 3. a reusable chain: after Count, Pluck and Find were called on it (and reads were
	// continued from what they returned), every read from the original value still agrees
	if k.c.Reuse == "" {
		return
	}
	base := k.chain(ps, false)
	r := count("Count on the reusable chain", base)
	if k.fail != "" {
		return
	}
	reads[1].run("reusable chain: Count(&n), then from the returned value "+reads[1].name, r)
	var plucked []int64
	if tx := base.Pluck("id", &plucked); tx.Error != nil {
		k.failf("reusable chain: Pluck(\"id\"): unexpected error %v", tx.Error)
	}
	for _, rd := range reads {
		if k.fail != "" {
			return
		}
		if rd.ok {
			rd.run("reusable chain, after Count/Pluck were called on it: "+rd.name+" via "+ps, base)
		}
	}
	if k.fail == "" {
		count("reusable chain, Count again after the other reads", base)
	}
}

// writingBatchPath: the documented use of FindInBatches - the callback works on the rows it
// was handed so that they leave the chain's condition set (here: it deletes them, through
// database/sql). Rows not yet delivered are untouched, so the call must still deliver every
// row the chain matched when it started, once each, in key order. Runs last: it empties
// part of the table.
func (k *runner) writingBatchPath() {
	if k.c.CallbackWrites == "" || !batchOrdered(k.c.Order) || k.c.hasScope("page") || k.c.Handle != "" {
		return
	}
	want := k.ref.keyWin
	var (
		dest   []Rec
		concat []Row
		sizes  []int
		werr   error
	)
	res := k.chain(k.structSrc(), false).FindInBatches(&dest, k.c.Batch, func(tx *gorm.DB, batch int) error {
		if len(concat)+len(dest) > len(k.c.Rows) {
			return errRunaway
		}
		ids := make([]interface{}, len(dest))
		marks := make([]string, len(dest))
		for i, r := range dest {
			concat = append(concat, fromRec(r))
			ids[i], marks[i] = int64(r.ID), "?"
		}
		sizes = append(sizes, len(dest))
		if _, err := k.db.SQL.Exec("DELETE FROM recs WHERE id IN ("+strings.Join(marks, ",")+")", ids...); err != nil {
			werr = err
			return err
		}
		return nil
	})
	path := fmt.Sprintf("FindInBatches(batch=%d) whose callback deletes the rows of its batch", k.c.Batch)
	if werr != nil {
		k.failf("harness: %s: the DELETE failed: %v", path, werr)
		return
	}
	if res.Error != nil {
		k.failf("%s: unexpected error %v; delivered %s in batches %v, the chain matched %s", path, res.Error, rowsString(concat), sizes, rowsString(want))
		return
	}
	if rowsString(concat) != rowsString(want) {
		k.failf("%s delivered %s in batches %v; when it started the chain matched %s", path, rowsString(concat), sizes, rowsString(want))
		return
	}
	for i, s := range sizes {
		if s > k.c.Batch || s == 0 {
			k.failf("%s: batch %d holds %d rows", path, i+1, s)
		}
	}
	if int(res.RowsAffected) != len(want) {
		k.failf("%s: RowsAffected=%d but %d rows delivered", path, res.RowsAffected, len(want))
	}
}

// Small is a destination with fewer fields than the model (gorm then selects only those).
type Small struct {
	ID uint
	S  string
}

// extraPaths: further public ways to the same rows - Row(), reads into
// primitive destinations (Select("id").Scan/Find into []int64, an aggregate
// into *int64 through Scan and Row), a map passed by value, a destination
// struct with fewer fields, a struct destination whose key is preset, and Raw
// SQL through Scan / Rows / MapColumns.
func (k *runner) extraPaths() {
	ps, ss := k.plainSrc(), k.structSrc()
	n := len(k.ref.window)
	allCols := k.c.ColMode == ""

	if allCols { // Row(): the first row of the window, sql.ErrNoRows when there is none
		row := k.chain(ps, false).Row()
		if row == nil {
			k.failf("Row() via %s returned nil", ps)
			return
		}
		var (
			id, a, b, mn int64
			s, tag       string
			c            sql.NullInt64
			d            sql.NullString
		)
		err := row.Scan(&id, &a, &b, &s, &c, &d, &tag, &mn)
		switch {
		case n == 0:
			if !errors.Is(err, sql.ErrNoRows) {
				k.failf("Row() via %s: no row in the window but Scan returned %v, want sql.ErrNoRows", ps, err)
			}
		case err != nil:
			k.failf("Row() via %s: unexpected error %v", ps, err)
		default:
			got := Row{ID: id, A: a, B: b, S: s, K: strings.TrimPrefix(tag, "t:"), MN: mn}
			if c.Valid {
				got.C = &c.Int64
			}
			if d.Valid {
				got.D = &d.String
			}
			if msg := k.ref.checkRows([]Row{got}, 1); msg != "" {
				k.failf("Row() via %s: %s; got %v, reference window %s", ps, msg, got, rowsString(k.ref.window))
			}
		}
		if k.fail != "" {
			return
		}
	}

	if allCols && !k.c.Distinct { // primitive destinations
		ids := func(path string, tx *gorm.DB, v []int64) {
			if tx.Error != nil {
				k.failf("%s: unexpected error %v", path, tx.Error)
				return
			}
			got := make([]string, len(v))
			for i, x := range v {
				got[i] = strconv.FormatInt(x, 10)
			}
			if msg := k.ref.checkValues("id", got); msg != "" {
				k.failf("%s: %s; got %v, reference window %s", path, msg, got, rowsString(k.ref.window))
			} else if int(tx.RowsAffected) != len(v) {
				k.failf("%s: RowsAffected=%d but %d values returned", path, tx.RowsAffected, len(v))
			}
		}
		var v1, v2 []int64
		ids(`Select("id").Scan(&[]int64) via `+ps, k.chain(ps, false).Select("id").Scan(&v1), v1)
		ids(`Select("id").Find(&[]int64) via `+ps, k.chain(ps, false).Select("id").Find(&v2), v2)
		if !k.ref.windowed() {
			var n1 int64 = -7
			if tx := k.chain(ps, false).Select("count(*)").Scan(&n1); tx.Error != nil {
				k.failf(`Select("count(*)").Scan(&int64): unexpected error %v`, tx.Error)
			} else if int(n1) != len(k.ref.matched) {
				k.failf(`Select("count(*)").Scan(&int64) via %s = %d, but Find returns %d rows`, ps, n1, len(k.ref.matched))
			}
			var n2 int64 = -7
			if row := k.chain(ps, false).Select("count(*)").Row(); row == nil {
				k.failf(`Select("count(*)").Row() returned nil`)
			} else if err := row.Scan(&n2); err != nil {
				k.failf(`Select("count(*)").Row().Scan: unexpected error %v`, err)
			} else if int(n2) != len(k.ref.matched) {
				k.failf(`Select("count(*)").Row() via %s = %d, but Find returns %d rows`, ps, n2, len(k.ref.matched))
			}
		}
		if k.fail != "" {
			return
		}
	}

	{ // nil pointer to a slice: gorm allocates it
		var prs *[]Rec
		tx := k.chain(ss, false).Find(&prs)
		var got []Row
		if prs != nil {
			got = recsToRows(*prs)
		} else if tx.Error == nil {
			k.failf("Find(&*[]Rec): the pointer is still nil")
			return
		}
		k.expect("Find(&*[]Rec)", tx, got, n, true)
		if k.fail != "" {
			return
		}
	}
	{ // a map passed by value
		m := map[string]interface{}{}
		tx := k.chain(ps, false).Find(m)
		var ms []map[string]interface{}
		if tx.RowsAffected > 0 {
			ms = append(ms, m)
		}
		one := 0
		if n > 0 {
			one = 1
		}
		if got, ok := k.mapsToRows("Find(map)", ms); ok {
			k.expect("Find(map by value) via "+ps, tx, got, one, true)
		}
		if k.fail != "" {
			return
		}
	}

	if allCols { // a destination with fewer fields: only those are read
		var small []Small
		tx := k.chain(ps, false).Find(&small)
		got := make([]Row, len(small))
		for i, x := range small {
			t, ok := k.ref.byID[int64(x.ID)]
			if !ok {
				k.failf("Find(&[]Small) via %s: element %d has id %d which is not in the table", ps, i, x.ID)
				return
			}
			t.S = x.S // everything but id and s is taken from the table: only those two were read
			got[i] = t
		}
		k.expect("Find(&[]Small) via "+ps, tx, got, n, true)
		if k.fail != "" {
			return
		}
	}

	if k.c.PresetID > 0 { // the destination's preset key is one more condition
		extra := k.c
		extra.Conds = append(append([]Cond(nil), k.c.Conds...), Cond{Kind: "pkint", Atoms: []Atom{{Col: "id", Op: "in", I: []int64{k.c.PresetID}}}})
		ref := newReference(extra)
		r := Rec{ID: uint(k.c.PresetID)}
		tx := k.chain(ss, false).Find(&r)
		var got []Row
		if tx.RowsAffected > 0 {
			got = []Row{fromRec(r)}
		}
		k.expectRef(ref, fmt.Sprintf("Find(&Rec{ID: %d})", k.c.PresetID), tx, got, 1, true)
		if k.fail == "" && keyOrdered(k.c.Order) && k.ref.offset == 0 && !k.c.hasScope("page") {
			r := Rec{ID: uint(k.c.PresetID)}
			tx := k.chain(ss, false).First(&r)
			path := fmt.Sprintf("First(&Rec{ID: %d})", k.c.PresetID)
			switch {
			case len(ref.matched) == 0:
				if !errors.Is(tx.Error, gorm.ErrRecordNotFound) {
					k.failf("%s: the row with that key does not match but the error is %v, want ErrRecordNotFound", path, tx.Error)
				}
			case tx.Error != nil:
				k.failf("%s: unexpected error %v", path, tx.Error)
			case fromRec(r).String() != ref.matched[0].String():
				k.failf("%s: returned %v, want %v", path, fromRec(r), ref.matched[0])
			}
		}
		if k.fail != "" {
			return
		}
	}

	{ // Raw SQL read through Scan, Rows and MapColumns
		min := int64(k.c.ContOffset)
		ref := newReference(Case{Rows: k.c.Rows, Order: "id", Conds: []Cond{{Kind: "raw", Atoms: []Atom{{Col: "a", Op: ">=", I: []int64{min}}}}}})
		const q = "SELECT * FROM recs WHERE a >= ? ORDER BY id"
		var rs []Rec
		tx := k.rootDB().Raw(q, min).Scan(&rs)
		k.expectRef(ref, "Raw(...).Scan(&[]Rec)", tx, recsToRows(rs), len(ref.window), true)
		var ms []map[string]interface{}
		tx = k.rootDB().Raw(q, min).Scan(&ms)
		var got []Row
		for i, m := range ms {
			r, err := fromMap(m, nil)
			if err != nil {
				k.failf("Raw(...).Scan(&[]map): row %d: %v", i, err)
				return
			}
			got = append(got, r)
		}
		k.expectRef(ref, "Raw(...).Scan(&[]map)", tx, got, len(ref.window), true)
		var mapped []Rec
		tx = k.rootDB().Raw("SELECT id, a, b, s AS label, c, d, brand, for_n FROM recs WHERE a >= ? ORDER BY id", min).
			MapColumns(map[string]string{"label": "s"}).Scan(&mapped)
		k.expectRef(ref, "Raw(... s AS label ...).MapColumns(label->s).Scan(&[]Rec)", tx, recsToRows(mapped), len(ref.window), true)
		if k.fail != "" {
			return
		}
		rows, err := k.rootDB().Raw(q, min).Rows()
		if err != nil {
			k.failf("Raw(...).Rows: unexpected error %v", err)
			return
		}
		got = nil
		for rows.Next() {
			var r Rec
			if err := k.rootDB().ScanRows(rows, &r); err != nil {
				k.failf("Raw(...).Rows+ScanRows: unexpected error %v", err)
				break
			}
			got = append(got, fromRec(r))
		}
		if err := rows.Err(); err != nil {
			k.failf("Raw(...).Rows: rows.Err %v", err)
		}
		rows.Close()
		if k.fail == "" {
			if msg := ref.checkRows(got, len(ref.window)); msg != "" {
				k.failf("Raw(...).Rows+ScanRows: %s; got %s, reference %s", msg, rowsString(got), rowsString(ref.window))
			}
		}
	}
}

// insertRows fills the table through database/sql (not through gorm).
func insertRows(d *testdb.DB, rows []Row) error {
	if _, err := d.SQL.Exec(ddl); err != nil {
		return err
	}
	if len(rows) == 0 {
		return nil
	}
	var sb strings.Builder
	sb.WriteString("INSERT INTO recs (id,a,b,s,c,d,brand,for_n) VALUES ")
	args := make([]interface{}, 0, 8*len(rows))
	for i, r := range rows {
		if i > 0 {
			sb.WriteByte(',')
		}
		sb.WriteString("(?,?,?,?,?,?,?,?)")
		var c, dd interface{}
		if r.C != nil {
			c = *r.C
		}
		if r.D != nil {
			dd = *r.D
		}
		args = append(args, r.ID, r.A, r.B, r.S, c, dd, "t:"+r.K, r.MN)
	}
	_, err := d.SQL.Exec(sb.String(), args...)
	return err
}

// checkCase evaluates one case; it returns "" or the description of the violation.
// checkCase evaluates one case. A case whose select list repeats a column name
// (Expr "dup") is judged as a differential: which occurrence of the name a
// destination reports is not stated anywhere, but every read path must report the
// same one - the case passes if all paths fit "the last occurrence" or all paths fit
// "the first occurrence".
func checkCase(c Case) (violation string, harnessErr error) {
	if c.Expr != "dup" {
		return checkOnce(c)
	}
	c.DupLast = true
	last, err := checkOnce(c)
	if err != nil || last == "" {
		return last, err
	}
	c.DupLast = false
	first, err := checkOnce(c)
	if err != nil || first == "" {
		return first, err
	}
	return "the read paths do not agree on the column name that occurs twice in the result: reading it as the last occurrence: " + last +
		" || reading it as the first occurrence: " + first, nil
}

func checkOnce(c Case) (violation string, harnessErr error) {
	defer func() {
		if p := recover(); p != nil { // no read path may panic on an in-domain chain
			violation, harnessErr = fmt.Sprintf("a read path panicked: %v", p), nil
		}
	}()
	var opts testdb.Options
	switch c.Config {
	case "queryfields":
		opts.Config.QueryFields = true
	case "prepare":
		opts.Config.PrepareStmt = true
	}
	d := testdb.Open(opts)
	defer d.Close()
	if err := insertRows(d, c.Rows); err != nil {
		return "", err
	}
	k := &runner{c: c, db: d, ref: newReference(c)}
	switch c.Handle {
	case "tx":
		tx := d.Begin()
		if tx.Error != nil {
			return "", tx.Error
		}
		defer tx.Rollback()
		k.root = tx
	case "conn":
		var msg string
		err := d.Connection(func(tx *gorm.DB) error {
			// the handle Connection passes in accumulates conditions; a new session on it is the documented way to start chains
			k.root = tx.Session(&gorm.Session{NewDB: true})
			msg = k.run()
			return nil
		})
		return msg, err
	}
	return k.run(), nil
}

func (k *runner) run() string {
	steps := []func(){k.findPaths, k.rowsPaths, k.scanPaths, k.pluckPaths, k.countPath, k.singlePaths, k.batchPaths, k.continuationPaths, k.extraPaths, k.writingBatchPath}
	switch {
	case k.c.Mode == "batch":
		steps = []func(){k.batchPaths}
	case k.c.Expr == "select" || k.c.Expr == "dup":
		// Pluck would take the six selected columns: not a Pluck; the expression is plucked instead
		steps = []func(){k.rowsPaths, k.findPaths, k.scanPaths, k.countPath, k.singlePaths, k.batchPaths}
	case k.c.Expr != "":
		steps = []func(){k.rowsPaths, k.findPaths, k.scanPaths, k.pluckPaths, k.pluckExpr, k.countPath, k.singlePaths, k.batchPaths}
	}
	for _, s := range steps {
		s()
		if k.fail != "" {
			return k.fail
		}
	}
	return ""
}

// pluckExpr: Pluck of the failing expression itself.
func (k *runner) pluckExpr() {
	ps := k.plainSrc()
	var v []int64
	tx := k.chain(ps, false).Pluck("abs(b)", &v)
	if k.tolerated(tx.Error) {
		return
	}
	if tx.Error != nil {
		k.failf("Pluck(\"abs(b)\"): unexpected error %v", tx.Error)
		return
	}
	got := make([]string, len(v))
	for i, x := range v {
		got[i] = strconv.FormatInt(x, 10)
	}
	if msg := k.ref.checkValues("b", got); msg != "" {
		k.failf("Pluck(\"abs(b)\") via %s: %s; got %v, reference window %s", ps, msg, got, rowsString(k.ref.window))
	}
}

// ---- classification -------------------------------------------------------------------------

func bucket(n int) string {
	switch {
	case n == 0:
		return "0"
	case n <= 2:
		return "1-2"
	case n <= 8:
		return "3-8"
	case n <= 16:
		return "9-16"
	}
	return "17-25"
}

// classify returns non-triviality and the class labels of a case.
func classify(c Case, r *reference) (bool, []string) {
	cl := []string{"mode:" + c.Mode, "size:" + bucket(len(c.Rows)), "matched:" + bucket(len(r.matched)),
		"order:" + c.Order, "source:" + c.Source, fmt.Sprintf("batch:%d", c.Batch)}
	if len(c.Conds) == 0 {
		cl = append(cl, "cond:none")
	}
	for _, cd := range c.Conds {
		cl = append(cl, "cond:"+cd.Kind)
	}
	if c.Inline && len(c.Conds) > 0 {
		cl = append(cl, "cond:inline", "cond:inline-"+c.Conds[len(c.Conds)-1].Kind)
	}
	for _, sc := range c.Scopes {
		cl = append(cl, "scope:"+sc.Kind)
		if sc.Derive != "" {
			cl = append(cl, "scope:derives-"+sc.Derive)
		}
	}
	if c.Or != nil {
		cl = append(cl, "cond:or-branch")
	}
	if c.Expr == "dup" {
		cl = append(cl, "columns:duplicate-name")
	}
	for _, k := range c.Calls {
		if k.Kind == "clause" {
			cl = append(cl, "calls:clause.Limit")
			break
		}
	}
	if c.ColMode != "" {
		cl = append(cl, "columns:"+c.ColMode, fmt.Sprintf("columns:%d-of-%d", len(c.Cols), len(columns)))
	}
	if c.Distinct {
		cl = append(cl, "option:distinct")
	}
	if c.Handle != "" {
		cl = append(cl, "handle:"+c.Handle)
	}
	if c.Config != "" {
		cl = append(cl, "config:"+c.Config)
	}
	if c.PresetID > 0 {
		cl = append(cl, "dest:preset-primary-key")
	}
	if c.CallbackWrites != "" && batchOrdered(c.Order) && !c.hasScope("page") && c.Handle == "" {
		cl = append(cl, "batches:callback-deletes-delivered-rows")
		if c.Order == "id" || c.Order == "pk" {
			cl = append(cl, "batches:chain-orders-by-key-itself")
		}
	}
	if c.StopAt > 0 && keyOrdered(c.Order) {
		cl = append(cl, "batches:callback-error")
	}
	switch {
	case r.limit < 0 && r.cancel:
		cl = append(cl, "limit:cancelled")
	case r.limit < 0:
		cl = append(cl, "limit:absent")
	default:
		cl = append(cl, "limit:present")
	}
	if r.offset > 0 {
		cl = append(cl, "offset:present")
		if r.offset >= len(r.matched) {
			cl = append(cl, "offset:beyond")
		}
	} else {
		cl = append(cl, "offset:absent")
	}
	if r.override {
		cl = append(cl, "calls:override")
	}
	if r.cancel {
		cl = append(cl, "calls:cancel")
	}
	neg := false
	for _, k := range c.Calls {
		if k.N < 0 {
			neg = true
		}
	}
	if neg && !r.cancel {
		cl = append(cl, "calls:negative-without-effect")
	}
	delivered := len(r.keyWin)
	boundary := false
	if delivered%c.Batch != 0 {
		boundary = true
		cl = append(cl, "boundary:batch-not-dividing-count")
	}
	if r.limit > 0 && r.limit%c.Batch != 0 {
		boundary = true
		cl = append(cl, "boundary:limit-not-multiple-of-batch")
	}
	if r.limit > 0 && r.limit < c.Batch {
		cl = append(cl, "boundary:limit-below-batch")
	}
	if r.limit > 0 && r.limit > len(r.matched)-r.offset {
		cl = append(cl, "boundary:limit-beyond-rows")
	}
	if r.limit >= math.MaxInt64/2 {
		cl = append(cl, "boundary:limit-huge")
	}
	if r.offset >= math.MaxInt64/2 {
		cl = append(cl, "boundary:offset-huge")
	}
	if r.offset >= 1 {
		boundary = true
	}
	if r.override || r.cancel {
		boundary = true
	}
	if c.Mode == "all" {
		reuse := c.Reuse
		if reuse == "" {
			reuse = "none"
		}
		cl = append(cl, "reuse:"+reuse, "path:count-then-read")
		if !r.windowed() {
			cl = append(cl, "path:find-then-count")
		}
		if keyOrdered(c.Order) {
			cl = append(cl, "path:batches+first+last")
			if c.Order != "none" {
				cl = append(cl, "path:batches+first+last-after-expression-order")
			}
		}
		if !r.windowed() {
			cl = append(cl, "path:count")
		}
		if r.offset == 0 {
			cl = append(cl, "path:take")
			if len(r.matched) == 0 {
				cl = append(cl, "path:not-found")
			}
		}
		if len(r.window) > c.ArrayLen {
			cl = append(cl, "array:overflow")
		} else {
			cl = append(cl, "array:fits")
		}
		if r.total {
			cl = append(cl, "compare:sequence")
		} else if r.windowed() {
			cl = append(cl, "compare:size+membership+order-columns")
		} else {
			cl = append(cl, "compare:multiset+order-columns")
		}
	}
	return len(r.matched) >= 3 && boundary, cl
}

// runCase reports the case to evid and evaluates it.
func runCase(t interface{ Fatalf(string, ...interface{}) }, c Case) {
	desc := c.String()
	evid.Journal(desc)
	nt, cl := classify(c, newReference(c))
	evid.Case(desc, nt, c.sample(), cl...)
	msg, herr := checkCase(c)
	if herr != nil {
		t.Fatalf("harness: cannot prepare the table: %v, case: %s", herr, desc)
	}
	if msg != "" {
		t.Fatalf("C15 violated: %s, case: %s", msg, desc)
	}
}

// ---- grid test --------------------------------------------------------------------------------

// gridRows builds the deterministic table of the grid: n rows, ids with gaps,
// inserted in an order that is not the key order.
func gridRows(n int) []Row {
	rows := make([]Row, n)
	for i := 0; i < n; i++ {
		id := int64(3*i + 1 + i%2)
		rows[i] = Row{ID: id, A: int64(i % 4), B: int64(i) - 3, S: string(rune('a' + i%5)), K: string(rune('p' + i%3)), MN: int64(i % 7)}
		if i%3 != 0 {
			v := int64(i % 3)
			rows[i].C = &v
		}
		if i%4 == 1 {
			v := "x"
			rows[i].D = &v
		}
	}
	// stride permutation: odd positions descending, then even positions ascending
	var out []Row
	for i := n - 1; i >= 0; i-- {
		if i%2 == 1 {
			out = append(out, rows[i])
		}
	}
	for i := 0; i < n; i++ {
		if i%2 == 0 {
			out = append(out, rows[i])
		}
	}
	return out
}

type failer struct{ f func(string, ...interface{}) }

func (f failer) Fatalf(s string, a ...interface{}) { f.f(s, a...) }

func replayOne(t *testing.T) {
	var c Case
	if err := harness.LoadReplay(&c); err != nil {
		t.Fatalf("harness: cannot load replay: %v", err)
	}
	msg, herr := checkCase(c)
	if herr != nil {
		t.Fatalf("harness: cannot prepare the table: %v", herr)
	}
	if msg != "" {
		t.Fatalf("C15 violated: %s, case: %s", msg, c)
	}
}

// TestC15Grid enumerates size x batch x limit x offset for FindInBatches
// against Find under key order and the reference.
func TestC15Grid(t *testing.T) {
	evid.Rule(ruleText)
	if harness.ReplayPath() != "" {
		replayOne(t)
		return
	}
	maxSize, maxBatch, maxLimit, maxOffset := 12, 6, 8, 6
	if harness.Thorough() {
		maxSize, maxBatch, maxLimit, maxOffset = 25, 8, 12, 8
	}
	maxSize = harness.EnvInt("VERIF_C15_SIZE", maxSize)
	shard, shards := harness.Shard(), harness.Shards()
	idx, count, failures := 0, 0, 0
	for size := 0; size <= maxSize; size++ {
		rows := gridRows(size)
		// limits: absent, 1..maxLimit, one value above the table size
		limits := []int{0}
		for l := 1; l <= maxLimit; l++ {
			limits = append(limits, l)
		}
		if harness.Thorough() {
			limits = append(limits, size+3)
		}
		limits = append(limits, math.MaxInt64, math.MaxInt64/2) // "no limit" sentinels
		// offsets: absent, 1..maxOffset, beyond the end
		offsets := []int{0}
		for o := 1; o <= maxOffset; o++ {
			offsets = append(offsets, o)
		}
		offsets = append(offsets, size+2)
		for batch := 1; batch <= maxBatch; batch++ {
			for _, l := range limits {
				for _, o := range offsets {
					idx++
					if idx%shards != shard {
						continue
					}
					c := Case{Rows: rows, Order: "none", Source: "dest", Batch: batch, Mode: "batch",
						PtrBatch: (size+batch+l+o)%2 == 1, CallsFirst: (l+o)%3 == 0}
					// both call orders occur: Limit before Offset and Offset before Limit
					if l > 0 && o > 0 && (l+o)%2 == 0 {
						c.Calls = []Call{{Kind: "offset", N: o}, {Kind: "limit", N: l}}
					} else {
						if l > 0 {
							c.Calls = append(c.Calls, Call{Kind: "limit", N: l})
						}
						if o > 0 {
							c.Calls = append(c.Calls, Call{Kind: "offset", N: o})
						}
					}
					count++
					runCase(failer{func(f string, a ...interface{}) {
						failures++
						if failures == 1 {
							harness.SaveCase("TestC15Grid", c)
						}
						t.Errorf(f, a...)
					}}, c)
					if failures >= 5 {
						t.Fatalf("stopping after %d failing grid points", failures)
					}
				}
			}
		}
	}
	evid.Exhaustive(true)
	evid.Extra("grid", fmt.Sprintf("size 0..%d x batch 1..%d x limit {absent,1..%d,MaxInt64,MaxInt64/2} x offset {absent,1..%d,beyond}", maxSize, maxBatch, maxLimit, maxOffset))
	evid.AddExtra("grid_points", int64(count))
	t.Logf("enumerated %d grid points", count)
}

// ---- random test ------------------------------------------------------------------------------

var strPool = []string{"", "a", "b", "ab", "B", "a b"}
var dPool = []string{"", "x", "y"}

func genRows(rt *rapid.T) []Row { return genRowsN(rt, 0, 25) }

func genRowsN(rt *rapid.T, minSize, maxSize int) []Row {
	n := rapid.IntRange(minSize, maxSize).Draw(rt, "size")
	rows := make([]Row, n)
	id := int64(0)
	for i := 0; i < n; i++ {
		id += int64(rapid.IntRange(1, 3).Draw(rt, "gap"))
		r := Row{ID: id,
			A:  int64(rapid.IntRange(0, 4).Draw(rt, "a")),
			B:  int64(rapid.IntRange(-2, 6).Draw(rt, "b")),
			S:  rapid.SampledFrom(strPool).Draw(rt, "s"),
			K:  rapid.SampledFrom(dPool).Draw(rt, "k"),
			MN: int64(rapid.IntRange(0, 5).Draw(rt, "for_n"))}
		if rapid.IntRange(0, 3).Draw(rt, "c-null") != 0 {
			v := int64(rapid.IntRange(0, 3).Draw(rt, "c"))
			r.C = &v
		}
		if rapid.IntRange(0, 2).Draw(rt, "d-null") != 0 {
			v := rapid.SampledFrom(dPool).Draw(rt, "d")
			r.D = &v
		}
		rows[i] = r
	}
	if n > 1 {
		rows = rapid.Permutation(rows).Draw(rt, "insertion-order")
	}
	return rows
}

func intRange(col string, maxID int64) (int, int) {
	switch col {
	case "id":
		return 0, int(maxID) + 1
	case "a":
		return 0, 4
	case "b":
		return -2, 6
	case "for_n":
		return 0, 5
	}
	return 0, 3 // c
}

func genAtom(rt *rapid.T, maxID int64, ops []string, cols []string) Atom {
	col := rapid.SampledFrom(cols).Draw(rt, "col")
	op := rapid.SampledFrom(ops).Draw(rt, "op")
	a := Atom{Col: col, Op: op}
	n := 1
	switch op {
	case "isnull", "notnull":
		return a
	case "in":
		n = rapid.IntRange(1, 3).Draw(rt, "in-len")
	case "between":
		n = 2
	}
	for i := 0; i < n; i++ {
		if isStrCol(col) {
			pool := strPool
			if col == "d" || col == "brand" {
				pool = dPool
			}
			a.S = append(a.S, rapid.SampledFrom(pool).Draw(rt, "sv"))
		} else {
			lo, hi := intRange(col, maxID)
			a.I = append(a.I, int64(rapid.IntRange(lo, hi).Draw(rt, "iv")))
		}
	}
	if op == "between" {
		if isStrCol(col) && a.S[0] > a.S[1] {
			a.S[0], a.S[1] = a.S[1], a.S[0]
		}
		if !isStrCol(col) && a.I[0] > a.I[1] {
			a.I[0], a.I[1] = a.I[1], a.I[0]
		}
	}
	return a
}

// raw conditions also name for_n and brand: identifiers that contain the letters OR / AND
// (the AND/OR detection of raw SQL must not be fooled by them)
var allCols = []string{"id", "a", "a", "b", "s", "c", "d", "for_n", "for_n", "brand"}
var rawOps = []string{"=", "<>", "<", "<=", ">", ">=", ">=", "in", "between", "isnull", "notnull"}

func distinctCols(rt *rapid.T, n int) []string {
	p := rapid.Permutation([]string{"id", "a", "b", "s", "c", "d"}).Draw(rt, "cols")
	return p[:n]
}

func genCond(rt *rapid.T, maxID int64) Cond {
	kind := rapid.SampledFrom([]string{"raw", "raw", "rawor", "map", "map", "struct", "structptr", "pkint", "pkstring", "pksigned", "pkslice", "pkslice", "pkvariadic"}).Draw(rt, "cond-kind")
	c := Cond{Kind: kind}
	switch kind {
	case "pksigned":
		v := int64(rapid.IntRange(-3, int(maxID)+1).Draw(rt, "signed-pk"))
		if v == 0 {
			v = -1
		}
		c.Atoms = []Atom{{Col: "id", Op: "in", I: []int64{v}}}
		return c
	case "pkint", "pkstring", "pkslice", "pkvariadic":
		n := 1
		if kind == "pkslice" {
			n = rapid.IntRange(1, 4).Draw(rt, "pk-values")
		} else if kind == "pkvariadic" {
			n = rapid.IntRange(2, 4).Draw(rt, "pk-values")
		}
		a := Atom{Col: "id", Op: "in"}
		for i := 0; i < n; i++ {
			a.I = append(a.I, int64(rapid.IntRange(1, int(maxID)+1).Draw(rt, "pk")))
		}
		c.Atoms = []Atom{a}
	case "raw":
		c.Atoms = []Atom{genAtom(rt, maxID, rawOps, allCols)}
	case "rawor":
		c.Atoms = []Atom{genAtom(rt, maxID, rawOps[:7], allCols), genAtom(rt, maxID, rawOps[:7], allCols)}
	case "map":
		for _, col := range distinctCols(rt, rapid.IntRange(1, 2).Draw(rt, "map-keys")) {
			ops := []string{"=", "=", "in"}
			if col == "c" || col == "d" {
				ops = append(ops, "isnull")
			}
			c.Atoms = append(c.Atoms, genAtom(rt, maxID, ops, []string{col}))
		}
	default:
		for _, col := range distinctCols(rt, rapid.IntRange(1, 3).Draw(rt, "struct-fields")) {
			c.Atoms = append(c.Atoms, genAtom(rt, maxID, []string{"="}, []string{col}))
		}
	}
	return c
}

// hugeValues: positive values far beyond any table (math.MaxInt64 is a common "no limit" sentinel).
var hugeValues = []int{math.MaxInt64, math.MaxInt64 / 2, math.MaxInt64 - 7}

func genCalls(rt *rapid.T, size int) []Call {
	n := rapid.SampledFrom([]int{0, 1, 1, 2, 2, 3, 4}).Draw(rt, "calls")
	out := make([]Call, n)
	for i := range out {
		kind := rapid.SampledFrom([]string{"limit", "offset", "limit", "offset", "clause"}).Draw(rt, "call")
		if kind == "clause" {
			out[i] = Call{Kind: kind, N: rapid.IntRange(1, 10).Draw(rt, "clause-limit"), O: rapid.IntRange(0, 4).Draw(rt, "clause-offset")}
			if rapid.IntRange(0, 5).Draw(rt, "clause-huge") == 0 {
				out[i].N = rapid.SampledFrom(hugeValues).Draw(rt, "huge-value")
			}
			continue
		}
		var v int
		switch rapid.IntRange(0, 5).Draw(rt, "call-shape") {
		case 0: // cancel
			v = -rapid.SampledFrom([]int{1, 1, 2, 7}).Draw(rt, "neg")
		case 1: // large: beyond the table, now and then the largest values an int holds ("no limit" sentinels)
			v = size + rapid.IntRange(0, 3).Draw(rt, "beyond")
			if v == 0 {
				v = 1
			}
			if rapid.IntRange(0, 2).Draw(rt, "huge") == 0 {
				v = rapid.SampledFrom(hugeValues).Draw(rt, "huge-value")
			}
		default:
			v = rapid.IntRange(1, 10).Draw(rt, "pos")
		}
		out[i] = Call{Kind: kind, N: v}
	}
	return out
}

func genCase(rt *rapid.T) Case {
	rows := genRows(rt)
	var maxID int64
	for _, r := range rows {
		if r.ID > maxID {
			maxID = r.ID
		}
	}
	c := Case{Rows: rows, Mode: "all"}
	nc := rapid.SampledFrom([]int{0, 0, 1, 1, 1, 2}).Draw(rt, "conds")
	for i := 0; i < nc; i++ {
		c.Conds = append(c.Conds, genCond(rt, maxID))
	}
	c.Inline = nc > 0 && rapid.IntRange(0, 2).Draw(rt, "inline") == 0
	c.Order = rapid.SampledFrom(orderNames).Draw(rt, "order")
	c.Calls = genCalls(rt, len(rows))
	c.CallsFirst = rapid.Bool().Draw(rt, "calls-first")
	c.Source = rapid.SampledFrom([]string{"dest", "model", "table"}).Draw(rt, "source")
	c.Batch = rapid.IntRange(1, 8).Draw(rt, "batch")
	c.ArrayLen = rapid.SampledFrom([]int{0, 1, 2, 3, 5, 8, 13, 26}).Draw(rt, "array-len")
	c.PtrBatch = rapid.Bool().Draw(rt, "ptr-batch")
	c.Prefill = rapid.SampledFrom([]int{0, 0, 1, 3}).Draw(rt, "prefill")
	c.Reuse = rapid.SampledFrom([]string{"", "", "session", "session", "context", "queryfields", "prepare"}).Draw(rt, "reuse")
	for i, n := 0, rapid.SampledFrom([]int{0, 0, 0, 1, 1, 2}).Draw(rt, "scopes"); i < n; i++ {
		sc := Scope{Kind: rapid.SampledFrom([]string{"cond", "inspect", "inspect", "order", "order", "page"}).Draw(rt, "scope")}
		switch sc.Kind {
		case "cond":
			sc.K = rapid.IntRange(-1, 4).Draw(rt, "scope-b")
		case "inspect":
			sc.K = rapid.IntRange(0, 3).Draw(rt, "scope-a")
		case "page":
			sc.K = rapid.IntRange(1, 8).Draw(rt, "scope-limit")
			sc.O = rapid.IntRange(0, 4).Draw(rt, "scope-offset")
		}
		sc.Derive = rapid.SampledFrom([]string{"", "", "context", "session", "debug"}).Draw(rt, "scope-derive")
		if sc.Kind == "order" && strings.Contains(c.Order, "(expr") {
			continue // an ordering added to an OrderBy that carries an Expression: which one wins is not stated
		}
		if !c.hasScope(sc.Kind) {
			c.Scopes = append(c.Scopes, sc)
		}
	}
	if rapid.IntRange(0, 4).Draw(rt, "restrict-columns") == 0 {
		c.ColMode = rapid.SampledFrom([]string{"args", "slice", "string", "omit"}).Draw(rt, "col-mode")
		c.Cols = []string{"id"}
		for _, col := range columns[1:] {
			if rapid.Bool().Draw(rt, "col-"+col) {
				c.Cols = append(c.Cols, col)
			}
		}
		if c.ColMode == "omit" && len(c.Cols) == len(columns) {
			c.Cols = c.Cols[:len(c.Cols)-1] // Omit() of nothing is no Omit
		}
	}
	c.Distinct = rapid.IntRange(0, 7).Draw(rt, "distinct") == 0
	c.Handle = rapid.SampledFrom([]string{"", "", "", "tx", "conn"}).Draw(rt, "handle")
	c.Config = rapid.SampledFrom([]string{"", "", "", "", "queryfields", "prepare"}).Draw(rt, "config")
	if rapid.IntRange(0, 3).Draw(rt, "preset") == 0 {
		c.PresetID = maxID + 1
		if len(rows) > 0 && rapid.IntRange(0, 4).Draw(rt, "preset-hit") != 0 {
			c.PresetID = rows[rapid.IntRange(0, len(rows)-1).Draw(rt, "preset-row")].ID
		}
	}
	c.StopAt = rapid.SampledFrom([]int{0, 0, 0, 1, 2, 3}).Draw(rt, "stop-at")
	c.CallbackWrites = rapid.SampledFrom([]string{"", "delete", "delete"}).Draw(rt, "callback-writes")
	if rapid.IntRange(0, 7).Draw(rt, "duplicate-column") == 0 {
		c.Expr, c.ColMode, c.Cols = "dup", "", nil
	}
	if len(c.Conds) == 1 && rapid.IntRange(0, 2).Draw(rt, "or-branch") == 0 {
		or := genCond(rt, maxID)
		c.Or = &or
		c.Inline, c.PresetID = false, 0
		var keep []Scope
		for _, sc := range c.Scopes {
			if sc.Kind != "cond" && sc.Kind != "inspect" {
				keep = append(keep, sc)
			}
		}
		c.Scopes = keep
	}
	c.ContLimit = rapid.IntRange(1, 6).Draw(rt, "cont-limit")
	c.ContOffset = rapid.IntRange(0, 4).Draw(rt, "cont-offset")
	return c
}

// TestC15Random draws whole cases and evaluates every read path.
func TestC15Random(t *testing.T) {
	evid.Rule(ruleText)
	rapid.Check(t, func(rt *rapid.T) {
		runCase(rt, genCase(rt))
	})
}

// TestC15Model pins the reference's reading of the Limit/Offset call rule on a
// few hand-written sequences (a guard for the harness itself).
func TestC15Model(t *testing.T) {
	type tc struct {
		calls         []Call
		limit, offset int
	}
	for _, x := range []tc{
		{nil, -1, 0},
		{[]Call{{Kind: "limit", N: 3}}, 3, 0},
		{[]Call{{Kind: "limit", N: 3}, {Kind: "limit", N: 5}}, 5, 0},
		{[]Call{{Kind: "limit", N: 3}, {Kind: "limit", N: -1}}, -1, 0},
		{[]Call{{Kind: "limit", N: 3}, {Kind: "limit", N: -1}, {Kind: "limit", N: 2}}, 2, 0},
		{[]Call{{Kind: "offset", N: 3}, {Kind: "offset", N: -1}}, -1, 0},
		{[]Call{{Kind: "offset", N: 3}, {Kind: "limit", N: 2}, {Kind: "offset", N: 1}}, 2, 1},
		{[]Call{{Kind: "offset", N: -1}, {Kind: "limit", N: 2}}, 2, 0},
	} {
		r := newReference(Case{Calls: x.calls, Order: "none"})
		if r.limit != x.limit || r.offset != x.offset {
			t.Errorf("calls %v: model says limit=%d offset=%d, want %d/%d", x.calls, r.limit, r.offset, x.limit, x.offset)
		}
	}
}

// ---- witnesses of listed findings (plain tests, no generator) ---------------------------------

// Pluck of a nullable column into a slice of pointers: a NULL must arrive as a
// nil element (as it does for a *int field of a struct destination). gorm
// scans into the pointed-to element instead and fails with "converting NULL to
// int64 is unsupported", handing back a pointer to 0.
func TestC15WitnessPluckPointerNull(t *testing.T) {
	one, x := int64(1), "x"
	c := Case{Rows: []Row{{ID: 1, A: 1, S: "a"}, {ID: 2, A: 2, S: "b", C: &one, D: &x}}, Order: "id", Source: "model", Batch: 1, Mode: "all"}
	d := testdb.Open(testdb.Options{})
	defer d.Close()
	if err := insertRows(d, c.Rows); err != nil {
		t.Fatalf("harness: %v", err)
	}
	var viaStruct []Rec
	if err := d.Order("id").Find(&viaStruct).Error; err != nil || len(viaStruct) != 2 || viaStruct[0].C != nil || viaStruct[1].C == nil {
		t.Fatalf("harness: Find into structs does not show NULL,1 for column c: %v %v", viaStruct, err)
	}
	var cs []*int64
	tx := d.Model(&Rec{}).Order("id").Pluck("c", &cs)
	if tx.Error != nil {
		t.Errorf("C15 violated: Pluck(\"c\", &[]*int64) over values NULL,1: unexpected error %v", tx.Error)
	}
	if len(cs) != 2 || cs[0] != nil || cs[1] == nil || *cs[1] != 1 {
		got := make([]string, len(cs))
		for i, p := range cs {
			got[i] = "nil"
			if p != nil {
				got[i] = strconv.FormatInt(*p, 10)
			}
		}
		t.Errorf("C15 violated: Pluck(\"c\", &[]*int64) over values NULL,1 returned %v, want [nil 1]", got)
	}
	var ds []*string
	tx = d.Model(&Rec{}).Order("id").Pluck("d", &ds)
	if tx.Error != nil {
		t.Errorf("C15 violated: Pluck(\"d\", &[]*string) over values NULL,\"x\": unexpected error %v", tx.Error)
	}
	if len(ds) != 2 || ds[0] != nil || ds[1] == nil || *ds[1] != "x" {
		t.Errorf("C15 violated: Pluck(\"d\", &[]*string) over values NULL,\"x\" did not return [nil \"x\"]")
	}
}

// Where(a).Or(b).FindInBatches: the `key > last` cursor of the second and later
// batches is appended behind the OR branch (a OR b AND key > last), so the rows
// of the first branch are fetched again in every batch: with a full first batch
// the call never ends. The callback stops it after more rows than the table holds.
func TestC15WitnessBatchesAfterOr(t *testing.T) {
	rows := gridRows(6) // a = 0,1,2,3,0,1 in key order
	d := testdb.Open(testdb.Options{})
	defer d.Close()
	if err := insertRows(d, rows); err != nil {
		t.Fatalf("harness: %v", err)
	}
	var viaFind []Rec
	if err := d.Where("a = ?", 0).Or("a = ?", 1).Order("id").Find(&viaFind).Error; err != nil || len(viaFind) != 4 {
		t.Fatalf("harness: Find returns %d rows (%v), want 4", len(viaFind), err)
	}
	var (
		dest []Rec
		got  []Row
	)
	res := d.Where("a = ?", 0).Or("a = ?", 1).FindInBatches(&dest, 1, func(tx *gorm.DB, batch int) error {
		if len(got)+len(dest) > len(rows) {
			return errRunaway
		}
		got = append(got, recsToRows(dest)...)
		return nil
	})
	if res.Error != nil || rowsString(got) != rowsString(recsToRows(viaFind)) {
		t.Errorf("C15 violated: Where(a = 0).Or(a = 1).FindInBatches(batch=1) delivered %s (error %v), Find under key order returns %s",
			rowsString(got), res.Error, rowsString(recsToRows(viaFind)))
	}
}

// q.Count(&n).Find(&rows) - the pagination idiom - on a chain whose scope derives a new
// session (db.WithContext(ctx).Where(...)): Find must return the matching rows. Count's
// clean-up of its SELECT count(*) is bound to the statement Count started with
// (`defer delete(tx.Statement.Clauses, "SELECT")` evaluates its argument at once), the
// statement Count returns is the one the scope derived and keeps the count(*) select list.
func TestC15WitnessCountContinueDerivedScope(t *testing.T) {
	rows := gridRows(4)
	d := testdb.Open(testdb.Options{})
	defer d.Close()
	if err := insertRows(d, rows); err != nil {
		t.Fatalf("harness: %v", err)
	}
	scope := func(db *gorm.DB) *gorm.DB { return db.WithContext(context.Background()).Where("b >= ?", -10) }
	var want []Rec
	if err := d.Model(&Rec{}).Scopes(scope).Order("id").Find(&want).Error; err != nil || len(want) != 4 {
		t.Fatalf("harness: Find returns %d rows (%v), want 4", len(want), err)
	}
	var (
		n   int64
		got []Rec
	)
	tx := d.Model(&Rec{}).Scopes(scope).Order("id").Count(&n).Find(&got)
	if tx.Error != nil || n != 4 || rowsString(recsToRows(got)) != rowsString(recsToRows(want)) {
		t.Errorf("C15 violated: Model(&Rec{}).Scopes(derive-context + Where(b >= -10)).Order(id).Count(&n).Find(&rows): n=%d, error %v, rows %s; Find on the same chain returns %s",
			n, tx.Error, rowsString(recsToRows(got)), rowsString(recsToRows(want)))
	}
}
