// C17 — callback registration honours Before/After and never disturbs the
// built-in order. See DESIGN.md §3 C17.
package c17

import (
	"encoding/json"
	"errors"
	"fmt"
	"os"
	"reflect"
	"sort"
	"strings"
	"testing"

	"gorm.io/gorm"
	"gorm.io/gorm/callbacks"
	"gorm.io/gorm/clause"
	"gorm.io/gorm/logger"
	"gorm.io/gorm/schema"
	"pgregory.net/rapid"

	"verif/internal/evid"
	"verif/internal/harness"
)

func TestMain(m *testing.M) { harness.Main(m) }

// ---- a dialector that registers nothing -------------------------------------------------

type nopDialector struct{ defaults bool }

func (nopDialector) Name() string { return "nop" }
func (d nopDialector) Initialize(db *gorm.DB) error {
	if d.defaults {
		callbacks.RegisterDefaultCallbacks(db, &callbacks.Config{})
	}
	return nil
}
func (nopDialector) Migrator(*gorm.DB) gorm.Migrator { return nil }
func (nopDialector) DataTypeOf(*schema.Field) string { return "" }
func (nopDialector) DefaultValueOf(*schema.Field) clause.Expression {
	return clause.Expr{SQL: "DEFAULT"}
}
func (nopDialector) BindVarTo(w clause.Writer, _ *gorm.Statement, _ interface{}) { w.WriteByte('?') }
func (nopDialector) QuoteTo(w clause.Writer, s string)                           { w.WriteString(s) }
func (nopDialector) Explain(sql string, _ ...interface{}) string                 { return sql }

// ---- pipelines and their built-in callbacks -------------------------------------------------

var pipelines = []string{"create", "query", "update", "delete", "row", "raw"}

// builtins lists, per pipeline, the names RegisterDefaultCallbacks registers, in
// its order (TestC17Guard compares this table with the real registration).
var builtins = map[string][]string{
	"create": {"gorm:begin_transaction", "gorm:before_create", "gorm:save_before_associations", "gorm:create",
		"gorm:save_after_associations", "gorm:after_create", "gorm:commit_or_rollback_transaction"},
	"query": {"gorm:query", "gorm:preload", "gorm:after_query"},
	"update": {"gorm:begin_transaction", "gorm:setup_reflect_value", "gorm:before_update", "gorm:save_before_associations",
		"gorm:update", "gorm:save_after_associations", "gorm:after_update", "gorm:commit_or_rollback_transaction"},
	"delete": {"gorm:begin_transaction", "gorm:before_delete", "gorm:delete_before_associations", "gorm:delete",
		"gorm:after_delete", "gorm:commit_or_rollback_transaction"},
	"row": {"gorm:row"},
	"raw": {"gorm:raw"},
}

var customs = []string{"c1", "c2", "c3"}

// caseTwin differs from c1 only in letter case: another name (random histories only, nCustom > len(customs))
const caseTwin = "C1"

const unknown = "nope"

// processor is the part of gorm's (unexported) *processor the check uses.
type processor interface {
	Register(name string, fn func(*gorm.DB)) error
	Remove(name string) error
	Replace(name string, fn func(*gorm.DB)) error
	Execute(db *gorm.DB) *gorm.DB
}

// the callback builder returned by Before/After is an unexported type too;
// reach it through small adapters.
func pipeline(db *gorm.DB, name string) interface{} {
	switch name {
	case "create":
		return db.Callback().Create()
	case "query":
		return db.Callback().Query()
	case "update":
		return db.Callback().Update()
	case "delete":
		return db.Callback().Delete()
	case "row":
		return db.Callback().Row()
	}
	return db.Callback().Raw()
}

// ---- operations --------------------------------------------------------------------------

type Op struct {
	Kind   string `json:"kind"` // register | replace | remove
	Name   string `json:"name"`
	Before string `json:"before,omitempty"`
	After  string `json:"after,omitempty"`
	// Match: "" = plain, "t" / "f" = the registration goes through Match(pred) with a predicate
	// that is true / false for this database (how gorm registers its own transaction callbacks)
	Match string `json:"match,omitempty"`
	// Inside: the call is made from inside the running pipeline, by the callback of this (live)
	// name when it fires - a callback that registers, replaces or unregisters (itself or another)
	Inside string `json:"inside,omitempty"`
}

func (o Op) constraintString() string {
	s := ""
	if o.Before != "" {
		s += "Before(" + o.Before + ")."
	}
	if o.After != "" {
		s += "After(" + o.After + ")."
	}
	return s
}

func (o Op) String() string {
	if o.Inside != "" {
		in := o.Inside
		o.Inside = ""
		return "[while " + in + " runs: " + o.String() + "]"
	}
	switch o.Kind {
	case "reopen":
		return "gorm.Open(dialector, db.Config)"
	case "register":
		s := o.matchString()
		if o.Before != "" {
			s += "Before(" + o.Before + ")."
		}
		if o.After != "" {
			s += "After(" + o.After + ")."
		}
		return s + "Register(" + o.Name + ")"
	case "replace":
		return o.matchString() + o.constraintString() + "Replace(" + o.Name + ")"
	}
	return "Remove(" + o.Name + ")"
}

func (o Op) matchString() string {
	switch o.Match {
	case "t":
		return "Match(true)."
	case "f":
		return "Match(false)."
	}
	return ""
}

type Case struct {
	Pipeline string `json:"pipeline"`
	Ops      []Op   `json:"ops"`
	// Via: the handle whose Callback() the registrations go through: "" = the opened handle,
	// "session" = db.Session(&Session{}), "newdb" = db.Session(&Session{NewDB: true}), "tx" = a chain
	// handle (db.Where(..)). All of them share the one set of pipelines of the opened handle.
	Via string `json:"via,omitempty"`
}

func (c Case) String() string {
	parts := make([]string, len(c.Ops))
	for i, o := range c.Ops {
		parts[i] = o.String()
	}
	via := ""
	if c.Via != "" {
		via = " (registered through a " + c.Via + " handle)"
	}
	return c.Pipeline + via + ": " + strings.Join(parts, "; ")
}

// fired is one stub invocation: which name, which handler version (0 = the
// original registration, k = the k-th Replace of that name).
type fired struct {
	name    string
	version int
}

// run applies the history to a fresh pipeline holding stub built-ins and
// executes the pipeline after every successful step. It returns, per step,
// either the error of the call or the fired list.
type stepResult struct {
	err      error
	fired    []fired
	firedErr []fired // fired list of the run whose statement carried an error from the start
	// fired lists of further runs: dry-run statement, statement with a model, SkipHooks session
	firedOther [][]fired
	// during: fired list of the run in which the step's call was made (Op.Inside), nil otherwise
	during []fired
}

type execModel struct {
	ID   uint
	Name string
}

var errPre = errors.New("error set before the pipeline ran")

func apply(c Case) []stepResult {
	db, err := gorm.Open(nopDialector{}, &gorm.Config{Logger: logger.Discard, DisableAutomaticPing: true})
	if err != nil {
		panic(err)
	}
	var log []fired
	var pendingAt string
	var pending func()
	stub := func(name string, version int) func(*gorm.DB) {
		return func(*gorm.DB) {
			log = append(log, fired{name, version})
			if pending != nil && pendingAt == name {
				f := pending
				pending = nil
				f()
			}
		}
	}
	rdb := db
	switch c.Via {
	case "session":
		rdb = db.Session(&gorm.Session{})
	case "newdb":
		rdb = db.Session(&gorm.Session{NewDB: true})
	case "tx":
		rdb = db.Where("1 = 1")
	case "skiptx":
		// a handle on which the predicate of the transaction built-ins is false: the pipelines belong to the
		// connection, whose own setting decides
		rdb = db.Session(&gorm.Session{SkipDefaultTransaction: true})
	}
	exec := pipeline(db, c.Pipeline).(processor) // statements always run through the opened handle
	p := pipeline(rdb, c.Pipeline)               // the registering handle's Callback() is the last one called
	pv := reflect.ValueOf(p)
	proc := p.(processor)
	for _, b := range builtins[c.Pipeline] {
		var e error
		if b == "gorm:begin_transaction" || b == "gorm:commit_or_rollback_transaction" {
			// registered through Match(...) like the real defaults
			cb := pv.MethodByName("Match").Call([]reflect.Value{reflect.ValueOf(func(d *gorm.DB) bool { return !d.SkipDefaultTransaction })})[0]
			e = callRegister(cb, b, stub(b, 0))
		} else {
			e = proc.Register(b, stub(b, 0))
		}
		if e != nil {
			panic(fmt.Sprintf("registering stub built-in %s: %v", b, e))
		}
	}
	versions := map[string]int{}
	broken := false // an earlier call of the history returned an error
	out := make([]stepResult, 0, len(c.Ops))
	for _, o := range c.Ops {
		var e error
		var during []fired
		doOp := func() {
			switch o.Kind {
			case "reopen":
				// a second handle opened with the first one's Config: it gets pipelines of its own, the
				// callbacks its dialector registers (here: stub built-ins, handler generation 1000) must not
				// show up in the first handle's pipelines
				db2, err := gorm.Open(nopDialector{}, db.Config)
				if err != nil {
					e = err
					return
				}
				p2 := pipeline(db2, c.Pipeline).(processor)
				for _, b := range builtins[c.Pipeline] {
					if err := p2.Register(b, stub(b, 1000)); err != nil {
						e = err
						return
					}
				}
			case "register":
				versions[o.Name]++
				h := stub(o.Name, versions[o.Name])
				switch {
				case o.Before == "" && o.After == "" && o.Match == "":
					e = proc.Register(o.Name, h)
				default:
					cb := pv // the builder: Match(..) first, like gorm's own registrations, then Before/After
					if o.Match != "" {
						want := o.Match == "t"
						cb = cb.MethodByName("Match").Call([]reflect.Value{reflect.ValueOf(func(*gorm.DB) bool { return want })})[0]
					}
					if o.Before != "" {
						cb = cb.MethodByName("Before").Call([]reflect.Value{reflect.ValueOf(o.Before)})[0]
					}
					if o.After != "" {
						cb = cb.MethodByName("After").Call([]reflect.Value{reflect.ValueOf(o.After)})[0]
					}
					e = callRegister(cb, o.Name, h)
				}
			case "replace":
				versions[o.Name]++
				if o.Match == "" && o.Before == "" && o.After == "" {
					e = proc.Replace(o.Name, stub(o.Name, versions[o.Name]))
				} else {
					cb := pv
					if o.Match != "" {
						want := o.Match == "t"
						cb = cb.MethodByName("Match").Call([]reflect.Value{reflect.ValueOf(func(*gorm.DB) bool { return want })})[0]
					}
					if o.Before != "" {
						cb = cb.MethodByName("Before").Call([]reflect.Value{reflect.ValueOf(o.Before)})[0]
					}
					if o.After != "" {
						cb = cb.MethodByName("After").Call([]reflect.Value{reflect.ValueOf(o.After)})[0]
					}
					r := cb.MethodByName("Replace").Call([]reflect.Value{reflect.ValueOf(o.Name), reflect.ValueOf(stub(o.Name, versions[o.Name]))})[0]
					if !r.IsNil() {
						e = r.Interface().(error)
					}
				}
			case "remove":
				e = proc.Remove(o.Name)
			}
		}
		if o.Inside != "" {
			pendingAt, pending = o.Inside, doOp
			log = nil
			exec.Execute(db.Session(&gorm.Session{NewDB: true}).Table("t"))
			during = append([]fired{}, log...)
			if pending != nil {
				pending = nil
				if !broken { // the callback did not fire: the harness chose a name that is not live
					panic("harness: Inside names a callback that did not fire: " + o.Inside)
				}
				doOp() // after a rejected call nothing may run at all: make the call directly
				during = nil
			}
		} else {
			doOp()
		}
		if e != nil {
			// the history goes on: what later calls do after a rejected one is judged too
			broken = true
			out = append(out, stepResult{err: e})
			continue
		}
		log = nil
		exec.Execute(db.Session(&gorm.Session{NewDB: true}).Table("t"))
		sr := stepResult{fired: append([]fired(nil), log...), during: during}
		// the same pipeline run for a statement that already carries an error when it starts (a
		// Scopes function or the caller called AddError): gorm's built-ins look at db.Error one by
		// one, the processor itself runs every callback (error handlers and tracers rely on it)
		log = nil
		pre := db.Session(&gorm.Session{NewDB: true}).Table("t")
		_ = pre.AddError(errPre)
		exec.Execute(pre)
		sr.firedErr = append([]fired(nil), log...)
		// ... for a dry-run statement, and for one that names a model (Execute parses it first)
		for _, st := range []*gorm.DB{
			db.Session(&gorm.Session{NewDB: true, DryRun: true}).Table("t"),
			db.Session(&gorm.Session{NewDB: true}).Model(&execModel{}),
			db.Session(&gorm.Session{NewDB: true, SkipHooks: true}).Table("t"),
		} {
			log = nil
			exec.Execute(st)
			sr.firedOther = append(sr.firedOther, append([]fired(nil), log...))
		}
		out = append(out, sr)
	}
	return out
}

func callRegister(cb reflect.Value, name string, h func(*gorm.DB)) error {
	r := cb.MethodByName("Register").Call([]reflect.Value{reflect.ValueOf(name), reflect.ValueOf(h)})[0]
	if r.IsNil() {
		return nil
	}
	return r.Interface().(error)
}

// ---- reference model / validity predicate -------------------------------------------------

type reg struct {
	before, after string
	builtin       bool // still the original built-in registration
	version       int  // handler generation: every Register / Replace of the name makes a new one
	// dup: the name was registered again while it was live (gorm only warns). The statement's
	// "every registered callback exactly once" is read per name with the latest handler (what
	// Get(name) returns); WHERE such a name runs is not defined, so no position is asserted for it.
	dup bool
	// constraints given with a later Replace of the name: it keeps its position, so the call either
	// fails or the constraint already holds
	extra [][2]string // {before, after}
}

type model struct {
	pipeline string
	live     map[string]*reg
	gen      map[string]int // handler generations handed out per name, live or not
	// names whose Before("*")/After("*") placement is not asserted: the listed class `star-as-anchor`
	// (a '*' callback that another registration names as anchor is sorted early). Everything else about
	// such a history - membership, handlers, every named constraint, the other '*' callbacks - is judged.
	waive map[string]bool
	// loose: a history of the listed class `forward-reference` - the order is not judged at all (the sorter
	// rewrites the constraints of such histories), but membership, handlers and the built-in order are
	loose bool
}

func newModel(pipeline string) *model {
	m := &model{pipeline: pipeline, live: map[string]*reg{}, gen: map[string]int{}}
	for _, b := range builtins[pipeline] {
		m.live[b] = &reg{builtin: true}
	}
	return m
}

// signature identifies a model state (live names with their constraints and handler generations).
func (m *model) signature() string {
	var parts []string
	for n, r := range m.live {
		parts = append(parts, fmt.Sprintf("%s|%s|%s|%v|%d|%v|%v", n, r.before, r.after, r.builtin, r.version, r.dup, r.extra))
	}
	sort.Strings(parts)
	return strings.Join(parts, ";")
}

func (m *model) clone() *model {
	c := &model{pipeline: m.pipeline, live: map[string]*reg{}, gen: map[string]int{}, waive: m.waive, loose: m.loose}
	for n, r := range m.live {
		x := *r
		x.extra = append([][2]string(nil), r.extra...)
		c.live[n] = &x
	}
	for n, g := range m.gen {
		c.gen[n] = g
	}
	return c
}

func (m *model) step(o Op) {
	if o.Match == "f" && o.Kind != "remove" {
		// a registration whose Match predicate is false for this database is not in effect: the
		// pipeline stays what it was (only the handler numbering of the harness moves on)
		m.gen[o.Name]++
		return
	}
	switch o.Kind {
	case "reopen":
		return
	case "register":
		m.gen[o.Name]++
		if r, live := m.live[o.Name]; live {
			r.dup, r.builtin, r.version = true, false, m.gen[o.Name]
		} else {
			m.live[o.Name] = &reg{before: o.Before, after: o.After, version: m.gen[o.Name]}
		}
	case "replace":
		m.gen[o.Name]++
		if r, live := m.live[o.Name]; live {
			r.version = m.gen[o.Name]
			if o.Before != "" || o.After != "" {
				r.extra = append(r.extra, [2]string{o.Before, o.After})
			}
		} else if o.Before != "" || o.After != "" {
			m.live[o.Name] = &reg{before: o.Before, after: o.After, version: m.gen[o.Name]}
		} else {
			// nothing to replace: the call registers the name (gorm appends it like Register would);
			// it is then a registered, non-removed callback without a Before/After of its own
			m.live[o.Name] = &reg{version: m.gen[o.Name]}
		}
	case "remove":
		delete(m.live, o.Name)
	}
}

// check is the validity predicate over the fired order.
func (m *model) check(f []fired) error { return m.checkWith(f, true) }

// checkWith: with sides == false only "every registered callback exactly once, latest handler, built-ins in
// their order" is judged - used after a rejected call, whose constraints the sorter may have rewritten
// (the territory of the listed sorter findings).
func (m *model) checkWith(f []fired, sides bool) error {
	pos := map[string]int{}
	for i, x := range f {
		r, ok := m.live[x.name]
		if !ok {
			return fmt.Errorf("callback %q fired but is not registered (removed or never registered)", x.name)
		}
		if _, dup := pos[x.name]; dup {
			return fmt.Errorf("callback %q fired more than once", x.name)
		}
		if x.version != r.version {
			return fmt.Errorf("callback %q fired handler version %d, want %d (latest Replace)", x.name, x.version, r.version)
		}
		pos[x.name] = i
	}
	for name := range m.live {
		if _, ok := pos[name]; !ok {
			return fmt.Errorf("registered callback %q did not fire", name)
		}
	}
	// built-ins keep their original relative order
	last := -1
	lastName := ""
	for _, b := range builtins[m.pipeline] {
		if r, ok := m.live[b]; ok && r.builtin {
			if pos[b] < last {
				return fmt.Errorf("built-in %q fired before built-in %q: original relative order disturbed", b, lastName)
			}
			last, lastName = pos[b], b
		}
	}
	if !sides {
		return nil
	}
	unconstrained := func(r *reg) bool { return !r.dup && (r.builtin || (r.before == "" && r.after == "")) }
	// '*' is asserted only when it can be honoured together with the explicit
	// constraints and the built-in order: when the '*' edges close a cycle that
	// the explicit edges alone do not, the explicit names outrank '*'
	// (DESIGN.md C17) and only they are checked.
	starHard := m.acyclic(true)
	if !starHard {
		evid.Class("state:star-conflict-soft")
	}
	anchorOK := func(n string) bool { a, ok := m.live[n]; return ok && !a.dup }
	for name, r := range m.live {
		if r.dup {
			continue
		}
		if !starHard && (r.before == "*" || r.after == "*") {
			continue
		}
		if m.waive[name] && (r.before == "*" || r.after == "*") {
			continue
		}
		if r.before == "*" {
			for other, ro := range m.live {
				if other != name && unconstrained(ro) && pos[name] > pos[other] {
					return fmt.Errorf("%q registered Before(*) fired after %q", name, other)
				}
			}
		} else if r.before != "" {
			if anchorOK(r.before) && pos[name] > pos[r.before] {
				return fmt.Errorf("%q registered Before(%s) fired after it", name, r.before)
			}
		}
		if r.after == "*" {
			for other, ro := range m.live {
				if other != name && unconstrained(ro) && pos[name] < pos[other] {
					return fmt.Errorf("%q registered After(*) fired before %q", name, other)
				}
			}
		} else if r.after != "" {
			if anchorOK(r.after) && pos[name] < pos[r.after] {
				return fmt.Errorf("%q registered After(%s) fired before it", name, r.after)
			}
		}
		for _, x := range r.extra {
			if x[0] != "" && x[0] != "*" && anchorOK(x[0]) && pos[name] > pos[x[0]] {
				return fmt.Errorf("Before(%s).Replace(%q) returned no error, yet %q fires after %s", x[0], name, name, x[0])
			}
			if x[1] != "" && x[1] != "*" && anchorOK(x[1]) && pos[name] < pos[x[1]] {
				return fmt.Errorf("After(%s).Replace(%q) returned no error, yet %q fires before %s", x[1], name, name, x[1])
			}
		}
	}
	return nil
}

// acyclic reports whether the constraint graph of the live callbacks (built-in
// chain, explicit Before/After edges and, if withStar, the '*' edges) has no
// cycle, i.e. whether an order honouring all of them exists.
func (m *model) acyclic(withStar bool) bool {
	g := map[string][]string{} // a -> b: a fires before b
	prev := ""
	for _, b := range builtins[m.pipeline] {
		if r, ok := m.live[b]; ok && r.builtin {
			if prev != "" {
				g[prev] = append(g[prev], b)
			}
			prev = b
		}
	}
	unconstrained := func(r *reg) bool { return r.builtin || (r.before == "" && r.after == "") }
	for n, r := range m.live {
		if r.dup {
			continue
		}
		if r.before == "*" {
			if withStar {
				for o, ro := range m.live {
					if o != n && unconstrained(ro) {
						g[n] = append(g[n], o)
					}
				}
			}
		} else if a, ok := m.live[r.before]; ok && r.before != "" && !a.dup {
			g[n] = append(g[n], r.before)
		}
		if r.after == "*" {
			if withStar {
				for o, ro := range m.live {
					if o != n && unconstrained(ro) {
						g[o] = append(g[o], n)
					}
				}
			}
		} else if a, ok := m.live[r.after]; ok && r.after != "" && !a.dup {
			g[r.after] = append(g[r.after], n)
		}
	}
	state := map[string]int{}
	var dfs func(string) bool
	dfs = func(n string) bool {
		state[n] = 1
		for _, x := range g[n] {
			if state[x] == 1 || (state[x] == 0 && dfs(x)) {
				return true
			}
		}
		state[n] = 2
		return false
	}
	for n := range m.live {
		if state[n] == 0 && dfs(n) {
			return false
		}
	}
	return true
}

func noError(res []stepResult) bool {
	for _, r := range res {
		if r.err != nil {
			return false
		}
	}
	return len(res) > 0
}

func builtinFired(pipeline string) []fired {
	var f []fired
	for _, b := range builtins[pipeline] {
		f = append(f, fired{b, 0})
	}
	return f
}

// checkDuring judges the pipeline run during which a registration call was made. Whether that run
// already sees the change is not stated, so only what both readings share is required: nothing fires
// twice, nothing fires that is registered neither before nor after the call, and every callback the call
// does not touch fires exactly once, in the relative order of the run before or of the run after.
func checkDuring(old map[string]int, m *model, prev, next, during []fired) string {
	seen := map[string]int{}
	for _, x := range during {
		seen[x.name]++
		if seen[x.name] > 1 {
			return fmt.Sprintf("callback %q fired twice", x.name)
		}
		_, wasLive := old[x.name]
		_, isLive := m.live[x.name]
		if !wasLive && !isLive {
			return fmt.Sprintf("callback %q fired but is registered neither before nor after the call", x.name)
		}
	}
	untouched := map[string]bool{}
	for n, v := range old {
		if r, ok := m.live[n]; ok && r.version == v {
			untouched[n] = true
			if seen[n] != 1 {
				return fmt.Sprintf("callback %q, which the call does not touch, did not fire", n)
			}
		}
	}
	order := func(f []fired) string {
		var o []string
		for _, x := range f {
			if untouched[x.name] {
				o = append(o, x.name)
			}
		}
		return strings.Join(o, ",")
	}
	if d := order(during); d != order(prev) && d != order(next) {
		return fmt.Sprintf("the untouched callbacks fired in the order %s, before the call they fire as %s, after it as %s", d, order(prev), order(next))
	}
	return ""
}

func names(f []fired) string {
	s := make([]string, len(f))
	for i, x := range f {
		s[i] = x.name
	}
	return strings.Join(s, ",")
}

// checkCase runs the history and returns a description of the violation, or "".
func checkCase(c Case) string {
	res := apply(c)
	m := newModel(c.Pipeline)
	if harness.OpenClass("C17", "star-as-anchor") && !strict {
		m.waive = anchoredStars(c)
	}
	if harness.OpenClass("C17", "forward-reference") && !strict && forwardRef(c) {
		m.loose = true
	}
	var cands []*model // after a rejected call: the readings "it took effect" / "it did not"
	for i, r := range res {
		if r.err != nil {
			// an error is a valid outcome of that call. What the call left behind is not stated, so
			// from here on a later call that returns nil must give a pipeline that is right under at
			// least one reading (up to 8 are kept)
			if cands == nil {
				cands = []*model{m}
			}
			var next []*model
			seen := map[string]bool{}
			for _, x := range cands {
				y := x.clone()
				y.step(c.Ops[i])
				x.gen = map[string]int{} // handler numbering moves on in both readings
				for n, g := range y.gen {
					x.gen[n] = g
				}
				for _, z := range []*model{x, y} {
					if sig := z.signature(); !seen[sig] {
						seen[sig] = true
						next = append(next, z)
					}
				}
			}
			if len(next) > 32 {
				return "" // too many readings to follow: nothing is asserted for the rest of the history
			}
			cands = next
			continue
		}
		if cands != nil && c.Ops[i].Kind == "reopen" {
			continue // no call on this pipeline: it stays as the rejected call left it
		}
		if cands != nil {
			var ok []*model
			var first error
			for _, x := range cands {
				x.step(c.Ops[i])
				if err := x.checkWith(r.fired, false); err == nil {
					ok = append(ok, x)
				} else if first == nil {
					first = err
				}
			}
			if len(ok) == 0 {
				return fmt.Sprintf("after step %d (%s), which returned nil after an earlier call of the history had been rejected: %v (no reading of the rejected call explains it); fired order: %s", i+1, c.Ops[i], first, names(r.fired))
			}
			cands = ok
			if fmt.Sprint(r.fired) != fmt.Sprint(r.firedErr) {
				return fmt.Sprintf("after step %d (%s): run for a statement that already carries an error fired %s, the ordinary run fired %s", i+1, c.Ops[i], names(r.firedErr), names(r.fired))
			}
			continue
		}
		old := map[string]int{}
		for n, x := range m.live {
			old[n] = x.version
		}
		prev := builtinFired(c.Pipeline)
		if i > 0 {
			prev = res[i-1].fired
		}
		m.step(c.Ops[i])
		if r.during != nil && !m.loose {
			if msg := checkDuring(old, m, prev, r.fired, r.during); msg != "" {
				return fmt.Sprintf("step %d (%s), the run in which the call was made: %s; that run fired: %s", i+1, c.Ops[i], msg, names(r.during))
			}
		}
		if err := m.checkWith(r.fired, !m.loose); err != nil {
			return fmt.Sprintf("after step %d (%s): %v; fired order: %s", i+1, c.Ops[i], err, names(r.fired))
		}
		for k, other := range r.firedOther {
			if fmt.Sprint(r.fired) != fmt.Sprint(other) {
				return fmt.Sprintf("after step %d (%s): run %d (0 = dry-run statement, 1 = statement with a model, 2 = SkipHooks session) fired %s, the ordinary run fired %s: which registered callbacks run must not depend on the statement", i+1, c.Ops[i], k, names(other), names(r.fired))
			}
		}
		if fmt.Sprint(r.fired) != fmt.Sprint(r.firedErr) {
			return fmt.Sprintf("after step %d (%s): run for a statement that already carries an error fired %s, the ordinary run fired %s: not every registered callback ran exactly once", i+1, c.Ops[i], names(r.firedErr), names(r.fired))
		}
	}
	// Replace takes the replaced callback's position: the final order must be
	// the order of the same history without its Replace calls.
	hasReplace, constrainedReplace := false, false
	var without Case
	without.Pipeline, without.Via = c.Pipeline, c.Via
	wm := newModel(c.Pipeline)
	for _, o := range c.Ops {
		if o.Kind == "replace" && o.Match != "f" {
			if _, live := wm.live[o.Name]; live {
				hasReplace = true
				// a constraint given with the Replace stays with the callback and may move it later
				constrainedReplace = constrainedReplace || o.Before != "" || o.After != ""
				wm.step(o)
				continue
			}
			o = Op{Kind: "register", Name: o.Name} // a Replace of a name that is not registered registers it
		}
		wm.step(o)
		without.Ops = append(without.Ops, o)
	}
	if hasReplace && !constrainedReplace && cands == nil && !m.loose {
		wres := apply(without)
		if len(without.Ops) == 0 {
			// compare with the untouched built-in order
			want := strings.Join(builtins[c.Pipeline], ",")
			if got := names(res[len(res)-1].fired); got != want {
				return fmt.Sprintf("Replace moved a callback: order %s, want %s", got, want)
			}
		} else if noError(wres) {
			// where an anchored '*' callback lands is not asserted (model.waive): it is left out on both sides
			keep := func(f []fired) []fired {
				var out []fired
				for _, x := range f {
					if !m.waive[x.name] {
						out = append(out, x)
					}
				}
				return out
			}
			got, want := names(keep(res[len(res)-1].fired)), names(keep(wres[len(wres)-1].fired))
			if got != want {
				return fmt.Sprintf("Replace did not keep the replaced callback's position: order %s, without the Replace calls %s", got, want)
			}
		}
	}
	return ""
}

// ---- case classification -------------------------------------------------------------------

func nontrivial(c Case) bool {
	n := 0
	for _, o := range c.Ops {
		if o.Kind == "register" && ((o.Before != "" && o.Before != unknown) || (o.After != "" && o.After != unknown)) {
			n++
		}
	}
	return n >= 2
}

func classes(c Case, errored bool) []string {
	cl := []string{"pipeline:" + c.Pipeline, fmt.Sprintf("len:%d", len(c.Ops))}
	if c.Via != "" {
		cl = append(cl, "registered-through:"+c.Via)
	}
	seen := map[string]bool{}
	for _, o := range c.Ops {
		k := o.Kind
		if o.Kind == "register" {
			switch {
			case o.Before != "" && o.After != "":
				k = "register-before-after"
			case o.Before != "":
				k = "register-before"
			case o.After != "":
				k = "register-after"
			}
			if o.Before == "*" || o.After == "*" {
				seen["op:star"] = true
			}
		}
		if o.Match != "" {
			seen["op:match-"+o.Match] = true
		}
		if o.Inside != "" {
			seen["op:called-inside-the-running-pipeline"] = true
		}
		if o.Kind == "replace" && (o.Before != "" || o.After != "") {
			seen["op:replace-with-constraint"] = true
		}
		seen["op:"+k] = true
	}
	for k := range seen {
		cl = append(cl, k)
	}
	if errored {
		cl = append(cl, "outcome:error")
	} else {
		cl = append(cl, "outcome:pipeline")
	}
	return cl
}

// isCycle recognises the known class `constraint-cycle`: two live custom
// callbacks each constrained to the same side of the other (After/After or
// Before/Before), possibly through a longer ring.
func hasConstraintCycle(c Case) bool {
	// edges name -> must-come-before name, only among names registered with constraints
	m := newModel(c.Pipeline)
	for _, o := range c.Ops {
		m.step(o)
		// graph: a -> b means a fires before b
		g := map[string][]string{}
		for n, r := range m.live {
			if r.before != "" && r.before != "*" {
				if _, ok := m.live[r.before]; ok {
					g[n] = append(g[n], r.before)
				}
			}
			if r.after != "" && r.after != "*" {
				if _, ok := m.live[r.after]; ok {
					g[r.after] = append(g[r.after], n)
				}
			}
		}
		state := map[string]int{}
		var dfs func(string) bool
		dfs = func(n string) bool {
			state[n] = 1
			for _, x := range g[n] {
				if state[x] == 1 || (state[x] == 0 && dfs(x)) {
					return true
				}
			}
			state[n] = 2
			return false
		}
		for n := range g {
			if state[n] == 0 && dfs(n) {
				return true
			}
		}
	}
	return false
}

// forwardRef recognises the known class `forward-reference`: a callback is
// registered while a live registration already names it in Before/After (a
// forward reference that gets resolved), in a history that carries at least
// two Before/After constraints. sortCallbacks resolves forward references by
// rewriting the before/after fields of the callbacks involved (overwriting
// their own constraints, and keeping the rewrite across later compiles), so
// with a second constraint in play the resulting order can drop either one.
// The single-constraint forward reference (the plain documented use) stays in
// the generated domain.
func forwardRef(c Case) bool {
	c = normalised(c)
	constraints := 0
	for _, o := range c.Ops {
		if o.Kind == "register" || o.Kind == "replace" { // a Replace may carry constraints as well
			if o.Before != "" && o.Before != unknown {
				constraints++
			}
			if o.After != "" && o.After != unknown {
				constraints++
			}
		}
	}
	if constraints < 2 {
		return false
	}
	// pass 1: resolved forward references
	m := newModel(c.Pipeline)
	parties := map[string]bool{} // referrers and anchors of resolved forward After references
	type ref struct{ from, to string }
	fwd := map[ref]bool{}
	firstResolution := -1
	for i, o := range c.Ops {
		if _, wasLive := m.live[o.Name]; o.Kind == "register" && !wasLive {
			for n, r := range m.live {
				if n == o.Name {
					continue
				}
				if r.before == o.Name {
					return true // a resolved forward Before reference: the anchor's After slot is overwritten
				}
				if r.after == o.Name {
					parties[n], parties[o.Name] = true, true
					fwd[ref{n, o.Name}] = true
					if firstResolution < 0 {
						firstResolution = i
					}
				}
			}
		}
		m.step(o)
	}
	if len(fwd) == 0 {
		return false
	}
	// pass 2: a resolved forward After reference leaves bookkeeping on both parties (the anchor gets an
	// implicit Before). It is only stable while nothing else names or removes a party.
	for i, o := range c.Ops {
		switch o.Kind {
		case "remove":
			if parties[o.Name] && i > firstResolution {
				return true
			}
		case "register":
			if o.Before != "" && parties[o.Before] {
				return true
			}
			if o.After != "" && parties[o.After] && !fwd[ref{o.Name, o.After}] {
				return true
			}
		case "replace":
			// a Replace that carries a constraint and touches a party (replaces it or names it)
			if (o.Before != "" || o.After != "") && (parties[o.Name] || parties[o.Before] || parties[o.After]) {
				return true
			}
		}
	}
	return false
}

// normalised rewrites a Replace of a name that is not registered at that point into the plain
// Register it amounts to, and drops registrations whose Match predicate is false (not in effect).
func normalised(c Case) Case {
	m := newModel(c.Pipeline)
	out := Case{Pipeline: c.Pipeline}
	for _, o := range c.Ops {
		if o.Match == "f" && o.Kind != "remove" {
			m.step(o)
			continue
		}
		if _, live := m.live[o.Name]; o.Kind == "replace" && !live {
			o = Op{Kind: "register", Name: o.Name}
		}
		m.step(o)
		out.Ops = append(out.Ops, o)
	}
	return out
}

// starAsAnchor recognises the known class `star-as-anchor`: a callback that is
// registered with Before("*")/After("*") at some point of the history is also
// named as the Before/After anchor of another registration.
func starAsAnchor(c Case) bool { return len(anchoredStars(c)) > 0 }

// replaceBetweenStars recognises the known class `replace-between-stars`: a Replace that carries a
// Before/After (first seen with a '*' callback as the new anchor, then with any live callback), of a
// callback that is itself anchored on a '*' callback.
func replaceBetweenStars(c Case) bool {
	m := newModel(c.Pipeline)
	star := func(n string) bool {
		r, ok := m.live[n]
		return ok && (r.before == "*" || r.after == "*")
	}
	for _, o := range c.Ops {
		if o.Kind == "replace" && o.Match != "f" && (o.Before != "" || o.After != "") {
			if r, ok := m.live[o.Name]; ok && (star(r.before) || star(r.after)) {
				return true
			}
		}
		m.step(o)
	}
	return false
}

// anchoredStars: the '*' callbacks of the history that another call names as its anchor.
func anchoredStars(c Case) map[string]bool {
	star := map[string]bool{}
	for _, o := range c.Ops {
		if o.Kind == "register" && (o.Before == "*" || o.After == "*") {
			star[o.Name] = true
		}
	}
	out := map[string]bool{}
	named := func(x string) bool { return x != "" && x != "*" }
	for _, o := range c.Ops {
		if o.Kind == "register" || o.Kind == "replace" {
			if star[o.Before] {
				out[o.Before] = true
			}
			if star[o.After] {
				out[o.After] = true
			}
			// the sorter writes a named constraint into the anchor as well (Before(y).Register(x) leaves y with
			// "after x", and keeps it across later compiles - the mechanism of the listed forward-reference
			// finding): a callback that ever carried a named constraint and is a '*' callback at some point of
			// the history is an anchored '*' callback too
			if (named(o.Before) || named(o.After)) && star[o.Name] {
				out[o.Name] = true
			}
		}
	}
	return out
}

// ---- running one case with journalling ------------------------------------------------------

func runCase(t interface{ Fatalf(string, ...interface{}) }, c Case, test string) {
	b, _ := json.Marshal(c)
	if harness.OpenClass("C17", "constraint-cycle") && hasConstraintCycle(c) {
		evid.Excluded("constraint-cycle")
		return
	}
	if harness.OpenClass("C17", "forward-reference") && forwardRef(c) {
		// not dropped: judged for membership, handlers and built-in order only (see model.loose)
		evid.Class("known:forward-reference (order not asserted)")
	}
	if harness.OpenClass("C17", "replace-between-stars") && replaceBetweenStars(c) {
		evid.Excluded("replace-between-stars")
		return
	}
	if harness.OpenClass("C17", "star-as-anchor") && starAsAnchor(c) {
		// not dropped: judged with the '*' placement of the anchored callback left out (see model.waive)
		evid.Class("known:star-as-anchor ('*' placement of the anchored callback not asserted)")
	}
	evid.Journal(string(b))
	res := apply(c)
	errored := !noError(res)
	evid.Case(c.String(), nontrivial(c), c.String(), classes(c, errored)...)
	if msg := checkCase(c); msg != "" {
		t.Fatalf("C17 violated by %s\n  %s", c, msg)
	}
}

// ---- generators ------------------------------------------------------------------------------

// anchors: the names a Before/After may mention.
func anchors(pipeline string, reduced bool) []string {
	bs := builtins[pipeline]
	var a []string
	if reduced && len(bs) > 3 {
		a = append(a, bs[0], bs[len(bs)/2], bs[len(bs)-1])
	} else {
		a = append(a, bs...)
	}
	a = append(a, customs...)
	a = append(a, unknown, "*")
	return a
}

// nextOps enumerates the operations available in model state m (the property's
// domain: Register only of names that are not live; Replace/Remove only of
// live names). reducedCombos limits Before+After pairs to a reduced anchor set.
func nextOps(m *model, nCustom int, reducedCombos bool) []Op {
	var ops []Op
	// names that can be registered now: first unused custom, removed built-ins, removed customs
	var regNames []string
	twin := nCustom > len(customs)
	if twin {
		nCustom = len(customs)
		if _, live := m.live[caseTwin]; !live {
			regNames = append(regNames, caseTwin)
		}
	}
	for i, c := range customs[:nCustom] {
		if _, live := m.live[c]; !live {
			regNames = append(regNames, c)
			_ = i
			break // customs are interchangeable: only the first free one
		}
	}
	for _, b := range builtins[m.pipeline] {
		if _, live := m.live[b]; !live {
			regNames = append(regNames, b)
		}
	}
	full := anchors(m.pipeline, false)
	red := anchors(m.pipeline, reducedCombos)
	if twin {
		full = append([]string{caseTwin}, full...)
		red = append([]string{caseTwin}, red...)
	}
	for _, n := range regNames {
		ops = append(ops, Op{Kind: "register", Name: n})
		ops = append(ops, Op{Kind: "register", Name: n, Match: "t"}, Op{Kind: "register", Name: n, Match: "f"},
			Op{Kind: "register", Name: n, Match: "t", After: red[0]}, Op{Kind: "register", Name: n, Match: "f", Before: red[len(red)-3]})
		for _, x := range full {
			if x == n {
				continue
			}
			ops = append(ops, Op{Kind: "register", Name: n, Before: x}, Op{Kind: "register", Name: n, After: x})
		}
		for _, x := range red {
			for _, y := range red {
				if x == n || y == n || x == "*" || y == "*" {
					// '*' combined with a second constraint on the same
					// callback is not defined by the statement (which side
					// wins?) - outside the generated domain (DESIGN.md C17 D)
					continue
				}
				ops = append(ops, Op{Kind: "register", Name: n, Before: x, After: y})
			}
		}
	}
	var liveNames []string
	for _, b := range builtins[m.pipeline] {
		if _, ok := m.live[b]; ok {
			liveNames = append(liveNames, b)
		}
	}
	for _, c := range append(append([]string(nil), customs...), caseTwin) {
		if _, ok := m.live[c]; ok {
			liveNames = append(liveNames, c)
		}
	}
	// Replace / Remove of a name that is not registered: nothing to replace (the name gets registered) /
	// nothing to remove (no effect)
	for _, c := range customs[:nCustom] {
		if _, live := m.live[c]; !live {
			ops = append(ops, Op{Kind: "replace", Name: c}, Op{Kind: "remove", Name: c})
			break
		}
	}
	ops = append(ops, Op{Kind: "remove", Name: unknown}, Op{Kind: "reopen"})
	// Replace carrying a constraint of its own: the replaced callback keeps its position, so the call
	// fails or the constraint already holds
	for _, n := range liveNamesOf(m) {
		isCustom := strings.HasPrefix(n, "c")
		if reducedCombos && !isCustom {
			continue // exhaustive tier: for custom callbacks only (cost)
		}
		if r := m.live[n]; (r.before == "*" || r.after == "*") && harness.OpenClass("C17", "replace-star") {
			continue // listed finding: Replace of a callback registered with '*'
		}
		for _, x := range red {
			if _, anchorLive := m.live[x]; x == n || !anchorLive {
				continue // the anchor is registered now: no forward reference, no '*'
			}
			ops = append(ops, Op{Kind: "replace", Name: n, Before: x}, Op{Kind: "replace", Name: n, After: x})
		}
	}
	// calls made from inside the running pipeline: a callback that unregisters itself, and one that
	// registers another
	for _, c := range customs {
		if _, live := m.live[c]; live {
			ops = append(ops, Op{Kind: "remove", Name: c, Inside: c})
			break
		}
	}
	if bs := builtins[m.pipeline]; len(regNames) > 0 {
		if _, live := m.live[bs[0]]; live {
			ops = append(ops, Op{Kind: "register", Name: regNames[0], Inside: bs[0]})
		}
	}
	for _, n := range liveNames {
		// registering a live name again (gorm warns "duplicated callback"): the name must still run once, latest handler
		if r := m.live[n]; (r.before == "*" || r.after == "*") && harness.OpenClass("C17", "replace-star") {
			continue // same root as the listed finding: '*' entries are reordered behind the newer entry of the name
		}
		ops = append(ops, Op{Kind: "register", Name: n}, Op{Kind: "register", Name: n, Match: "f"})
	}
	for _, n := range liveNames {
		ops = append(ops, Op{Kind: "replace", Name: n, Match: "f"}) // not in effect: the live callback keeps running
		if r := m.live[n]; (r.before == "*" || r.after == "*") && harness.OpenClass("C17", "replace-star") {
			// listed finding: Replace of a callback registered with '*'
			evid.Excluded("replace-star")
			ops = append(ops, Op{Kind: "remove", Name: n})
			continue
		}
		ops = append(ops, Op{Kind: "replace", Name: n}, Op{Kind: "replace", Name: n, Match: "t"}, Op{Kind: "remove", Name: n})
	}
	return ops
}

// TestC17Exhaustive enumerates every history up to VERIF_C17_LEN over the
// alphabet of nextOps, for the pipelines of this shard.
func TestC17Exhaustive(t *testing.T) {
	evid.Rule("C17: histories of Register/Before/After/Replace/Remove (also through Match(true/false), and Replace/Remove of names that are not registered) over built-ins, customs c1-c3 (random histories also C1, which differs from c1 only in letter case), an unknown name and '*' for each of the six pipelines, registered through the opened handle or a handle derived from it (Session, NewDB session, chain, SkipDefaultTransaction session) (exhaustive to the stated length, random to length 8); after every step the pipeline is executed twice - for a clean statement and for one that already carries an error - and both runs must fire the same callbacks; non-trivial = at least two registrations carrying a Before/After that names a built-in, a custom callback or '*'; distinct = pipeline + operation sequence")
	if p := harness.ReplayPath(); p != "" {
		replayOne(t)
		return
	}
	maxLen := harness.EnvInt("VERIF_C17_LEN", 2)
	shard, shards := harness.Shard(), harness.Shards()
	count := 0
	for pi, pl := range pipelines {
		var rec func(prefix []Op, m *model)
		idx := 0
		rec = func(prefix []Op, m *model) {
			for _, o := range nextOps(m, 3, true) {
				ops := append(append([]Op(nil), prefix...), o)
				c := Case{Pipeline: pl, Ops: ops}
				// shard on the first operation so prefixes stay with one worker
				if len(ops) == 1 {
					idx++
					if (idx+pi)%shards != shard {
						continue
					}
				}
				count++
				failed := false
				runCase(failer{func(f string, a ...interface{}) {
					failed = true
					harness.SaveCase("TestC17Exhaustive", c)
					t.Errorf(f, a...)
				}}, c, "TestC17Exhaustive")
				if failed && t.Failed() && count > 0 && os.Getenv("VERIF_C17_ALL") == "" {
					t.FailNow()
				}
				if o.Kind == "replace" && (o.Before != "" || o.After != "") {
					continue // as the last call of a history only
				}
				if len(ops) < maxLen {
					res := apply(c)
					_ = res // a history goes on after a rejected call
					if harness.OpenClass("C17", "constraint-cycle") && hasConstraintCycle(c) {
						continue
					}
					m2 := newModel(pl)
					for _, x := range ops {
						m2.step(x)
					}
					rec(ops, m2)
				}
			}
		}
		rec(nil, newModel(pl))
	}
	evid.Exhaustive(true)
	evid.Extra("exhaustive_length", maxLen)
	t.Logf("enumerated %d histories up to length %d", count, maxLen)
}

type failer struct {
	f func(string, ...interface{})
}

func (f failer) Fatalf(s string, a ...interface{}) { f.f(s, a...) }

func replayOne(t *testing.T) {
	var c Case
	if err := harness.LoadReplay(&c); err != nil {
		t.Fatalf("cannot load replay: %v", err)
	}
	if msg := checkCase(c); msg != "" {
		t.Fatalf("C17 violated by %s\n  %s", c, msg)
	}
}

// TestC17Random draws longer histories (length <= 8) over the full alphabet.
func TestC17Random(t *testing.T) {
	if p := harness.ReplayPath(); p != "" {
		replayOne(t)
		return
	}
	rapid.Check(t, func(rt *rapid.T) {
		pl := rapid.SampledFrom(pipelines).Draw(rt, "pipeline")
		n := rapid.IntRange(2, 8).Draw(rt, "len")
		m := newModel(pl)
		var ops []Op
		for i := 0; i < n; i++ {
			choices := nextOps(m, len(customs)+1, false)
			// weight the kinds evenly rather than by count of alternatives
			kind := rapid.SampledFrom([]string{"register", "register", "register-c", "register-cc", "replace", "remove"}).Draw(rt, "kind")
			var sub []Op
			for _, o := range choices {
				k := o.Kind
				if k == "register" {
					if o.Before != "" && o.After != "" {
						k = "register-cc"
					} else if o.Before != "" || o.After != "" {
						k = "register-c"
					}
				}
				if k == kind {
					sub = append(sub, o)
				}
			}
			if len(sub) == 0 {
				sub = choices
			}
			o := rapid.SampledFrom(sub).Draw(rt, "op")
			if o.Kind == "replace" && (o.Before != "" || o.After != "") && i != n-1 {
				// a constraint given with a Replace stays with the callback and takes part in every later
				// sort (the ad-hoc sorter's rewriting of constraints, see the listed findings): it is
				// generated as the last call of a history only
				o.Before, o.After = "", ""
			}
			if o.Inside == "" && o.Kind != "reopen" && rapid.IntRange(0, 4).Draw(rt, "inside") == 0 {
				if live := sortedLive(m); len(live) > 0 {
					o.Inside = rapid.SampledFrom(live).Draw(rt, "insideOf")
				}
			}
			ops = append(ops, o)
			m.step(o)
		}
		via := rapid.SampledFrom([]string{"", "", "session", "newdb", "tx", "skiptx"}).Draw(rt, "via")
		runCase(rt, Case{Pipeline: pl, Ops: ops, Via: via}, "TestC17Random")
	})
}

func liveNamesOf(m *model) []string { return sortedLive(m) }

func sortedLive(m *model) []string {
	var out []string
	for _, b := range builtins[m.pipeline] {
		if _, ok := m.live[b]; ok {
			out = append(out, b)
		}
	}
	for _, c := range customs {
		if _, ok := m.live[c]; ok {
			out = append(out, c)
		}
	}
	return out
}

// TestC17Guard compares the stub table with the callbacks the real default
// registration installs (names and order), so a stale table is noticed.
func TestC17Guard(t *testing.T) {
	db, err := gorm.Open(nopDialector{defaults: true}, &gorm.Config{Logger: logger.Discard, DisableAutomaticPing: true})
	if err != nil {
		t.Fatal(err)
	}
	for _, pl := range pipelines {
		pv := reflect.ValueOf(pipeline(db, pl)).Elem()
		cbs := pv.FieldByName("callbacks")
		if !cbs.IsValid() {
			t.Skip("processor.callbacks not reachable by reflection; table not cross-checked")
		}
		var got []string
		for i := 0; i < cbs.Len(); i++ {
			got = append(got, cbs.Index(i).Elem().FieldByName("name").String())
		}
		if strings.Join(got, ",") != strings.Join(builtins[pl], ",") {
			t.Logf("NOTE: built-in table for %s is stale: real %v, table %v", pl, got, builtins[pl])
		}
	}
}

// ---- witnesses of listed findings (plain tests, no generator) -------------------------------

// strict: nothing is waived (the witnesses of the listed classes are judged in full).
var strict bool

func witness(t *testing.T, cases ...Case) {
	strict = true
	defer func() { strict = false }()
	for _, c := range cases {
		if msg := checkCase(c); msg != "" {
			t.Errorf("C17 violated by %s\n  %s", c, msg)
		}
	}
}

// After(c2).Register(c1); After(c1).Register(c2) (and the Before twin): used to
// recurse without bound in sortCallbacks; must now return an error or a valid pipeline.
func TestC17WitnessCycle(t *testing.T) {
	for _, pl := range pipelines {
		witness(t,
			Case{Pipeline: pl, Ops: []Op{{Kind: "register", Name: "c1", After: "c2"}, {Kind: "register", Name: "c2", After: "c1"}}},
			Case{Pipeline: pl, Ops: []Op{{Kind: "register", Name: "c1", Before: "c2"}, {Kind: "register", Name: "c2", Before: "c1"}}},
			Case{Pipeline: pl, Ops: []Op{{Kind: "register", Name: "c1", After: "c2"}, {Kind: "register", Name: "c2", After: "c3"}, {Kind: "register", Name: "c3", After: "c1"}}},
		)
	}
}

// Before("*").Register(c1); Replace(c1): the old handler keeps firing and c1 moves to the end.
func TestC17WitnessReplaceStar(t *testing.T) {
	for _, pl := range pipelines {
		witness(t,
			Case{Pipeline: pl, Ops: []Op{{Kind: "register", Name: "c1", Before: "*"}, {Kind: "replace", Name: "c1"}}},
			Case{Pipeline: pl, Ops: []Op{{Kind: "register", Name: "c1", After: "*"}, {Kind: "replace", Name: "c1"}}},
		)
	}
}

// a Before(x) that precedes the registration of x overwrites x's own After constraint.
func TestC17WitnessForwardBefore(t *testing.T) {
	for _, pl := range pipelines {
		witness(t,
			Case{Pipeline: pl, Ops: []Op{{Kind: "register", Name: "c1", Before: "c2"}, {Kind: "register", Name: "c2", After: "c3"}, {Kind: "register", Name: "c3"}}},
			Case{Pipeline: pl, Ops: []Op{{Kind: "register", Name: "c1", Before: "c3"}, {Kind: "register", Name: "c2"}, {Kind: "register", Name: "c3", Before: "c2", After: "c2"}}},
		)
	}
}

// a '*' callback that is also the anchor of another registration loses its '*' placement.
func TestC17WitnessStarAnchor(t *testing.T) {
	for _, pl := range pipelines {
		witness(t,
			Case{Pipeline: pl, Ops: []Op{{Kind: "register", Name: "c1", After: "*"}, {Kind: "register", Name: "c2", After: "c1"}, {Kind: "register", Name: "c3"}}},
			Case{Pipeline: pl, Ops: []Op{{Kind: "register", Name: "c1", After: "c3"}, {Kind: "register", Name: "c2"}, {Kind: "register", Name: "c3", After: "*"}}},
		)
	}
}

func TestC17WitnessReplaceBetweenStars(t *testing.T) {
	for _, pl := range pipelines {
		witness(t, Case{Pipeline: pl, Ops: []Op{{Kind: "register", Name: "c1", After: "*"}, {Kind: "register", Name: "c2", After: "*"},
			{Kind: "register", Name: "c3", After: "c2"}, {Kind: "replace", Name: "c3", After: "c1"}}},
			Case{Pipeline: pl, Ops: []Op{{Kind: "register", Name: "c1", After: "*"}, {Kind: "register", Name: "c2", After: "c1"},
				{Kind: "register", Name: "c3"}, {Kind: "replace", Name: "c2", After: "c3"}}})
	}
}

// TestC17ExploreForwardRef (development aid, not part of any tier): dumps every history of the
// forward-reference class up to VERIF_C17_LEN together with the verdict on the current tree.
func TestC17ExploreForwardRef(t *testing.T) {
	out := os.Getenv("VERIF_C17_DUMP")
	if out == "" {
		t.Skip("development aid")
	}
	f, err := os.Create(out)
	if err != nil {
		t.Fatal(err)
	}
	defer f.Close()
	maxLen := harness.EnvInt("VERIF_C17_LEN", 3)
	pl := "query"
	var rec func(prefix []Op, m *model)
	rec = func(prefix []Op, m *model) {
		for _, o := range nextOps(m, 3, true) {
			ops := append(append([]Op(nil), prefix...), o)
			c := Case{Pipeline: pl, Ops: ops}
			if starAsAnchor(c) {
				continue
			}
			if forwardRef(c) {
				msg := checkCaseSafe(c)
				b, _ := json.Marshal(map[string]interface{}{"ops": c.Ops, "fail": msg != "", "msg": msg})
				f.Write(append(b, '\n'))
			}
			if len(ops) < maxLen {
				res := applySafe(c)
				if res == nil || res[len(res)-1].err != nil {
					continue
				}
				m2 := newModel(pl)
				for _, x := range ops {
					m2.step(x)
				}
				rec(ops, m2)
			}
		}
	}
	rec(nil, newModel(pl))
}

func checkCaseSafe(c Case) (msg string) {
	defer func() {
		if p := recover(); p != nil {
			msg = fmt.Sprintf("panic: %v", p)
		}
	}()
	return checkCase(c)
}

func applySafe(c Case) (res []stepResult) {
	defer func() {
		if p := recover(); p != nil {
			res = nil
		}
	}()
	return apply(c)
}
