// C06 — reusable handles are never changed by the chains and queries derived
// from them. See DESIGN.md §3 C06.
//
// A history builds a tree of reusable handles (Open → Session / WithContext /
// Debug / Begin …) and a set of linear chains started from those handles, and
// interleaves the chains in time. Every finished chain is compared with the
// same call path (root → handle derivations → chain calls → finisher) replayed
// alone on a fresh Open: dry-run SQL text + Vars, and on a SQLite-backed twin
// the statements that reached the driver, the result rows and the error.
//
// gorm semantics the harness respects: the *gorm.DB returned by a chain method
// (clone == 0) is not reusable, so every chain is linear – it is always
// continued from the value the previous call of that chain returned and is
// dropped after its finisher; only handles from Open / Session / WithContext /
// Debug / Begin start more than one chain.
package c06

import (
	"context"
	"database/sql"
	"errors"
	"fmt"
	"reflect"
	"regexp"
	"sort"
	"strings"
	"testing"
	"time"

	"gorm.io/gorm"
	"gorm.io/gorm/clause"
	"gorm.io/gorm/logger"
	"pgregory.net/rapid"

	"verif/internal/evid"
	"verif/internal/harness"
	"verif/internal/testdb"
)

func TestMain(m *testing.M) { harness.Main(m) }

// ---- models and data --------------------------------------------------------------------

// Company is soft-deleted too: joined by relation name from User, its ON filter
// depends on the outer statement's Unscoped flag.
type Company struct {
	ID        uint
	Name      string
	DeletedAt gorm.DeletedAt
}

type User struct {
	ID        uint
	Name      string
	Age       int
	Active    bool
	CompanyID uint
	Company   Company
	UpdatedAt time.Time // tracked update time: set by Update/Updates unless hooks are skipped
	DeletedAt gorm.DeletedAt
}

// Hooks that visibly change results / SQL, so that a chain whose hooks are
// silently skipped (or silently run) differs from its isolated replay.
func (u *User) AfterFind(tx *gorm.DB) error {
	u.Name = strings.ToUpper(u.Name)
	return nil
}

func (u *User) BeforeUpdate(tx *gorm.DB) error {
	tx.Statement.SetColumn("Active", true)
	return nil
}

// Toy has a Go field "Name" stored in a differently named column: a Select /
// Omit spelled with the field name resolves per model.
type Toy struct {
	ID      uint
	Name    string `gorm:"column:toy_name"`
	OwnerID uint
}

type nameAge struct {
	Name string
	Age  int
}

var ddl = []string{
	"CREATE TABLE companies (id integer PRIMARY KEY, name text, deleted_at datetime)",
	"CREATE TABLE users (id integer PRIMARY KEY, name text, age integer, active numeric, company_id integer, updated_at datetime, deleted_at datetime)",
	"CREATE TABLE toys (id integer PRIMARY KEY, toy_name text, owner_id integer)",
}

var seedSQL = []string{
	"INSERT INTO companies (id, name, deleted_at) VALUES (1,'c1',NULL),(2,'c2',NULL),(3,'c3','2030-02-03 04:05:06+00:00')",
	"INSERT INTO users (id, name, age, active, company_id, deleted_at) VALUES " +
		"(1,'u1',20,1,1,NULL),(2,'u2',30,0,1,NULL),(3,'u3',40,1,2,NULL)," +
		"(4,'u4',50,0,2,NULL),(5,'u5',20,1,1,'2030-01-02 03:04:05+00:00'),(6,'u1',60,1,2,NULL),(7,'u7',35,1,3,NULL)",
	"INSERT INTO toys (id, toy_name, owner_id) VALUES (1,'t1',1),(2,'t2',1),(3,'t3',4)",
}

// ---- execution environment: a dry-run handle and its SQLite-backed twin ------------------

type ctxKey struct{}

type pair struct{ d, l *gorm.DB }

type env struct {
	lite *testdb.DB
	root pair
	txs  []*gorm.DB // Begin handles of the twin, rolled back at the end
	// poisoned: a finisher panicked inside gorm on the twin (possibly inside its
	// default transaction); the history stops after comparing that outcome
	poisoned bool
	// finished dry-run statements of this environment with a deep snapshot
	// (rendered text) of their SQL and Vars taken when the finisher returned
	kept      []keptStmt
	at        int    // index of the action being run
	label     string // its rendering
	from      int    // handle its chain was started from (0 = Open)
	fromChain bool   // that handle's Statement object was allocated by a chain call
	rechecked int64
	lastTx    pair // what the last finisher returned on the two twins (nil after a panic)
}

type keptStmt struct {
	at        int
	label     string
	stmt      *gorm.Statement
	sql, vars string
	from      int // handle the chain was started from
	nvars     int
}

// recheck re-reads every finished dry-run statement: a finished chain is never
// continued by the harness, so nobody may change its SQL text or bound values
// any more. Values are compared deeply (rendered), not by slice identity.
func (e *env) recheck(now int, nowLabel string) string {
	for _, k := range e.kept {
		e.rechecked++
		sql, vars := k.stmt.SQL.String(), renderVars(k.stmt.Vars)
		if sql != k.sql || vars != k.vars {
			return fmt.Sprintf("the dry-run statement finished by action #%d (%s) changed after action #%d (%s) was run:\n"+
				"      SQL  when finished: %s\n      SQL  now:           %s\n      Vars when finished: %s\n      Vars now:           %s",
				k.at, k.label, now, nowLabel, k.sql, sql, k.vars, vars)
		}
	}
	return ""
}

func fixedNow() time.Time { return testdb.FixedNow }

// cfgs: the gorm.Config / dialector variants a history can be run under (the same
// one in the history and in every isolated replay).
type cfgDef struct {
	text        string
	set         func(c *gorm.Config)
	numbered    bool // dry-run twin uses $n placeholders
	noReturning bool // SQLite twin registers its callbacks without RETURNING
}

var cfgs = []cfgDef{
	{text: "default", set: func(c *gorm.Config) {}},
	{text: "SkipDefaultTransaction", set: func(c *gorm.Config) { c.SkipDefaultTransaction = true }},
	{text: "PrepareStmt", set: func(c *gorm.Config) { c.PrepareStmt = true }},
	{text: "QueryFields", set: func(c *gorm.Config) { c.QueryFields = true }},
	{text: "PropagateUnscoped", set: func(c *gorm.Config) { c.PropagateUnscoped = true }},
	{text: "CreateBatchSize:1", set: func(c *gorm.Config) { c.CreateBatchSize = 1 }},
	{text: "AllowGlobalUpdate", set: func(c *gorm.Config) { c.AllowGlobalUpdate = true }},
	{text: "TranslateError+FullSaveAssociations", set: func(c *gorm.Config) { c.TranslateError = true; c.FullSaveAssociations = true }},
	{text: "$n placeholders / no RETURNING", set: func(c *gorm.Config) {}, numbered: true, noReturning: true},
}

func newEnv(cfg int) *env {
	e := &env{}
	cd := cfgs[cfg]
	lc := gorm.Config{NowFunc: fixedNow}
	cd.set(&lc)
	e.lite = testdb.Open(testdb.Options{Config: lc, NoReturning: cd.noReturning})
	e.lite.Rec.Pause()
	for _, s := range ddl {
		if _, err := e.lite.SQL.Exec(s); err != nil {
			panic("harness: " + err.Error())
		}
	}
	e.seed()
	e.lite.Rec.Resume()
	dc := gorm.Config{NowFunc: fixedNow, ConnPool: &dryPool{}}
	cd.set(&dc)
	e.root = pair{d: testdb.Dry(cd.numbered, dc), l: e.lite.DB}
	return e
}

func newDry() *gorm.DB {
	return testdb.Dry(false, gorm.Config{NowFunc: fixedNow, ConnPool: &dryPool{}})
}

func (e *env) seed() {
	for _, s := range seedSQL {
		if _, err := e.lite.SQL.Exec(s); err != nil {
			panic("harness: " + err.Error())
		}
	}
}

// restore puts the seed rows back after a write finisher ran on the twin
// (mode "rw" only: no transaction is open then).
func (e *env) restore() {
	e.lite.Rec.Pause()
	for _, s := range []string{"DELETE FROM users", "DELETE FROM companies", "DELETE FROM toys"} {
		if _, err := e.lite.SQL.Exec(s); err != nil {
			panic("harness: " + err.Error())
		}
	}
	e.seed()
	e.lite.Rec.Resume()
}

func (e *env) close() {
	for _, tx := range e.txs {
		tx.Rollback()
	}
	e.lite.Close()
}

// xs returns a slice of exact capacity (make + copy): slices handed to gorm must
// not have spare capacity, otherwise gorm appending to the *caller's* slice
// would be misattributed to gorm's own sharing.
func xs[T any](v ...T) []T {
	out := make([]T, len(v))
	copy(out, v)
	return out
}

// ---- catalogue of chain calls -------------------------------------------------------------

type callDef struct {
	text  string // canonical rendering
	fam   string // method family
	merge string // merging clause family ("" = replaces instead of merging)
	f     func(db *gorm.DB) *gorm.DB
	// calls that take a reusable handle of the tree as argument (codes >= argBase)
	argf func(db, arg *gorm.DB) *gorm.DB
	arg  int // handle id
}

// Calls are stored in histories as ints: an index into `calls`, or
// argBase + 10*kind + handle id for the calls of `argCalls`, whose argument is
// (a chain derived from) a reusable handle of the history.
const argBase = 1000

var argCalls = []callDef{
	{text: `Where(h%d)`, fam: "arg-group", merge: "WHERE", argf: func(db, arg *gorm.DB) *gorm.DB { return db.Where(arg) }},
	{text: `Or(h%d)`, fam: "arg-group-or", merge: "WHERE", argf: func(db, arg *gorm.DB) *gorm.DB { return db.Or(arg) }},
	{text: `Not(h%d)`, fam: "arg-group", merge: "WHERE", argf: func(db, arg *gorm.DB) *gorm.DB { return db.Not(arg) }},
	{text: `Where("id IN (?)",h%d.Table("users").Select("id"))`, fam: "arg-subquery", merge: "WHERE", argf: func(db, arg *gorm.DB) *gorm.DB {
		return db.Where("id IN (?)", arg.Table("users").Select("id"))
	}},
	{text: `Where("age >= (?)",h%d.Model(&User{}).Select("min(age)"))`, fam: "arg-subquery", merge: "WHERE", argf: func(db, arg *gorm.DB) *gorm.DB {
		return db.Where("age >= (?)", arg.Model(&User{}).Select("min(age)"))
	}},
	{text: `Joins("Company",h%d.Select("name"))`, fam: "arg-join", merge: "JOINS", argf: func(db, arg *gorm.DB) *gorm.DB {
		return db.Joins("Company", arg.Select("name"))
	}},
	// the reusable handle itself as the argument (not a chain derived from it)
	{text: `Joins("Company",h%d)`, fam: "arg-join-handle", merge: "JOINS", argf: func(db, arg *gorm.DB) *gorm.DB {
		return db.Joins("Company", arg)
	}},
	{text: `InnerJoins("Company",h%d)`, fam: "arg-join-handle", merge: "JOINS", argf: func(db, arg *gorm.DB) *gorm.DB {
		return db.InnerJoins("Company", arg)
	}},
	{text: `Where("id IN (?)",h%d)`, fam: "arg-subquery-handle", merge: "WHERE", argf: func(db, arg *gorm.DB) *gorm.DB {
		return db.Where("id IN (?)", arg)
	}},
	{text: `Table("(?) AS users",h%d)`, fam: "arg-table-handle", merge: "", argf: func(db, arg *gorm.DB) *gorm.DB {
		return db.Table("(?) AS users", arg)
	}},
	{text: `Having(h%d)`, fam: "arg-group", merge: "GROUP", argf: func(db, arg *gorm.DB) *gorm.DB { return db.Having(arg) }},
	{text: `Having("max(age) >= (?)",h%d.Model(&User{}).Select("min(age)"))`, fam: "arg-subquery", merge: "GROUP", argf: func(db, arg *gorm.DB) *gorm.DB {
		return db.Having("max(age) >= (?)", arg.Model(&User{}).Select("min(age)"))
	}},
	{text: `Select("name, (?) as age",h%d.Model(&User{}).Select("count(*)"))`, fam: "arg-subquery", merge: "", argf: func(db, arg *gorm.DB) *gorm.DB {
		return db.Select("name, (?) as age", arg.Model(&User{}).Select("count(*)"))
	}},
	{text: `Joins("JOIN (?) AS jq ON …",h%d.Table("companies"))`, fam: "arg-subquery", merge: "JOINS", argf: func(db, arg *gorm.DB) *gorm.DB {
		return db.Joins("JOIN (?) AS jq ON jq.id = users.company_id", arg.Table("companies"))
	}},
	{text: `Scopes(func{Where("id IN (?)",h%d.Table("users").Select("id"))})`, fam: "arg-scope", merge: "SCOPES", argf: func(db, arg *gorm.DB) *gorm.DB {
		return db.Scopes(func(tx *gorm.DB) *gorm.DB { return tx.Where("id IN (?)", arg.Table("users").Select("id")) })
	}},
	{text: `Preload("Company",h%d)`, fam: "arg-preload", merge: "", argf: func(db, arg *gorm.DB) *gorm.DB { return db.Preload("Company", arg) }},
	{text: `Clauses(Where{Expr("id IN (?)",h%d)})`, fam: "arg-subquery-handle", merge: "WHERE", argf: func(db, arg *gorm.DB) *gorm.DB {
		return db.Clauses(clause.Where{Exprs: xs[clause.Expression](clause.Expr{SQL: "id IN (?)", Vars: xs[interface{}](arg)})})
	}},
	{text: `Table("(?) AS users",h%d.Model(&User{}))`, fam: "arg-table", merge: "", argf: func(db, arg *gorm.DB) *gorm.DB {
		return db.Table("(?) AS users", arg.Model(&User{}))
	}},
}

// finCallBase + finisher index: a finisher in the middle of a chain - the chain is
// continued linearly on the value the finisher returned (documented use:
// db.Limit(3).Find(&a).Limit(-1).Find(&b); tx.Count(&n) followed by tx.Find(&rows)).
const finCallBase = 5000

// midKinds: the finisher kinds a chain may be continued after (they return the
// executed *gorm.DB itself and do not write).
var midKinds = map[string]bool{"find": true, "first": true, "count": true, "pluck": true, "scan": true}

func def(code int) callDef {
	if code >= finCallBase {
		fd := fins[code-finCallBase]
		return callDef{text: fd.text, fam: "mid-finisher", f: func(db *gorm.DB) *gorm.DB {
			tx, _, pan := safely(fd, db, false, nil)
			if pan != "" || tx == nil {
				return db // a panic inside gorm: the chain goes on from the value it had
			}
			return tx
		}}
	}
	if code < argBase {
		return calls[code]
	}
	d := argCalls[(code-argBase)/10]
	d.arg = (code - argBase) % 10
	d.text = strings.Replace(d.text, "h%d", fmt.Sprintf("h%d", d.arg), 1)
	return d
}

func isOr(code int) bool { f := def(code).fam; return f == "or" || f == "arg-group-or" }

// distinctModifier is a clause that implements gorm.StatementModifier (the arm of
// Clauses / AddClause that hands the statement to user code).
type distinctModifier struct{}

func (distinctModifier) Name() string                      { return "HARNESS_MODIFIER" }
func (distinctModifier) Build(clause.Builder)              {}
func (distinctModifier) MergeClause(*clause.Clause)        {}
func (distinctModifier) ModifyStatement(s *gorm.Statement) { s.Distinct = true }

func col(n string) clause.Column { return clause.Column{Name: n} }

func scopeAge(db *gorm.DB) *gorm.DB   { return db.Where("age > ?", 15) }
func scopeOrder(db *gorm.DB) *gorm.DB { return db.Order("id desc") }
func scopeActive(db *gorm.DB) *gorm.DB {
	return db.Where(map[string]interface{}{"active": true}).Limit(4)
}
func scopeNested(db *gorm.DB) *gorm.DB { return db.Scopes(scopeAge).Or("name = ?", "u4") }

var calls = []callDef{
	// Where
	{text: `Where("age > ?",20)`, fam: "where", merge: "WHERE", f: func(db *gorm.DB) *gorm.DB { return db.Where("age > ?", 20) }},
	{text: `Where("name = ?","u2")`, fam: "where", merge: "WHERE", f: func(db *gorm.DB) *gorm.DB { return db.Where("name = ?", "u2") }},
	{text: `Where("name IN ?",[u1 u3 u5])`, fam: "where", merge: "WHERE", f: func(db *gorm.DB) *gorm.DB { return db.Where("name IN ?", xs("u1", "u3", "u5")) }},
	{text: `Where(map{active:true})`, fam: "where", merge: "WHERE", f: func(db *gorm.DB) *gorm.DB { return db.Where(map[string]interface{}{"active": true}) }},
	{text: `Where(&User{Name:u4})`, fam: "where", merge: "WHERE", f: func(db *gorm.DB) *gorm.DB { return db.Where(&User{Name: "u4"}) }},
	{text: `Where("age < ? OR active = ?",30,false)`, fam: "where", merge: "WHERE", f: func(db *gorm.DB) *gorm.DB { return db.Where("age < ? OR active = ?", 30, false) }},
	{text: `Where(Expr("company_id = ?",1))`, fam: "where", merge: "WHERE", f: func(db *gorm.DB) *gorm.DB { return db.Where(gorm.Expr("company_id = ?", 1)) }},
	{text: `Where("age BETWEEN @lo AND @hi",10,40)`, fam: "where", merge: "WHERE", f: func(db *gorm.DB) *gorm.DB {
		return db.Where("age BETWEEN @lo AND @hi", sql.Named("lo", 10), sql.Named("hi", 40))
	}},
	{text: `Where(IN{id,[1 2 3 6]})`, fam: "where", merge: "WHERE", f: func(db *gorm.DB) *gorm.DB {
		return db.Where(clause.IN{Column: "id", Values: xs[interface{}](1, 2, 3, 6)})
	}},
	{text: `Where("age",20)`, fam: "where", merge: "WHERE", f: func(db *gorm.DB) *gorm.DB { return db.Where("age", 20) }},
	// Or
	{text: `Or("age > ?",40)`, fam: "or", merge: "WHERE", f: func(db *gorm.DB) *gorm.DB { return db.Or("age > ?", 40) }},
	{text: `Or("name = ?","u1")`, fam: "or", merge: "WHERE", f: func(db *gorm.DB) *gorm.DB { return db.Or("name = ?", "u1") }},
	{text: `Or(map{active:false})`, fam: "or", merge: "WHERE", f: func(db *gorm.DB) *gorm.DB { return db.Or(map[string]interface{}{"active": false}) }},
	{text: `Or("age = ? AND active = ?",20,true)`, fam: "or", merge: "WHERE", f: func(db *gorm.DB) *gorm.DB { return db.Or("age = ? AND active = ?", 20, true) }},
	// Not
	{text: `Not("name = ?","u3")`, fam: "not", merge: "WHERE", f: func(db *gorm.DB) *gorm.DB { return db.Not("name = ?", "u3") }},
	{text: `Not(map{name:[u1 u2]})`, fam: "not", merge: "WHERE", f: func(db *gorm.DB) *gorm.DB {
		return db.Not(map[string]interface{}{"name": xs("u1", "u2")})
	}},
	{text: `Not(&User{Age:20})`, fam: "not", merge: "WHERE", f: func(db *gorm.DB) *gorm.DB { return db.Not(&User{Age: 20}) }},
	// Select
	{text: `Select("name")`, fam: "select", merge: "", f: func(db *gorm.DB) *gorm.DB { return db.Select("name") }},
	{text: `Select("id","name")`, fam: "select", merge: "", f: func(db *gorm.DB) *gorm.DB { return db.Select("id", "name") }},
	{text: `Select([id age])`, fam: "select", merge: "", f: func(db *gorm.DB) *gorm.DB { return db.Select(xs("id", "age")) }},
	{text: `Select("name, age")`, fam: "select", merge: "", f: func(db *gorm.DB) *gorm.DB { return db.Select("name, age") }},
	{text: `Select([id],"name","age")`, fam: "select", merge: "", f: func(db *gorm.DB) *gorm.DB { return db.Select(xs("id"), "name", "age") }},
	{text: `Select("*")`, fam: "select", merge: "", f: func(db *gorm.DB) *gorm.DB { return db.Select("*") }},
	{text: `Select("name, age + ? as age",1)`, fam: "select", merge: "", f: func(db *gorm.DB) *gorm.DB { return db.Select("name, age + ? as age", 1) }},
	{text: `Select("count(*) as age, name")`, fam: "select", merge: "", f: func(db *gorm.DB) *gorm.DB { return db.Select("count(*) as age, name") }},
	// Select / Omit spelled with Go field names (resolved per model when the query is built)
	{text: `Select("Name")`, fam: "select", merge: "", f: func(db *gorm.DB) *gorm.DB { return db.Select("Name") }},
	{text: `Select("ID","Name")`, fam: "select", merge: "", f: func(db *gorm.DB) *gorm.DB { return db.Select("ID", "Name") }},
	{text: `Select([Name Age])`, fam: "select", merge: "", f: func(db *gorm.DB) *gorm.DB { return db.Select(xs("Name", "Age")) }},
	{text: `Omit("Name")`, fam: "omit", merge: "", f: func(db *gorm.DB) *gorm.DB { return db.Omit("Name") }},
	{text: `Omit("Name","CompanyID")`, fam: "omit", merge: "", f: func(db *gorm.DB) *gorm.DB { return db.Omit("Name", "CompanyID") }},
	// Omit
	{text: `Omit("age")`, fam: "omit", merge: "", f: func(db *gorm.DB) *gorm.DB { return db.Omit("age") }},
	{text: `Omit("name","active")`, fam: "omit", merge: "", f: func(db *gorm.DB) *gorm.DB { return db.Omit("name", "active") }},
	{text: `Omit("age,active")`, fam: "omit", merge: "", f: func(db *gorm.DB) *gorm.DB { return db.Omit("age,active") }},
	// Order
	{text: `Order("age desc")`, fam: "order", merge: "ORDER", f: func(db *gorm.DB) *gorm.DB { return db.Order("age desc") }},
	{text: `Order("name")`, fam: "order", merge: "ORDER", f: func(db *gorm.DB) *gorm.DB { return db.Order("name") }},
	{text: `Order("id")`, fam: "order", merge: "ORDER", f: func(db *gorm.DB) *gorm.DB { return db.Order("id") }},
	{text: `Order("active, id desc")`, fam: "order", merge: "ORDER", f: func(db *gorm.DB) *gorm.DB { return db.Order("active, id desc") }},
	{text: `Order(Column{company_id desc})`, fam: "order", merge: "ORDER", f: func(db *gorm.DB) *gorm.DB {
		return db.Order(clause.OrderByColumn{Column: col("company_id"), Desc: true})
	}},
	{text: `Order(OrderBy{[name desc,age]})`, fam: "order", merge: "ORDER", f: func(db *gorm.DB) *gorm.DB {
		return db.Order(clause.OrderBy{Columns: xs(clause.OrderByColumn{Column: col("name"), Desc: true}, clause.OrderByColumn{Column: col("age")})})
	}},
	{text: `Order(Column{id reorder})`, fam: "order", merge: "ORDER", f: func(db *gorm.DB) *gorm.DB {
		return db.Order(clause.OrderByColumn{Column: col("id"), Reorder: true})
	}},
	// Limit / Offset
	{text: `Limit(1)`, fam: "limit", merge: "", f: func(db *gorm.DB) *gorm.DB { return db.Limit(1) }},
	{text: `Limit(3)`, fam: "limit", merge: "", f: func(db *gorm.DB) *gorm.DB { return db.Limit(3) }},
	{text: `Limit(-1)`, fam: "limit", merge: "", f: func(db *gorm.DB) *gorm.DB { return db.Limit(-1) }},
	{text: `Offset(1)`, fam: "offset", merge: "", f: func(db *gorm.DB) *gorm.DB { return db.Offset(1) }},
	{text: `Offset(2)`, fam: "offset", merge: "", f: func(db *gorm.DB) *gorm.DB { return db.Offset(2) }},
	{text: `Offset(-1)`, fam: "offset", merge: "", f: func(db *gorm.DB) *gorm.DB { return db.Offset(-1) }},
	// Group / Having
	{text: `Group("name")`, fam: "group", merge: "GROUP", f: func(db *gorm.DB) *gorm.DB { return db.Group("name") }},
	{text: `Group("active")`, fam: "group", merge: "GROUP", f: func(db *gorm.DB) *gorm.DB { return db.Group("active") }},
	{text: `Group("company_id")`, fam: "group", merge: "GROUP", f: func(db *gorm.DB) *gorm.DB { return db.Group("company_id") }},
	{text: `Group("age")`, fam: "group", merge: "GROUP", f: func(db *gorm.DB) *gorm.DB { return db.Group("age") }},
	{text: `Having("count(*) > ?",0)`, fam: "having", merge: "GROUP", f: func(db *gorm.DB) *gorm.DB { return db.Having("count(*) > ?", 0) }},
	{text: `Having("max(age) > ?",10)`, fam: "having", merge: "GROUP", f: func(db *gorm.DB) *gorm.DB { return db.Having("max(age) > ?", 10) }},
	{text: `Having("min(id) < ?",6)`, fam: "having", merge: "GROUP", f: func(db *gorm.DB) *gorm.DB { return db.Having("min(id) < ?", 6) }},
	// Joins
	{text: `Joins("Company")`, fam: "joins", merge: "JOINS", f: func(db *gorm.DB) *gorm.DB { return db.Joins("Company") }},
	{text: `InnerJoins("Company")`, fam: "joins", merge: "JOINS", f: func(db *gorm.DB) *gorm.DB { return db.InnerJoins("Company") }},
	{text: `Joins("JOIN companies j1 …",c1)`, fam: "joins", merge: "JOINS", f: func(db *gorm.DB) *gorm.DB {
		return db.Joins("JOIN companies j1 ON j1.id = users.company_id AND j1.name = ?", "c1")
	}},
	{text: `Joins("LEFT JOIN companies j2 …")`, fam: "joins", merge: "JOINS", f: func(db *gorm.DB) *gorm.DB {
		return db.Joins("LEFT JOIN companies j2 ON j2.id = users.company_id")
	}},
	{text: `Joins("LEFT JOIN companies j3 …",0)`, fam: "joins", merge: "JOINS", f: func(db *gorm.DB) *gorm.DB {
		return db.Joins("LEFT JOIN companies j3 ON j3.id = users.company_id AND j3.id > ?", 0)
	}},
	{text: `Joins("JOIN companies j4 …")`, fam: "joins", merge: "JOINS", f: func(db *gorm.DB) *gorm.DB {
		return db.Joins("JOIN companies j4 ON j4.id = users.company_id")
	}},
	{text: `Unscoped().Joins("Company")`, fam: "joins", merge: "JOINS", f: func(db *gorm.DB) *gorm.DB { return db.Unscoped().Joins("Company") }},
	{text: `Unscoped().InnerJoins("Company")`, fam: "joins", merge: "JOINS", f: func(db *gorm.DB) *gorm.DB { return db.Unscoped().InnerJoins("Company") }},
	// Distinct / Unscoped
	{text: `Distinct()`, fam: "distinct", merge: "", f: func(db *gorm.DB) *gorm.DB { return db.Distinct() }},
	{text: `Distinct("name")`, fam: "distinct", merge: "", f: func(db *gorm.DB) *gorm.DB { return db.Distinct("name") }},
	{text: `Distinct("name","age")`, fam: "distinct", merge: "", f: func(db *gorm.DB) *gorm.DB { return db.Distinct("name", "age") }},
	{text: `Unscoped()`, fam: "unscoped", merge: "", f: func(db *gorm.DB) *gorm.DB { return db.Unscoped() }},
	// Scopes
	{text: `Scopes(age)`, fam: "scopes", merge: "SCOPES", f: func(db *gorm.DB) *gorm.DB { return db.Scopes(scopeAge) }},
	{text: `Scopes(order)`, fam: "scopes", merge: "SCOPES", f: func(db *gorm.DB) *gorm.DB { return db.Scopes(scopeOrder) }},
	{text: `Scopes(active,order)`, fam: "scopes", merge: "SCOPES", f: func(db *gorm.DB) *gorm.DB { return db.Scopes(xs(scopeActive, scopeOrder)...) }},
	{text: `Scopes(nested)`, fam: "scopes", merge: "SCOPES", f: func(db *gorm.DB) *gorm.DB { return db.Scopes(scopeNested) }},
	// Clauses(Returning)
	{text: `Clauses(Returning{id})`, fam: "returning", merge: "RETURNING", f: func(db *gorm.DB) *gorm.DB { return db.Clauses(clause.Returning{Columns: xs(col("id"))}) }},
	{text: `Clauses(Returning{name})`, fam: "returning", merge: "RETURNING", f: func(db *gorm.DB) *gorm.DB { return db.Clauses(clause.Returning{Columns: xs(col("name"))}) }},
	{text: `Clauses(Returning{age})`, fam: "returning", merge: "RETURNING", f: func(db *gorm.DB) *gorm.DB { return db.Clauses(clause.Returning{Columns: xs(col("age"))}) }},
	{text: `Clauses(Returning{active})`, fam: "returning", merge: "RETURNING", f: func(db *gorm.DB) *gorm.DB { return db.Clauses(clause.Returning{Columns: xs(col("active"))}) }},
	{text: `Clauses(Returning{company_id})`, fam: "returning", merge: "RETURNING", f: func(db *gorm.DB) *gorm.DB {
		return db.Clauses(clause.Returning{Columns: xs(col("company_id"))})
	}},
	{text: `Clauses(Returning{id,name})`, fam: "returning", merge: "RETURNING", f: func(db *gorm.DB) *gorm.DB {
		return db.Clauses(clause.Returning{Columns: xs(col("id"), col("name"))})
	}},
	{text: `Clauses(Returning{})`, fam: "returning", merge: "RETURNING", f: func(db *gorm.DB) *gorm.DB { return db.Clauses(clause.Returning{}) }},
	// Clauses(OrderBy)
	{text: `Clauses(OrderBy{age})`, fam: "corder", merge: "ORDER", f: func(db *gorm.DB) *gorm.DB {
		return db.Clauses(clause.OrderBy{Columns: xs(clause.OrderByColumn{Column: col("age")})})
	}},
	{text: `Clauses(OrderBy{name desc,id})`, fam: "corder", merge: "ORDER", f: func(db *gorm.DB) *gorm.DB {
		return db.Clauses(clause.OrderBy{Columns: xs(clause.OrderByColumn{Column: col("name"), Desc: true}, clause.OrderByColumn{Column: col("id")})})
	}},
	{text: `Clauses(OrderBy{Expr id = ? desc})`, fam: "corder", merge: "ORDER", f: func(db *gorm.DB) *gorm.DB {
		return db.Clauses(clause.OrderBy{Expression: clause.Expr{SQL: "id = ? desc", Vars: xs[interface{}](3)}})
	}},
	// Clauses(Locking)
	{text: `Clauses(Locking{UPDATE})`, fam: "locking", merge: "", f: func(db *gorm.DB) *gorm.DB { return db.Clauses(clause.Locking{Strength: "UPDATE"}) }},
	{text: `Clauses(Locking{SHARE NOWAIT})`, fam: "locking", merge: "", f: func(db *gorm.DB) *gorm.DB {
		return db.Clauses(clause.Locking{Strength: "SHARE", Options: "NOWAIT"})
	}},
	// Clauses(OnConflict)
	{text: `Clauses(OnConflict{DoNothing})`, fam: "onconflict", merge: "", f: func(db *gorm.DB) *gorm.DB { return db.Clauses(clause.OnConflict{DoNothing: true}) }},
	{text: `Clauses(OnConflict{id→name})`, fam: "onconflict", merge: "", f: func(db *gorm.DB) *gorm.DB {
		return db.Clauses(clause.OnConflict{Columns: xs(col("id")), DoUpdates: clause.AssignmentColumns(xs("name"))})
	}},
	{text: `Clauses(OnConflict{UpdateAll})`, fam: "onconflict", merge: "", f: func(db *gorm.DB) *gorm.DB { return db.Clauses(clause.OnConflict{UpdateAll: true}) }},
	// Clauses(other merging clauses)
	{text: `Clauses(Where{age>=20,id<6})`, fam: "cwhere", merge: "WHERE", f: func(db *gorm.DB) *gorm.DB {
		return db.Clauses(clause.Where{Exprs: xs[clause.Expression](clause.Gte{Column: "age", Value: 20}, clause.Lt{Column: "id", Value: 6})})
	}},
	{text: `Clauses(Eq{active,true})`, fam: "cwhere", merge: "WHERE", f: func(db *gorm.DB) *gorm.DB { return db.Clauses(clause.Eq{Column: "active", Value: true}) }},
	{text: `Clauses(GroupBy{name;having count>0})`, fam: "cgroup", merge: "GROUP", f: func(db *gorm.DB) *gorm.DB {
		return db.Clauses(clause.GroupBy{Columns: xs(col("name")), Having: xs[clause.Expression](clause.Expr{SQL: "count(*) > ?", Vars: xs[interface{}](0)})})
	}},
	{text: `Clauses(Limit{2})`, fam: "climit", merge: "", f: func(db *gorm.DB) *gorm.DB { n := 2; return db.Clauses(clause.Limit{Limit: &n}) }},
	// Preload (a map entry per name on the statement)
	{text: `Preload("Company")`, fam: "preload", merge: "", f: func(db *gorm.DB) *gorm.DB { return db.Preload("Company") }},
	{text: `Preload("Company","name = ?","c1")`, fam: "preload", merge: "", f: func(db *gorm.DB) *gorm.DB { return db.Preload("Company", "name = ?", "c1") }},
	{text: `Preload(Associations)`, fam: "preload", merge: "", f: func(db *gorm.DB) *gorm.DB { return db.Preload(clause.Associations) }},
	// value forms of conditions
	{text: `Where([1 2 6])`, fam: "where", merge: "WHERE", f: func(db *gorm.DB) *gorm.DB { return db.Where(xs(1, 2, 6)) }},
	{text: `Where(User{Name:u1,Age:20})`, fam: "where", merge: "WHERE", f: func(db *gorm.DB) *gorm.DB { return db.Where(User{Name: "u1", Age: 20}) }},
	{text: `Where(&User{Name:u1},"name","Age")`, fam: "where", merge: "WHERE", f: func(db *gorm.DB) *gorm.DB { return db.Where(&User{Name: "u1"}, "name", "Age") }},
	{text: `Where(map 5 keys)`, fam: "where", merge: "WHERE", f: func(db *gorm.DB) *gorm.DB {
		// more conditions than BuildCondition preallocates room for (4)
		return db.Where(map[string]interface{}{"active": true, "age": 20, "company_id": 1, "id": 1, "name": "u1"})
	}},
	{text: `Where("id IN ?",10 values)`, fam: "where", merge: "WHERE", f: func(db *gorm.DB) *gorm.DB {
		// more bound values than a new statement preallocates room for (8)
		return db.Where("id IN ?", xs(1, 2, 3, 4, 5, 6, 7, 8, 9, 10))
	}},
	{text: `Not([3 4])`, fam: "not", merge: "WHERE", f: func(db *gorm.DB) *gorm.DB { return db.Not(xs(3, 4)) }},
	{text: `Or(&User{Name:u3})`, fam: "or", merge: "WHERE", f: func(db *gorm.DB) *gorm.DB { return db.Or(&User{Name: "u3"}) }},
	{text: `Having(Expr("count(*) < ?",9))`, fam: "having", merge: "GROUP", f: func(db *gorm.DB) *gorm.DB { return db.Having(gorm.Expr("count(*) < ?", 9)) }},
	{text: `Order("")`, fam: "order", merge: "ORDER", f: func(db *gorm.DB) *gorm.DB { return db.Order("") }},
	{text: `Select("name","age > ?",?)`, fam: "select", merge: "", f: func(db *gorm.DB) *gorm.DB { return db.Select("name, age > @a as active", sql.Named("a", 25)) }},
	// Attrs / Assign (read by FirstOrInit / FirstOrCreate)
	{text: `Attrs(User{Age:77})`, fam: "attrs", merge: "", f: func(db *gorm.DB) *gorm.DB { return db.Attrs(User{Age: 77}) }},
	{text: `Attrs("age",78)`, fam: "attrs", merge: "", f: func(db *gorm.DB) *gorm.DB { return db.Attrs("age", 78) }},
	{text: `Assign(map{active:true})`, fam: "assign", merge: "", f: func(db *gorm.DB) *gorm.DB { return db.Assign(map[string]interface{}{"active": true}) }},
	{text: `Assign(User{Age:79})`, fam: "assign", merge: "", f: func(db *gorm.DB) *gorm.DB { return db.Assign(User{Age: 79}) }},
	// MapColumns / Set / InstanceSet
	{text: `MapColumns(map{name:nick})`, fam: "mapcolumns", merge: "", f: func(db *gorm.DB) *gorm.DB { return db.MapColumns(map[string]string{"name": "nick"}) }},
	{text: `Set("gorm:update_track_time",true)`, fam: "set", merge: "", f: func(db *gorm.DB) *gorm.DB { return db.Set("gorm:update_track_time", true) }},
	{text: `Set("k",1)`, fam: "set", merge: "", f: func(db *gorm.DB) *gorm.DB { return db.Set("k", 1) }},
	{text: `InstanceSet("k",2)`, fam: "set", merge: "", f: func(db *gorm.DB) *gorm.DB { return db.InstanceSet("k", 2) }},
	// Preload with a function / inline conditions
	{text: `Preload("Company",func)`, fam: "preload", merge: "", f: func(db *gorm.DB) *gorm.DB {
		return db.Preload("Company", func(tx *gorm.DB) *gorm.DB { return tx.Where("name <> ?", "c2") })
	}},
	// more clause types through Clauses
	{text: `Clauses(From{users JOIN companies f1})`, fam: "cfrom", merge: "", f: func(db *gorm.DB) *gorm.DB {
		return db.Clauses(clause.From{Joins: xs(clause.Join{Type: clause.LeftJoin, Table: clause.Table{Name: "companies", Alias: "f1"},
			ON: clause.Where{Exprs: xs[clause.Expression](clause.Expr{SQL: "f1.id = users.company_id"})}})})
	}},
	{text: `Clauses(Insert{OR IGNORE})`, fam: "cinsert", merge: "", f: func(db *gorm.DB) *gorm.DB { return db.Clauses(clause.Insert{Modifier: "OR IGNORE"}) }},
	{text: `Clauses(Select{name,age})`, fam: "cselect", merge: "", f: func(db *gorm.DB) *gorm.DB {
		return db.Clauses(clause.Select{Columns: xs(col("name"), col("age"))})
	}},
	{text: `Clauses(Limit{Offset:1})`, fam: "climit", merge: "", f: func(db *gorm.DB) *gorm.DB { return db.Clauses(clause.Limit{Offset: 1}) }},
	{text: `Clauses(Returning{id},OrderBy{id},Expr)`, fam: "cmulti", merge: "RETURNING", f: func(db *gorm.DB) *gorm.DB {
		return db.Clauses(clause.Returning{Columns: xs(col("id"))}, clause.OrderBy{Columns: xs(clause.OrderByColumn{Column: col("id")})}, clause.Expr{SQL: "age <> ?", Vars: xs[interface{}](99)})
	}},
	{text: `Distinct("name",[age])`, fam: "distinct", merge: "", f: func(db *gorm.DB) *gorm.DB { return db.Distinct("name", xs("age")) }},
	{text: `Table("users u")`, fam: "table", merge: "", f: func(db *gorm.DB) *gorm.DB { return db.Table("users u") }},
	{text: `Table("main.users")`, fam: "table", merge: "", f: func(db *gorm.DB) *gorm.DB { return db.Table("main.users") }},
	{text: `Table("")`, fam: "table", merge: "", f: func(db *gorm.DB) *gorm.DB { return db.Table("") }},
	{text: `Model(&[]User{{ID:1},{ID:3}})`, fam: "model", merge: "", f: func(db *gorm.DB) *gorm.DB { return db.Model(&[]User{{ID: 1}, {ID: 3}}) }},
	{text: `Limit(0)`, fam: "limit", merge: "", f: func(db *gorm.DB) *gorm.DB { return db.Limit(0) }},
	{text: `Offset(0)`, fam: "offset", merge: "", f: func(db *gorm.DB) *gorm.DB { return db.Offset(0) }},
	// remaining type-switch arms of Where / Select / Order / Clauses / Table and bound value forms
	{text: `Where("2")`, fam: "where", merge: "WHERE", f: func(db *gorm.DB) *gorm.DB { return db.Where("2") }},
	{text: `Where(map[string]string{name:u2})`, fam: "where", merge: "WHERE", f: func(db *gorm.DB) *gorm.DB { return db.Where(map[string]string{"name": "u2"}) }},
	{text: `Where(map[interface{}]interface{}{age:20})`, fam: "where", merge: "WHERE", f: func(db *gorm.DB) *gorm.DB {
		return db.Where(map[interface{}]interface{}{"age": 20})
	}},
	{text: `Where([]User{{ID:1},{ID:2}})`, fam: "where", merge: "WHERE", f: func(db *gorm.DB) *gorm.DB { return db.Where(xs(User{ID: 1}, User{ID: 2})) }},
	{text: `Where("name = ?",[]byte(u1))`, fam: "where", merge: "WHERE", f: func(db *gorm.DB) *gorm.DB { return db.Where("name = ?", []byte("u1")) }},
	{text: `Where("id IN ?",[]interface{}{1,2})`, fam: "where", merge: "WHERE", f: func(db *gorm.DB) *gorm.DB { return db.Where("id IN ?", xs[interface{}](1, 2)) }},
	{text: `Where("name = ?",NullString{u3})`, fam: "where", merge: "WHERE", f: func(db *gorm.DB) *gorm.DB {
		return db.Where("name = ?", sql.NullString{String: "u3", Valid: true})
	}},
	{text: `Where("? > ?",Column{age},25)`, fam: "where", merge: "WHERE", f: func(db *gorm.DB) *gorm.DB { return db.Where("? > ?", col("age"), 25) }},
	{text: `Select("name",[age])`, fam: "select", merge: "", f: func(db *gorm.DB) *gorm.DB { return db.Select("name", xs("age")) }},
	{text: `Select(123)`, fam: "select", merge: "", f: func(db *gorm.DB) *gorm.DB { return db.Select(123) }},
	{text: `Order(123)`, fam: "order", merge: "ORDER", f: func(db *gorm.DB) *gorm.DB { return db.Order(123) }},
	{text: `Clauses(StatementModifier)`, fam: "cmodifier", merge: "", f: func(db *gorm.DB) *gorm.DB { return db.Clauses(distinctModifier{}) }},
	{text: `Clauses(Update{OR IGNORE})`, fam: "cinsert", merge: "", f: func(db *gorm.DB) *gorm.DB { return db.Clauses(clause.Update{Modifier: "OR IGNORE"}) }},
	{text: `Clauses(Delete{Modifier})`, fam: "cinsert", merge: "", f: func(db *gorm.DB) *gorm.DB { return db.Clauses(clause.Delete{Modifier: "/* d */"}) }},
	{text: `Table("users AS u WHERE ?",…)`, fam: "table", merge: "", f: func(db *gorm.DB) *gorm.DB { return db.Table("(SELECT * FROM users WHERE age > ?) AS users", 10) }},
	{text: `Session{Initialized}`, fam: "session-init", merge: "", f: func(db *gorm.DB) *gorm.DB { return db.Session(&gorm.Session{Initialized: true}) }},
	// Raw as a chain method: the statement carries SQL text + Vars
	{text: `Raw("SELECT * FROM users WHERE age > ?",30)`, fam: "raw", merge: "", f: func(db *gorm.DB) *gorm.DB {
		return db.Raw("SELECT * FROM users WHERE age > ?", 30)
	}},
	{text: `Raw("… name = @n OR id IN ?",…)`, fam: "raw", merge: "", f: func(db *gorm.DB) *gorm.DB {
		return db.Raw("SELECT * FROM users WHERE name = @n", sql.Named("n", "u2"))
	}},
	// Table / Model
	{text: `Table("users")`, fam: "table", merge: "", f: func(db *gorm.DB) *gorm.DB { return db.Table("users") }},
	{text: `Table("users AS u")`, fam: "table", merge: "", f: func(db *gorm.DB) *gorm.DB { return db.Table("users AS u") }},
	{text: `Table("companies")`, fam: "table", merge: "", f: func(db *gorm.DB) *gorm.DB { return db.Table("companies") }},
	{text: `Model(&User{})`, fam: "model", merge: "", f: func(db *gorm.DB) *gorm.DB { return db.Model(&User{}) }},
	{text: `Model(&User{ID:2})`, fam: "model", merge: "", f: func(db *gorm.DB) *gorm.DB { return db.Model(&User{ID: 2}) }},
	{text: `Model(&Company{})`, fam: "model", merge: "", f: func(db *gorm.DB) *gorm.DB { return db.Model(&Company{}) }},
	{text: `Model(&Toy{})`, fam: "model", merge: "", f: func(db *gorm.DB) *gorm.DB { return db.Model(&Toy{}) }},
	{text: `Table("toys")`, fam: "table", merge: "", f: func(db *gorm.DB) *gorm.DB { return db.Table("toys") }},
	// Session{Initialized: true, ...}: returns an initialised (clone == 0) value, i.e. the
	// chain simply continues on it; the handle / chain it is called on must not change
	{text: `Session{Initialized,SkipHooks}`, fam: "session-init", merge: "", f: func(db *gorm.DB) *gorm.DB {
		return db.Session(&gorm.Session{Initialized: true, SkipHooks: true})
	}},
	{text: `Session{Initialized,Context}`, fam: "session-init", merge: "", f: func(db *gorm.DB) *gorm.DB {
		return db.Session(&gorm.Session{Initialized: true, Context: context.WithValue(context.Background(), ctxKey{}, "init")})
	}},
	{text: `Session{Initialized,PrepareStmt}`, fam: "session-init", merge: "", f: func(db *gorm.DB) *gorm.DB {
		return db.Session(&gorm.Session{Initialized: true, PrepareStmt: true})
	}},
	{text: `Session{Initialized,SkipHooks,Context}`, fam: "session-init", merge: "", f: func(db *gorm.DB) *gorm.DB {
		return db.Session(&gorm.Session{Initialized: true, SkipHooks: true, Context: context.WithValue(context.Background(), ctxKey{}, "init2")})
	}},
}

var (
	byFam      = map[string][]int{}
	famNames   []string
	byMerge    = map[string][]int{}
	mergeNames []string
	callIndex  = map[string]int{}
)

func init() {
	for i, c := range calls {
		if _, dup := callIndex[c.text]; dup {
			panic("duplicate call text " + c.text)
		}
		callIndex[c.text] = i
		if _, ok := byFam[c.fam]; !ok {
			famNames = append(famNames, c.fam)
		}
		byFam[c.fam] = append(byFam[c.fam], i)
		if c.merge != "" {
			if _, ok := byMerge[c.merge]; !ok {
				mergeNames = append(mergeNames, c.merge)
			}
			byMerge[c.merge] = append(byMerge[c.merge], i)
		}
	}
	sort.Strings(famNames)
	// the generator draws a family first: Select / Omit / Model / Table / Session{Initialized} count
	// twice (their state is shared by slice header / pointer between a handle and its chains)
	famNames = append(famNames, "select", "omit", "model", "table", "session-init")
	sort.Strings(mergeNames)
	for i, f := range fins {
		if _, dup := finIndex[f.text]; dup {
			panic("duplicate finisher text " + f.text)
		}
		finIndex[f.text] = i
	}
	for i, h := range hows {
		howIndex[h.text] = i
	}
	for i, f := range fins {
		if _, ok := finsByKind[f.kind]; !ok {
			finKinds = append(finKinds, f.kind)
		}
		if !f.write && !hasRead[f.kind] {
			hasRead[f.kind] = true
			readKinds = append(readKinds, f.kind)
		}
		finsByKind[f.kind] = append(finsByKind[f.kind], i)
	}
}

// ---- catalogue of finishers ------------------------------------------------------------------

type finDef struct {
	text  string
	kind  string
	write bool
	needs bool // needs a Model/Table call on the chain (the destination names no table)
	// f runs the finisher and returns the resulting *gorm.DB and the destination(s) to render
	f func(db *gorm.DB) (*gorm.DB, interface{})
	// finishers that take a reusable handle of the tree as argument (codes >= argBase, see argFins)
	argf func(db, arg *gorm.DB) (*gorm.DB, interface{})
	arg  int
}

// argFins: finisher code = argBase + 10*index + handle id.
var argFins = []finDef{
	{text: `Find(&[]User,h%d)`, kind: "arg-finisher", argf: func(db, arg *gorm.DB) (*gorm.DB, interface{}) { var d []User; return db.Find(&d, arg), &d }},
	{text: `First(&User,h%d)`, kind: "arg-finisher", argf: func(db, arg *gorm.DB) (*gorm.DB, interface{}) { var d User; return db.First(&d, arg), &d }},
	{text: `Delete(&User{},h%d)`, kind: "arg-finisher", write: true, argf: func(db, arg *gorm.DB) (*gorm.DB, interface{}) {
		d := &User{}
		return db.Delete(d, arg), d
	}},
	{text: `Model(&User{}).Update("age",h%d.Model(&User{}).Select("max(age)"))`, kind: "arg-finisher", write: true, argf: func(db, arg *gorm.DB) (*gorm.DB, interface{}) {
		m := &User{}
		return db.Model(m).Update("age", arg.Model(&User{}).Select("max(age)")), m
	}},
	{text: `Model(&User{}).Where("id IN (?)",h%d.Table("users").Select("id")).Count`, kind: "arg-finisher", argf: func(db, arg *gorm.DB) (*gorm.DB, interface{}) {
		var n int64
		return db.Model(&User{}).Where("id IN (?)", arg.Table("users").Select("id")).Count(&n), &n
	}},
}

func finOf(code int) finDef {
	if code < argBase {
		return fins[code]
	}
	d := argFins[(code-argBase)/10]
	d.arg = (code - argBase) % 10
	d.text = strings.Replace(d.text, "h%d", fmt.Sprintf("h%d", d.arg), 1)
	return d
}

// run calls the finisher; res resolves a handle argument in the current environment.
func (fd finDef) run(db *gorm.DB, dry bool, res func(id int) pair) (*gorm.DB, interface{}) {
	if fd.argf != nil {
		a := res(fd.arg)
		if dry {
			return fd.argf(db, a.d)
		}
		return fd.argf(db, a.l)
	}
	return fd.f(db)
}

var fins = []finDef{
	{text: `Find(&[]User)`, kind: "find", write: false, needs: false, f: func(db *gorm.DB) (*gorm.DB, interface{}) { var d []User; return db.Find(&d), &d }},
	{text: `Find(&[]User,"age > ?",25)`, kind: "find", write: false, needs: false, f: func(db *gorm.DB) (*gorm.DB, interface{}) { var d []User; return db.Find(&d, "age > ?", 25), &d }},
	{text: `Find(&[]User,[1 2 6])`, kind: "find", write: false, needs: false, f: func(db *gorm.DB) (*gorm.DB, interface{}) { var d []User; return db.Find(&d, xs(1, 2, 6)), &d }},
	{text: `Find(&[]Company)`, kind: "find", write: false, needs: false, f: func(db *gorm.DB) (*gorm.DB, interface{}) { var d []Company; return db.Find(&d), &d }},
	{text: `Find(&[]map)`, kind: "find", write: false, needs: true, f: func(db *gorm.DB) (*gorm.DB, interface{}) { var d []map[string]interface{}; return db.Find(&d), &d }},
	{text: `Find(&[]nameAge)`, kind: "find", write: false, needs: true, f: func(db *gorm.DB) (*gorm.DB, interface{}) { var d []nameAge; return db.Find(&d), &d }},
	{text: `First(&User)`, kind: "first", write: false, needs: false, f: func(db *gorm.DB) (*gorm.DB, interface{}) { var d User; return db.First(&d), &d }},
	{text: `First(&User,2)`, kind: "first", write: false, needs: false, f: func(db *gorm.DB) (*gorm.DB, interface{}) { var d User; return db.First(&d, 2), &d }},
	{text: `Take(&User)`, kind: "first", write: false, needs: false, f: func(db *gorm.DB) (*gorm.DB, interface{}) { var d User; return db.Take(&d), &d }},
	{text: `Last(&User)`, kind: "first", write: false, needs: false, f: func(db *gorm.DB) (*gorm.DB, interface{}) { var d User; return db.Last(&d), &d }},
	{text: `Last(&Company)`, kind: "first", write: false, needs: false, f: func(db *gorm.DB) (*gorm.DB, interface{}) { var d Company; return db.Last(&d), &d }},
	{text: `Count`, kind: "count", write: false, needs: true, f: func(db *gorm.DB) (*gorm.DB, interface{}) { var n int64; return db.Count(&n), &n }},
	{text: `Pluck("name")`, kind: "pluck", write: false, needs: true, f: func(db *gorm.DB) (*gorm.DB, interface{}) { var d []string; return db.Pluck("name", &d), &d }},
	{text: `Pluck("id")`, kind: "pluck", write: false, needs: true, f: func(db *gorm.DB) (*gorm.DB, interface{}) { var d []int64; return db.Pluck("id", &d), &d }},
	{text: `Pluck("age")`, kind: "pluck", write: false, needs: true, f: func(db *gorm.DB) (*gorm.DB, interface{}) { var d []int; return db.Pluck("age", &d), &d }},
	{text: `Scan(&[]nameAge)`, kind: "scan", write: false, needs: true, f: func(db *gorm.DB) (*gorm.DB, interface{}) { var d []nameAge; return db.Scan(&d), &d }},
	// writes
	{text: `Updates(map{age:55})`, kind: "update", write: true, needs: true, f: func(db *gorm.DB) (*gorm.DB, interface{}) {
		return db.Updates(map[string]interface{}{"age": 55}), nil
	}},
	{text: `Updates(map{active:false,name:"w"})`, kind: "update", write: true, needs: true, f: func(db *gorm.DB) (*gorm.DB, interface{}) {
		return db.Updates(map[string]interface{}{"name": "w", "active": false}), nil
	}},
	{text: `Updates(User{Name:x,Age:9})`, kind: "update", write: true, needs: true, f: func(db *gorm.DB) (*gorm.DB, interface{}) { return db.Updates(User{Name: "x", Age: 9}), nil }},
	{text: `Updates(&User{ID:3,Name:y})`, kind: "update", write: true, needs: false, f: func(db *gorm.DB) (*gorm.DB, interface{}) {
		d := &User{ID: 3, Name: "y"}
		return db.Updates(d), d
	}},
	{text: `Update("name","z")`, kind: "update", write: true, needs: true, f: func(db *gorm.DB) (*gorm.DB, interface{}) { return db.Update("name", "z"), nil }},
	{text: `UpdateColumn("age",Expr(age+?,1))`, kind: "update", write: true, needs: true, f: func(db *gorm.DB) (*gorm.DB, interface{}) {
		return db.UpdateColumn("age", gorm.Expr("age + ?", 1)), nil
	}},
	{text: `Delete(&User{})`, kind: "delete", write: true, needs: false, f: func(db *gorm.DB) (*gorm.DB, interface{}) { d := &User{}; return db.Delete(d), d }},
	{text: `Delete(&User{},3)`, kind: "delete", write: true, needs: false, f: func(db *gorm.DB) (*gorm.DB, interface{}) { d := &User{}; return db.Delete(d, 3), d }},
	{text: `Delete(&User{ID:2})`, kind: "delete", write: true, needs: false, f: func(db *gorm.DB) (*gorm.DB, interface{}) { d := &User{ID: 2}; return db.Delete(d), d }},
	{text: `Delete(&[]User)`, kind: "delete", write: true, needs: false, f: func(db *gorm.DB) (*gorm.DB, interface{}) { var d []User; return db.Delete(&d), &d }},
	{text: `Create(&User{n})`, kind: "create", write: true, needs: false, f: func(db *gorm.DB) (*gorm.DB, interface{}) {
		d := &User{Name: "n", Age: 7, CompanyID: 1}
		return db.Create(d), d
	}},
	{text: `Create(&User{ID:1})`, kind: "create", write: true, needs: false, f: func(db *gorm.DB) (*gorm.DB, interface{}) {
		d := &User{ID: 1, Name: "dup", Age: 8, CompanyID: 2}
		return db.Create(d), d
	}},
	{text: `Create(&[]User{a,b})`, kind: "create", write: true, needs: false, f: func(db *gorm.DB) (*gorm.DB, interface{}) {
		d := xs(User{Name: "a", Age: 1, CompanyID: 1}, User{Name: "b", Age: 2, CompanyID: 2})
		return db.Create(&d), &d
	}},
	{text: `Create(map{name:m})`, kind: "create", write: true, needs: true, f: func(db *gorm.DB) (*gorm.DB, interface{}) {
		return db.Create(map[string]interface{}{"name": "m", "age": 3}), nil
	}},
	{text: `Save(&User{ID:4})`, kind: "save", write: true, needs: false, f: func(db *gorm.DB) (*gorm.DB, interface{}) {
		d := &User{ID: 4, Name: "s", Age: 44, CompanyID: 1}
		return db.Save(d), d
	}},
	{text: `Find(&[]Toy)`, kind: "find", write: false, needs: false, f: func(db *gorm.DB) (*gorm.DB, interface{}) { var d []Toy; return db.Find(&d), &d }},
	{text: `First(&Toy)`, kind: "first", write: false, needs: false, f: func(db *gorm.DB) (*gorm.DB, interface{}) { var d Toy; return db.First(&d), &d }},
	{text: `Model(&Toy{}).Pluck("Name")`, kind: "pluck", write: false, needs: false, f: func(db *gorm.DB) (*gorm.DB, interface{}) {
		var d []string
		return db.Model(&Toy{}).Pluck("Name", &d), &d
	}},
	{text: `Table("toys").Find(&[]map)`, kind: "find", write: false, needs: false, f: func(db *gorm.DB) (*gorm.DB, interface{}) {
		var d []map[string]interface{}
		return db.Table("toys").Find(&d), &d
	}},
	// ---- further finishers / entry points -------------------------------------------------
	{text: `Find(&User)`, kind: "find", write: false, needs: false, f: func(db *gorm.DB) (*gorm.DB, interface{}) { var d User; return db.Find(&d), &d }},
	{text: `Find(&[]*User)`, kind: "find", write: false, needs: false, f: func(db *gorm.DB) (*gorm.DB, interface{}) { var d []*User; return db.Find(&d), &d }},
	{text: `Find(&[3]User)`, kind: "find", write: false, needs: false, f: func(db *gorm.DB) (*gorm.DB, interface{}) { var d [3]User; return db.Find(&d), &d }},
	{text: `First(&map)`, kind: "first", write: false, needs: true, f: func(db *gorm.DB) (*gorm.DB, interface{}) { d := map[string]interface{}{}; return db.First(&d), &d }},
	{text: `Take(&User,"age > ?",35)`, kind: "first", write: false, needs: false, f: func(db *gorm.DB) (*gorm.DB, interface{}) { var d User; return db.Take(&d, "age > ?", 35), &d }},
	{text: `Last(&User,map{active:true})`, kind: "first", write: false, needs: false, f: func(db *gorm.DB) (*gorm.DB, interface{}) {
		var d User
		return db.Last(&d, map[string]interface{}{"active": true}), &d
	}},
	{text: `Pluck("name",&[]*string)`, kind: "pluck", write: false, needs: true, f: func(db *gorm.DB) (*gorm.DB, interface{}) { var d []*string; return db.Pluck("name", &d), &d }},
	{text: `Scan(&nameAge)`, kind: "scan", write: false, needs: true, f: func(db *gorm.DB) (*gorm.DB, interface{}) { var d nameAge; return db.Scan(&d), &d }},
	{text: `Model(&User{}).Scan(&[]map)`, kind: "scan", write: false, needs: false, f: func(db *gorm.DB) (*gorm.DB, interface{}) {
		var d []map[string]interface{}
		return db.Model(&User{}).Scan(&d), &d
	}},
	{text: `Model(&User{}).Rows+ScanRows`, kind: "rows", write: false, needs: false, f: func(db *gorm.DB) (*gorm.DB, interface{}) {
		var out []nameAge
		tx := db.Model(&User{})
		rows, err := tx.Rows()
		if err != nil || rows == nil {
			return fakeTx(db, err, 0), &out
		}
		defer rows.Close()
		for rows.Next() {
			var d nameAge
			if err = tx.ScanRows(rows, &d); err != nil {
				break
			}
			out = append(out, d)
		}
		return fakeTx(db, err, len(out)), &out
	}},
	// ScanRows called on the receiver itself (a handle when the finisher is run directly on it), the
	// rows coming from a chain of it: db := DB.WithContext(ctx); rows := db.Model(&User{}).Rows(); db.ScanRows(rows, &u)
	{text: `rows=Model(&User{}).Rows; ScanRows(rows,&nameAge)`, kind: "rows", f: func(db *gorm.DB) (*gorm.DB, interface{}) {
		var out []nameAge
		rows, err := db.Model(&User{}).Rows()
		if err != nil || rows == nil {
			return fakeTx(db, err, 0), &out
		}
		defer rows.Close()
		for rows.Next() {
			var d nameAge
			if err = db.ScanRows(rows, &d); err != nil {
				break
			}
			out = append(out, d)
		}
		return fakeTx(db, err, len(out)), &out
	}},
	{text: `rows=Model(&User{}).Rows; ScanRows(rows,&User)`, kind: "rows", f: func(db *gorm.DB) (*gorm.DB, interface{}) {
		var out []User
		rows, err := db.Model(&User{}).Rows()
		if err != nil || rows == nil {
			return fakeTx(db, err, 0), &out
		}
		defer rows.Close()
		for rows.Next() {
			var d User
			if err = db.ScanRows(rows, &d); err != nil {
				break
			}
			out = append(out, d)
		}
		return fakeTx(db, err, len(out)), &out
	}},
	{text: `rows=Rows; ScanRows(rows,&map)`, kind: "rows", needs: true, f: func(db *gorm.DB) (*gorm.DB, interface{}) {
		var out []map[string]interface{}
		rows, err := db.Rows() // straight on the receiver
		if err != nil || rows == nil {
			return fakeTx(db, err, 0), &out
		}
		defer rows.Close()
		for rows.Next() {
			d := map[string]interface{}{}
			if err = db.ScanRows(rows, &d); err != nil {
				break
			}
			out = append(out, d)
		}
		return fakeTx(db, err, len(out)), &out
	}},
	{text: `Select("name","age").Row`, kind: "rows", needs: true, f: func(db *gorm.DB) (*gorm.DB, interface{}) {
		var d nameAge
		row := db.Select("name", "age").Row()
		if row == nil {
			return fakeTx(db, errors.New("nil row"), 0), &d
		}
		return fakeTx(db, row.Scan(&d.Name, &d.Age), 1), &d
	}},
	{text: `Model(&User{}).Select("name","age").Row`, kind: "rows", write: false, needs: false, f: func(db *gorm.DB) (*gorm.DB, interface{}) {
		var d nameAge
		row := db.Model(&User{}).Select("name", "age").Row()
		if row == nil {
			return fakeTx(db, errors.New("nil row"), 0), &d
		}
		return fakeTx(db, row.Scan(&d.Name, &d.Age), 1), &d
	}},
	{text: `Raw("SELECT name, age FROM users WHERE age > ?",25).Scan(&[]nameAge)`, kind: "raw", write: false, needs: false, f: func(db *gorm.DB) (*gorm.DB, interface{}) {
		var d []nameAge
		return db.Raw("SELECT name, age FROM users WHERE age > ?", 25).Scan(&d), &d
	}},
	{text: `Raw("… @n",Named).Find(&[]User)`, kind: "raw", write: false, needs: false, f: func(db *gorm.DB) (*gorm.DB, interface{}) {
		var d []User
		return db.Raw("SELECT * FROM users WHERE name = @n", sql.Named("n", "u1")).Find(&d), &d
	}},
	{text: `Exec("UPDATE users SET age = age + ? WHERE id = ?",1,2)`, kind: "exec", write: true, needs: false, f: func(db *gorm.DB) (*gorm.DB, interface{}) {
		return db.Exec("UPDATE users SET age = age + ? WHERE id = ?", 1, 2), nil
	}},
	{text: `ToSQL(Find(&[]User))`, kind: "tosql", write: false, needs: false, f: func(db *gorm.DB) (*gorm.DB, interface{}) {
		var inner *gorm.DB
		var d []User
		s := db.ToSQL(func(tx *gorm.DB) *gorm.DB { inner = tx.Find(&d); return inner })
		return inner, &s
	}},
	{text: `Transaction{Find(&[]User)}`, kind: "transaction", write: false, needs: false, f: func(db *gorm.DB) (*gorm.DB, interface{}) {
		var inner *gorm.DB
		var d []User
		err := db.Transaction(func(tx *gorm.DB) error { inner = tx.Find(&d); return inner.Error })
		if inner == nil {
			return fakeTx(db, err, 0), &d
		}
		return inner, &d
	}},
	{text: `Transaction{Create(&User{t});rollback}`, kind: "transaction", write: true, needs: false, f: func(db *gorm.DB) (*gorm.DB, interface{}) {
		var inner *gorm.DB
		d := &User{Name: "t", Age: 5, CompanyID: 1}
		err := db.Transaction(func(tx *gorm.DB) error { inner = tx.Create(d); return errors.New("roll back") })
		if inner == nil {
			return fakeTx(db, err, 0), d
		}
		return inner, d
	}},
	{text: `Connection{Find(&[]User)}`, kind: "transaction", write: false, needs: false, f: func(db *gorm.DB) (*gorm.DB, interface{}) {
		var inner *gorm.DB
		var d []User
		err := db.Connection(func(tx *gorm.DB) error { inner = tx.Find(&d); return inner.Error })
		if inner == nil {
			return fakeTx(db, err, 0), &d
		}
		return inner, &d
	}},
	{text: `Model(&User{ID:1}).Association("Company").Find`, kind: "association", write: false, needs: false, f: func(db *gorm.DB) (*gorm.DB, interface{}) {
		var c Company
		a := db.Model(&User{ID: 1}).Association("Company")
		if a.Error != nil {
			return fakeTx(db, a.Error, 0), &c
		}
		return fakeTx(db, a.Find(&c), 1), &c
	}},
	{text: `Model(&User{ID:3}).Association("Company").Count`, kind: "association", write: false, needs: false, f: func(db *gorm.DB) (*gorm.DB, interface{}) {
		a := db.Model(&User{ID: 3}).Association("Company")
		if a.Error != nil {
			return fakeTx(db, a.Error, 0), nil
		}
		n := a.Count()
		return fakeTx(db, a.Error, int(n)), &n
	}},
	{text: `FirstOrInit(&User,User{Name:nobody})`, kind: "firstor", write: false, needs: false, f: func(db *gorm.DB) (*gorm.DB, interface{}) {
		var d User
		return db.FirstOrInit(&d, User{Name: "nobody"}), &d
	}},
	{text: `FirstOrInit(&User)`, kind: "firstor", write: false, needs: false, f: func(db *gorm.DB) (*gorm.DB, interface{}) { var d User; return db.FirstOrInit(&d), &d }},
	{text: `FirstOrCreate(&User,User{Name:foc})`, kind: "firstor", write: true, needs: false, f: func(db *gorm.DB) (*gorm.DB, interface{}) {
		var d User
		return db.FirstOrCreate(&d, User{Name: "foc"}), &d
	}},
	{text: `FirstOrCreate(&User,map{name:u2})`, kind: "firstor", write: true, needs: false, f: func(db *gorm.DB) (*gorm.DB, interface{}) {
		var d User
		return db.FirstOrCreate(&d, map[string]interface{}{"name": "u2"}), &d
	}},
	{text: `CreateInBatches(&[]User{a,b,c},2)`, kind: "create", write: true, needs: false, f: func(db *gorm.DB) (*gorm.DB, interface{}) {
		d := xs(User{Name: "a", Age: 1, CompanyID: 1}, User{Name: "b", Age: 2, CompanyID: 2}, User{Name: "c", Age: 3, CompanyID: 1})
		return db.CreateInBatches(&d, 2), &d
	}},
	{text: `Model(&User{}).Create([]map{m1,m2})`, kind: "create", write: true, needs: false, f: func(db *gorm.DB) (*gorm.DB, interface{}) {
		return db.Model(&User{}).Create(xs(map[string]interface{}{"name": "m1", "age": 3}, map[string]interface{}{"name": "m2", "age": 4})), nil
	}},
	{text: `Create(&Toy{x})`, kind: "create", write: true, needs: false, f: func(db *gorm.DB) (*gorm.DB, interface{}) { d := &Toy{Name: "x", OwnerID: 2}; return db.Create(d), d }},
	{text: `UpdateColumns(map{age:31,name:"uc"})`, kind: "update", write: true, needs: true, f: func(db *gorm.DB) (*gorm.DB, interface{}) {
		return db.UpdateColumns(map[string]interface{}{"age": 31, "name": "uc"}), nil
	}},
	{text: `Model(&User{ID:2}).UpdateColumns(User{Age:32})`, kind: "update", write: true, needs: false, f: func(db *gorm.DB) (*gorm.DB, interface{}) {
		m := &User{ID: 2}
		return db.Model(m).UpdateColumns(User{Age: 32}), m
	}},
	{text: `Model(&User{}).Update("age",Expr(age*?,2))`, kind: "update", write: true, needs: false, f: func(db *gorm.DB) (*gorm.DB, interface{}) {
		m := &User{}
		return db.Model(m).Update("age", gorm.Expr("age * ?", 2)), m
	}},
	{text: `Save(&[]User{{ID:1},{ID:9}})`, kind: "save", write: true, needs: false, f: func(db *gorm.DB) (*gorm.DB, interface{}) {
		d := xs(User{ID: 1, Name: "s1", Age: 11, CompanyID: 1}, User{ID: 9, Name: "s9", Age: 19, CompanyID: 2})
		return db.Save(&d), &d
	}},
	{text: `Save(&User{new})`, kind: "save", write: true, needs: false, f: func(db *gorm.DB) (*gorm.DB, interface{}) {
		d := &User{Name: "sn", Age: 12, CompanyID: 2}
		return db.Save(d), d
	}},
	{text: `Delete(&Toy{},"owner_id = ?",1)`, kind: "delete", write: true, needs: false, f: func(db *gorm.DB) (*gorm.DB, interface{}) { d := &Toy{}; return db.Delete(d, "owner_id = ?", 1), d }},
	{text: `Delete(&User{},[1 2])`, kind: "delete", write: true, needs: false, f: func(db *gorm.DB) (*gorm.DB, interface{}) { d := &User{}; return db.Delete(d, xs(1, 2)), d }},
	// FindInBatches: several queries from one chain; the callback records what each batch held
	{text: `FindInBatches(&[]User,2)`, kind: "batches", write: false, needs: false, f: func(db *gorm.DB) (*gorm.DB, interface{}) {
		var d []User
		var seen []string
		tx := db.FindInBatches(&d, 2, func(_ *gorm.DB, batch int) error {
			for _, u := range d {
				seen = append(seen, fmt.Sprintf("%d:%d", batch, u.ID))
			}
			return batchLimit(batch)
		})
		return tx, &seen
	}},
	{text: `FindInBatches(&[]User,4)`, kind: "batches", write: false, needs: false, f: func(db *gorm.DB) (*gorm.DB, interface{}) {
		var d []User
		var seen []string
		tx := db.FindInBatches(&d, 4, func(_ *gorm.DB, batch int) error {
			for _, u := range d {
				seen = append(seen, fmt.Sprintf("%d:%d", batch, u.ID))
			}
			return batchLimit(batch)
		})
		return tx, &seen
	}},
	{text: `FindInBatches(&[]Toy,1)`, kind: "batches", write: false, needs: false, f: func(db *gorm.DB) (*gorm.DB, interface{}) {
		var d []Toy
		var seen []string
		tx := db.FindInBatches(&d, 1, func(_ *gorm.DB, batch int) error {
			for _, u := range d {
				seen = append(seen, fmt.Sprintf("%d:%d", batch, u.ID))
			}
			return batchLimit(batch)
		})
		return tx, &seen
	}},
	// "request" sessions: a ready-to-use session with its own cancellable context is taken
	// (Initialized: true), used for one query, and its context is cancelled right afterwards;
	// whatever it was taken from must keep working with its own context
	{text: `Session{Initialized,Context:req}.Find(&[]User);cancel`, kind: "request", write: false, needs: false, f: func(db *gorm.DB) (*gorm.DB, interface{}) {
		ctx, cancel := context.WithCancel(context.Background())
		defer cancel()
		var d []User
		return db.Session(&gorm.Session{Initialized: true, Context: ctx}).Find(&d), &d
	}},
	{text: `Session{Initialized,Context:req,SkipHooks}.First(&User);cancel`, kind: "request", write: false, needs: false, f: func(db *gorm.DB) (*gorm.DB, interface{}) {
		ctx, cancel := context.WithCancel(context.Background())
		defer cancel()
		var d User
		return db.Session(&gorm.Session{Initialized: true, Context: ctx, SkipHooks: true}).First(&d), &d
	}},
	{text: `Session{Initialized,Context:req}.Model(&User{}).Count;cancel`, kind: "request", write: false, needs: false, f: func(db *gorm.DB) (*gorm.DB, interface{}) {
		ctx, cancel := context.WithCancel(context.Background())
		defer cancel()
		var n int64
		return db.Session(&gorm.Session{Initialized: true, Context: ctx}).Model(&User{}).Count(&n), &n
	}},
	{text: `Session{Initialized,Context:req,PrepareStmt}.Find(&[]Toy);cancel`, kind: "request", write: false, needs: false, f: func(db *gorm.DB) (*gorm.DB, interface{}) {
		ctx, cancel := context.WithCancel(context.Background())
		defer cancel()
		var d []Toy
		return db.Session(&gorm.Session{Initialized: true, Context: ctx, PrepareStmt: true}).Find(&d), &d
	}},
	// the same relation join with and without Unscoped (the ON filter of the soft-deleted Company differs)
	{text: `Joins("Company").Find(&[]User)`, kind: "find", f: func(db *gorm.DB) (*gorm.DB, interface{}) {
		var d []User
		return db.Joins("Company").Find(&d), &d
	}},
	{text: `Unscoped().Joins("Company").Find(&[]User)`, kind: "find", f: func(db *gorm.DB) (*gorm.DB, interface{}) {
		var d []User
		return db.Unscoped().Joins("Company").Find(&d), &d
	}},
	{text: `InnerJoins("Company").Model(&User{}).Count`, kind: "count", f: func(db *gorm.DB) (*gorm.DB, interface{}) {
		var n int64
		return db.InnerJoins("Company").Model(&User{}).Count(&n), &n
	}},
	{text: `Unscoped().InnerJoins("Company").Model(&User{}).Count`, kind: "count", f: func(db *gorm.DB) (*gorm.DB, interface{}) {
		var n int64
		return db.Unscoped().InnerJoins("Company").Model(&User{}).Count(&n), &n
	}},
	// chains run under an already cancelled context: they fail, and must leave nothing behind
	// (e.g. in the prepared statement cache shared by the handles of a PrepareStmt Open / Session)
	// for the chains that render the same SQL afterwards
	{text: `WithContext(cancelled).Find(&[]User)`, kind: "cancelled", f: func(db *gorm.DB) (*gorm.DB, interface{}) {
		var d []User
		return db.WithContext(cancelledCtx()).Find(&d), &d
	}},
	{text: `Session{Initialized,Context:cancelled}.Find(&[]User)`, kind: "cancelled", f: func(db *gorm.DB) (*gorm.DB, interface{}) {
		var d []User
		return db.Session(&gorm.Session{Initialized: true, Context: cancelledCtx()}).Find(&d), &d
	}},
	{text: `WithContext(cancelled).First(&User)`, kind: "cancelled", f: func(db *gorm.DB) (*gorm.DB, interface{}) {
		var d User
		return db.WithContext(cancelledCtx()).First(&d), &d
	}},
	{text: `WithContext(cancelled).Model(&User{}).Count`, kind: "cancelled", f: func(db *gorm.DB) (*gorm.DB, interface{}) {
		var n int64
		return db.WithContext(cancelledCtx()).Model(&User{}).Count(&n), &n
	}},
	{text: `WithContext(cancelled).Model(&User{}).Updates(map{age:55})`, kind: "cancelled", write: true, f: func(db *gorm.DB) (*gorm.DB, interface{}) {
		m := &User{}
		return db.WithContext(cancelledCtx()).Model(m).Updates(map[string]interface{}{"age": 55}), m
	}},
	// the same with the table named by the finisher's own Model/Table call (a fresh value per execution)
	{text: `Model(&User{}).Count`, kind: "count", write: false, needs: false, f: func(db *gorm.DB) (*gorm.DB, interface{}) { var n int64; return db.Model(&User{}).Count(&n), &n }},
	{text: `Model(&User{}).Pluck("name")`, kind: "pluck", write: false, needs: false, f: func(db *gorm.DB) (*gorm.DB, interface{}) {
		var d []string
		return db.Model(&User{}).Pluck("name", &d), &d
	}},
	{text: `Table("users").Pluck("id")`, kind: "pluck", write: false, needs: false, f: func(db *gorm.DB) (*gorm.DB, interface{}) {
		var d []int64
		return db.Table("users").Pluck("id", &d), &d
	}},
	{text: `Model(&User{}).Scan(&[]nameAge)`, kind: "scan", write: false, needs: false, f: func(db *gorm.DB) (*gorm.DB, interface{}) {
		var d []nameAge
		return db.Model(&User{}).Scan(&d), &d
	}},
	{text: `Model(&User{}).Find(&[]map)`, kind: "find", write: false, needs: false, f: func(db *gorm.DB) (*gorm.DB, interface{}) {
		var d []map[string]interface{}
		return db.Model(&User{}).Find(&d), &d
	}},
	{text: `Model(&User{}).Updates(map{age:55})`, kind: "update", write: true, needs: false, f: func(db *gorm.DB) (*gorm.DB, interface{}) {
		m := &User{}
		return db.Model(m).Updates(map[string]interface{}{"age": 55}), m
	}},
	{text: `Model(&User{ID:5}).Update("name","z")`, kind: "update", write: true, needs: false, f: func(db *gorm.DB) (*gorm.DB, interface{}) {
		m := &User{ID: 5}
		return db.Model(m).Update("name", "z"), m
	}},
	{text: `Table("users").UpdateColumn("age",Expr(age+?,1))`, kind: "update", write: true, needs: false, f: func(db *gorm.DB) (*gorm.DB, interface{}) {
		return db.Table("users").UpdateColumn("age", gorm.Expr("age + ?", 1)), nil
	}},
	{text: `Model(&User{}).Create(map{name:m})`, kind: "create", write: true, needs: false, f: func(db *gorm.DB) (*gorm.DB, interface{}) {
		return db.Model(&User{}).Create(map[string]interface{}{"name": "m", "age": 3}), nil
	}},
}

var (
	finIndex   = map[string]int{}
	finsByKind = map[string][]int{}
	hasRead    = map[string]bool{}
	finKinds   []string // in catalogue order
	readKinds  []string
)

// ---- catalogue of derivations (how a chain becomes a reusable handle) ------------------------

type howDef struct {
	text string
	tx   bool
	f    func(e *env, p pair, n int) pair
}

var silent = logger.Discard.LogMode(logger.Silent)

func both(p pair, f func(db *gorm.DB) *gorm.DB) pair { return pair{d: f(p.d), l: f(p.l)} }

var hows = []howDef{
	{"Session{}", false, func(e *env, p pair, n int) pair {
		return both(p, func(db *gorm.DB) *gorm.DB { return db.Session(&gorm.Session{}) })
	}},
	{"WithContext", false, func(e *env, p pair, n int) pair {
		return both(p, func(db *gorm.DB) *gorm.DB {
			return db.WithContext(context.WithValue(context.Background(), ctxKey{}, n))
		})
	}},
	{"Debug", false, func(e *env, p pair, n int) pair {
		// the configured logger is logger.Discard: Debug() switches it to Info, output goes to io.Discard
		return both(p, func(db *gorm.DB) *gorm.DB { return db.Debug() })
	}},
	{"Session{Logger}", false, func(e *env, p pair, n int) pair {
		return both(p, func(db *gorm.DB) *gorm.DB { return db.Session(&gorm.Session{Logger: silent}) })
	}},
	{"Session{SkipHooks}", false, func(e *env, p pair, n int) pair {
		return both(p, func(db *gorm.DB) *gorm.DB { return db.Session(&gorm.Session{SkipHooks: true}) })
	}},
	{"Session{QueryFields}", false, func(e *env, p pair, n int) pair {
		return both(p, func(db *gorm.DB) *gorm.DB { return db.Session(&gorm.Session{QueryFields: true}) })
	}},
	{"Session{AllowGlobalUpdate}", false, func(e *env, p pair, n int) pair {
		return both(p, func(db *gorm.DB) *gorm.DB { return db.Session(&gorm.Session{AllowGlobalUpdate: true}) })
	}},
	{"Session{NewDB}", false, func(e *env, p pair, n int) pair {
		return both(p, func(db *gorm.DB) *gorm.DB { return db.Session(&gorm.Session{NewDB: true}) })
	}},
	{"Session{DryRun}", false, func(e *env, p pair, n int) pair {
		return both(p, func(db *gorm.DB) *gorm.DB { return db.Session(&gorm.Session{DryRun: true}) })
	}},
	{"Session{PrepareStmt}", false, func(e *env, p pair, n int) pair {
		return both(p, func(db *gorm.DB) *gorm.DB { return db.Session(&gorm.Session{PrepareStmt: true}) })
	}},
	{"Session{SkipDefaultTransaction}", false, func(e *env, p pair, n int) pair {
		return both(p, func(db *gorm.DB) *gorm.DB { return db.Session(&gorm.Session{SkipDefaultTransaction: true}) })
	}},
	{"Session{DisableNestedTransaction}", false, func(e *env, p pair, n int) pair {
		return both(p, func(db *gorm.DB) *gorm.DB { return db.Session(&gorm.Session{DisableNestedTransaction: true}) })
	}},
	{"Session{FullSaveAssociations}", false, func(e *env, p pair, n int) pair {
		return both(p, func(db *gorm.DB) *gorm.DB { return db.Session(&gorm.Session{FullSaveAssociations: true}) })
	}},
	{"Session{PropagateUnscoped}", false, func(e *env, p pair, n int) pair {
		return both(p, func(db *gorm.DB) *gorm.DB { return db.Session(&gorm.Session{PropagateUnscoped: true}) })
	}},
	{"Session{NowFunc}", false, func(e *env, p pair, n int) pair {
		return both(p, func(db *gorm.DB) *gorm.DB {
			return db.Session(&gorm.Session{NowFunc: func() time.Time { return testdb.FixedNow.Add(time.Hour) }})
		})
	}},
	{"Session{CreateBatchSize:2}", false, func(e *env, p pair, n int) pair {
		return both(p, func(db *gorm.DB) *gorm.DB { return db.Session(&gorm.Session{CreateBatchSize: 2}) })
	}},
	{"Session{Context,SkipHooks,Logger}", false, func(e *env, p pair, n int) pair {
		return both(p, func(db *gorm.DB) *gorm.DB {
			return db.Session(&gorm.Session{Context: context.WithValue(context.Background(), ctxKey{}, -n), SkipHooks: true, Logger: silent})
		})
	}},
	{"Begin", true, func(e *env, p pair, n int) pair {
		// the dry-run handle begins a "transaction" on its connection-less pool
		// (dryPool), so that both twins go through the same gorm code
		tx := p.l.Begin()
		if errors.Is(tx.Error, gorm.ErrInvalidTransaction) { // any other error was carried by the chain value (a failed finisher it continues)
			panic("harness: Begin: " + tx.Error.Error())
		}
		e.txs = append(e.txs, tx)
		dtx := p.d.Begin()
		if errors.Is(dtx.Error, gorm.ErrInvalidTransaction) {
			panic("harness: dry Begin: " + dtx.Error.Error())
		}
		return pair{d: dtx, l: tx}
	}},
}

// dryPool is the connection pool of the dry-run handle: it is never asked to
// run SQL (DryRun), it only lets Begin / Commit / Rollback succeed so that
// Begin derives a handle exactly as it does on a real pool.
type dryPool struct{}

var errDryPool = errors.New("harness: the dry-run pool was asked to run SQL")

func (*dryPool) PrepareContext(context.Context, string) (*sql.Stmt, error) { return nil, errDryPool }
func (*dryPool) ExecContext(context.Context, string, ...interface{}) (sql.Result, error) {
	return nil, errDryPool
}
func (*dryPool) QueryContext(context.Context, string, ...interface{}) (*sql.Rows, error) {
	return nil, errDryPool
}
func (*dryPool) QueryRowContext(context.Context, string, ...interface{}) *sql.Row { return nil }
func (*dryPool) BeginTx(context.Context, *sql.TxOptions) (gorm.ConnPool, error)   { return &dryTx{}, nil }

// dryTx is what dryPool.BeginTx returns: not a beginner itself (like *sql.Tx).
type dryTx struct{}

func (*dryTx) PrepareContext(context.Context, string) (*sql.Stmt, error) { return nil, errDryPool }
func (*dryTx) ExecContext(context.Context, string, ...interface{}) (sql.Result, error) {
	return nil, errDryPool
}
func (*dryTx) QueryContext(context.Context, string, ...interface{}) (*sql.Rows, error) {
	return nil, errDryPool
}
func (*dryTx) QueryRowContext(context.Context, string, ...interface{}) *sql.Row { return nil }
func (*dryTx) StmtContext(_ context.Context, stmt *sql.Stmt) *sql.Stmt          { return stmt } // makes it a gorm.Tx like *sql.Tx
func (*dryTx) Commit() error                                                    { return nil }
func (*dryTx) Rollback() error                                                  { return nil }

var howIndex = map[string]int{}

// ---- histories ---------------------------------------------------------------------------------

// Action kinds:
//
//	derive  H Calls How      new handle New = H.<Calls>.<How>
//	promote C How            new handle New = <chain C>.<How>; the chain ends
//	start   H Calls          new chain New = H.<Calls> (at least one call)
//	extend  C Calls          chain C continues with Calls
//	finish  C Fin            chain C ends with finisher Fin
//	direct  H Fin            finisher straight on handle H (a chain without calls)
//	abandon C                chain C is dropped
//	repeat  Ref              the chain finished by action Ref is built again from the same handle, in one go
type Action struct {
	Kind  string `json:"kind"`
	H     int    `json:"h,omitempty"`
	C     int    `json:"c,omitempty"`
	Calls []int  `json:"calls,omitempty"`
	How   int    `json:"how,omitempty"`
	Fin   int    `json:"fin,omitempty"`
	New   int    `json:"new,omitempty"`
	Ref   int    `json:"ref,omitempty"`
	Cont  bool   `json:"cont,omitempty"` // finish: the chain stays live and continues on the value the finisher returned
}

type History struct {
	Mode    string   `json:"mode"` // "tx": Begin allowed, twin runs read finishers only; "rw": no Begin, twin runs writes too
	Cfg     int      `json:"cfg"`  // index into cfgs
	Actions []Action `json:"actions"`
}

func callsText(cs []int) string {
	parts := make([]string, len(cs))
	for i, c := range cs {
		parts[i] = def(c).text
	}
	return strings.Join(parts, ".")
}

// callsTextFull renders handle arguments by their full derivation.
func callsTextFull(cs []int, nodes map[int]*hnode) string {
	parts := make([]string, len(cs))
	for i, c := range cs {
		d := def(c)
		if d.argf != nil {
			d.text = strings.Replace(d.text, fmt.Sprintf("h%d", d.arg), "<"+handleText(nodes[d.arg], nodes)+">", 1)
		}
		parts[i] = d.text
	}
	return strings.Join(parts, ".")
}

func handleText(n *hnode, nodes map[int]*hnode) string {
	if n.parent == nil {
		return "Open"
	}
	s := handleText(n.parent, nodes)
	if len(n.st.calls) > 0 {
		s += "." + callsTextFull(n.st.calls, nodes)
	}
	return s + "." + hows[n.st.how].text
}

func (a Action) String() string {
	switch a.Kind {
	case "derive":
		s := fmt.Sprintf("h%d=h%d.", a.New, a.H)
		if len(a.Calls) > 0 {
			s += callsText(a.Calls) + "."
		}
		return s + hows[a.How].text
	case "promote":
		return fmt.Sprintf("h%d=c%d.%s", a.New, a.C, hows[a.How].text)
	case "start":
		return fmt.Sprintf("c%d=h%d.%s", a.New, a.H, callsText(a.Calls))
	case "extend":
		return fmt.Sprintf("c%d.%s", a.C, callsText(a.Calls))
	case "finish":
		if a.Cont {
			return fmt.Sprintf("c%d=c%d.%s", a.C, a.C, finOf(a.Fin).text)
		}
		return fmt.Sprintf("c%d.%s", a.C, finOf(a.Fin).text)
	case "direct":
		return fmt.Sprintf("h%d.%s", a.H, finOf(a.Fin).text)
	case "abandon":
		return fmt.Sprintf("drop c%d", a.C)
	case "repeat":
		return fmt.Sprintf("again #%d", a.Ref)
	}
	return "?"
}

func (h History) String() string {
	parts := make([]string, len(h.Actions))
	for i, a := range h.Actions {
		parts[i] = fmt.Sprintf("#%d %s", i, a)
	}
	return "[" + h.Mode + "; " + cfgs[h.Cfg].text + "] " + strings.Join(parts, "; ")
}

// ---- static structure of a history (no gorm involved) ------------------------------------------

type step struct {
	calls []int
	how   int
}

type hnode struct {
	id     int
	parent *hnode
	st     step // derivation from parent (root: unused)
}

// steps returns the derivations root → h.
func (h *hnode) steps() []step {
	if h.parent == nil {
		return nil
	}
	return append(h.parent.steps(), h.st)
}

func (h *hnode) ancestors() []*hnode { // root first, h last
	if h.parent == nil {
		return []*hnode{h}
	}
	return append(h.parent.ancestors(), h)
}

// stateOf models what gorm keeps for a handle: raw = the calls that built the
// *Statement object the handle points to, start = the calls a chain started
// from the handle begins with. They differ for Session{NewDB:true} handles
// (clone == 1: chains start from an empty statement, yet the handle still
// points to the statement it was taken from - gorm reads that object when the
// handle is passed as a group condition, and a further Session() straight on
// the handle makes it the starting point again).
func stateOf(n *hnode) (raw, start []int, newDB bool) {
	if n.parent == nil {
		return nil, nil, true
	}
	praw, pstart, pNewDB := stateOf(n.parent)
	how := hows[n.st.how].text
	sessionOnHandle := len(n.st.calls) == 0 && how != "Debug" && how != "Begin" // Debug/Begin call getInstance first
	if len(n.st.calls) == 0 && !sessionOnHandle {
		raw = append([]int(nil), pstart...)
		newDB = how == "Begin" && pNewDB
		if !newDB {
			start = raw
		}
		return
	}
	switch {
	case sessionOnHandle:
		raw = praw
	case def(n.st.calls[0]).fam == "session-init":
		// Session(...) called straight on the parent handle: it starts from the
		// Statement object the handle points to, even for a NewDB handle
		raw = append(append([]int(nil), praw...), n.st.calls...)
	default:
		raw = append(append([]int(nil), pstart...), n.st.calls...)
	}
	newDB = how == "Session{NewDB}" || (how == "Begin" && pNewDB && len(n.st.calls) == 0)
	if !newDB {
		start = raw
	}
	return
}

type cnode struct {
	id          int
	from        *hnode
	calls       []int
	start, last int // action indices
	ended       bool
}

// path is what is replayed alone.
type path struct {
	from  *hnode
	nodes map[int]*hnode // the handles of the history (handle arguments are looked up here)
	cfg   int            // index into cfgs
	calls []int
	fin   int
}

func (p path) String() string {
	s := handleText(p.from, p.nodes)
	if len(p.calls) > 0 {
		s += "." + callsTextFull(p.calls, p.nodes)
	}
	ft := finOf(p.fin)
	if ft.argf != nil {
		ft.text = strings.Replace(ft.text, fmt.Sprintf("h%d", ft.arg), "<"+handleText(p.nodes[ft.arg], p.nodes)+">", 1)
	}
	return s + " => " + ft.text // the separator keeps "chain call Model + finisher Updates" apart from "finisher Model.Updates"
}

// ---- outcome of one finisher ----------------------------------------------------------------------

type outcome struct {
	DrySQL, DryVars, DryErr     string
	LiteStmts, LiteRes, LiteErr string
	rows                        int64
}

// count labels the outcome of one finisher executed in the history (evidence
// only: shows how many finishers produced SQL / rows rather than an error).
func (o outcome) count() {
	if o.DrySQL != "" {
		evid.Class("outcome:dry-sql")
	} else {
		evid.Class("outcome:dry-error")
	}
	switch {
	case o.LiteStmts == "(not run)":
		evid.Class("outcome:twin-not-run(write in tx mode)")
	case o.LiteErr != "":
		evid.Class("outcome:twin-error")
	case o.rows > 0:
		evid.Class("outcome:twin-rows")
	default:
		evid.Class("outcome:twin-no-rows")
	}
	if errHist {
		if o.DryErr != "" {
			evid.Class("dry-err:" + o.DryErr)
		}
		if o.LiteErr != "" {
			evid.Class("twin-err:" + o.LiteErr)
		}
	}
}

var errHist = harness.EnvInt("VERIF_C06_ERRHIST", 0) != 0

func (o outcome) diff(w outcome) string {
	var d []string
	cmp := func(what, got, want string) {
		if got != want {
			d = append(d, fmt.Sprintf("%s differs:\n      in the history: %s\n      replayed alone: %s", what, got, want))
		}
	}
	cmp("dry-run SQL", o.DrySQL, w.DrySQL)
	cmp("dry-run Vars", o.DryVars, w.DryVars)
	cmp("dry-run error", o.DryErr, w.DryErr)
	cmp("statements sent to SQLite", o.LiteStmts, w.LiteStmts)
	cmp("SQLite result", o.LiteRes, w.LiteRes)
	cmp("SQLite error", o.LiteErr, w.LiteErr)
	return strings.Join(d, "\n    ")
}

// render prints a value without addresses: pointers and interfaces are
// followed at every depth, map keys are sorted.
func render(v interface{}) string {
	var sb strings.Builder
	renderTo(&sb, reflect.ValueOf(v), 0)
	return sb.String()
}

var timeType = reflect.TypeOf(time.Time{})

func renderTo(sb *strings.Builder, rv reflect.Value, depth int) {
	if !rv.IsValid() {
		sb.WriteString("nil")
		return
	}
	if depth > 8 {
		sb.WriteString("…")
		return
	}
	switch rv.Kind() {
	case reflect.Ptr, reflect.Interface:
		if rv.IsNil() {
			sb.WriteString("nil")
			return
		}
		renderTo(sb, rv.Elem(), depth+1)
	case reflect.Struct:
		if rv.Type() == timeType {
			if rv.CanInterface() {
				sb.WriteString(rv.Interface().(time.Time).UTC().Format(time.RFC3339Nano))
			} else {
				sb.WriteString("time")
			}
			return
		}
		sb.WriteString(rv.Type().Name())
		sb.WriteByte('{')
		for i := 0; i < rv.NumField(); i++ {
			if i > 0 {
				sb.WriteByte(' ')
			}
			sb.WriteString(rv.Type().Field(i).Name)
			sb.WriteByte(':')
			renderTo(sb, rv.Field(i), depth+1)
		}
		sb.WriteByte('}')
	case reflect.Slice, reflect.Array:
		if rv.Kind() == reflect.Slice && rv.Type().Elem().Kind() == reflect.Uint8 {
			fmt.Fprintf(sb, "bytes(%q)", rv.Bytes())
			return
		}
		sb.WriteByte('[')
		for i := 0; i < rv.Len(); i++ {
			if i > 0 {
				sb.WriteByte(' ')
			}
			renderTo(sb, rv.Index(i), depth+1)
		}
		sb.WriteByte(']')
	case reflect.Map:
		type kv struct{ k, v string }
		var kvs []kv
		for it := rv.MapRange(); it.Next(); {
			var kb, vb strings.Builder
			renderTo(&kb, it.Key(), depth+1)
			renderTo(&vb, it.Value(), depth+1)
			kvs = append(kvs, kv{kb.String(), vb.String()})
		}
		sort.Slice(kvs, func(i, j int) bool { return kvs[i].k < kvs[j].k })
		sb.WriteString("map[")
		for i, x := range kvs {
			if i > 0 {
				sb.WriteByte(' ')
			}
			sb.WriteString(x.k + ":" + x.v)
		}
		sb.WriteByte(']')
	case reflect.String:
		fmt.Fprintf(sb, "%q", rv.String())
	case reflect.Bool:
		fmt.Fprintf(sb, "%v", rv.Bool())
	case reflect.Int, reflect.Int8, reflect.Int16, reflect.Int32, reflect.Int64:
		fmt.Fprintf(sb, "%s(%d)", rv.Kind(), rv.Int())
	case reflect.Uint, reflect.Uint8, reflect.Uint16, reflect.Uint32, reflect.Uint64:
		fmt.Fprintf(sb, "%s(%d)", rv.Kind(), rv.Uint())
	case reflect.Float32, reflect.Float64:
		fmt.Fprintf(sb, "%s(%v)", rv.Kind(), rv.Float())
	case reflect.Func, reflect.Chan, reflect.UnsafePointer:
		sb.WriteString(rv.Kind().String())
	default:
		fmt.Fprintf(sb, "%s", rv.Kind())
	}
}

func renderVars(vs []interface{}) string {
	parts := make([]string, len(vs))
	for i, v := range vs {
		parts[i] = render(v)
	}
	return "[" + strings.Join(parts, " | ") + "]"
}

var spRe = regexp.MustCompile(`SAVEPOINT sp[0-9a-fx]+`)

var ptrRe = regexp.MustCompile(`0x[0-9a-f]{6,}`)

// errText renders an error; addresses of caller values that gorm prints with
// %v ("unsupported data type: 0xc000…") are masked.
func errText(err error) string {
	if err == nil {
		return ""
	}
	return ptrRe.ReplaceAllString(err.Error(), "0xPTR")
}

func cancelledCtx() context.Context {
	ctx, cancel := context.WithCancel(context.Background())
	cancel()
	return ctx
}

// fakeTx wraps the result of an entry point that returns no *gorm.DB (Rows, Row,
// Association) so that it can be reported like the others: error and row count,
// no statement.
func fakeTx(db *gorm.DB, err error, n int) *gorm.DB {
	tx := &gorm.DB{Config: db.Config, Error: err, RowsAffected: int64(n)}
	tx.Statement = &gorm.Statement{DB: tx}
	return tx
}

// safely runs a finisher; a panic inside gorm is an outcome like any other (it
// must be the same in the history and alone), reported as error text.
func safely(fd finDef, db *gorm.DB, dry bool, res func(id int) pair) (tx *gorm.DB, dest interface{}, panicked string) {
	defer func() {
		if r := recover(); r != nil {
			panicked = ptrRe.ReplaceAllString(fmt.Sprint("panic: ", r), "0xPTR")
		}
	}()
	tx, dest = fd.run(db, dry, res)
	return
}

func runFin(e *env, p pair, fin int, mode string, res func(id int) pair) outcome {
	fd := finOf(fin)
	var o outcome
	e.lastTx = pair{}
	tx, _, pan := safely(fd, p.d, true, res)
	if pan != "" {
		o.DryErr = pan
	} else {
		o.DrySQL = tx.Statement.SQL.String()
		o.DryVars = renderVars(tx.Statement.Vars)
		o.DryErr = errText(tx.Error)
		// the finished dry-run statement is kept: its SQL and bound values must stay
		// what they are now whatever is built or executed later ("earlier or later")
		k := keptStmt{at: e.at, label: e.label, stmt: tx.Statement, sql: o.DrySQL, vars: o.DryVars, from: e.from, nvars: len(tx.Statement.Vars)}
		if k.from > 0 && e.fromChain && k.nvars > 0 {
			// evidence: the shape in which sibling chains could share a Vars array - a handle
			// taken from a chain (its statement was allocated by a chain call), two or more
			// chains from it that each bind values, the earlier one re-read after the later one
			for _, o := range e.kept {
				if o.from == k.from && o.nvars > 0 {
					evid.Class("reread:sibling-chains-with-bound-values-from-chain-derived-handle")
					if o.nvars+k.nvars <= 8 {
						evid.Class("reread:…of which both within 8 values")
					}
					break
				}
			}
		}
		e.kept = append(e.kept, k)
		e.lastTx.d = tx
	}
	if fd.write && mode != "rw" {
		o.LiteStmts = "(not run)"
		return o
	}
	e.lite.Rec.Reset()
	tx, dest, pan := safely(fd, p.l, false, res)
	if pan != "" {
		// the twin may hold an unfinished default transaction now: the caller stops using this environment
		e.poisoned = true
		o.LiteErr = pan
		return o
	}
	var sb strings.Builder
	for _, ev := range e.lite.Rec.Statements() {
		if ev.Stmt {
			sb.WriteString("(prepared) ") // went through a prepared driver statement
		}
		sb.WriteString(spRe.ReplaceAllString(ev.Text, "SAVEPOINT spN")) // nested Transaction blocks use a generated save point name
		sb.WriteString(" [")
		for i, a := range ev.Args {
			if i > 0 {
				sb.WriteString(" | ")
			}
			sb.WriteString(render(a.Value))
		}
		sb.WriteString("]; ")
	}
	e.lastTx.l = tx
	o.LiteStmts = sb.String()
	o.LiteRes = fmt.Sprintf("rows=%d dest=%s", tx.RowsAffected, render(dest))
	o.LiteErr = errText(tx.Error)
	o.rows = tx.RowsAffected
	if fd.write {
		e.restore()
	}
	return o
}

// applyCalls continues a chain (both twins) with the calls; res resolves a
// handle id to the reusable handle of the current environment.
func applyCalls(p pair, cs []int, res func(id int) pair) pair {
	for _, c := range cs {
		d := def(c)
		if d.argf != nil {
			a := res(d.arg)
			p = pair{d: d.argf(p.d, a.d), l: d.argf(p.l, a.l)}
			continue
		}
		p = pair{d: d.f(p.d), l: d.f(p.l)}
	}
	return p
}

func depth(n *hnode) int {
	if n.parent == nil {
		return 0
	}
	return depth(n.parent) + 1
}

// runAlone replays one path on a fresh Open (fresh dry handle, fresh database):
// only the handles on the path (and the handles its calls take as arguments)
// are built, nothing else is ever derived from them.
func runAlone(p path, mode string) outcome {
	e := newEnv(p.cfg)
	defer e.close()
	built := map[int]pair{0: e.root}
	var build func(n *hnode) pair
	res := func(id int) pair { return build(p.nodes[id]) }
	build = func(n *hnode) pair {
		if b, ok := built[n.id]; ok {
			return b
		}
		cur := applyCalls(build(n.parent), n.st.calls, res)
		b := hows[n.st.how].f(e, cur, depth(n))
		built[n.id] = b
		return b
	}
	cur := applyCalls(build(p.from), p.calls, res)
	return runFin(e, cur, p.fin, mode, res)
}

// ---- running a history ------------------------------------------------------------------------------

type finished struct {
	from  *hnode
	calls []int
	fin   int
}

// run executes the history in one shared environment and compares every
// finisher with its path replayed alone. It returns "" or the violation.
func run(h History) string {
	e := newEnv(h.Cfg)
	defer e.close()
	root := &hnode{id: 0}
	handles := map[int]*hnode{0: root}
	hpair := map[int]pair{0: e.root}
	chains := map[int]*cnode{}
	cpair := map[int]pair{}
	done := map[int]finished{}    // by action index
	alone := map[string]outcome{} // path → outcome replayed alone
	res := func(id int) pair { return hpair[id] }

	check := func(i int, from *hnode, cs []int, fin int, got outcome) string {
		got.count()
		p := path{from: from, nodes: handles, cfg: h.Cfg, calls: cs, fin: fin}
		key := p.String()
		want, ok := alone[key]
		if !ok {
			want = runAlone(p, h.Mode)
			alone[key] = want
		}
		if d := got.diff(want); d != "" {
			// the replay itself must be repeatable, otherwise the comparison means nothing
			if again := runAlone(p, h.Mode); again != want {
				return fmt.Sprintf("harness: path %s is not deterministic when replayed alone:\n    %s", key, again.diff(want))
			}
			return fmt.Sprintf("action #%d (%s): the chain %s gives a different outcome in the history than alone\n    %s", i, h.Actions[i], key, d)
		}
		return ""
	}

	for i, a := range h.Actions {
		if e.poisoned {
			evid.Class("outcome:panic-in-gorm (history truncated)")
			break
		}
		if i > 0 {
			// every statement finished so far must still read as it did when it finished
			if v := e.recheck(i-1, h.Actions[i-1].String()); v != "" {
				return v
			}
		}
		e.at, e.label = i, a.String()
		switch a.Kind {
		case "finish":
			e.from = chains[a.C].from.id
		case "direct":
			e.from = a.H
		case "repeat":
			e.from = done[a.Ref].from.id
		}
		if a.Kind == "finish" || a.Kind == "direct" || a.Kind == "repeat" {
			raw, _, _ := stateOf(handles[e.from])
			e.fromChain = len(raw) > 0
		}
		switch a.Kind {
		case "derive":
			par := handles[a.H]
			p := applyCalls(hpair[a.H], a.Calls, res)
			n := &hnode{id: a.New, parent: par, st: step{calls: a.Calls, how: a.How}}
			handles[a.New] = n
			hpair[a.New] = hows[a.How].f(e, p, depth(n))
		case "promote":
			c := chains[a.C]
			n := &hnode{id: a.New, parent: c.from, st: step{calls: c.calls, how: a.How}}
			handles[a.New] = n
			hpair[a.New] = hows[a.How].f(e, cpair[a.C], depth(n))
			delete(chains, a.C)
			delete(cpair, a.C)
		case "start":
			chains[a.New] = &cnode{id: a.New, from: handles[a.H], calls: append([]int(nil), a.Calls...)}
			cpair[a.New] = applyCalls(hpair[a.H], a.Calls, res)
		case "extend":
			c := chains[a.C]
			c.calls = append(c.calls, a.Calls...)
			cpair[a.C] = applyCalls(cpair[a.C], a.Calls, res)
		case "finish":
			c := chains[a.C]
			got := runFin(e, cpair[a.C], a.Fin, h.Mode, res)
			done[i] = finished{from: c.from, calls: append([]int(nil), c.calls...), fin: a.Fin}
			if v := check(i, c.from, done[i].calls, a.Fin, got); v != "" {
				return v
			}
			if a.Cont && e.lastTx.d != nil && e.lastTx.l != nil {
				// the chain goes on from what the finisher returned; its statement is not "finished"
				cpair[a.C] = e.lastTx
				c.calls = append(append([]int(nil), c.calls...), finCallBase+a.Fin)
				if n := len(e.kept); n > 0 && e.kept[n-1].stmt == e.lastTx.d.Statement {
					e.kept = e.kept[:n-1]
				}
			} else {
				delete(chains, a.C)
				delete(cpair, a.C)
			}
		case "direct":
			got := runFin(e, hpair[a.H], a.Fin, h.Mode, res)
			done[i] = finished{from: handles[a.H], fin: a.Fin}
			if v := check(i, handles[a.H], nil, a.Fin, got); v != "" {
				return v
			}
		case "abandon":
			delete(chains, a.C)
			delete(cpair, a.C)
		case "repeat":
			f := done[a.Ref]
			got := runFin(e, applyCalls(hpair[f.from.id], f.calls, res), f.fin, h.Mode, res)
			if v := check(i, f.from, f.calls, f.fin, got); v != "" {
				return v
			}
		}
	}
	if n := len(h.Actions); n > 0 {
		if v := e.recheck(n-1, h.Actions[n-1].String()); v != "" {
			return v
		}
	}
	evid.AddExtra("finished_statements_reread", e.rechecked)
	return ""
}

// ---- classification: non-trivial rule and class labels ------------------------------------------------

func mergeFams(cs []int) map[string]bool {
	m := map[string]bool{}
	for _, c := range cs {
		if f := def(c).merge; f != "" {
			m[f] = true
		}
	}
	return m
}

// analyse walks the history statically.
func analyse(h History) (nontrivial bool, classes []string) {
	cl := map[string]bool{"mode:" + h.Mode: true, "config:" + cfgs[h.Cfg].text: true}
	root := &hnode{id: 0}
	handles := map[int]*hnode{0: root}
	type chainInfo struct {
		from        *hnode
		calls       []int
		start, last int
	}
	live := map[int]*chainInfo{}
	var all []*chainInfo
	doneCalls := map[int]*chainInfo{}
	burst := func(cs []int) {
		run, prev := 0, ""
		for _, c := range cs {
			m := def(c).merge
			if m != "" && m == prev {
				run++
			} else {
				run = 1
			}
			prev = m
			if m != "" && run >= 3 {
				cl["burst3:"+m] = true
			}
		}
	}
	for i, a := range h.Actions {
		cl["action:"+a.Kind] = true
		for _, c := range a.Calls {
			cl["call:"+def(c).fam] = true
		}
		switch a.Kind {
		case "derive":
			handles[a.New] = &hnode{id: a.New, parent: handles[a.H], st: step{calls: a.Calls, how: a.How}}
			cl["how:"+hows[a.How].text] = true
			burst(a.Calls)
		case "promote":
			c := live[a.C]
			c.last = i
			handles[a.New] = &hnode{id: a.New, parent: c.from, st: step{calls: c.calls, how: a.How}}
			cl["how:"+hows[a.How].text] = true
			burst(c.calls)
			delete(live, a.C)
		case "start":
			c := &chainInfo{from: handles[a.H], calls: append([]int(nil), a.Calls...), start: i, last: i}
			live[a.New] = c
			all = append(all, c)
		case "extend":
			c := live[a.C]
			c.calls = append(c.calls, a.Calls...)
			c.last = i
		case "finish":
			c := live[a.C]
			c.last = i
			cl["fin:"+finOf(a.Fin).kind] = true
			burst(c.calls)
			if a.Cont {
				cl["continue-after-finisher"] = true
				snap := *c
				snap.calls = append([]int(nil), c.calls...)
				doneCalls[i] = &snap
				c.calls = append(append([]int(nil), c.calls...), finCallBase+a.Fin)
			} else {
				doneCalls[i] = c
				delete(live, a.C)
			}
		case "direct":
			c := &chainInfo{from: handles[a.H], start: i, last: i}
			all = append(all, c)
			doneCalls[i] = c
			cl["fin:"+finOf(a.Fin).kind] = true
		case "abandon":
			delete(live, a.C)
		case "repeat":
			f := doneCalls[a.Ref]
			all = append(all, &chainInfo{from: f.from, calls: f.calls, start: i, last: i})
		}
	}
	cl[fmt.Sprintf("handles:%d", len(handles))] = true
	// cumulative calls of a handle and the calls a chain adds below an ancestor
	cum := func(n *hnode) []int {
		_, start, _ := stateOf(n)
		return start
	}
	below := func(c *chainInfo, anc *hnode) []int {
		var cs []int
		on := false
		for _, n := range c.from.ancestors() {
			if on {
				cs = append(cs, n.st.calls...)
			}
			if n == anc {
				on = true
			}
		}
		return append(cs, c.calls...)
	}
	for x := 0; x < len(all); x++ {
		for y := 0; y < len(all); y++ {
			a, b := all[x], all[y]
			// overlap in time: b was started while a was unfinished and a was
			// extended / finished afterwards
			if x == y || !(a.start < b.start && b.start <= a.last) {
				continue
			}
			cl["overlap"] = true
			// deepest common handle
			aa, ba := a.from.ancestors(), b.from.ancestors()
			var common *hnode
			for k := 0; k < len(aa) && k < len(ba) && aa[k] == ba[k]; k++ {
				common = aa[k]
			}
			if common.parent == nil {
				continue // only Open in common: nothing is shared
			}
			cl["overlap-common-handle"] = true
			shared := mergeFams(cum(common))
			if len(shared) == 0 {
				continue
			}
			am, bm := mergeFams(below(a, common)), mergeFams(below(b, common))
			if len(am) > 0 || len(bm) > 0 {
				nontrivial = true
			}
			for f := range shared {
				if am[f] && bm[f] {
					cl["siblings-extend-shared:"+f] = true
				}
			}
		}
	}
	for k := range cl {
		classes = append(classes, k)
	}
	sort.Strings(classes)
	return
}

// ---- generator -------------------------------------------------------------------------------------------

// argHandle is a derived handle that a call may take as argument.
type argHandle struct {
	id     int
	scopes bool // its accumulated statement holds Scopes
	// singleOr: its accumulated WHERE is a single Or(...) condition
	singleOr bool
}

func drawCall(rt *rapid.T, prefer []string, argHandles []argHandle) int {
	// now and then a call whose argument is (a chain from) another reusable handle
	if len(argHandles) > 0 && rapid.IntRange(0, 8).Draw(rt, "argCall") == 0 {
		k := rapid.IntRange(0, len(argCalls)-1).Draw(rt, "argKind")
		a := rapid.SampledFrom(argHandles).Draw(rt, "argHandle")
		if a.scopes && strings.HasPrefix(argCalls[k].fam, "arg-group") && harness.OpenClass("C06", "group-arg-scopes") {
			// listed finding: a handle holding Scopes passed as group condition loses its scopes
			evid.Excluded("group-arg-scopes")
		} else if a.singleOr && strings.HasPrefix(argCalls[k].fam, "arg-group") && harness.OpenClass("C06", "group-arg-single-or") {
			// listed finding: BuildCondition rewrites the handle's single Or condition into an And group in place
			evid.Excluded("group-arg-single-or")
		} else {
			return argBase + 10*k + a.id
		}
	}
	// half of the time continue a merging family that the ancestors already hold
	if len(prefer) > 0 && rapid.IntRange(0, 1).Draw(rt, "preferShared") == 1 {
		f := rapid.SampledFrom(prefer).Draw(rt, "sharedFam")
		return rapid.SampledFrom(byMerge[f]).Draw(rt, "call")
	}
	f := rapid.SampledFrom(famNames).Draw(rt, "fam")
	return rapid.SampledFrom(byFam[f]).Draw(rt, "call")
}

func drawBurst(rt *rapid.T, prefer []string) []int {
	fams := mergeNames
	if len(prefer) > 0 && rapid.IntRange(0, 2).Draw(rt, "burstShared") > 0 {
		fams = prefer
	}
	f := rapid.SampledFrom(fams).Draw(rt, "burstFam")
	n := rapid.IntRange(3, 4).Draw(rt, "burstLen")
	out := make([]int, n)
	for i := range out {
		out[i] = rapid.SampledFrom(byMerge[f]).Draw(rt, "call")
	}
	return out
}

// whereShape lists, for the calls that built a statement, the expressions its
// WHERE holds: true for a single Or(...) condition, false for anything else.
// rawOf gives the calls behind the Statement object of a handle (a handle passed
// as group condition contributes one And/Or group, or nothing if it has no WHERE).
func whereShape(cs []int, rawOf func(id int) []int) []bool {
	var shape []bool
	for _, c := range cs {
		d := def(c)
		if d.merge != "WHERE" {
			continue
		}
		switch {
		case strings.HasPrefix(d.fam, "arg-group"):
			if len(whereShape(rawOf(d.arg), rawOf)) > 0 {
				shape = append(shape, isOr(c))
			}
		case d.text == `Clauses(Where{age>=20,id<6})`:
			shape = append(shape, false, false)
		default:
			shape = append(shape, isOr(c))
		}
	}
	return shape
}

// leadingOr recognises the known class `leading-or-handle`: the accumulated
// WHERE of a handle starts with an Or(...) condition and continues with a
// condition that is not an Or (Where / Not / Clauses(Where|Eq)). clause.Where.Build
// moves the first non-Or expression to the front *in place*, i.e. in the Exprs
// array the handle shares with every chain derived from it.
func leadingOr(shape []bool) bool {
	if len(shape) < 2 || !shape[0] {
		return false
	}
	for _, or := range shape[1:] {
		if !or {
			return true
		}
	}
	return false
}

func explicitModel(cs []int) bool {
	for _, c := range cs {
		if def(c).fam == "model" {
			return true
		}
	}
	return false
}

func hasRaw(cs []int) bool {
	for _, c := range cs {
		if def(c).fam == "raw" {
			return true
		}
	}
	return false
}

func namesTable(cs []int) bool {
	for _, c := range cs {
		if f := def(c).fam; f == "model" || f == "table" || strings.HasPrefix(f, "arg-table") {
			return true
		}
	}
	return false
}

func holdsModel(cs []int) bool {
	for _, c := range cs {
		// a finisher in the middle of a chain leaves Model = its destination (Execute
		// sets Statement.Model = Dest when no Model was given): the chain holds a model afterwards
		if f := def(c).fam; f == "model" || f == "mid-finisher" {
			return true
		}
	}
	return false
}

func sortedKeys(m map[string]bool) []string {
	out := make([]string, 0, len(m))
	for k := range m {
		out = append(out, k)
	}
	sort.Strings(out)
	return out
}

func genHistory(rt *rapid.T) History {
	maxActions := harness.EnvInt("VERIF_C06_ACTIONS", 25)
	const maxHandles, maxLive = 4, 6
	skipLeadingOr := harness.OpenClass("C06", "leading-or-handle") && harness.EnvInt("VERIF_C06_NOSKIP", 0) == 0
	h := History{Mode: rapid.SampledFrom([]string{"tx", "rw"}).Draw(rt, "mode")}
	// half of the histories run under the default configuration, the others under a drawn variant
	if rapid.IntRange(0, 1).Draw(rt, "variantCfg") == 1 {
		h.Cfg = rapid.IntRange(1, len(cfgs)-1).Draw(rt, "cfg")
	}
	n := rapid.IntRange(4, maxActions).Draw(rt, "actions")

	type gh struct {
		id    int
		calls []int // the calls a chain started from the handle begins with (nil after Session{NewDB})
		// raw: the calls that built the *Statement object the handle points to. A
		// Session{NewDB:true} handle starts chains from an empty statement but still
		// points to the Statement of the chain it was taken from; gorm reads that
		// object when the handle is passed as a group condition.
		raw  []int
		node *hnode
		inTx bool // derived through Begin: a second Begin is an error in gorm (ErrInvalidTransaction), not generated
	}
	type gc struct {
		id    int
		from  int
		calls []int
	}
	handles := []gh{{id: 0, node: &hnode{id: 0}}}
	nextH, nextC := 1, 1
	// newHandle computes the generator's view of the handle par.<cs>.<how>; ok is
	// false when the handle falls in a listed known-finding class.
	rawOf := func(id int) []int {
		for _, x := range handles {
			if x.id == id {
				return x.raw
			}
		}
		panic("no handle")
	}
	newHandle := func(par gh, cs []int, how int) (gh, bool) {
		node := &hnode{id: nextH, parent: par.node, st: step{calls: cs, how: how}}
		raw, start, _ := stateOf(node)
		if skipLeadingOr && leadingOr(whereShape(raw, rawOf)) {
			evid.Excluded("leading-or-handle")
			return gh{}, false
		}
		return gh{id: nextH, node: node, calls: start, raw: raw, inTx: par.inTx || hows[how].tx}, true
	}
	var live []gc
	var finishedAt []int
	howsFor := func(inTx bool) []int {
		var out []int
		for i, hd := range hows {
			if hd.tx && (h.Mode != "tx" || inTx) {
				continue
			}
			out = append(out, i)
		}
		return out
	}
	handleByID := func(id int) gh {
		for _, x := range handles {
			if x.id == id {
				return x
			}
		}
		panic("no handle")
	}
	pickHandle := func(label string) gh {
		// non-root handles three times as likely as Open
		var ids []int
		for _, x := range handles {
			ids = append(ids, x.id)
			if x.id != 0 {
				ids = append(ids, x.id, x.id)
			}
		}
		return handleByID(rapid.SampledFrom(ids).Draw(rt, label))
	}
	prefer := func(cs []int) []string { return sortedKeys(mergeFams(cs)) }
	argIDs := func() []argHandle { // handles usable as arguments: every derived handle
		var ids []argHandle
		for _, x := range handles[1:] {
			a := argHandle{id: x.id}
			for _, c := range x.raw {
				if def(c).fam == "scopes" {
					a.scopes = true
				}
			}
			if sh := whereShape(x.raw, rawOf); len(sh) == 1 && sh[0] {
				a.singleOr = true
			}
			ids = append(ids, a)
		}
		return ids
	}
	// D (domain): a Model value is a caller-owned object gorm writes to by
	// contract (updated fields, RETURNING values, primary key used as condition).
	// A Model pointer held by a handle is therefore never the target of a write
	// finisher: such chains end with a read finisher (the chains would otherwise
	// communicate through the caller's object, not through gorm's state).
	// chainBase: what a chain started from handle x begins with - the handle's start
	// calls, or (first call = Session{Initialized,..} straight on the handle) the
	// calls behind the Statement object the handle points to
	chainBase := func(x gh, chainCalls []int) []int {
		if len(chainCalls) > 0 && def(chainCalls[0]).fam == "session-init" {
			return x.raw
		}
		return x.calls
	}
	drawFin := func(handleCalls, chainCalls []int) int {
		// the chain's Model is the handle's unless the chain names one itself (a finisher in the
		// middle of the chain only sets Model = Dest when there is none yet)
		shared := holdsModel(handleCalls) && !explicitModel(chainCalls)
		// D (domain): a chain that carries raw SQL (Raw) is not finished with a write finisher. gorm does
		// not build the UPDATE/DELETE/INSERT then but sends the raw text through Exec, and for a
		// statement that is not DML the SQLite driver reports the row count of whatever DML ran last
		// on that connection (sqlite3_changes is sticky) - a number that says nothing about gorm.
		shared = shared || hasRaw(handleCalls) || hasRaw(chainCalls)
		// now and then a finisher that takes another reusable handle as argument
		if ids := argIDs(); len(ids) > 0 && rapid.IntRange(0, 9).Draw(rt, "argFin") == 0 {
			var ks []int
			for i, f := range argFins {
				if !(shared && f.write) {
					ks = append(ks, i)
				}
			}
			k := rapid.SampledFrom(ks).Draw(rt, "argFinKind")
			return argBase + 10*k + rapid.SampledFrom(ids).Draw(rt, "argFinHandle").id
		}
		if shared {
			k := rapid.SampledFrom(readKinds).Draw(rt, "readKind")
			var cands []int
			for _, f := range finsByKind[k] {
				if !fins[f].write {
					cands = append(cands, f)
				}
			}
			return rapid.SampledFrom(cands).Draw(rt, "fin")
		}
		k := rapid.SampledFrom(finKinds).Draw(rt, "finKind")
		cands := finsByKind[k]
		// a chain that names no table mostly gets a finisher whose destination names one
		if !namesTable(handleCalls) && !namesTable(chainCalls) && rapid.IntRange(0, 7).Draw(rt, "anyFin") != 0 {
			cands = nil
			for _, f := range finsByKind[k] {
				if !fins[f].needs {
					cands = append(cands, f)
				}
			}
		}
		return rapid.SampledFrom(cands).Draw(rt, "fin")
	}

	for i := 0; i < n; i++ {
		var kinds []string
		add := func(k string, w int) {
			for ; w > 0; w-- {
				kinds = append(kinds, k)
			}
		}
		if len(handles) < maxHandles {
			if len(handles) == 1 {
				add("derive", 6)
			} else {
				add("derive", 1)
			}
			if len(live) > 0 {
				add("promote", 1)
			}
		}
		if len(live) < maxLive {
			add("start", 3)
		}
		add("direct", 1)
		if len(live) > 0 {
			add("extend", 5)
			add("finish", 3)
			add("abandon", 1)
		}
		if len(finishedAt) > 0 {
			add("repeat", 1)
		}
		switch k := rapid.SampledFrom(kinds).Draw(rt, "kind"); k {
		case "derive":
			par := pickHandle("parent")
			var cs []int
			for j := rapid.IntRange(0, 2).Draw(rt, "pre"); j > 0; j-- {
				cs = append(cs, drawCall(rt, nil, argIDs()))
			}
			if rapid.IntRange(0, 9).Draw(rt, "withBurst") < 7 {
				cs = append(cs, drawBurst(rt, prefer(par.calls))...)
			}
			for j := rapid.IntRange(0, 1).Draw(rt, "post"); j > 0; j-- {
				cs = append(cs, drawCall(rt, nil, argIDs()))
			}
			how := rapid.SampledFrom(howsFor(par.inTx)).Draw(rt, "how")
			nh, ok := newHandle(par, cs, how)
			if !ok {
				continue
			}
			h.Actions = append(h.Actions, Action{Kind: k, H: par.id, Calls: cs, How: how, New: nextH})
			handles = append(handles, nh)
			nextH++
		case "promote":
			ci := rapid.IntRange(0, len(live)-1).Draw(rt, "chain")
			c := live[ci]
			par := handleByID(c.from)
			how := rapid.SampledFrom(howsFor(par.inTx)).Draw(rt, "how")
			nh, ok := newHandle(par, c.calls, how)
			if !ok {
				continue
			}
			h.Actions = append(h.Actions, Action{Kind: k, C: c.id, How: how, New: nextH})
			handles = append(handles, nh)
			nextH++
			live = append(live[:ci:ci], live[ci+1:]...)
		case "start":
			from := pickHandle("from")
			cs := []int{drawCall(rt, prefer(from.calls), argIDs())}
			h.Actions = append(h.Actions, Action{Kind: k, H: from.id, Calls: cs, New: nextC})
			live = append(live, gc{id: nextC, from: from.id, calls: cs})
			nextC++
		case "extend":
			ci := rapid.IntRange(0, len(live)-1).Draw(rt, "chain")
			c := &live[ci]
			p := prefer(append(append([]int(nil), handleByID(c.from).calls...), c.calls...))
			var cs []int
			if rapid.IntRange(0, 5).Draw(rt, "extBurst") == 0 {
				cs = drawBurst(rt, p)
			} else {
				cs = []int{drawCall(rt, p, argIDs())}
			}
			h.Actions = append(h.Actions, Action{Kind: k, C: c.id, Calls: cs})
			c.calls = append(append([]int(nil), c.calls...), cs...)
		case "finish":
			ci := rapid.IntRange(0, len(live)-1).Draw(rt, "chain")
			fin := drawFin(chainBase(handleByID(live[ci].from), live[ci].calls), live[ci].calls)
			// one finish in four of a suitable kind is not the end: the chain continues on the returned value
			cont := fin < argBase && midKinds[fins[fin].kind] && !fins[fin].write && rapid.IntRange(0, 3).Draw(rt, "continue") == 0
			h.Actions = append(h.Actions, Action{Kind: k, C: live[ci].id, Fin: fin, Cont: cont})
			finishedAt = append(finishedAt, len(h.Actions)-1)
			if cont {
				live[ci].calls = append(append([]int(nil), live[ci].calls...), finCallBase+fin)
			} else {
				live = append(live[:ci:ci], live[ci+1:]...)
			}
		case "direct":
			from := pickHandle("from")
			h.Actions = append(h.Actions, Action{Kind: k, H: from.id, Fin: drawFin(from.calls, nil)})
			finishedAt = append(finishedAt, len(h.Actions)-1)
		case "abandon":
			ci := rapid.IntRange(0, len(live)-1).Draw(rt, "chain")
			h.Actions = append(h.Actions, Action{Kind: k, C: live[ci].id})
			live = append(live[:ci:ci], live[ci+1:]...)
		case "repeat":
			h.Actions = append(h.Actions, Action{Kind: k, Ref: rapid.SampledFrom(finishedAt).Draw(rt, "ref")})
		}
	}
	// finish what is still live so that every built chain is observed
	for _, c := range live {
		h.Actions = append(h.Actions, Action{Kind: "finish", C: c.id, Fin: drawFin(chainBase(handleByID(c.from), c.calls), c.calls)})
	}
	// probes: mostly, every derived handle is finally used once more directly, so that
	// a lasting change made to it by the history is observed even if no generated chain follows
	if rapid.IntRange(0, 4).Draw(rt, "probes") != 0 {
		for _, x := range handles[1:] {
			// two different models: a handle that silently got a table / schema / model of one of them shows with the other
			h.Actions = append(h.Actions, Action{Kind: "direct", H: x.id, Fin: finIndex[`Find(&[]User)`]},
				Action{Kind: "direct", H: x.id, Fin: finIndex[`Find(&[]Toy)`]})
			if !hasRaw(x.calls) { // see drawFin: no write finisher on a statement that carries raw SQL
				h.Actions = append(h.Actions, Action{Kind: "direct", H: x.id, Fin: finIndex[`Model(&User{}).Updates(map{age:55})`]})
			}
		}
	}
	return h
}

const rule = "C06: histories (<=25 actions, <=4 reusable handles, <=6 live chains) over a tree of handles rooted at Open: " +
	"derive a handle (chain calls + Session/WithContext/Debug/Session{...}/Begin), promote a live chain to a handle, start / extend / finish / abandon linear chains " +
	"(calls include Select/Omit by field name over models whose column names differ, Model/Table targets that vary between sibling chains, Session{Initialized,SkipHooks|Context|PrepareStmt}, handles as group-condition / subquery / join arguments), " +
	"finish directly on a handle, rebuild an already finished chain; every finisher is compared (dry-run SQL+Vars+error, SQLite statements+rows+error) with its call path replayed alone on a fresh Open, " +
	"and every finished dry-run statement is re-read after each later action (its SQL and bound values must not change any more). " +
	"non-trivial = two chains whose deepest common handle is not Open and holds a merging clause (WHERE/ORDER/GROUP/RETURNING/JOINS/SCOPES), that overlap in time " +
	"(the second is started while the first is unfinished and the first is extended or finished afterwards), and at least one of them adds a merging clause below that handle; " +
	"distinct = mode + full action sequence"

// TestC06 is the generated check.
func TestC06(t *testing.T) {
	evid.Rule(rule)
	rapid.Check(t, func(rt *rapid.T) {
		h := genHistory(rt)
		desc := h.String()
		evid.Journal(desc)
		nt, classes := analyse(h)
		evid.Case(desc, nt, desc, classes...)
		if v := run(h); v != "" {
			if strings.HasPrefix(v, "harness:") {
				rt.Fatalf("%s, case: %s", v, desc)
			}
			rt.Fatalf("C06 violated: %s\n  case: %s", v, desc)
		}
	})
}

// ---- witnesses ------------------------------------------------------------------------------------------------

func idx(text string) int {
	i, ok := callIndex[text]
	if !ok {
		panic("unknown call " + text)
	}
	return i
}

// Three merged Returning clauses on a reusable handle, then two sibling chains
// each adding one Returning column: both chains must list their own column
// (Returning.MergeClause used to append into the shared backing array, so the
// second chain overwrote the first chain's column).
func TestC06WitnessReturningAlias(t *testing.T) {
	db := newDry()
	h := db.Model(&User{}).
		Clauses(clause.Returning{Columns: xs(col("id"))}).
		Clauses(clause.Returning{Columns: xs(col("name"))}).
		Clauses(clause.Returning{Columns: xs(col("age"))}).
		Session(&gorm.Session{})
	c1 := h.Clauses(clause.Returning{Columns: xs(col("active"))})
	c2 := h.Clauses(clause.Returning{Columns: xs(col("company_id"))})
	s1 := c1.Where("id = ?", 1).Update("name", "a").Statement.SQL.String()
	s2 := c2.Where("id = ?", 2).Update("name", "b").Statement.SQL.String()
	if want := "RETURNING `id`,`name`,`age`,`active`"; !strings.HasSuffix(s1, want) {
		t.Errorf("C06 violated: first sibling chain's SQL is %q, want suffix %q", s1, want)
	}
	if want := "RETURNING `id`,`name`,`age`,`company_id`"; !strings.HasSuffix(s2, want) {
		t.Errorf("C06 violated: second sibling chain's SQL is %q, want suffix %q", s2, want)
	}
	// the same through the history runner (dry-run and SQLite twin)
	hist := History{Mode: "rw", Actions: []Action{
		{Kind: "derive", H: 0, Calls: []int{idx(`Table("users")`), idx(`Clauses(Returning{id})`), idx(`Clauses(Returning{name})`), idx(`Clauses(Returning{age})`)}, How: howIndex["Session{}"], New: 1},
		{Kind: "start", H: 1, Calls: []int{idx(`Clauses(Returning{active})`)}, New: 1},
		{Kind: "start", H: 1, Calls: []int{idx(`Clauses(Returning{company_id})`)}, New: 2},
		{Kind: "extend", C: 1, Calls: []int{idx(`Model(&User{})`), idx(`Where("name = ?","u2")`)}},
		{Kind: "extend", C: 2, Calls: []int{idx(`Model(&User{})`), idx(`Where("age > ?",20)`)}},
		{Kind: "finish", C: 1, Fin: finIndex[`Update("name","z")`]},
		{Kind: "finish", C: 2, Fin: finIndex[`Updates(map{age:55})`]},
	}}
	if v := run(hist); v != "" {
		t.Errorf("C06 violated: %s\n  case: %s", v, hist)
	}
	if nt, _ := analyse(hist); !nt {
		t.Errorf("harness: the witness history is not classified non-trivial")
	}
}

// A handle whose WHERE starts with Or(...) followed by a Where(...): executing
// one chain (whose SQL needs no extra WHERE member, here Unscoped) makes
// clause.Where.Build swap the two conditions inside the Exprs array the handle
// shares with all its chains; a later chain that goes through the soft-delete
// grouping then renders `(b OR a)` instead of `(a AND b)`.
func TestC06WitnessLeadingOrSwap(t *testing.T) {
	build := func(db *gorm.DB) *gorm.DB {
		return db.Or("age > ?", 40).Where("age >= ?", 20).Session(&gorm.Session{})
	}
	var u0, u1, u2 []User
	alone := build(newDry()).Find(&u0).Statement
	h := build(newDry())
	h.Unscoped().Find(&u1) // another chain from the same handle, executed first
	got := h.Find(&u2).Statement
	if got.SQL.String() != alone.SQL.String() || renderVars(got.Vars) != renderVars(alone.Vars) {
		t.Errorf("C06 violated: h := db.Or(\"age > ?\",40).Where(\"age >= ?\",20).Session(&gorm.Session{}); after h.Unscoped().Find(&users), h.Find(&users) builds\n  %s %s\nalone it builds\n  %s %s",
			got.SQL.String(), renderVars(got.Vars), alone.SQL.String(), renderVars(alone.Vars))
	}
	hist := History{Mode: "tx", Actions: []Action{
		{Kind: "derive", H: 0, Calls: []int{idx(`Or("age > ?",40)`), idx(`Where("age > ?",20)`)}, How: howIndex["Session{}"], New: 1},
		{Kind: "start", H: 1, Calls: []int{idx(`Unscoped()`)}, New: 1},
		{Kind: "finish", C: 1, Fin: finIndex[`Find(&[]User)`]},
		{Kind: "direct", H: 1, Fin: finIndex[`Find(&[]User)`]},
	}}
	if v := run(hist); v != "" {
		t.Errorf("C06 violated: %s\n  case: %s", v, hist)
	}
}

// A reusable handle that holds Scopes, passed as group condition to Where:
// Statement.BuildCondition calls executeScopes on the argument itself, which
// clears the scopes of the caller's handle (and drops the conditions the scopes
// would have added); every later chain from the handle lacks them.
func TestC06WitnessGroupArgScopes(t *testing.T) {
	build := func(db *gorm.DB) *gorm.DB { return db.Scopes(scopeAge).Session(&gorm.Session{}) }
	var u0, u1 []User
	alone := build(newDry()).Find(&u0).Statement
	db := newDry()
	h := build(db)
	_ = db.Where(h) // another chain, built and abandoned
	got := h.Find(&u1).Statement
	if got.SQL.String() != alone.SQL.String() || renderVars(got.Vars) != renderVars(alone.Vars) {
		t.Errorf("C06 violated: h := db.Scopes(age).Session(&gorm.Session{}); after db.Where(h), h.Find(&users) builds\n  %s %s\nalone it builds\n  %s %s",
			got.SQL.String(), renderVars(got.Vars), alone.SQL.String(), renderVars(alone.Vars))
	}
	hist := History{Mode: "tx", Actions: []Action{
		{Kind: "derive", H: 0, Calls: []int{idx(`Scopes(age)`)}, How: howIndex["Session{}"], New: 1},
		{Kind: "start", H: 0, Calls: []int{argBase + 1}, New: 1}, // c1 = h0.Where(h1)
		{Kind: "abandon", C: 1},
		{Kind: "direct", H: 1, Fin: finIndex[`Find(&[]User)`]},
	}}
	if v := run(hist); v != "" {
		t.Errorf("C06 violated: %s\n  case: %s", v, hist)
	}
}

// A reusable handle whose WHERE is a single Or(...) condition, passed as group
// condition: Statement.BuildCondition replaces Exprs[0] of the argument's WHERE
// by an And group *in place*, i.e. in the handle's own statement; a later chain
// from the handle renders `a AND b` where it renders `b OR a` alone.
func TestC06WitnessGroupArgOr(t *testing.T) {
	build := func(db *gorm.DB) *gorm.DB { return db.Or("age > ?", 40).Session(&gorm.Session{}) }
	var u0, u1 []User
	alone := build(newDry()).Where("age >= ?", 20).Unscoped().Find(&u0).Statement
	db := newDry()
	h := build(db)
	_ = db.Where(h) // another chain, built and abandoned
	got := h.Where("age >= ?", 20).Unscoped().Find(&u1).Statement
	if got.SQL.String() != alone.SQL.String() || renderVars(got.Vars) != renderVars(alone.Vars) {
		t.Errorf("C06 violated: h := db.Or(\"age > ?\",40).Session(&gorm.Session{}); after db.Where(h), h.Where(\"age >= ?\",20).Unscoped().Find(&users) builds\n  %s %s\nalone it builds\n  %s %s",
			got.SQL.String(), renderVars(got.Vars), alone.SQL.String(), renderVars(alone.Vars))
	}
	hist := History{Mode: "tx", Actions: []Action{
		{Kind: "derive", H: 0, Calls: []int{idx(`Or("age > ?",40)`)}, How: howIndex["Session{}"], New: 1},
		{Kind: "start", H: 0, Calls: []int{argBase + 1}, New: 1}, // c1 = h0.Where(h1)
		{Kind: "abandon", C: 1},
		{Kind: "start", H: 1, Calls: []int{idx(`Where("age > ?",20)`), idx(`Unscoped()`)}, New: 2},
		{Kind: "finish", C: 2, Fin: finIndex[`Find(&[]User)`]},
	}}
	if v := run(hist); v != "" {
		t.Errorf("C06 violated: %s\n  case: %s", v, hist)
	}
}

// batchLimit ends a FindInBatches that does not terminate by itself (conditions
// that OR the "primary key > last" filter away make gorm fetch the same batch
// for ever); the error is part of the outcome, alike in the history and alone.
func batchLimit(batch int) error {
	if batch >= 12 {
		return errors.New("harness: FindInBatches stopped after 12 batches")
	}
	return nil
}

// A handle that holds Clauses(From{Joins: [f1]}); a chain from it with raw SQL and a
// Joins call is executed and then continued with another query on the returned value:
// AfterQuery trims the FROM joins although none was added (raw SQL is not built), the
// trimmed slice shares the array of the handle's clause, and the continued query
// appends its join over the handle's own join. Later chains of the handle join
// `companies Company` instead of `companies f1`.
func TestC06WitnessRawJoinsFromTrim(t *testing.T) {
	stmts := func(disturb bool) string {
		e := newEnv(0)
		defer e.close()
		h := e.lite.DB.Clauses(clause.From{Joins: xs(clause.Join{Type: clause.LeftJoin, Table: clause.Table{Name: "companies", Alias: "f1"},
			ON: clause.Where{Exprs: xs[clause.Expression](clause.Expr{SQL: "f1.id = users.company_id"})}})}).Session(&gorm.Session{})
		if disturb {
			var u User
			var n int64
			tx := h.Raw("SELECT * FROM users WHERE id = ?", 1).Joins("Company").Find(&u)
			tx.Model(&User{}).Count(&n) // the chain continues on the value the finisher returned
		}
		e.lite.Rec.Reset()
		var us []User
		if err := h.Find(&us).Error; err != nil {
			t.Fatalf("harness: %v", err)
		}
		var sb strings.Builder
		for _, ev := range e.lite.Rec.Statements() {
			sb.WriteString(ev.Text + "; ")
		}
		return sb.String()
	}
	alone, got := stmts(false), stmts(true)
	if got != alone {
		t.Errorf("C06 violated: h := db.Clauses(clause.From{Joins: [LEFT JOIN companies f1 …]}).Session(&gorm.Session{}); after tx := h.Raw(sql).Joins(\"Company\").Find(&u); tx.Model(&User{}).Count(&n), h.Find(&users) sends\n  %s\nalone it sends\n  %s", got, alone)
	}
	hist := History{Mode: "tx", Actions: []Action{
		{Kind: "derive", H: 0, Calls: []int{idx(`Clauses(From{users JOIN companies f1})`)}, How: howIndex["Session{}"], New: 1},
		{Kind: "start", H: 1, Calls: []int{idx(`Raw("SELECT * FROM users WHERE age > ?",30)`), idx(`Joins("Company")`)}, New: 1},
		{Kind: "finish", C: 1, Fin: finIndex[`Find(&User)`], Cont: true},
		{Kind: "finish", C: 1, Fin: finIndex[`Model(&User{}).Count`]},
		{Kind: "direct", H: 1, Fin: finIndex[`Find(&[]User)`]},
	}}
	if v := run(hist); v != "" {
		t.Errorf("C06 violated: %s\n  case: %s", v, hist)
	}
}
