// C06 — reusable handles are never changed by the chains and queries derived
// from them. See DESIGN.md §3 C06.
//
// A history builds a tree of reusable handles (Open → Session / WithContext /
// Debug / Begin …) and a set of linear chains started from those handles, and
// interleaves the chains in time. Every finished chain is compared with the
// same call path (root → handle derivations → chain calls → finisher) replayed
// alone on a fresh Open: dry-run SQL text + Vars, and on a SQLite-backed twin
// the statements that reached the driver, the result rows and the error.
//
// gorm semantics the harness respects: the *gorm.DB returned by a chain method
// (clone == 0) is not reusable, so every chain is linear – it is always
// continued from the value the previous call of that chain returned and is
// dropped after its finisher; only handles from Open / Session / WithContext /
// Debug / Begin start more than one chain.
package c06

import (
	"context"
	"database/sql"
	"fmt"
	"reflect"
	"regexp"
	"sort"
	"strings"
	"testing"
	"time"

	"gorm.io/gorm"
	"gorm.io/gorm/clause"
	"gorm.io/gorm/logger"
	"pgregory.net/rapid"

	"verif/internal/evid"
	"verif/internal/harness"
	"verif/internal/testdb"
)

func TestMain(m *testing.M) { harness.Main(m) }

// ---- models and data --------------------------------------------------------------------

type Company struct {
	ID   uint
	Name string
}

type User struct {
	ID        uint
	Name      string
	Age       int
	Active    bool
	CompanyID uint
	Company   Company
	DeletedAt gorm.DeletedAt
}

type nameAge struct {
	Name string
	Age  int
}

var ddl = []string{
	"CREATE TABLE companies (id integer PRIMARY KEY, name text)",
	"CREATE TABLE users (id integer PRIMARY KEY, name text, age integer, active numeric, company_id integer, deleted_at datetime)",
}

var seedSQL = []string{
	"INSERT INTO companies (id, name) VALUES (1,'c1'),(2,'c2')",
	"INSERT INTO users (id, name, age, active, company_id, deleted_at) VALUES " +
		"(1,'u1',20,1,1,NULL),(2,'u2',30,0,1,NULL),(3,'u3',40,1,2,NULL)," +
		"(4,'u4',50,0,2,NULL),(5,'u5',20,1,1,'2030-01-02 03:04:05+00:00'),(6,'u1',60,1,2,NULL)",
}

// ---- execution environment: a dry-run handle and its SQLite-backed twin ------------------

type ctxKey struct{}

type pair struct{ d, l *gorm.DB }

type env struct {
	lite *testdb.DB
	root pair
	txs  []*gorm.DB // Begin handles of the twin, rolled back at the end
	// poisoned: a finisher panicked inside gorm on the twin (possibly inside its
	// default transaction); the history stops after comparing that outcome
	poisoned bool
}

func fixedNow() time.Time { return testdb.FixedNow }

func newEnv() *env {
	e := &env{}
	e.lite = testdb.Open(testdb.Options{Config: gorm.Config{NowFunc: fixedNow}})
	e.lite.Rec.Pause()
	for _, s := range ddl {
		if _, err := e.lite.SQL.Exec(s); err != nil {
			panic("harness: " + err.Error())
		}
	}
	e.seed()
	e.lite.Rec.Resume()
	e.root = pair{d: testdb.Dry(false, gorm.Config{NowFunc: fixedNow}), l: e.lite.DB}
	return e
}

func (e *env) seed() {
	for _, s := range seedSQL {
		if _, err := e.lite.SQL.Exec(s); err != nil {
			panic("harness: " + err.Error())
		}
	}
}

// restore puts the seed rows back after a write finisher ran on the twin
// (mode "rw" only: no transaction is open then).
func (e *env) restore() {
	e.lite.Rec.Pause()
	for _, s := range []string{"DELETE FROM users", "DELETE FROM companies"} {
		if _, err := e.lite.SQL.Exec(s); err != nil {
			panic("harness: " + err.Error())
		}
	}
	e.seed()
	e.lite.Rec.Resume()
}

func (e *env) close() {
	for _, tx := range e.txs {
		tx.Rollback()
	}
	e.lite.Close()
}

// xs returns a slice of exact capacity (make + copy): slices handed to gorm must
// not have spare capacity, otherwise gorm appending to the *caller's* slice
// would be misattributed to gorm's own sharing.
func xs[T any](v ...T) []T {
	out := make([]T, len(v))
	copy(out, v)
	return out
}

// ---- catalogue of chain calls -------------------------------------------------------------

type callDef struct {
	text  string // canonical rendering
	fam   string // method family
	merge string // merging clause family ("" = replaces instead of merging)
	f     func(db *gorm.DB) *gorm.DB
}

func col(n string) clause.Column { return clause.Column{Name: n} }

func scopeAge(db *gorm.DB) *gorm.DB    { return db.Where("age > ?", 15) }
func scopeOrder(db *gorm.DB) *gorm.DB  { return db.Order("id desc") }
func scopeActive(db *gorm.DB) *gorm.DB { return db.Where(map[string]interface{}{"active": true}).Limit(4) }
func scopeNested(db *gorm.DB) *gorm.DB { return db.Scopes(scopeAge).Or("name = ?", "u4") }

var calls = []callDef{
	// Where
	{`Where("age > ?",20)`, "where", "WHERE", func(db *gorm.DB) *gorm.DB { return db.Where("age > ?", 20) }},
	{`Where("name = ?","u2")`, "where", "WHERE", func(db *gorm.DB) *gorm.DB { return db.Where("name = ?", "u2") }},
	{`Where("name IN ?",[u1 u3 u5])`, "where", "WHERE", func(db *gorm.DB) *gorm.DB { return db.Where("name IN ?", xs("u1", "u3", "u5")) }},
	{`Where(map{active:true})`, "where", "WHERE", func(db *gorm.DB) *gorm.DB { return db.Where(map[string]interface{}{"active": true}) }},
	{`Where(&User{Name:u4})`, "where", "WHERE", func(db *gorm.DB) *gorm.DB { return db.Where(&User{Name: "u4"}) }},
	{`Where("age < ? OR active = ?",30,false)`, "where", "WHERE", func(db *gorm.DB) *gorm.DB { return db.Where("age < ? OR active = ?", 30, false) }},
	{`Where(Expr("company_id = ?",1))`, "where", "WHERE", func(db *gorm.DB) *gorm.DB { return db.Where(gorm.Expr("company_id = ?", 1)) }},
	{`Where("age BETWEEN @lo AND @hi",10,40)`, "where", "WHERE", func(db *gorm.DB) *gorm.DB {
		return db.Where("age BETWEEN @lo AND @hi", sql.Named("lo", 10), sql.Named("hi", 40))
	}},
	{`Where(IN{id,[1 2 3 6]})`, "where", "WHERE", func(db *gorm.DB) *gorm.DB {
		return db.Where(clause.IN{Column: "id", Values: xs[interface{}](1, 2, 3, 6)})
	}},
	{`Where("age",20)`, "where", "WHERE", func(db *gorm.DB) *gorm.DB { return db.Where("age", 20) }},
	// Or
	{`Or("age > ?",40)`, "or", "WHERE", func(db *gorm.DB) *gorm.DB { return db.Or("age > ?", 40) }},
	{`Or("name = ?","u1")`, "or", "WHERE", func(db *gorm.DB) *gorm.DB { return db.Or("name = ?", "u1") }},
	{`Or(map{active:false})`, "or", "WHERE", func(db *gorm.DB) *gorm.DB { return db.Or(map[string]interface{}{"active": false}) }},
	{`Or("age = ? AND active = ?",20,true)`, "or", "WHERE", func(db *gorm.DB) *gorm.DB { return db.Or("age = ? AND active = ?", 20, true) }},
	// Not
	{`Not("name = ?","u3")`, "not", "WHERE", func(db *gorm.DB) *gorm.DB { return db.Not("name = ?", "u3") }},
	{`Not(map{name:[u1 u2]})`, "not", "WHERE", func(db *gorm.DB) *gorm.DB {
		return db.Not(map[string]interface{}{"name": xs("u1", "u2")})
	}},
	{`Not(&User{Age:20})`, "not", "WHERE", func(db *gorm.DB) *gorm.DB { return db.Not(&User{Age: 20}) }},
	// Select
	{`Select("name")`, "select", "", func(db *gorm.DB) *gorm.DB { return db.Select("name") }},
	{`Select("id","name")`, "select", "", func(db *gorm.DB) *gorm.DB { return db.Select("id", "name") }},
	{`Select([id age])`, "select", "", func(db *gorm.DB) *gorm.DB { return db.Select(xs("id", "age")) }},
	{`Select("name, age")`, "select", "", func(db *gorm.DB) *gorm.DB { return db.Select("name, age") }},
	{`Select([id],"name","age")`, "select", "", func(db *gorm.DB) *gorm.DB { return db.Select(xs("id"), "name", "age") }},
	{`Select("*")`, "select", "", func(db *gorm.DB) *gorm.DB { return db.Select("*") }},
	{`Select("name, age + ? as age",1)`, "select", "", func(db *gorm.DB) *gorm.DB { return db.Select("name, age + ? as age", 1) }},
	{`Select("count(*) as age, name")`, "select", "", func(db *gorm.DB) *gorm.DB { return db.Select("count(*) as age, name") }},
	// Omit
	{`Omit("age")`, "omit", "", func(db *gorm.DB) *gorm.DB { return db.Omit("age") }},
	{`Omit("name","active")`, "omit", "", func(db *gorm.DB) *gorm.DB { return db.Omit("name", "active") }},
	{`Omit("age,active")`, "omit", "", func(db *gorm.DB) *gorm.DB { return db.Omit("age,active") }},
	// Order
	{`Order("age desc")`, "order", "ORDER", func(db *gorm.DB) *gorm.DB { return db.Order("age desc") }},
	{`Order("name")`, "order", "ORDER", func(db *gorm.DB) *gorm.DB { return db.Order("name") }},
	{`Order("id")`, "order", "ORDER", func(db *gorm.DB) *gorm.DB { return db.Order("id") }},
	{`Order("active, id desc")`, "order", "ORDER", func(db *gorm.DB) *gorm.DB { return db.Order("active, id desc") }},
	{`Order(Column{company_id desc})`, "order", "ORDER", func(db *gorm.DB) *gorm.DB {
		return db.Order(clause.OrderByColumn{Column: col("company_id"), Desc: true})
	}},
	{`Order(OrderBy{[name desc,age]})`, "order", "ORDER", func(db *gorm.DB) *gorm.DB {
		return db.Order(clause.OrderBy{Columns: xs(clause.OrderByColumn{Column: col("name"), Desc: true}, clause.OrderByColumn{Column: col("age")})})
	}},
	{`Order(Column{id reorder})`, "order", "ORDER", func(db *gorm.DB) *gorm.DB {
		return db.Order(clause.OrderByColumn{Column: col("id"), Reorder: true})
	}},
	// Limit / Offset
	{`Limit(1)`, "limit", "", func(db *gorm.DB) *gorm.DB { return db.Limit(1) }},
	{`Limit(3)`, "limit", "", func(db *gorm.DB) *gorm.DB { return db.Limit(3) }},
	{`Limit(-1)`, "limit", "", func(db *gorm.DB) *gorm.DB { return db.Limit(-1) }},
	{`Offset(1)`, "offset", "", func(db *gorm.DB) *gorm.DB { return db.Offset(1) }},
	{`Offset(2)`, "offset", "", func(db *gorm.DB) *gorm.DB { return db.Offset(2) }},
	{`Offset(-1)`, "offset", "", func(db *gorm.DB) *gorm.DB { return db.Offset(-1) }},
	// Group / Having
	{`Group("name")`, "group", "GROUP", func(db *gorm.DB) *gorm.DB { return db.Group("name") }},
	{`Group("active")`, "group", "GROUP", func(db *gorm.DB) *gorm.DB { return db.Group("active") }},
	{`Group("company_id")`, "group", "GROUP", func(db *gorm.DB) *gorm.DB { return db.Group("company_id") }},
	{`Group("age")`, "group", "GROUP", func(db *gorm.DB) *gorm.DB { return db.Group("age") }},
	{`Having("count(*) > ?",0)`, "having", "GROUP", func(db *gorm.DB) *gorm.DB { return db.Having("count(*) > ?", 0) }},
	{`Having("max(age) > ?",10)`, "having", "GROUP", func(db *gorm.DB) *gorm.DB { return db.Having("max(age) > ?", 10) }},
	{`Having("min(id) < ?",6)`, "having", "GROUP", func(db *gorm.DB) *gorm.DB { return db.Having("min(id) < ?", 6) }},
	// Joins
	{`Joins("Company")`, "joins", "JOINS", func(db *gorm.DB) *gorm.DB { return db.Joins("Company") }},
	{`InnerJoins("Company")`, "joins", "JOINS", func(db *gorm.DB) *gorm.DB { return db.InnerJoins("Company") }},
	{`Joins("JOIN companies j1 …",c1)`, "joins", "JOINS", func(db *gorm.DB) *gorm.DB {
		return db.Joins("JOIN companies j1 ON j1.id = users.company_id AND j1.name = ?", "c1")
	}},
	{`Joins("LEFT JOIN companies j2 …")`, "joins", "JOINS", func(db *gorm.DB) *gorm.DB {
		return db.Joins("LEFT JOIN companies j2 ON j2.id = users.company_id")
	}},
	{`Joins("LEFT JOIN companies j3 …",0)`, "joins", "JOINS", func(db *gorm.DB) *gorm.DB {
		return db.Joins("LEFT JOIN companies j3 ON j3.id = users.company_id AND j3.id > ?", 0)
	}},
	{`Joins("JOIN companies j4 …")`, "joins", "JOINS", func(db *gorm.DB) *gorm.DB {
		return db.Joins("JOIN companies j4 ON j4.id = users.company_id")
	}},
	// Distinct / Unscoped
	{`Distinct()`, "distinct", "", func(db *gorm.DB) *gorm.DB { return db.Distinct() }},
	{`Distinct("name")`, "distinct", "", func(db *gorm.DB) *gorm.DB { return db.Distinct("name") }},
	{`Distinct("name","age")`, "distinct", "", func(db *gorm.DB) *gorm.DB { return db.Distinct("name", "age") }},
	{`Unscoped()`, "unscoped", "", func(db *gorm.DB) *gorm.DB { return db.Unscoped() }},
	// Scopes
	{`Scopes(age)`, "scopes", "SCOPES", func(db *gorm.DB) *gorm.DB { return db.Scopes(scopeAge) }},
	{`Scopes(order)`, "scopes", "SCOPES", func(db *gorm.DB) *gorm.DB { return db.Scopes(scopeOrder) }},
	{`Scopes(active,order)`, "scopes", "SCOPES", func(db *gorm.DB) *gorm.DB { return db.Scopes(xs(scopeActive, scopeOrder)...) }},
	{`Scopes(nested)`, "scopes", "SCOPES", func(db *gorm.DB) *gorm.DB { return db.Scopes(scopeNested) }},
	// Clauses(Returning)
	{`Clauses(Returning{id})`, "returning", "RETURNING", func(db *gorm.DB) *gorm.DB { return db.Clauses(clause.Returning{Columns: xs(col("id"))}) }},
	{`Clauses(Returning{name})`, "returning", "RETURNING", func(db *gorm.DB) *gorm.DB { return db.Clauses(clause.Returning{Columns: xs(col("name"))}) }},
	{`Clauses(Returning{age})`, "returning", "RETURNING", func(db *gorm.DB) *gorm.DB { return db.Clauses(clause.Returning{Columns: xs(col("age"))}) }},
	{`Clauses(Returning{active})`, "returning", "RETURNING", func(db *gorm.DB) *gorm.DB { return db.Clauses(clause.Returning{Columns: xs(col("active"))}) }},
	{`Clauses(Returning{company_id})`, "returning", "RETURNING", func(db *gorm.DB) *gorm.DB {
		return db.Clauses(clause.Returning{Columns: xs(col("company_id"))})
	}},
	{`Clauses(Returning{id,name})`, "returning", "RETURNING", func(db *gorm.DB) *gorm.DB {
		return db.Clauses(clause.Returning{Columns: xs(col("id"), col("name"))})
	}},
	{`Clauses(Returning{})`, "returning", "RETURNING", func(db *gorm.DB) *gorm.DB { return db.Clauses(clause.Returning{}) }},
	// Clauses(OrderBy)
	{`Clauses(OrderBy{age})`, "corder", "ORDER", func(db *gorm.DB) *gorm.DB {
		return db.Clauses(clause.OrderBy{Columns: xs(clause.OrderByColumn{Column: col("age")})})
	}},
	{`Clauses(OrderBy{name desc,id})`, "corder", "ORDER", func(db *gorm.DB) *gorm.DB {
		return db.Clauses(clause.OrderBy{Columns: xs(clause.OrderByColumn{Column: col("name"), Desc: true}, clause.OrderByColumn{Column: col("id")})})
	}},
	{`Clauses(OrderBy{Expr id = ? desc})`, "corder", "ORDER", func(db *gorm.DB) *gorm.DB {
		return db.Clauses(clause.OrderBy{Expression: clause.Expr{SQL: "id = ? desc", Vars: xs[interface{}](3)}})
	}},
	// Clauses(Locking)
	{`Clauses(Locking{UPDATE})`, "locking", "", func(db *gorm.DB) *gorm.DB { return db.Clauses(clause.Locking{Strength: "UPDATE"}) }},
	{`Clauses(Locking{SHARE NOWAIT})`, "locking", "", func(db *gorm.DB) *gorm.DB {
		return db.Clauses(clause.Locking{Strength: "SHARE", Options: "NOWAIT"})
	}},
	// Clauses(OnConflict)
	{`Clauses(OnConflict{DoNothing})`, "onconflict", "", func(db *gorm.DB) *gorm.DB { return db.Clauses(clause.OnConflict{DoNothing: true}) }},
	{`Clauses(OnConflict{id→name})`, "onconflict", "", func(db *gorm.DB) *gorm.DB {
		return db.Clauses(clause.OnConflict{Columns: xs(col("id")), DoUpdates: clause.AssignmentColumns(xs("name"))})
	}},
	{`Clauses(OnConflict{UpdateAll})`, "onconflict", "", func(db *gorm.DB) *gorm.DB { return db.Clauses(clause.OnConflict{UpdateAll: true}) }},
	// Clauses(other merging clauses)
	{`Clauses(Where{age>=20,id<6})`, "cwhere", "WHERE", func(db *gorm.DB) *gorm.DB {
		return db.Clauses(clause.Where{Exprs: xs[clause.Expression](clause.Gte{Column: "age", Value: 20}, clause.Lt{Column: "id", Value: 6})})
	}},
	{`Clauses(Eq{active,true})`, "cwhere", "WHERE", func(db *gorm.DB) *gorm.DB { return db.Clauses(clause.Eq{Column: "active", Value: true}) }},
	{`Clauses(GroupBy{name;having count>0})`, "cgroup", "GROUP", func(db *gorm.DB) *gorm.DB {
		return db.Clauses(clause.GroupBy{Columns: xs(col("name")), Having: xs[clause.Expression](clause.Expr{SQL: "count(*) > ?", Vars: xs[interface{}](0)})})
	}},
	{`Clauses(Limit{2})`, "climit", "", func(db *gorm.DB) *gorm.DB { n := 2; return db.Clauses(clause.Limit{Limit: &n}) }},
	// Table / Model
	{`Table("users")`, "table", "", func(db *gorm.DB) *gorm.DB { return db.Table("users") }},
	{`Table("users AS u")`, "table", "", func(db *gorm.DB) *gorm.DB { return db.Table("users AS u") }},
	{`Table("companies")`, "table", "", func(db *gorm.DB) *gorm.DB { return db.Table("companies") }},
	{`Model(&User{})`, "model", "", func(db *gorm.DB) *gorm.DB { return db.Model(&User{}) }},
	{`Model(&User{ID:2})`, "model", "", func(db *gorm.DB) *gorm.DB { return db.Model(&User{ID: 2}) }},
	{`Model(&Company{})`, "model", "", func(db *gorm.DB) *gorm.DB { return db.Model(&Company{}) }},
}

var (
	byFam      = map[string][]int{}
	famNames   []string
	byMerge    = map[string][]int{}
	mergeNames []string
	callIndex  = map[string]int{}
)

func init() {
	for i, c := range calls {
		if _, dup := callIndex[c.text]; dup {
			panic("duplicate call text " + c.text)
		}
		callIndex[c.text] = i
		if _, ok := byFam[c.fam]; !ok {
			famNames = append(famNames, c.fam)
		}
		byFam[c.fam] = append(byFam[c.fam], i)
		if c.merge != "" {
			if _, ok := byMerge[c.merge]; !ok {
				mergeNames = append(mergeNames, c.merge)
			}
			byMerge[c.merge] = append(byMerge[c.merge], i)
		}
	}
	sort.Strings(famNames)
	sort.Strings(mergeNames)
	for i, f := range fins {
		if _, dup := finIndex[f.text]; dup {
			panic("duplicate finisher text " + f.text)
		}
		finIndex[f.text] = i
	}
	for i, h := range hows {
		howIndex[h.text] = i
	}
	for i, f := range fins {
		if !f.write {
			readFins = append(readFins, i)
		}
	}
}

// ---- catalogue of finishers ------------------------------------------------------------------

type finDef struct {
	text  string
	kind  string
	write bool
	// f runs the finisher and returns the resulting *gorm.DB and the destination(s) to render
	f func(db *gorm.DB) (*gorm.DB, interface{})
}

var fins = []finDef{
	{`Find(&[]User)`, "find", false, func(db *gorm.DB) (*gorm.DB, interface{}) { var d []User; return db.Find(&d), &d }},
	{`Find(&[]User,"age > ?",25)`, "find", false, func(db *gorm.DB) (*gorm.DB, interface{}) { var d []User; return db.Find(&d, "age > ?", 25), &d }},
	{`Find(&[]User,[1 2 6])`, "find", false, func(db *gorm.DB) (*gorm.DB, interface{}) { var d []User; return db.Find(&d, xs(1, 2, 6)), &d }},
	{`Find(&[]Company)`, "find", false, func(db *gorm.DB) (*gorm.DB, interface{}) { var d []Company; return db.Find(&d), &d }},
	{`Find(&[]map)`, "find", false, func(db *gorm.DB) (*gorm.DB, interface{}) { var d []map[string]interface{}; return db.Find(&d), &d }},
	{`Find(&[]nameAge)`, "find", false, func(db *gorm.DB) (*gorm.DB, interface{}) { var d []nameAge; return db.Find(&d), &d }},
	{`First(&User)`, "first", false, func(db *gorm.DB) (*gorm.DB, interface{}) { var d User; return db.First(&d), &d }},
	{`First(&User,2)`, "first", false, func(db *gorm.DB) (*gorm.DB, interface{}) { var d User; return db.First(&d, 2), &d }},
	{`Take(&User)`, "first", false, func(db *gorm.DB) (*gorm.DB, interface{}) { var d User; return db.Take(&d), &d }},
	{`Last(&User)`, "first", false, func(db *gorm.DB) (*gorm.DB, interface{}) { var d User; return db.Last(&d), &d }},
	{`Last(&Company)`, "first", false, func(db *gorm.DB) (*gorm.DB, interface{}) { var d Company; return db.Last(&d), &d }},
	{`Count`, "count", false, func(db *gorm.DB) (*gorm.DB, interface{}) { var n int64; return db.Count(&n), &n }},
	{`Pluck("name")`, "pluck", false, func(db *gorm.DB) (*gorm.DB, interface{}) { var d []string; return db.Pluck("name", &d), &d }},
	{`Pluck("id")`, "pluck", false, func(db *gorm.DB) (*gorm.DB, interface{}) { var d []int64; return db.Pluck("id", &d), &d }},
	{`Pluck("age")`, "pluck", false, func(db *gorm.DB) (*gorm.DB, interface{}) { var d []int; return db.Pluck("age", &d), &d }},
	{`Scan(&[]nameAge)`, "scan", false, func(db *gorm.DB) (*gorm.DB, interface{}) { var d []nameAge; return db.Scan(&d), &d }},
	// writes
	{`Updates(map{age:55})`, "update", true, func(db *gorm.DB) (*gorm.DB, interface{}) {
		return db.Updates(map[string]interface{}{"age": 55}), nil
	}},
	{`Updates(map{active:false,name:"w"})`, "update", true, func(db *gorm.DB) (*gorm.DB, interface{}) {
		return db.Updates(map[string]interface{}{"name": "w", "active": false}), nil
	}},
	{`Updates(User{Name:x,Age:9})`, "update", true, func(db *gorm.DB) (*gorm.DB, interface{}) { return db.Updates(User{Name: "x", Age: 9}), nil }},
	{`Updates(&User{ID:3,Name:y})`, "update", true, func(db *gorm.DB) (*gorm.DB, interface{}) {
		d := &User{ID: 3, Name: "y"}
		return db.Updates(d), d
	}},
	{`Update("name","z")`, "update", true, func(db *gorm.DB) (*gorm.DB, interface{}) { return db.Update("name", "z"), nil }},
	{`UpdateColumn("age",Expr(age+?,1))`, "update", true, func(db *gorm.DB) (*gorm.DB, interface{}) {
		return db.UpdateColumn("age", gorm.Expr("age + ?", 1)), nil
	}},
	{`Delete(&User{})`, "delete", true, func(db *gorm.DB) (*gorm.DB, interface{}) { d := &User{}; return db.Delete(d), d }},
	{`Delete(&User{},3)`, "delete", true, func(db *gorm.DB) (*gorm.DB, interface{}) { d := &User{}; return db.Delete(d, 3), d }},
	{`Delete(&User{ID:2})`, "delete", true, func(db *gorm.DB) (*gorm.DB, interface{}) { d := &User{ID: 2}; return db.Delete(d), d }},
	{`Delete(&[]User)`, "delete", true, func(db *gorm.DB) (*gorm.DB, interface{}) { var d []User; return db.Delete(&d), &d }},
	{`Create(&User{n})`, "create", true, func(db *gorm.DB) (*gorm.DB, interface{}) {
		d := &User{Name: "n", Age: 7, CompanyID: 1}
		return db.Create(d), d
	}},
	{`Create(&User{ID:1})`, "create", true, func(db *gorm.DB) (*gorm.DB, interface{}) {
		d := &User{ID: 1, Name: "dup", Age: 8, CompanyID: 2}
		return db.Create(d), d
	}},
	{`Create(&[]User{a,b})`, "create", true, func(db *gorm.DB) (*gorm.DB, interface{}) {
		d := xs(User{Name: "a", Age: 1, CompanyID: 1}, User{Name: "b", Age: 2, CompanyID: 2})
		return db.Create(&d), &d
	}},
	{`Create(map{name:m})`, "create", true, func(db *gorm.DB) (*gorm.DB, interface{}) {
		return db.Create(map[string]interface{}{"name": "m", "age": 3}), nil
	}},
	{`Save(&User{ID:4})`, "save", true, func(db *gorm.DB) (*gorm.DB, interface{}) {
		d := &User{ID: 4, Name: "s", Age: 44, CompanyID: 1}
		return db.Save(d), d
	}},
}

var (
	finIndex = map[string]int{}
	readFins []int
)

// ---- catalogue of derivations (how a chain becomes a reusable handle) ------------------------

type howDef struct {
	text string
	tx   bool
	f    func(e *env, p pair, n int) pair
}

var silent = logger.Discard.LogMode(logger.Silent)

func both(p pair, f func(db *gorm.DB) *gorm.DB) pair { return pair{d: f(p.d), l: f(p.l)} }

var hows = []howDef{
	{"Session{}", false, func(e *env, p pair, n int) pair {
		return both(p, func(db *gorm.DB) *gorm.DB { return db.Session(&gorm.Session{}) })
	}},
	{"WithContext", false, func(e *env, p pair, n int) pair {
		return both(p, func(db *gorm.DB) *gorm.DB { return db.WithContext(context.WithValue(context.Background(), ctxKey{}, n)) })
	}},
	{"Debug", false, func(e *env, p pair, n int) pair {
		// the configured logger is logger.Discard: Debug() switches it to Info, output goes to io.Discard
		return both(p, func(db *gorm.DB) *gorm.DB { return db.Debug() })
	}},
	{"Session{Logger}", false, func(e *env, p pair, n int) pair {
		return both(p, func(db *gorm.DB) *gorm.DB { return db.Session(&gorm.Session{Logger: silent}) })
	}},
	{"Session{SkipHooks}", false, func(e *env, p pair, n int) pair {
		return both(p, func(db *gorm.DB) *gorm.DB { return db.Session(&gorm.Session{SkipHooks: true}) })
	}},
	{"Session{QueryFields}", false, func(e *env, p pair, n int) pair {
		return both(p, func(db *gorm.DB) *gorm.DB { return db.Session(&gorm.Session{QueryFields: true}) })
	}},
	{"Session{AllowGlobalUpdate}", false, func(e *env, p pair, n int) pair {
		return both(p, func(db *gorm.DB) *gorm.DB { return db.Session(&gorm.Session{AllowGlobalUpdate: true}) })
	}},
	{"Session{NewDB}", false, func(e *env, p pair, n int) pair {
		return both(p, func(db *gorm.DB) *gorm.DB { return db.Session(&gorm.Session{NewDB: true}) })
	}},
	{"Begin", true, func(e *env, p pair, n int) pair {
		// the dry-run handle has no connection pool: its twin of Begin is the
		// Session call Begin itself performs (a context-carrying Session)
		tx := p.l.Begin()
		if tx.Error != nil {
			panic("harness: Begin: " + tx.Error.Error())
		}
		e.txs = append(e.txs, tx)
		return pair{d: p.d.Session(&gorm.Session{Context: p.d.Statement.Context}), l: tx}
	}},
}

var howIndex = map[string]int{}

// ---- histories ---------------------------------------------------------------------------------

// Action kinds:
//
//	derive  H Calls How      new handle New = H.<Calls>.<How>
//	promote C How            new handle New = <chain C>.<How>; the chain ends
//	start   H Calls          new chain New = H.<Calls> (at least one call)
//	extend  C Calls          chain C continues with Calls
//	finish  C Fin            chain C ends with finisher Fin
//	direct  H Fin            finisher straight on handle H (a chain without calls)
//	abandon C                chain C is dropped
//	repeat  Ref              the chain finished by action Ref is built again from the same handle, in one go
type Action struct {
	Kind  string `json:"kind"`
	H     int    `json:"h,omitempty"`
	C     int    `json:"c,omitempty"`
	Calls []int  `json:"calls,omitempty"`
	How   int    `json:"how,omitempty"`
	Fin   int    `json:"fin,omitempty"`
	New   int    `json:"new,omitempty"`
	Ref   int    `json:"ref,omitempty"`
}

type History struct {
	Mode    string   `json:"mode"` // "tx": Begin allowed, twin runs read finishers only; "rw": no Begin, twin runs writes too
	Actions []Action `json:"actions"`
}

func callsText(cs []int) string {
	parts := make([]string, len(cs))
	for i, c := range cs {
		parts[i] = calls[c].text
	}
	return strings.Join(parts, ".")
}

func (a Action) String() string {
	switch a.Kind {
	case "derive":
		s := fmt.Sprintf("h%d=h%d.", a.New, a.H)
		if len(a.Calls) > 0 {
			s += callsText(a.Calls) + "."
		}
		return s + hows[a.How].text
	case "promote":
		return fmt.Sprintf("h%d=c%d.%s", a.New, a.C, hows[a.How].text)
	case "start":
		return fmt.Sprintf("c%d=h%d.%s", a.New, a.H, callsText(a.Calls))
	case "extend":
		return fmt.Sprintf("c%d.%s", a.C, callsText(a.Calls))
	case "finish":
		return fmt.Sprintf("c%d.%s", a.C, fins[a.Fin].text)
	case "direct":
		return fmt.Sprintf("h%d.%s", a.H, fins[a.Fin].text)
	case "abandon":
		return fmt.Sprintf("drop c%d", a.C)
	case "repeat":
		return fmt.Sprintf("again #%d", a.Ref)
	}
	return "?"
}

func (h History) String() string {
	parts := make([]string, len(h.Actions))
	for i, a := range h.Actions {
		parts[i] = fmt.Sprintf("#%d %s", i, a)
	}
	return "[" + h.Mode + "] " + strings.Join(parts, "; ")
}

// ---- static structure of a history (no gorm involved) ------------------------------------------

type step struct {
	calls []int
	how   int
}

type hnode struct {
	id     int
	parent *hnode
	st     step // derivation from parent (root: unused)
}

// steps returns the derivations root → h.
func (h *hnode) steps() []step {
	if h.parent == nil {
		return nil
	}
	return append(h.parent.steps(), h.st)
}

func (h *hnode) ancestors() []*hnode { // root first, h last
	if h.parent == nil {
		return []*hnode{h}
	}
	return append(h.parent.ancestors(), h)
}

type cnode struct {
	id          int
	from        *hnode
	calls       []int
	start, last int // action indices
	ended       bool
}

// path is what is replayed alone.
type path struct {
	steps []step
	calls []int
	fin   int
}

func (p path) String() string {
	s := "Open"
	for _, st := range p.steps {
		if len(st.calls) > 0 {
			s += "." + callsText(st.calls)
		}
		s += "." + hows[st.how].text
	}
	if len(p.calls) > 0 {
		s += "." + callsText(p.calls)
	}
	return s + "." + fins[p.fin].text
}

// ---- outcome of one finisher ----------------------------------------------------------------------

type outcome struct {
	DrySQL, DryVars, DryErr      string
	LiteStmts, LiteRes, LiteErr string
}

func (o outcome) diff(w outcome) string {
	var d []string
	cmp := func(what, got, want string) {
		if got != want {
			d = append(d, fmt.Sprintf("%s differs:\n      in the history: %s\n      replayed alone: %s", what, got, want))
		}
	}
	cmp("dry-run SQL", o.DrySQL, w.DrySQL)
	cmp("dry-run Vars", o.DryVars, w.DryVars)
	cmp("dry-run error", o.DryErr, w.DryErr)
	cmp("statements sent to SQLite", o.LiteStmts, w.LiteStmts)
	cmp("SQLite result", o.LiteRes, w.LiteRes)
	cmp("SQLite error", o.LiteErr, w.LiteErr)
	return strings.Join(d, "\n    ")
}

// render prints a value without addresses: pointers are followed.
func render(v interface{}) string {
	if v == nil {
		return "<nil>"
	}
	rv := reflect.ValueOf(v)
	for rv.Kind() == reflect.Ptr {
		if rv.IsNil() {
			return "<nil " + rv.Type().String() + ">"
		}
		rv = rv.Elem()
	}
	return fmt.Sprintf("%T:%+v", rv.Interface(), rv.Interface())
}

func renderVars(vs []interface{}) string {
	parts := make([]string, len(vs))
	for i, v := range vs {
		parts[i] = render(v)
	}
	return "[" + strings.Join(parts, " | ") + "]"
}

var ptrRe = regexp.MustCompile(`0x[0-9a-f]{6,}`)

// errText renders an error; addresses of caller values that gorm prints with
// %v ("unsupported data type: 0xc000…") are masked.
func errText(err error) string {
	if err == nil {
		return ""
	}
	return ptrRe.ReplaceAllString(err.Error(), "0xPTR")
}

// safely runs a finisher; a panic inside gorm is an outcome like any other (it
// must be the same in the history and alone), reported as error text.
func safely(fd finDef, db *gorm.DB) (tx *gorm.DB, dest interface{}, panicked string) {
	defer func() {
		if r := recover(); r != nil {
			panicked = ptrRe.ReplaceAllString(fmt.Sprint("panic: ", r), "0xPTR")
		}
	}()
	tx, dest = fd.f(db)
	return
}

func runFin(e *env, p pair, fin int, mode string) outcome {
	fd := fins[fin]
	var o outcome
	tx, _, pan := safely(fd, p.d)
	if pan != "" {
		o.DryErr = pan
	} else {
		o.DrySQL = tx.Statement.SQL.String()
		o.DryVars = renderVars(tx.Statement.Vars)
		o.DryErr = errText(tx.Error)
	}
	if fd.write && mode != "rw" {
		o.LiteStmts = "(not run)"
		return o
	}
	e.lite.Rec.Reset()
	tx, dest, pan := safely(fd, p.l)
	if pan != "" {
		// the twin may hold an unfinished default transaction now: the caller stops using this environment
		e.poisoned = true
		o.LiteErr = pan
		return o
	}
	var sb strings.Builder
	for _, ev := range e.lite.Rec.Statements() {
		sb.WriteString(ev.Text)
		sb.WriteString(" [")
		for i, a := range ev.Args {
			if i > 0 {
				sb.WriteString(" | ")
			}
			sb.WriteString(render(a.Value))
		}
		sb.WriteString("]; ")
	}
	o.LiteStmts = sb.String()
	o.LiteRes = fmt.Sprintf("rows=%d dest=%s", tx.RowsAffected, render(dest))
	o.LiteErr = errText(tx.Error)
	if fd.write {
		e.restore()
	}
	return o
}

func applyCalls(p pair, cs []int) pair {
	for _, c := range cs {
		f := calls[c].f
		p = pair{d: f(p.d), l: f(p.l)}
	}
	return p
}

// runAlone replays one path on a fresh Open (fresh dry handle, fresh database).
func runAlone(p path, mode string) outcome {
	e := newEnv()
	defer e.close()
	cur := e.root
	for i, st := range p.steps {
		cur = applyCalls(cur, st.calls)
		cur = hows[st.how].f(e, cur, i+1)
	}
	cur = applyCalls(cur, p.calls)
	return runFin(e, cur, p.fin, mode)
}

// ---- running a history ------------------------------------------------------------------------------

type finished struct {
	from  *hnode
	calls []int
	fin   int
}

// run executes the history in one shared environment and compares every
// finisher with its path replayed alone. It returns "" or the violation.
func run(h History) string {
	e := newEnv()
	defer e.close()
	root := &hnode{id: 0}
	handles := map[int]*hnode{0: root}
	hpair := map[int]pair{0: e.root}
	chains := map[int]*cnode{}
	cpair := map[int]pair{}
	done := map[int]finished{}    // by action index
	alone := map[string]outcome{} // path → outcome replayed alone

	check := func(i int, from *hnode, cs []int, fin int, got outcome) string {
		p := path{steps: from.steps(), calls: cs, fin: fin}
		key := p.String()
		want, ok := alone[key]
		if !ok {
			want = runAlone(p, h.Mode)
			alone[key] = want
			// the replay itself must be repeatable, otherwise the comparison means nothing
			if again := runAlone(p, h.Mode); again != want {
				return fmt.Sprintf("harness: path %s is not deterministic when replayed alone:\n    %s", key, again.diff(want))
			}
		}
		if d := got.diff(want); d != "" {
			return fmt.Sprintf("action #%d (%s): the chain %s gives a different outcome in the history than alone\n    %s", i, h.Actions[i], key, d)
		}
		return ""
	}

	for i, a := range h.Actions {
		if e.poisoned {
			evid.Class("outcome:panic-in-gorm (history truncated)")
			break
		}
		switch a.Kind {
		case "derive":
			par := handles[a.H]
			p := applyCalls(hpair[a.H], a.Calls)
			n := &hnode{id: a.New, parent: par, st: step{calls: a.Calls, how: a.How}}
			handles[a.New] = n
			hpair[a.New] = hows[a.How].f(e, p, len(n.steps()))
		case "promote":
			c := chains[a.C]
			n := &hnode{id: a.New, parent: c.from, st: step{calls: c.calls, how: a.How}}
			handles[a.New] = n
			hpair[a.New] = hows[a.How].f(e, cpair[a.C], len(n.steps()))
			delete(chains, a.C)
			delete(cpair, a.C)
		case "start":
			chains[a.New] = &cnode{id: a.New, from: handles[a.H], calls: append([]int(nil), a.Calls...)}
			cpair[a.New] = applyCalls(hpair[a.H], a.Calls)
		case "extend":
			c := chains[a.C]
			c.calls = append(c.calls, a.Calls...)
			cpair[a.C] = applyCalls(cpair[a.C], a.Calls)
		case "finish":
			c := chains[a.C]
			got := runFin(e, cpair[a.C], a.Fin, h.Mode)
			delete(chains, a.C)
			delete(cpair, a.C)
			done[i] = finished{from: c.from, calls: c.calls, fin: a.Fin}
			if v := check(i, c.from, c.calls, a.Fin, got); v != "" {
				return v
			}
		case "direct":
			got := runFin(e, hpair[a.H], a.Fin, h.Mode)
			done[i] = finished{from: handles[a.H], fin: a.Fin}
			if v := check(i, handles[a.H], nil, a.Fin, got); v != "" {
				return v
			}
		case "abandon":
			delete(chains, a.C)
			delete(cpair, a.C)
		case "repeat":
			f := done[a.Ref]
			got := runFin(e, applyCalls(hpair[f.from.id], f.calls), f.fin, h.Mode)
			if v := check(i, f.from, f.calls, f.fin, got); v != "" {
				return v
			}
		}
	}
	return ""
}

// ---- classification: non-trivial rule and class labels ------------------------------------------------

func mergeFams(cs []int) map[string]bool {
	m := map[string]bool{}
	for _, c := range cs {
		if f := calls[c].merge; f != "" {
			m[f] = true
		}
	}
	return m
}

// analyse walks the history statically.
func analyse(h History) (nontrivial bool, classes []string) {
	cl := map[string]bool{"mode:" + h.Mode: true}
	root := &hnode{id: 0}
	handles := map[int]*hnode{0: root}
	type chainInfo struct {
		from        *hnode
		calls       []int
		start, last int
	}
	live := map[int]*chainInfo{}
	var all []*chainInfo
	doneCalls := map[int]*chainInfo{}
	burst := func(cs []int) {
		run, prev := 0, ""
		for _, c := range cs {
			m := calls[c].merge
			if m != "" && m == prev {
				run++
			} else {
				run = 1
			}
			prev = m
			if m != "" && run >= 3 {
				cl["burst3:"+m] = true
			}
		}
	}
	for i, a := range h.Actions {
		cl["action:"+a.Kind] = true
		for _, c := range a.Calls {
			cl["call:"+calls[c].fam] = true
		}
		switch a.Kind {
		case "derive":
			handles[a.New] = &hnode{id: a.New, parent: handles[a.H], st: step{calls: a.Calls, how: a.How}}
			cl["how:"+hows[a.How].text] = true
			burst(a.Calls)
		case "promote":
			c := live[a.C]
			c.last = i
			handles[a.New] = &hnode{id: a.New, parent: c.from, st: step{calls: c.calls, how: a.How}}
			cl["how:"+hows[a.How].text] = true
			burst(c.calls)
			delete(live, a.C)
		case "start":
			c := &chainInfo{from: handles[a.H], calls: append([]int(nil), a.Calls...), start: i, last: i}
			live[a.New] = c
			all = append(all, c)
		case "extend":
			c := live[a.C]
			c.calls = append(c.calls, a.Calls...)
			c.last = i
		case "finish":
			c := live[a.C]
			c.last = i
			doneCalls[i] = c
			delete(live, a.C)
			cl["fin:"+fins[a.Fin].kind] = true
			burst(c.calls)
		case "direct":
			c := &chainInfo{from: handles[a.H], start: i, last: i}
			all = append(all, c)
			doneCalls[i] = c
			cl["fin:"+fins[a.Fin].kind] = true
		case "abandon":
			delete(live, a.C)
		case "repeat":
			f := doneCalls[a.Ref]
			all = append(all, &chainInfo{from: f.from, calls: f.calls, start: i, last: i})
		}
	}
	cl[fmt.Sprintf("handles:%d", len(handles))] = true
	// cumulative calls of a handle and the calls a chain adds below an ancestor
	cum := func(n *hnode) []int {
		var cs []int
		for _, st := range n.steps() {
			if hows[st.how].text == "Session{NewDB}" {
				cs = nil // a NewDB session starts from an empty statement
			}
			cs = append(cs, st.calls...)
		}
		return cs
	}
	below := func(c *chainInfo, anc *hnode) []int {
		var cs []int
		on := false
		for _, n := range c.from.ancestors() {
			if on {
				cs = append(cs, n.st.calls...)
			}
			if n == anc {
				on = true
			}
		}
		return append(cs, c.calls...)
	}
	for x := 0; x < len(all); x++ {
		for y := 0; y < len(all); y++ {
			a, b := all[x], all[y]
			// overlap in time: b was started while a was unfinished and a was
			// extended / finished afterwards
			if x == y || !(a.start < b.start && b.start <= a.last) {
				continue
			}
			cl["overlap"] = true
			// deepest common handle
			aa, ba := a.from.ancestors(), b.from.ancestors()
			var common *hnode
			for k := 0; k < len(aa) && k < len(ba) && aa[k] == ba[k]; k++ {
				common = aa[k]
			}
			if common.parent == nil {
				continue // only Open in common: nothing is shared
			}
			cl["overlap-common-handle"] = true
			shared := mergeFams(cum(common))
			if len(shared) == 0 {
				continue
			}
			am, bm := mergeFams(below(a, common)), mergeFams(below(b, common))
			if len(am) > 0 || len(bm) > 0 {
				nontrivial = true
			}
			for f := range shared {
				if am[f] && bm[f] {
					cl["siblings-extend-shared:"+f] = true
				}
			}
		}
	}
	for k := range cl {
		classes = append(classes, k)
	}
	sort.Strings(classes)
	return
}

// ---- generator -------------------------------------------------------------------------------------------

func drawCall(rt *rapid.T, prefer []string) int {
	// half of the time continue a merging family that the ancestors already hold
	if len(prefer) > 0 && rapid.IntRange(0, 1).Draw(rt, "preferShared") == 1 {
		f := rapid.SampledFrom(prefer).Draw(rt, "sharedFam")
		return rapid.SampledFrom(byMerge[f]).Draw(rt, "call")
	}
	f := rapid.SampledFrom(famNames).Draw(rt, "fam")
	return rapid.SampledFrom(byFam[f]).Draw(rt, "call")
}

func drawBurst(rt *rapid.T, prefer []string) []int {
	fams := mergeNames
	if len(prefer) > 0 && rapid.IntRange(0, 2).Draw(rt, "burstShared") > 0 {
		fams = prefer
	}
	f := rapid.SampledFrom(fams).Draw(rt, "burstFam")
	n := rapid.IntRange(3, 4).Draw(rt, "burstLen")
	out := make([]int, n)
	for i := range out {
		out[i] = rapid.SampledFrom(byMerge[f]).Draw(rt, "call")
	}
	return out
}

// leadingOr recognises the known class `leading-or-handle`: the accumulated
// WHERE of a handle starts with an Or(...) condition and continues with a
// condition that is not an Or (Where / Not / Clauses(Where|Eq)). clause.Where.Build
// moves the first non-Or expression to the front *in place*, i.e. in the Exprs
// array the handle shares with every chain derived from it.
func leadingOr(cs []int) bool {
	first := true
	lead := false
	for _, c := range cs {
		if calls[c].merge != "WHERE" {
			continue
		}
		if first {
			first = false
			lead = calls[c].fam == "or"
			continue
		}
		if lead && calls[c].fam != "or" {
			return true
		}
	}
	return false
}

func holdsModel(cs []int) bool {
	for _, c := range cs {
		if calls[c].fam == "model" {
			return true
		}
	}
	return false
}

func sortedKeys(m map[string]bool) []string {
	out := make([]string, 0, len(m))
	for k := range m {
		out = append(out, k)
	}
	sort.Strings(out)
	return out
}

func genHistory(rt *rapid.T) History {
	maxActions := harness.EnvInt("VERIF_C06_ACTIONS", 25)
	const maxHandles, maxLive = 4, 6
	skipLeadingOr := harness.OpenClass("C06", "leading-or-handle") && harness.EnvInt("VERIF_C06_NOSKIP", 0) == 0
	h := History{Mode: rapid.SampledFrom([]string{"tx", "rw"}).Draw(rt, "mode")}
	n := rapid.IntRange(4, maxActions).Draw(rt, "actions")

	type gh struct {
		id    int
		calls []int // cumulative calls (for preferring shared families)
		inTx  bool  // derived through Begin: a second Begin is an error in gorm (ErrInvalidTransaction), not generated
	}
	type gc struct {
		id    int
		from  int
		calls []int
	}
	handles := []gh{{id: 0}}
	var live []gc
	var finishedAt []int
	nextH, nextC := 1, 1
	howsFor := func(inTx bool) []int {
		var out []int
		for i, hd := range hows {
			if hd.tx && (h.Mode != "tx" || inTx) {
				continue
			}
			out = append(out, i)
		}
		return out
	}
	handleByID := func(id int) gh {
		for _, x := range handles {
			if x.id == id {
				return x
			}
		}
		panic("no handle")
	}
	pickHandle := func(label string) gh {
		// non-root handles three times as likely as Open
		var ids []int
		for _, x := range handles {
			ids = append(ids, x.id)
			if x.id != 0 {
				ids = append(ids, x.id, x.id)
			}
		}
		return handleByID(rapid.SampledFrom(ids).Draw(rt, label))
	}
	prefer := func(cs []int) []string { return sortedKeys(mergeFams(cs)) }
	// D (domain): a Model value is a caller-owned object gorm writes to by
	// contract (updated fields, RETURNING values, primary key used as condition).
	// A Model pointer held by a handle is therefore never the target of a write
	// finisher: such chains end with a read finisher (the chains would otherwise
	// communicate through the caller's object, not through gorm's state).
	drawFin := func(handleCalls, chainCalls []int) int {
		if holdsModel(handleCalls) && !holdsModel(chainCalls) {
			return rapid.SampledFrom(readFins).Draw(rt, "readFin")
		}
		return rapid.IntRange(0, len(fins)-1).Draw(rt, "fin")
	}

	for i := 0; i < n; i++ {
		var kinds []string
		add := func(k string, w int) {
			for ; w > 0; w-- {
				kinds = append(kinds, k)
			}
		}
		if len(handles) < maxHandles {
			if len(handles) == 1 {
				add("derive", 6)
			} else {
				add("derive", 1)
			}
			if len(live) > 0 {
				add("promote", 1)
			}
		}
		if len(live) < maxLive {
			add("start", 3)
		}
		add("direct", 1)
		if len(live) > 0 {
			add("extend", 5)
			add("finish", 3)
			add("abandon", 1)
		}
		if len(finishedAt) > 0 {
			add("repeat", 1)
		}
		switch k := rapid.SampledFrom(kinds).Draw(rt, "kind"); k {
		case "derive":
			par := pickHandle("parent")
			var cs []int
			for j := rapid.IntRange(0, 2).Draw(rt, "pre"); j > 0; j-- {
				cs = append(cs, drawCall(rt, nil))
			}
			if rapid.IntRange(0, 9).Draw(rt, "withBurst") < 7 {
				cs = append(cs, drawBurst(rt, prefer(par.calls))...)
			}
			for j := rapid.IntRange(0, 1).Draw(rt, "post"); j > 0; j-- {
				cs = append(cs, drawCall(rt, nil))
			}
			how := rapid.SampledFrom(howsFor(par.inTx)).Draw(rt, "how")
			cum := append(append([]int(nil), par.calls...), cs...)
			if hows[how].text == "Session{NewDB}" {
				cum = nil
			}
			if skipLeadingOr && leadingOr(cum) {
				evid.Excluded("leading-or-handle")
				continue
			}
			h.Actions = append(h.Actions, Action{Kind: k, H: par.id, Calls: cs, How: how, New: nextH})
			handles = append(handles, gh{id: nextH, calls: cum, inTx: par.inTx || hows[how].tx})
			nextH++
		case "promote":
			ci := rapid.IntRange(0, len(live)-1).Draw(rt, "chain")
			c := live[ci]
			par := handleByID(c.from)
			how := rapid.SampledFrom(howsFor(par.inTx)).Draw(rt, "how")
			cum := append(append([]int(nil), par.calls...), c.calls...)
			if hows[how].text == "Session{NewDB}" {
				cum = nil
			}
			if skipLeadingOr && leadingOr(cum) {
				evid.Excluded("leading-or-handle")
				continue
			}
			h.Actions = append(h.Actions, Action{Kind: k, C: c.id, How: how, New: nextH})
			handles = append(handles, gh{id: nextH, calls: cum, inTx: par.inTx || hows[how].tx})
			nextH++
			live = append(live[:ci:ci], live[ci+1:]...)
		case "start":
			from := pickHandle("from")
			cs := []int{drawCall(rt, prefer(from.calls))}
			h.Actions = append(h.Actions, Action{Kind: k, H: from.id, Calls: cs, New: nextC})
			live = append(live, gc{id: nextC, from: from.id, calls: cs})
			nextC++
		case "extend":
			ci := rapid.IntRange(0, len(live)-1).Draw(rt, "chain")
			c := &live[ci]
			p := prefer(append(append([]int(nil), handleByID(c.from).calls...), c.calls...))
			var cs []int
			if rapid.IntRange(0, 5).Draw(rt, "extBurst") == 0 {
				cs = drawBurst(rt, p)
			} else {
				cs = []int{drawCall(rt, p)}
			}
			h.Actions = append(h.Actions, Action{Kind: k, C: c.id, Calls: cs})
			c.calls = append(append([]int(nil), c.calls...), cs...)
		case "finish":
			ci := rapid.IntRange(0, len(live)-1).Draw(rt, "chain")
			h.Actions = append(h.Actions, Action{Kind: k, C: live[ci].id, Fin: drawFin(handleByID(live[ci].from).calls, live[ci].calls)})
			finishedAt = append(finishedAt, len(h.Actions)-1)
			live = append(live[:ci:ci], live[ci+1:]...)
		case "direct":
			from := pickHandle("from")
			h.Actions = append(h.Actions, Action{Kind: k, H: from.id, Fin: drawFin(from.calls, nil)})
			finishedAt = append(finishedAt, len(h.Actions)-1)
		case "abandon":
			ci := rapid.IntRange(0, len(live)-1).Draw(rt, "chain")
			h.Actions = append(h.Actions, Action{Kind: k, C: live[ci].id})
			live = append(live[:ci:ci], live[ci+1:]...)
		case "repeat":
			h.Actions = append(h.Actions, Action{Kind: k, Ref: rapid.SampledFrom(finishedAt).Draw(rt, "ref")})
		}
	}
	// finish what is still live so that every built chain is observed
	for _, c := range live {
		h.Actions = append(h.Actions, Action{Kind: "finish", C: c.id, Fin: drawFin(handleByID(c.from).calls, c.calls)})
	}
	return h
}

const rule = "C06: histories (<=25 actions, <=4 reusable handles, <=6 live chains) over a tree of handles rooted at Open: " +
	"derive a handle (chain calls + Session/WithContext/Debug/Session{...}/Begin), promote a live chain to a handle, start / extend / finish / abandon linear chains, " +
	"finish directly on a handle, rebuild an already finished chain; every finisher is compared (dry-run SQL+Vars+error, SQLite statements+rows+error) with its call path replayed alone on a fresh Open. " +
	"non-trivial = two chains whose deepest common handle is not Open and holds a merging clause (WHERE/ORDER/GROUP/RETURNING/JOINS/SCOPES), that overlap in time " +
	"(the second is started while the first is unfinished and the first is extended or finished afterwards), and at least one of them adds a merging clause below that handle; " +
	"distinct = mode + full action sequence"

// TestC06 is the generated check.
func TestC06(t *testing.T) {
	evid.Rule(rule)
	rapid.Check(t, func(rt *rapid.T) {
		h := genHistory(rt)
		desc := h.String()
		evid.Journal(desc)
		nt, classes := analyse(h)
		evid.Case(desc, nt, desc, classes...)
		if v := run(h); v != "" {
			if strings.HasPrefix(v, "harness:") {
				rt.Fatalf("%s, case: %s", v, desc)
			}
			rt.Fatalf("C06 violated: %s\n  case: %s", v, desc)
		}
	})
}

// ---- witnesses ------------------------------------------------------------------------------------------------

func idx(text string) int {
	i, ok := callIndex[text]
	if !ok {
		panic("unknown call " + text)
	}
	return i
}

// Three merged Returning clauses on a reusable handle, then two sibling chains
// each adding one Returning column: both chains must list their own column
// (Returning.MergeClause used to append into the shared backing array, so the
// second chain overwrote the first chain's column).
func TestC06WitnessReturningAlias(t *testing.T) {
	db := testdb.Dry(false, gorm.Config{NowFunc: fixedNow})
	h := db.Model(&User{}).
		Clauses(clause.Returning{Columns: xs(col("id"))}).
		Clauses(clause.Returning{Columns: xs(col("name"))}).
		Clauses(clause.Returning{Columns: xs(col("age"))}).
		Session(&gorm.Session{})
	c1 := h.Clauses(clause.Returning{Columns: xs(col("active"))})
	c2 := h.Clauses(clause.Returning{Columns: xs(col("company_id"))})
	s1 := c1.Where("id = ?", 1).Update("name", "a").Statement.SQL.String()
	s2 := c2.Where("id = ?", 2).Update("name", "b").Statement.SQL.String()
	if want := "RETURNING `id`,`name`,`age`,`active`"; !strings.HasSuffix(s1, want) {
		t.Errorf("C06 violated: first sibling chain's SQL is %q, want suffix %q", s1, want)
	}
	if want := "RETURNING `id`,`name`,`age`,`company_id`"; !strings.HasSuffix(s2, want) {
		t.Errorf("C06 violated: second sibling chain's SQL is %q, want suffix %q", s2, want)
	}
	// the same through the history runner (dry-run and SQLite twin)
	hist := History{Mode: "rw", Actions: []Action{
		{Kind: "derive", H: 0, Calls: []int{idx(`Table("users")`), idx(`Clauses(Returning{id})`), idx(`Clauses(Returning{name})`), idx(`Clauses(Returning{age})`)}, How: howIndex["Session{}"], New: 1},
		{Kind: "start", H: 1, Calls: []int{idx(`Clauses(Returning{active})`)}, New: 1},
		{Kind: "start", H: 1, Calls: []int{idx(`Clauses(Returning{company_id})`)}, New: 2},
		{Kind: "extend", C: 1, Calls: []int{idx(`Model(&User{})`), idx(`Where("name = ?","u2")`)}},
		{Kind: "extend", C: 2, Calls: []int{idx(`Model(&User{})`), idx(`Where("age > ?",20)`)}},
		{Kind: "finish", C: 1, Fin: finIndex[`Update("name","z")`]},
		{Kind: "finish", C: 2, Fin: finIndex[`Updates(map{age:55})`]},
	}}
	if v := run(hist); v != "" {
		t.Errorf("C06 violated: %s\n  case: %s", v, hist)
	}
	if nt, _ := analyse(hist); !nt {
		t.Errorf("harness: the witness history is not classified non-trivial")
	}
}

// A handle whose WHERE starts with Or(...) followed by a Where(...): executing
// one chain (whose SQL needs no extra WHERE member, here Unscoped) makes
// clause.Where.Build swap the two conditions inside the Exprs array the handle
// shares with all its chains; a later chain that goes through the soft-delete
// grouping then renders `(b OR a)` instead of `(a AND b)`.
func TestC06WitnessLeadingOrSwap(t *testing.T) {
	build := func(db *gorm.DB) *gorm.DB {
		return db.Or("age > ?", 40).Where("age >= ?", 20).Session(&gorm.Session{})
	}
	var u0, u1, u2 []User
	alone := build(testdb.Dry(false, gorm.Config{NowFunc: fixedNow})).Find(&u0).Statement
	h := build(testdb.Dry(false, gorm.Config{NowFunc: fixedNow}))
	h.Unscoped().Find(&u1) // another chain from the same handle, executed first
	got := h.Find(&u2).Statement
	if got.SQL.String() != alone.SQL.String() || renderVars(got.Vars) != renderVars(alone.Vars) {
		t.Errorf("C06 violated: h := db.Or(\"age > ?\",40).Where(\"age >= ?\",20).Session(&gorm.Session{}); after h.Unscoped().Find(&users), h.Find(&users) builds\n  %s %s\nalone it builds\n  %s %s",
			got.SQL.String(), renderVars(got.Vars), alone.SQL.String(), renderVars(alone.Vars))
	}
	hist := History{Mode: "tx", Actions: []Action{
		{Kind: "derive", H: 0, Calls: []int{idx(`Or("age > ?",40)`), idx(`Where("age > ?",20)`)}, How: howIndex["Session{}"], New: 1},
		{Kind: "start", H: 1, Calls: []int{idx(`Unscoped()`)}, New: 1},
		{Kind: "finish", C: 1, Fin: finIndex[`Find(&[]User)`]},
		{Kind: "direct", H: 1, Fin: finIndex[`Find(&[]User)`]},
	}}
	if v := run(hist); v != "" {
		t.Errorf("C06 violated: %s\n  case: %s", v, hist)
	}
}
