package c01

import (
	"context"
	"database/sql"
	"errors"
	"fmt"
	"io"
	"log"
	"sort"
	"strings"
	"sync"
	"testing"
	"time"

	"gorm.io/gorm"
	"gorm.io/gorm/clause"
	"gorm.io/gorm/logger"
	"pgregory.net/rapid"

	"verif/internal/chains"
	"verif/internal/evid"
	"verif/internal/harness"
	"verif/internal/recdrv"
	"verif/internal/testdb"
)

func TestMain(m *testing.M) { harness.Main(m) }

const rule = "C01: chains drawn from the grammar of internal/chains (Where/Not/Or x {? template, @name template via sql.Named/map/struct, map, struct, clause.Eq..IN/And/Or/Not, (column, value), grouped db.Where(db...), primary-key shorthand}; Select/Having+Group/Joins (raw, relation, relation+ON)/Order(clause.Expr)/Clauses/Table(\"(?) AS t\", sub)/Limit/Offset/Raw/Exec; finishers Find First Take Last Count Pluck Scan Update(s) UpdateColumn(s) Delete Create(struct, slice, map, []map) upsert) x hostile values carrying unique sentinels; every chain is built on the '?' and the '$n' dry-run dialectors (and, in TestC01Exec, executed on SQLite behind the recording driver). non-trivial = at least 2 bound values and at least one hazard (slice expansion, sub-query, named argument, nested expression, hostile character); distinct = canonical rendering of chain and values"

var (
	dryOnce    sync.Once
	dryQ, dryN *gorm.DB
	// the same pair with the stock logger at Info level and ParameterizedQueries: it is asked to
	// explain every statement and filters the parameters; that must not change what is exposed
	dryLogQ, dryLogN *gorm.DB
)

func traceLogger() logger.Interface {
	return logger.New(log.New(io.Discard, "", 0), logger.Config{LogLevel: logger.Info, ParameterizedQueries: true})
}

func fixedNow() time.Time { return testdb.FixedNow }

// capQ/capN: statements built by the Create pipeline of the dry handles (a
// batched create runs every batch on a statement of its own, the handle it
// returns exposes none of them).
var capQ, capN []captured

func dry() (*gorm.DB, *gorm.DB) {
	dryOnce.Do(func() {
		dryQ = testdb.Dry(false, gorm.Config{NowFunc: fixedNow, SkipDefaultTransaction: true}) // no connection: a multi-batch create must not try to begin
		dryN = testdb.Dry(true, gorm.Config{NowFunc: fixedNow, SkipDefaultTransaction: true})
		dryLogQ = testdb.Dry(false, gorm.Config{NowFunc: fixedNow, SkipDefaultTransaction: true, Logger: traceLogger()})
		dryLogN = testdb.Dry(true, gorm.Config{NowFunc: fixedNow, SkipDefaultTransaction: true, Logger: traceLogger()})
		for _, h := range []struct {
			db  *gorm.DB
			out *[]captured
		}{{dryQ, &capQ}, {dryN, &capN}, {dryLogQ, &capQ}, {dryLogN, &capN}} {
			out := h.out
			fn := func(tx *gorm.DB) {
				*out = append(*out, captured{sql: tx.Statement.SQL.String(), vars: append([]interface{}(nil), tx.Statement.Vars...)})
			}
			cb := h.db.Callback()
			for _, err := range []error{
				cb.Create().Before("gorm:save_after_associations").Register("verif:capture", fn), // right after gorm:create, before the AfterCreate hooks
				cb.Query().After("gorm:query").Register("verif:capture", fn),
				cb.Row().After("gorm:row").Register("verif:capture", fn),
			} {
				if err != nil {
					panic(err)
				}
			}
		}
	})
	return dryQ, dryN
}

func genConfig(exec bool) chains.Config {
	cfg := chains.Config{Exec: exec, Big: harness.Thorough(), Excluded: evid.Excluded}
	if harness.OpenClass("C01", chains.ClassRescanBytes) {
		cfg.Skip = map[string]bool{chains.ClassRescanBytes: true}
	}
	return cfg
}

type sample struct {
	Chain string `json:"chain"`
	SQL   string `json:"sql"`
	Vars  string `json:"vars"`
}

// allowedError: errors that are part of the documented behaviour of a finisher.
func allowedError(c *chains.Chain, err error, dryRun bool) bool {
	if err == nil {
		return !c.Refused
	}
	if c.Refused { // an update/delete without any condition is refused, dry or not
		return errors.Is(err, gorm.ErrMissingWhereClause)
	}
	if dryRun && (c.Fin == "scan" || c.Fin == "rows") && errors.Is(err, gorm.ErrDryRunModeUnsupported) {
		return true
	}
	if !dryRun && c.MayNotFind() && errors.Is(err, gorm.ErrRecordNotFound) {
		return true
	}
	return false
}

// batchHandle: Config.CreateBatchSize is a property of the handle.
func batchHandle(db *gorm.DB, c *chains.Chain) *gorm.DB {
	if n := c.ConfigBatchSize(); n > 0 {
		return db.Session(&gorm.Session{CreateBatchSize: n})
	}
	return db
}

func lastN(l []captured, n int) []captured {
	if len(l) > n {
		return l[len(l)-n:]
	}
	return l
}

func checkDry(rt *rapid.T, c *chains.Chain) {
	desc := c.String()
	evid.Journal(desc)
	q, n := dry()
	logging := rapid.IntRange(0, 3).Draw(rt, "logging") == 0
	if logging {
		q, n = dryLogQ, dryLogN
		if rapid.Bool().Draw(rt, "debug") {
			q, n = q.Debug(), n.Debug()
		}
	}
	capQ, capN = nil, nil
	txQ := c.Apply(batchHandle(q, c))
	txN := c.Apply(batchHandle(n, c))
	plan := c.Plan(chains.Mode{Now: fixedNow()})
	// the statements the dry run exposes, and the prediction for each
	stQ := []captured{{sql: txQ.Statement.SQL.String(), vars: txQ.Statement.Vars}}
	stN := []captured{{sql: txN.Statement.SQL.String(), vars: txN.Statement.Vars}}
	wants := plan.Dry[len(plan.Dry)-1:]
	if plan.Hidden {
		// statements built on handles the caller never sees (batches, Row, Rows, FindInBatches): the
		// last ones the pipelines built (nested sub-queries are rendered before their outer statement)
		stQ, stN, wants = lastN(capQ, len(plan.Dry)), lastN(capN, len(plan.Dry)), plan.Dry
	}
	info := c.Describe(false)
	nVars, first := 0, sample{Chain: desc}
	for i, st := range stN {
		nVars += len(st.vars)
		if i == 0 {
			first.SQL, first.Vars = st.sql, chains.Render(chains.NormAll(st.vars))
		}
	}
	nt := nVars >= 2 && len(info.Hazards) > 0
	classes := chains.SortedKeys(info.Classes)
	for _, h := range chains.SortedKeys(info.Hazards) {
		classes = append(classes, "hazard:"+h)
	}
	if logging {
		classes = append(classes, "logger:info+pq")
	}
	evid.Case(desc, nt, first, classes...)

	if !allowedError(c, txQ.Error, true) || !allowedError(c, txN.Error, true) {
		rt.Fatalf("C01 violated: building the statement failed: %v / %v\n  case: %s", txQ.Error, txN.Error, desc)
	}
	if len(stQ) != len(wants) || len(stN) != len(wants) {
		rt.Fatalf("C01 violated: the chain builds %d statement(s), the dry run built %d ('?') / %d ('$n')\n  case: %s", len(wants), len(stQ), len(stN), desc)
	}
	for i := range wants {
		sqlQ, varsQ := stQ[i].sql, chains.NormAll(stQ[i].vars)
		sqlN, varsN := stN[i].sql, chains.NormAll(stN[i].vars)
		fail := func(format string, a ...interface{}) {
			rt.Fatalf("C01 violated: %s\n  case: %s\n  statement %d of %d\n  '?' : %s\n        %s\n  '$n': %s\n        %s", fmt.Sprintf(format, a...), desc, i+1, len(wants), sqlQ, chains.Render(varsQ), sqlN, chains.Render(varsN))
		}
		if sqlQ == "" || sqlN == "" {
			fail("no statement was built")
		}
		// (a) structure
		// values bound under a driver-level name (sql.Named) pair with their ":name" placeholder,
		// all others with the dialect's positional placeholders
		posN, namesN := chains.Positional(varsN)
		posQ, namesQ := chains.Positional(varsQ)
		if msg := chains.CheckNumbered(sqlN, posN); msg != "" {
			fail("numbered dialect: %s", msg)
		}
		if k := chains.CountQ(sqlQ) - c.LiteralQ(); k != posQ {
			fail("positional dialect: %d placeholders for %d positionally bound values", k, posQ)
		}
		if !chains.NamedMatch(sqlN, namesN) || !chains.NamedMatch(sqlQ, namesQ) {
			fail("the values bound under a name %v do not pair with the named placeholders %v of the text", namesQ, chains.ColonNames(sqlQ, true))
		}
		if chains.Unnumber(sqlN) != sqlQ {
			fail("the two dialects disagree beyond placeholder spelling")
		}
		if j := chains.SameAll(varsQ, varsN); j >= 0 {
			fail("the two dialects bind different values (first difference at %d)", j)
		}
		// (b) no leak
		if l := chains.Leaked(sqlQ, info.Tokens); len(l) > 0 {
			fail("argument sentinel(s) %q occur in the statement text", l)
		}
		if l := chains.Leaked(sqlN, info.Tokens); len(l) > 0 {
			fail("argument sentinel(s) %q occur in the statement text ($n)", l)
		}
		// (c) values and order
		if j := chains.SameAll(wants[i], varsQ); j >= 0 {
			fail("bound values differ from the values the chain passes, in call order (first difference at index %d)\n  expected: %s", j, chains.Render(wants[i]))
		}
	}
}

func TestC01Dry(t *testing.T) {
	evid.Rule(rule)
	rapid.Check(t, func(rt *rapid.T) {
		checkDry(rt, chains.Gen(rt, genConfig(false)))
	})
}

// ---- (d) driver level ------------------------------------------------------------------------------

type captured struct {
	sql  string
	vars []interface{}
}

// capture registers callbacks that copy Statement.SQL/Vars right after the
// executing callback of every pipeline (the statement is reset afterwards).
func capture(db *gorm.DB, out *[]captured) error {
	fn := func(tx *gorm.DB) {
		if tx.Statement.SQL.Len() > 0 && !tx.DryRun { // sub-queries are rendered by a nested dry run
			*out = append(*out, captured{sql: tx.Statement.SQL.String(), vars: append([]interface{}(nil), tx.Statement.Vars...)})
		}
	}
	cb := db.Callback()
	for _, err := range []error{
		cb.Create().Before("gorm:save_after_associations").Register("verif:capture", fn), // right after gorm:create, before the AfterCreate hooks
		cb.Query().After("gorm:query").Register("verif:capture", fn),
		cb.Update().After("gorm:update").Register("verif:capture", fn),
		cb.Delete().After("gorm:delete").Register("verif:capture", fn),
		cb.Row().After("gorm:row").Register("verif:capture", fn),
		cb.Raw().After("gorm:raw").Register("verif:capture", fn),
	} {
		if err != nil {
			return err
		}
	}
	return nil
}

// isSavepoint: transaction control sent as text (nested transactions use save points).
func isSavepoint(text string) bool {
	return strings.HasPrefix(text, "SAVEPOINT ") || strings.HasPrefix(text, "ROLLBACK TO ") || strings.HasPrefix(text, "RELEASE ")
}

func checkExec(rt *rapid.T, c *chains.Chain) {
	// configuration of the handle: dialect with/without RETURNING, QueryFields, nested transactions
	// off, and whether the chain runs inside an explicit transaction block
	noReturning := rapid.IntRange(0, 3).Draw(rt, "noreturning") == 0
	if c.Returning {
		noReturning = false
	}
	queryFields := rapid.IntRange(0, 4).Draw(rt, "queryfields") == 0
	noNested := rapid.Bool().Draw(rt, "nonested")
	inTx := rapid.IntRange(0, 3).Draw(rt, "intx") == 0
	var lg logger.Interface
	logging := rapid.IntRange(0, 3).Draw(rt, "logging") == 0
	if logging {
		lg = traceLogger()
	}
	desc := c.String()
	if inTx {
		desc = "in Transaction: " + desc
	}
	evid.Journal(desc)
	d := testdb.Open(testdb.Options{Config: gorm.Config{NowFunc: fixedNow, Logger: lg, CreateBatchSize: c.ConfigBatchSize(), QueryFields: queryFields,
		DisableNestedTransaction: noNested}, NoReturning: noReturning})
	defer d.Close()
	if err := chains.Prepare(d.SQL); err != nil {
		rt.Fatalf("harness: cannot prepare the database: %v", err)
	}
	var caps []captured
	if err := capture(d.DB, &caps); err != nil {
		rt.Fatalf("harness: cannot register capture callbacks: %v", err)
	}
	d.Rec.Reset()
	rt.Logf("case: %s", desc)
	var tx *gorm.DB
	if inTx {
		if err := d.Transaction(func(t *gorm.DB) error { tx = c.ApplyFrom(t, d.DB); return nil }); err != nil {
			rt.Fatalf("C01 violated (driver level): the transaction block failed: %v\n  case: %s", err, desc)
		}
	} else {
		tx = c.Apply(d.DB)
	}
	var stmts []recdrv.Event
	for _, e := range d.Rec.Statements() {
		if !isSavepoint(e.Text) {
			stmts = append(stmts, e)
		}
	}
	kept := caps[:0:0]
	for _, cp := range caps {
		if !isSavepoint(cp.sql) {
			kept = append(kept, cp)
		}
	}
	caps = kept
	plan := c.Plan(chains.Mode{LiteralLimit: true, Now: fixedNow()})

	info := c.Describe(true)
	nArgs := 0
	for _, st := range stmts {
		nArgs += len(st.Args)
	}
	nt := nArgs >= 2 && len(info.Hazards) > 0
	classes := chains.SortedKeys(info.Classes)
	for _, h := range chains.SortedKeys(info.Hazards) {
		classes = append(classes, "hazard:"+h)
	}
	var smp sample
	smp.Chain = desc
	if len(stmts) > 0 {
		smp.SQL = stmts[0].Text
		vs := make([]interface{}, len(stmts[0].Args))
		for i, a := range stmts[0].Args {
			vs[i] = a.Value
		}
		smp.Vars = chains.Render(vs)
	}
	classes = append(classes, "executed")
	for name, on := range map[string]bool{"logger:info+pq": logging, "config:no-returning": noReturning, "config:query-fields": queryFields, "config:no-nested-tx": noNested, "in-transaction": inTx} {
		if on {
			classes = append(classes, name)
		}
	}
	sort.Strings(classes)
	evid.Case("exec "+desc, nt, smp, classes...)

	fail := func(format string, a ...interface{}) {
		log := ""
		for _, e := range d.Rec.Events() {
			log += "\n    " + e.String()
		}
		rt.Fatalf("C01 violated (driver level): %s\n  case: %s\n  driver log:%s", fmt.Sprintf(format, a...), desc, log)
	}
	if !allowedError(c, tx.Error, false) {
		fail("the statement failed: %v", tx.Error)
	}
	if plan.Refused {
		if len(stmts) != 0 {
			fail("a refused operation reached the driver")
		}
		return
	}
	if len(stmts) != len(caps) || len(stmts) < len(plan.Real) || (len(stmts) > len(plan.Real)+1 && !plan.ExtraRealMany) || (len(stmts) > len(plan.Real) && !plan.ExtraReal && !plan.ExtraRealMany) {
		fail("expected %d statement(s), the driver saw %d and gorm built %d", len(plan.Real), len(stmts), len(caps))
	}
	for k, ev := range stmts {
		cp := caps[k]
		if ev.Err != nil {
			fail("the database rejected statement %d: %v", k+1, ev.Err)
		}
		if ev.Text != cp.sql {
			fail("the driver received a different text than Statement.SQL: %q", cp.sql)
		}
		args := make([]interface{}, len(ev.Args))
		for i, a := range ev.Args {
			if a.Ordinal != i+1 {
				fail("statement %d: argument %d has ordinal %d", k+1, i, a.Ordinal)
			}
			args[i] = chains.NormArg(a.Name, a.Value)
		}
		pos, names := chains.Positional(args)
		if n := chains.CountQ(ev.Text) - c.LiteralQ(); n != pos {
			fail("statement %d: %d placeholders for %d positional driver arguments", k+1, n, pos)
		}
		if !chains.NamedMatch(ev.Text, names) {
			fail("statement %d: the named driver arguments %v do not pair with the named placeholders %v", k+1, names, chains.ColonNames(ev.Text, true))
		}
		if i := chains.SameAll(chains.NormAll(cp.vars), args); i >= 0 {
			fail("statement %d: driver arguments differ from Statement.Vars at %d: vars %s", k+1, i, chains.Render(chains.NormAll(cp.vars)))
		}
		if l := chains.Leaked(ev.Text, info.Tokens); len(l) > 0 {
			fail("argument sentinel(s) %q occur in the text sent to the driver", l)
		}
		if k < len(plan.Real) {
			if i := chains.SameAll(plan.Real[k], args); i >= 0 {
				fail("statement %d: driver arguments differ from the values the chain passes (first difference at %d)\n  expected: %s", k+1, i, chains.Render(plan.Real[k]))
			}
		}
	}
}

func TestC01Exec(t *testing.T) {
	evid.Rule(rule)
	rapid.Check(t, func(rt *rapid.T) {
		checkExec(rt, chains.Gen(rt, genConfig(true)))
	})
}

// ---- (e) semantic round trip -----------------------------------------------------------------------

var hostilePool = []string{
	"plain", "o'hara", "o''hara", "a\"b", "a`b", "a\\b", "a\\'b", "what?", "??", "@n1", "x @N1 y", "a)b", "(a", "$1", "$2 $1", "a--b", "a;b",
	"line\nbreak", "tab\tx", "100%", "_x_", "é", "日本", "🙂", "' OR '1'='1", "'; DROP TABLE items; --", "x?)", "", " ", "a ", "A", "a",
}

// probeForms: ways to ask for name == probe.
var probeForms = []string{"tmpl", "tmpl-paren", "named", "named-map", "named-struct", "map", "struct", "eq", "colval", "in-list", "expr", "raw", "raw-named", "not-neq", "inline"}

func reprOf(kind, s string) interface{} {
	switch kind {
	case "pstr":
		return &s
	case "nullstr":
		return sqlNull(s)
	case "valuer":
		return chains.Wrapped{S: s}
	}
	return s
}

func TestC01RoundTrip(t *testing.T) {
	evid.Rule(rule)
	rapid.Check(t, func(rt *rapid.T) {
		n := rapid.IntRange(2, 6).Draw(rt, "rows")
		names := make([]string, n)
		for i := range names {
			names[i] = rapid.SampledFrom(hostilePool).Draw(rt, "name")
			if rapid.IntRange(0, 3).Draw(rt, "glue") == 0 {
				names[i] += rapid.SampledFrom(hostilePool).Draw(rt, "name2")
			}
		}
		probe := names[rapid.IntRange(0, n-1).Draw(rt, "probeidx")]
		if rapid.IntRange(0, 4).Draw(rt, "foreign") == 0 {
			probe = rapid.SampledFrom(hostilePool).Draw(rt, "probe")
		}
		form := rapid.SampledFrom(probeForms).Draw(rt, "form")
		kind := rapid.SampledFrom([]string{"str", "str", "pstr", "nullstr", "valuer"}).Draw(rt, "repr")
		create := rapid.SampledFrom([]string{"slice", "maps", "each", "exec"}).Draw(rt, "create")
		desc := fmt.Sprintf("roundtrip create=%s names=%q probe=%q form=%s repr=%s", create, names, probe, form, kind)
		evid.Journal(desc)

		d := testdb.Open(testdb.Options{Config: gorm.Config{NowFunc: fixedNow}, NoReturning: false})
		defer d.Close()
		for _, s := range chains.DDL {
			if _, err := d.SQL.Exec(s); err != nil {
				rt.Fatalf("harness: %v", err)
			}
		}
		// store
		var err error
		switch create {
		case "slice":
			rows := make([]chains.Item, n)
			for i := range rows {
				rows[i] = chains.Item{ID: uint(i + 1), Name: names[i]}
			}
			err = d.Create(&rows).Error
		case "maps":
			ms := make([]map[string]interface{}, n)
			for i := range ms {
				ms[i] = map[string]interface{}{"id": i + 1, "name": names[i]}
			}
			err = d.Model(&chains.Item{}).Create(ms).Error
		case "each":
			for i := range names {
				if e := d.Create(&chains.Item{ID: uint(i + 1)}).Error; e != nil {
					err = e
				}
				if e := d.Model(&chains.Item{ID: uint(i + 1)}).Update("name", names[i]).Error; e != nil {
					err = e
				}
			}
		case "exec":
			for i := range names {
				if e := d.Exec("INSERT INTO items (id, name) VALUES (@id, @name)", map[string]interface{}{"id": i + 1, "name": names[i]}).Error; e != nil {
					err = e
				}
			}
		}
		if err != nil {
			rt.Fatalf("C01 violated (round trip): storing hostile strings failed: %v, case: %s", err, desc)
		}
		var want []uint
		for i, s := range names {
			if s == probe {
				want = append(want, uint(i+1))
			}
		}
		v := reprOf(kind, probe)
		var got []chains.Item
		q := d.Model(&chains.Item{}).Order("id")
		var res *gorm.DB
		switch form {
		case "tmpl":
			res = q.Where("name = ?", v).Find(&got)
		case "tmpl-paren":
			res = q.Where("name IN (?)", []interface{}{v}).Find(&got)
		case "named":
			res = q.Where("name = @p", sqlNamed("p", v)).Find(&got)
		case "named-map":
			res = q.Where("name = @p", map[string]interface{}{"p": v}).Find(&got)
		case "named-struct":
			res = q.Where("name = @N1", chains.NamedCarrier{N1: v}).Find(&got)
		case "map":
			res = q.Where(map[string]interface{}{"name": v}).Find(&got)
		case "struct":
			if probe == "" {
				res = q.Where("name = ?", v).Find(&got) // a zero field is no condition
			} else {
				res = q.Where(&chains.Item{Name: probe}).Find(&got)
			}
		case "eq":
			res = q.Where(clauseEq("name", v)).Find(&got)
		case "colval":
			res = q.Where("name", v).Find(&got)
		case "in-list":
			res = q.Where("name IN ?", []interface{}{v, "no such name"}).Find(&got)
		case "expr":
			res = q.Where("name = ?", gorm.Expr("?", v)).Find(&got)
		case "raw":
			res = d.Raw("SELECT * FROM items WHERE name = ? ORDER BY id", v).Scan(&got)
		case "raw-named":
			res = d.Raw("SELECT * FROM items WHERE name = @p ORDER BY id", sqlNamed("p", v)).Scan(&got)
		case "not-neq":
			res = q.Not(clauseNeq("name", v)).Find(&got)
		default: // inline
			res = q.Find(&got, "name = ?", v)
		}
		hostile := false
		for _, s := range append([]string{probe}, names...) {
			if (chains.Val{K: chains.KStr, S: s}).Hostile() {
				hostile = true
			}
		}
		evid.Case(desc, hostile && len(want) > 0, nil, "roundtrip", "roundtrip-form:"+form, "roundtrip-create:"+create, "roundtrip-repr:"+kind)
		if res.Error != nil {
			rt.Fatalf("C01 violated (round trip): query failed: %v, case: %s", res.Error, desc)
		}
		var ids []uint
		for _, it := range got {
			ids = append(ids, it.ID)
			if int(it.ID) < 1 || int(it.ID) > n || it.Name != names[it.ID-1] {
				rt.Fatalf("C01 violated (round trip): row %d came back as %q, case: %s", it.ID, it.Name, desc)
			}
		}
		if fmt.Sprint(ids) != fmt.Sprint(want) {
			rt.Fatalf("C01 violated (round trip): equality on %q selected rows %v, Go == selects %v, case: %s", probe, ids, want, desc)
		}
	})
}

func sqlNull(s string) sql.NullString               { return sql.NullString{String: s, Valid: true} }
func sqlNamed(n string, v interface{}) sql.NamedArg { return sql.Named(n, v) }
func clauseEq(c string, v interface{}) clause.Eq    { return clause.Eq{Column: c, Value: v} }
func clauseNeq(c string, v interface{}) clause.Neq  { return clause.Neq{Column: c, Value: v} }

// ---- witnesses of listed findings ------------------------------------------------------------------

// TestC01WitnessRescanBytes: a list whose first element is a []byte is bound
// element by element in a plain Where, but inside a db.Raw sub-query or a
// relation join's ON condition gorm scans the already rendered text a second
// time (Statement.AddVar case *DB; callbacks.BuildQuerySQL genJoinClause) and
// the []byte that now follows '(' is expanded into one bound integer per byte.
func TestC01WitnessRescanBytes(t *testing.T) {
	q, _ := dry()
	list := func() []interface{} { return []interface{}{[]byte("ab"), "c"} }
	want := []interface{}{[]byte("ab"), "c"}
	same := func(name string, tx *gorm.DB) {
		got := chains.NormAll(tx.Statement.Vars)
		if tx.Error != nil || chains.SameAll(want, got) >= 0 || chains.CountQ(tx.Statement.SQL.String()) != len(want) {
			t.Errorf("%s: the list ([]byte(\"ab\"), \"c\") must bind 2 values %s; got %s in %s (err %v)", name, chains.Render(want), chains.Render(got), tx.Statement.SQL.String(), tx.Error)
		}
	}
	same("plain Where (reference)", q.Table("owners").Where("title IN (?)", list()).Find(&[]map[string]interface{}{}))
	same("db.Raw sub-query", q.Table("items").Where("owner_id IN (?)", q.Raw("SELECT id FROM owners WHERE title IN (?)", list())).Find(&[]map[string]interface{}{}))
	same("relation join ON", q.Model(&chains.Item{}).Unscoped().Joins("Owner", q.Where("Owner.title IN (?)", list())).Find(&[]chains.Item{}))
	// the same happens to the first argument of an expression placed in "(?)"
	expr := func() interface{} { return gorm.Expr("? || ?", []byte("ab"), "c") }
	same("plain Where with expression (reference)", q.Table("owners").Where("title = (?)", expr()).Find(&[]map[string]interface{}{}))
	same("relation join ON with expression", q.Model(&chains.Item{}).Unscoped().Joins("Owner", q.Where("Owner.title = (?)", expr())).Find(&[]chains.Item{}))
}

// ---- statements derived from one reusable handle -----------------------------------------------------

// TestC01Reuse: two statements A and B are derived from one reusable handle
// h = db.Where(p).Session(&gorm.Session{}) in a single goroutine: either one
// after the other (dry run: the values A exposes must still be A's after B was
// built) or nested (B is built and run from h while A is being built, by a
// gorm.Valuer argument of A). Each statement must bind exactly the values its
// own chain supplies.
func TestC01Reuse(t *testing.T) {
	evid.Rule(rule)
	rapid.Check(t, func(rt *rapid.T) {
		cfg := genConfig(true)
		a := chains.Gen(rt, cfg)
		p := chains.GenPrefix(rt, cfg, a)
		if p == nil || a.HiddenQuery() {
			a = &chains.Chain{Kind: "query", Base: "item", Fin: "find"}
			p = chains.GenPrefix(rt, cfg, a)
			if p == nil {
				rt.Skip("no prefix condition")
			}
		}
		b := chains.GenSibling(rt, cfg, a)
		variant := rapid.SampledFrom([]string{"sequential-dry", "nested-dry", "nested-real"}).Draw(rt, "variant")
		if a.NoExec && variant == "nested-real" {
			variant = "nested-dry"
		}
		pa, pb := a.WithPrefix(p), b.WithPrefix(p)
		if variant != "sequential-dry" {
			a, pa = a.WithReenter(7654321), pa.WithReenter(7654321)
		}
		desc := fmt.Sprintf("reuse %s h=db.Where(%s).Session() A=%s B=%s", variant, p.U.String(), a.String(), b.String())
		evid.Journal(desc)
		info := pa.Describe(variant == "nested-real")
		classes := append(chains.SortedKeys(info.Classes), "reuse:"+variant)

		check := func(what string, sql string, got, want []interface{}) {
			if i := chains.SameAll(want, got); i >= 0 {
				rt.Fatalf("C01 violated (reusable handle): statement %s binds values that are not the ones its chain supplies (first difference at %d)\n  case: %s\n  text: %s\n  bound:    %s\n  expected: %s", what, i, desc, sql, chains.Render(got), chains.Render(want))
			}
		}
		if variant == "nested-real" {
			d := testdb.Open(testdb.Options{Config: gorm.Config{NowFunc: fixedNow}})
			defer d.Close()
			if err := chains.Prepare(d.SQL); err != nil {
				rt.Fatalf("harness: %v", err)
			}
			h := chains.ApplyPrefix(d.DB, p).Session(&gorm.Session{})
			d.Rec.Reset()
			var txB *gorm.DB
			chains.ReenterHook = func() { txB = b.ApplyFrom(h, d.DB) }
			txA := a.ApplyFrom(h, d.DB)
			chains.ReenterHook = nil
			stmts := d.Rec.Statements()
			evid.Case(desc, len(stmts) == 2, nil, classes...)
			if txB == nil || !allowedError(a, txA.Error, false) || txB.Error != nil || len(stmts) != 2 {
				rt.Fatalf("C01 violated (reusable handle): expected the nested statement and the outer one to run (errors %v / %v, %d statements)\n  case: %s", txA.Error, txB, len(stmts), desc)
			}
			m := chains.Mode{LiteralLimit: true, Now: fixedNow()}
			for i, want := range [][]interface{}{pb.Expected(m), pa.Expected(m)} {
				args := make([]interface{}, len(stmts[i].Args))
				for k, x := range stmts[i].Args {
					args[k] = chains.Norm(x.Value)
				}
				if n := chains.CountQ(stmts[i].Text) - []*chains.Chain{pb, pa}[i].LiteralQ(); n != len(args) {
					rt.Fatalf("C01 violated (reusable handle): %d placeholders for %d arguments in %s\n  case: %s", n, len(args), stmts[i].Text, desc)
				}
				check([]string{"B (nested)", "A (outer)"}[i], stmts[i].Text, args, want)
			}
			return
		}
		_, n := dry()
		h := chains.ApplyPrefix(n, p).Session(&gorm.Session{})
		var txA, txB *gorm.DB
		if variant == "sequential-dry" {
			txA = a.ApplyFrom(h, n)
			txB = b.ApplyFrom(h, n)
		} else {
			chains.ReenterHook = func() { txB = b.ApplyFrom(h, n) }
			txA = a.ApplyFrom(h, n)
			chains.ReenterHook = nil
		}
		nA := 0
		if txA != nil {
			nA = len(txA.Statement.Vars)
		}
		evid.Case(desc, nA >= 1 && txB != nil && len(txB.Statement.Vars) >= 1, nil, classes...)
		if txB == nil || !allowedError(a, txA.Error, true) || !allowedError(b, txB.Error, true) {
			rt.Fatalf("C01 violated (reusable handle): building failed (%v / %v)\n  case: %s", txA.Error, txB, desc)
		}
		m := chains.Mode{Now: fixedNow()}
		for _, x := range []struct {
			what string
			tx   *gorm.DB
			want []interface{}
		}{{"A", txA, pa.Expected(m)}, {"B", txB, pb.Expected(m)}} {
			sql, vars := x.tx.Statement.SQL.String(), chains.NormAll(x.tx.Statement.Vars)
			if msg := chains.CheckNumbered(sql, len(vars)); msg != "" {
				rt.Fatalf("C01 violated (reusable handle): statement %s: %s\n  case: %s\n  text: %s", x.what, msg, desc, sql)
			}
			check(x.what, sql, vars, x.want)
		}
	})
}

// TestC01Shared: a reusable handle h carries several calls of every appending
// clause kind (0-7 Where, Having with Group, Order); two chain values A and B
// are derived from h, each adding one more call of every kind, BEFORE either is
// finished; then A runs, then B (or B, then A). Each statement must bind exactly
// the values of the prefix plus its own.
func TestC01Shared(t *testing.T) {
	evid.Rule(rule)
	rapid.Check(t, func(rt *rapid.T) {
		s := chains.GenShared(rt, genConfig(true))
		real := rapid.IntRange(0, 2).Draw(rt, "real") == 0
		aFirst := rapid.Bool().Draw(rt, "afirst")
		how := rapid.SampledFrom([]string{"session", "context", "debug"}).Draw(rt, "handle")
		desc := fmt.Sprintf("shared real=%v runAfirst=%v handle=%s h=%s A=+%s B=+%s", real, aFirst, how, s.Prefix.String(), s.AddA.String(), s.AddB.String())
		evid.Journal(desc)
		info := s.FullA.Describe(real)
		classes := append(chains.SortedKeys(info.Classes), "shared:"+how,
			fmt.Sprintf("shared:prefix-where-%d", len(s.Prefix.Conds)), fmt.Sprintf("shared:prefix-having-%d", len(s.Prefix.PreHavings)), fmt.Sprintf("shared:prefix-order-%d", len(s.Prefix.PreOrders)))
		evid.Case(desc, true, nil, classes...)

		share := func(db *gorm.DB) *gorm.DB {
			switch how {
			case "context":
				return db.WithContext(context.Background())
			case "debug":
				return db.Debug()
			}
			return db.Session(&gorm.Session{})
		}
		check := func(what, sql string, got, want []interface{}) {
			if i := chains.SameAll(want, got); i >= 0 {
				rt.Fatalf("C01 violated (shared handle): statement %s binds values that are not the ones its chain supplies (first difference at %d)\n  case: %s\n  text: %s\n  bound:    %s\n  expected: %s", what, i, desc, sql, chains.Render(got), chains.Render(want))
			}
		}
		if real {
			d := testdb.Open(testdb.Options{Config: gorm.Config{NowFunc: fixedNow}})
			defer d.Close()
			if err := chains.Prepare(d.SQL); err != nil {
				rt.Fatalf("harness: %v", err)
			}
			h := share(s.Prefix.BuildFrom(d.DB, d.DB))
			txA, txB := s.AddA.BuildFrom(h, d.DB), s.AddB.BuildFrom(h, d.DB)
			d.Rec.Reset()
			order := []struct {
				add, full *chains.Chain
				tx        *gorm.DB
				what      string
			}{{s.AddA, s.FullA, txA, "A"}, {s.AddB, s.FullB, txB, "B"}}
			if !aFirst {
				order[0], order[1] = order[1], order[0]
			}
			for i, o := range order {
				if res := o.add.FinishOn(o.tx, d.DB); res.Error != nil {
					rt.Fatalf("C01 violated (shared handle): statement %s failed: %v\n  case: %s", o.what, res.Error, desc)
				}
				stmts := d.Rec.Statements()
				if len(stmts) != i+1 {
					rt.Fatalf("C01 violated (shared handle): expected %d statement(s), the driver saw %d\n  case: %s", i+1, len(stmts), desc)
				}
				args := make([]interface{}, len(stmts[i].Args))
				for k, x := range stmts[i].Args {
					args[k] = chains.Norm(x.Value)
				}
				if n := chains.CountQ(stmts[i].Text); n != len(args) {
					rt.Fatalf("C01 violated (shared handle): %d placeholders for %d arguments in %s\n  case: %s", n, len(args), stmts[i].Text, desc)
				}
				check(o.what, stmts[i].Text, args, o.full.Expected(chains.Mode{LiteralLimit: true, Now: fixedNow()}))
			}
			return
		}
		_, n := dry()
		h := share(s.Prefix.BuildFrom(n, n))
		txA, txB := s.AddA.BuildFrom(h, n), s.AddB.BuildFrom(h, n)
		var resA, resB *gorm.DB
		if aFirst {
			resA, resB = s.AddA.FinishOn(txA, n), s.AddB.FinishOn(txB, n)
		} else {
			resB, resA = s.AddB.FinishOn(txB, n), s.AddA.FinishOn(txA, n)
		}
		m := chains.Mode{Now: fixedNow()}
		for _, x := range []struct {
			what string
			tx   *gorm.DB
			want []interface{}
		}{{"A", resA, s.FullA.Expected(m)}, {"B", resB, s.FullB.Expected(m)}} {
			if x.tx.Error != nil {
				rt.Fatalf("C01 violated (shared handle): building %s failed: %v\n  case: %s", x.what, x.tx.Error, desc)
			}
			sql, vars := x.tx.Statement.SQL.String(), chains.NormAll(x.tx.Statement.Vars)
			if msg := chains.CheckNumbered(sql, len(vars)); msg != "" {
				rt.Fatalf("C01 violated (shared handle): statement %s: %s\n  case: %s\n  text: %s", x.what, msg, desc, sql)
			}
			check(x.what, sql, vars, x.want)
		}
	})
}
