// C09 — an Update or Delete without any condition never executes.
// See DESIGN.md §3 C09.
package c09

import (
	"context"
	"errors"
	"fmt"
	"reflect"
	"strings"
	"testing"
	"time"

	"gorm.io/gorm"
	"gorm.io/gorm/clause"
	"pgregory.net/rapid"

	"verif/internal/cond"
	"verif/internal/evid"
	"verif/internal/harness"
	"verif/internal/recdrv"
	"verif/internal/testdb"
)

func TestMain(m *testing.M) { harness.Main(m) }

const rule = "C09: (i) chains made only of condition-free calls - Where/Not/Or with \"\", map{}, &T{}, []int{} or an empty grouped builder; Order, Limit, Scopes(identity), Unscoped, Select, Omit, Table, Model(&T{}), Session{}, Clauses(Returning{} / Returning{columns} / Locking / OrderBy / Limit) - ending in Update, Updates(map/struct), UpdateColumn, UpdateColumns(map/struct), Delete(&T{}), Delete(&T{}, empty inline), Delete of a zero-key / empty slice, and Updates / UpdateColumns whose VALUE is a struct with a primary key while the model value has none (AllowGlobalUpdate off only), for a plain model and five soft-delete models (one gorm.DeletedAt; two DeletedAt fields, the second with a custom column; one field with its own field/column name; DeletedAt inside an anonymous embedded struct; DeletedAt plus a prefixed embedded one) and four models with an application-assigned integer key (autoIncrement:false; composite integer key; each plain and soft-delete) whose table holds a row with key 0, with SkipDefaultTransaction off / config / session (enumerated one call shorter, random beyond) and with AllowGlobalUpdate off / on in the config / on in a session: enumerated exhaustively to the stated length (model variants one call shorter) and drawn at random up to length 7; plus the used-chain-value shape q := db.Model(&T{}).<calls>; q.<Updates(map{}) | Updates(T{}) | Raw.Scan | Count | Find>; q.<nothing | Session{} | WithContext | Session{AllowGlobalUpdate:false} | Session{SkipHooks}>.<calls>.<finisher> (enumerated with one call before/after, random beyond), AllowGlobalUpdate off; off: the error is ErrMissingWhereClause, the recording driver saw no prepare/exec/query/commit, the table is unchanged; on: no error and every visible row is affected. Chains containing an expression-less WHERE clause (Clauses(clause.Where{}) / Clauses(clause.And())) are only required to return an error, commit nothing and change no row (the unchanged tree sends `... WHERE ` and gets a syntax error). (ii) chains mixing such calls with at least one effective condition drawn from the C02 units (also ones matching nothing, e.g. IN (NULL)), a keyed model value or keyed slice element: the error is never ErrMissingWhereClause (nor any other). non-trivial = at least two condition-free calls one of which is an empty condition form; distinct = model + AllowGlobalUpdate mode + chain + finisher"

// ---- models -----------------------------------------------------------------------------------------

type SItem struct {
	ID        int `gorm:"primaryKey"`
	Ca        int
	Cb        int
	Cs        string
	Cn        *int
	Ct        *string
	Cor       int
	Band      string
	Mark      int
	DeletedAt gorm.DeletedAt
}

func (SItem) TableName() string { return "s_items" }

// S2Item has two soft-delete fields, the second under a custom column name.
type S2Item struct {
	ID         int `gorm:"primaryKey"`
	Ca         int
	Cb         int
	Cs         string
	Cn         *int
	Ct         *string
	Cor        int
	Band       string
	Mark       int
	DeletedAt  gorm.DeletedAt
	ArchivedAt gorm.DeletedAt `gorm:"column:archived_on"`
}

func (S2Item) TableName() string { return "s2_items" }

// SCItem: one soft-delete field with a field and column name of its own.
type SCItem struct {
	ID        int `gorm:"primaryKey"`
	Ca        int
	Cb        int
	Cs        string
	Cn        *int
	Ct        *string
	Cor       int
	Band      string
	Mark      int
	RemovedOn gorm.DeletedAt `gorm:"column:removed_on"`
}

func (SCItem) TableName() string { return "sc_items" }

// Trail is embedded into SEItem and carries the soft-delete field.
type Trail struct {
	DeletedAt gorm.DeletedAt
}

type SEItem struct {
	ID   int `gorm:"primaryKey"`
	Ca   int
	Cb   int
	Cs   string
	Cn   *int
	Ct   *string
	Cor  int
	Band string
	Mark int
	Trail
}

func (SEItem) TableName() string { return "se_items" }

// SPItem: embedded struct with a column prefix next to a plain DeletedAt (two fields again).
type SPItem struct {
	ID        int `gorm:"primaryKey"`
	Ca        int
	Cb        int
	Cs        string
	Cn        *int
	Ct        *string
	Cor       int
	Band      string
	Mark      int
	DeletedAt gorm.DeletedAt
	Hist      Trail `gorm:"embedded;embeddedPrefix:hist_"`
}

func (SPItem) TableName() string { return "sp_items" }

// KItem / KSItem: an integer key assigned by the application (no auto increment),
// so a row with key 0 is an ordinary row; CItem / CSItem: a composite integer key.
type KItem struct {
	ID   int `gorm:"primaryKey;autoIncrement:false"`
	Ca   int
	Cb   int
	Cs   string
	Cn   *int
	Ct   *string
	Cor  int
	Band string
	Mark int
}

func (KItem) TableName() string { return "k_items" }

type KSItem struct {
	ID        int `gorm:"primaryKey;autoIncrement:false"`
	Ca        int
	Cb        int
	Cs        string
	Cn        *int
	Ct        *string
	Cor       int
	Band      string
	Mark      int
	DeletedAt gorm.DeletedAt
}

func (KSItem) TableName() string { return "ks_items" }

type CItem struct {
	ID   int `gorm:"primaryKey"`
	K2   int `gorm:"primaryKey"`
	Ca   int
	Cb   int
	Cs   string
	Cn   *int
	Ct   *string
	Cor  int
	Band string
	Mark int
}

func (CItem) TableName() string { return "c_items" }

type CSItem struct {
	ID        int `gorm:"primaryKey"`
	K2        int `gorm:"primaryKey"`
	Ca        int
	Cb        int
	Cs        string
	Cn        *int
	Ct        *string
	Cor       int
	Band      string
	Mark      int
	DeletedAt gorm.DeletedAt
}

func (CSItem) TableName() string { return "cs_items" }

// DItem / DSItem: fields with a literal `default:` tag. Their zero values are zero
// fields all the same: an all-zero struct of these types is no condition.
type DItem struct {
	ID   int `gorm:"primaryKey"`
	Ca   int
	Cb   int
	Cs   string
	Cn   *int
	Ct   *string
	Cor  int
	Band string
	Mark int
	Flag bool   `gorm:"default:true"`
	Num  int    `gorm:"default:5"`
	Str  string `gorm:"default:x"`
}

func (DItem) TableName() string { return "d_items" }

type DSItem struct {
	ID        int `gorm:"primaryKey"`
	Ca        int
	Cb        int
	Cs        string
	Cn        *int
	Ct        *string
	Cor       int
	Band      string
	Mark      int
	DeletedAt gorm.DeletedAt
	Flag      bool   `gorm:"default:true"`
	Num       int    `gorm:"default:5"`
	Str       string `gorm:"default:x"`
}

func (DSItem) TableName() string { return "ds_items" }

// POwner / PSOwner own a polymorphic has-many relation: Select("Items") on a Delete
// makes gorm delete the owned items first, with conditions of their own.
type PItem struct {
	ID         int `gorm:"primaryKey"`
	Name       string
	HolderID   int
	HolderType string
}

func (PItem) TableName() string { return "p_things" }

type POwner struct {
	ID    int `gorm:"primaryKey"`
	Ca    int
	Cb    int
	Cs    string
	Cn    *int
	Ct    *string
	Cor   int
	Band  string
	Mark  int
	Items []PItem `gorm:"polymorphic:Holder"`
}

func (POwner) TableName() string { return "p_owners" }

type PSOwner struct {
	ID        int `gorm:"primaryKey"`
	Ca        int
	Cb        int
	Cs        string
	Cn        *int
	Ct        *string
	Cor       int
	Band      string
	Mark      int
	DeletedAt gorm.DeletedAt
	Items     []PItem `gorm:"polymorphic:Holder"`
}

func (PSOwner) TableName() string { return "ps_owners" }

const polyItemsDDL = "CREATE TABLE p_things (id integer PRIMARY KEY, name text, holder_id integer, holder_type text)"

// polyItems: two items per owner table and owner id 1 / 2
const polyItemsRows = "INSERT INTO p_things VALUES (1,'a',1,'p_owners'),(2,'b',1,'p_owners'),(3,'c',2,'p_owners'),(4,'a',1,'ps_owners'),(5,'b',2,'ps_owners')"

// ZItem: the soft-delete column of live rows holds a zero time instead of NULL
// (tag zeroValue); the automatic filter is `deleted_at = '<zero>'`.
type ZItem struct {
	ID        int `gorm:"primaryKey"`
	Ca        int
	Cb        int
	Cs        string
	Cn        *int
	Ct        *string
	Cor       int
	Band      string
	Mark      int
	DeletedAt gorm.DeletedAt `gorm:"zeroValue:1970-01-01 00:00:01;default:'1970-01-01 00:00:01'"`
}

func (ZItem) TableName() string { return "z_items" }

const zeroDeletedAt = "1970-01-01 00:00:01"

type modelKind struct {
	Name    string
	Spec    cond.TableSpec
	Type    reflect.Type
	ZeroRow bool // the table holds a row whose key is 0 (composite: 0,0)
	Poly    bool // owns polymorphic items (table p_things)
	ZeroVal bool // live rows hold zeroDeletedAt in the soft-delete column
}

// live reports whether the stored row is a live one of the model.
func (m modelKind) live(s cond.Stored) bool {
	if m.ZeroVal {
		return s.DeletedAt == "'"+zeroDeletedAt+"'"
	}
	return s.Live()
}

func (m modelKind) Zero() interface{} { return reflect.New(m.Type).Interface() } // &T{}

func (m modelKind) Keyed(id int) interface{} { // &T{ID: id}
	p := reflect.New(m.Type)
	p.Elem().FieldByName("ID").SetInt(int64(id))
	return p.Interface()
}

func (m modelKind) Slice(ids ...int) interface{} { // &[]T{{ID: ..}, ...}
	p := reflect.New(reflect.SliceOf(m.Type))
	p.Elem().Set(reflect.MakeSlice(reflect.SliceOf(m.Type), len(ids), len(ids)))
	for i, id := range ids {
		p.Elem().Index(i).FieldByName("ID").SetInt(int64(id))
	}
	return p.Interface()
}

func (m modelKind) Marked() interface{} { // T{Mark: 7}
	p := reflect.New(m.Type)
	p.Elem().FieldByName("Mark").SetInt(7)
	return p.Elem().Interface()
}

func (m modelKind) MarkedKeyed(id int, ptr bool) interface{} { // T{ID: id, Mark: 7} or its address
	p := reflect.New(m.Type)
	p.Elem().FieldByName("ID").SetInt(int64(id))
	p.Elem().FieldByName("Mark").SetInt(7)
	if ptr {
		return p.Interface()
	}
	return p.Elem().Interface()
}

func (m modelKind) EmptySlicePtr() interface{} {
	return reflect.New(reflect.SliceOf(m.Type)).Interface()
}

func (m modelKind) soft() bool { return m.Spec.Soft || len(m.Spec.SoftCols) > 0 }

var models = map[string]modelKind{
	"plain":         {Name: "plain", Spec: cond.TableSpec{Name: "items"}, Type: reflect.TypeOf(cond.Item{})},
	"soft":          {Name: "soft", Spec: cond.TableSpec{Name: "s_items", Soft: true}, Type: reflect.TypeOf(SItem{})},
	"soft2":         {Name: "soft2", Spec: cond.TableSpec{Name: "s2_items", SoftCols: []string{"deleted_at", "archived_on"}}, Type: reflect.TypeOf(S2Item{})},
	"softcol":       {Name: "softcol", Spec: cond.TableSpec{Name: "sc_items", SoftCols: []string{"removed_on"}}, Type: reflect.TypeOf(SCItem{})},
	"softemb":       {Name: "softemb", Spec: cond.TableSpec{Name: "se_items", Soft: true}, Type: reflect.TypeOf(SEItem{})},
	"soft2emb":      {Name: "soft2emb", Spec: cond.TableSpec{Name: "sp_items", SoftCols: []string{"deleted_at", "hist_deleted_at"}}, Type: reflect.TypeOf(SPItem{})},
	"appkey":        {Name: "appkey", Spec: cond.TableSpec{Name: "k_items"}, Type: reflect.TypeOf(KItem{}), ZeroRow: true},
	"appkey-soft":   {Name: "appkey-soft", Spec: cond.TableSpec{Name: "ks_items", Soft: true}, Type: reflect.TypeOf(KSItem{}), ZeroRow: true},
	"compkey":       {Name: "compkey", Spec: cond.TableSpec{Name: "c_items", Extra: []string{"k2"}}, Type: reflect.TypeOf(CItem{}), ZeroRow: true},
	"defaults":      {Name: "defaults", Spec: cond.TableSpec{Name: "d_items", Extra: []string{"flag", "num", "str"}}, Type: reflect.TypeOf(DItem{})},
	"defaults-soft": {Name: "defaults-soft", Spec: cond.TableSpec{Name: "ds_items", Soft: true, Extra: []string{"flag", "num", "str"}}, Type: reflect.TypeOf(DSItem{})},
	"poly":          {Name: "poly", Spec: cond.TableSpec{Name: "p_owners"}, Type: reflect.TypeOf(POwner{}), Poly: true},
	"poly-soft":     {Name: "poly-soft", Spec: cond.TableSpec{Name: "ps_owners", Soft: true}, Type: reflect.TypeOf(PSOwner{}), Poly: true},
	"zerovalue":     {Name: "zerovalue", Spec: cond.TableSpec{Name: "z_items", Soft: true, SoftDefault: "'" + zeroDeletedAt + "'"}, Type: reflect.TypeOf(ZItem{}), ZeroVal: true},
	"compkey-soft":  {Name: "compkey-soft", Spec: cond.TableSpec{Name: "cs_items", Soft: true, Extra: []string{"k2"}}, Type: reflect.TypeOf(CSItem{}), ZeroRow: true},
}

var modelNames = []string{"plain", "soft", "soft2", "softcol", "softemb", "soft2emb", "appkey", "appkey-soft", "compkey", "compkey-soft", "defaults", "defaults-soft", "poly", "poly-soft", "zerovalue"}

// basic models are enumerated to the full length, the variants one call shorter
func basicModel(n string) bool { return n == "plain" || n == "soft" }

// sdtModes: the configuration dimension (field SDT of a case): SkipDefaultTransaction
// in the config / in a session, further Config switches, the NoReturning
// dialector, and the whole operation inside a caller transaction that commits.
var sdtModes = []string{"", "config", "session", "PrepareStmt", "NoReturning", "QueryFields", "DryRun", "tx"}

var aguModes = []string{"off", "config", "session"}

// fixed table contents: three live rows, for the soft model two marked ones
func baseRows(m modelKind) []cond.InsertRow {
	soft := m.soft()
	one, s := 1, "a"
	rows := []cond.InsertRow{}
	if m.ZeroRow {
		rows = append(rows, cond.InsertRow{Row: cond.Row{ID: 0, Ca: 2, Cb: 1, Cs: "ab"}})
	}
	rows = append(rows, []cond.InsertRow{
		{Row: cond.Row{ID: 1, Ca: 1, Cb: 0, Cs: "a"}},
		{Row: cond.Row{ID: 2, Ca: 0, Cb: 2, Cs: "b", Cn: &one}},
		{Row: cond.Row{ID: 3, Ca: 3, Cb: 3, Cs: "", Ct: &s}},
	}...)
	if soft {
		rows = append(rows,
			cond.InsertRow{Row: cond.Row{ID: 101, Ca: 1, Cb: 0, Cs: "a"}, DeletedAt: "2030-01-02 03:04:05+00:00"},
			cond.InsertRow{Row: cond.Row{ID: 102, Ca: 0, Cb: 2, Cs: "b", Cn: &one}, DeletedAt: "2030-01-02 03:04:05+00:00"})
	}
	for i := range rows {
		rows[i].Extra = make([]int, len(m.Spec.Extra)) // further key parts are 0
		if m.ZeroVal && rows[i].DeletedAt == "" {
			rows[i].DeletedAt = zeroDeletedAt
		}
	}
	return rows
}

// ---- condition-free calls ----------------------------------------------------------------------------

type freeCall struct {
	Name      string
	EmptyCond bool // an empty condition form (vs. a non-condition clause)
	Apply     func(db *gorm.DB, base *gorm.DB, m modelKind) *gorm.DB
}

func emptyForms() []struct {
	name string
	arg  func(base *gorm.DB, m modelKind) interface{}
} {
	return []struct {
		name string
		arg  func(base *gorm.DB, m modelKind) interface{}
	}{
		{`""`, func(*gorm.DB, modelKind) interface{} { return "" }},
		{`map{}`, func(*gorm.DB, modelKind) interface{} { return map[string]interface{}{} }},
		{`&T{}`, func(_ *gorm.DB, m modelKind) interface{} { return m.Zero() }},
		{`[]int{}`, func(*gorm.DB, modelKind) interface{} { return []int{} }},
		{`db`, func(base *gorm.DB, _ modelKind) interface{} { return base.Where("").Or(map[string]interface{}{}) }},
	}
}

var alphabet = func() []freeCall {
	var a []freeCall
	for _, verb := range []string{"Where", "Not", "Or"} {
		for _, f := range emptyForms() {
			verb, f := verb, f
			a = append(a, freeCall{Name: verb + "(" + f.name + ")", EmptyCond: true, Apply: func(db, base *gorm.DB, m modelKind) *gorm.DB {
				arg := f.arg(base, m)
				switch verb {
				case "Where":
					return db.Where(arg)
				case "Not":
					return db.Not(arg)
				}
				return db.Or(arg)
			}})
		}
	}
	a = append(a,
		freeCall{Name: `Order("id")`, Apply: func(db, _ *gorm.DB, _ modelKind) *gorm.DB { return db.Order("id") }},
		freeCall{Name: `Limit(1)`, Apply: func(db, _ *gorm.DB, _ modelKind) *gorm.DB { return db.Limit(1) }},
		freeCall{Name: `Scopes(id)`, Apply: func(db, _ *gorm.DB, _ modelKind) *gorm.DB {
			return db.Scopes(func(d *gorm.DB) *gorm.DB { return d })
		}},
		// a scope that returns a derived session sharing the statement (it also switches the implicit
		// transaction off: with one in front, a scope-derived session leaves it open on the unchanged
		// tree - reported separately, not this check's oracle)
		freeCall{Name: `Scopes(Session{SkipDefaultTransaction})`, Apply: func(db, _ *gorm.DB, _ modelKind) *gorm.DB {
			return db.Scopes(func(d *gorm.DB) *gorm.DB { return d.Session(&gorm.Session{SkipDefaultTransaction: true}) })
		}},
		freeCall{Name: `Unscoped()`, Apply: func(db, _ *gorm.DB, _ modelKind) *gorm.DB { return db.Unscoped() }},
		freeCall{Name: `Select("mark")`, Apply: func(db, _ *gorm.DB, _ modelKind) *gorm.DB { return db.Select("mark") }},
		// relation names in Select: on Delete the selected has-one / has-many / many2many records are
		// deleted first by nested statements (for models without such a relation: an unknown column)
		freeCall{Name: `Select("Items","mark")`, Apply: func(db, _ *gorm.DB, _ modelKind) *gorm.DB { return db.Select("Items", "mark") }},
		freeCall{Name: `Select(Associations,"mark")`, Apply: func(db, _ *gorm.DB, _ modelKind) *gorm.DB {
			return db.Select(clause.Associations, "mark")
		}},
		freeCall{Name: `Omit("ca")`, Apply: func(db, _ *gorm.DB, _ modelKind) *gorm.DB { return db.Omit("ca") }},
		freeCall{Name: `Table(t)`, Apply: func(db, _ *gorm.DB, m modelKind) *gorm.DB { return db.Table(m.Spec.Name) }},
		freeCall{Name: `Model(&T{})`, Apply: func(db, _ *gorm.DB, m modelKind) *gorm.DB { return db.Model(m.Zero()) }},
		freeCall{Name: `Session{}`, Apply: func(db, _ *gorm.DB, _ modelKind) *gorm.DB { return db.Session(&gorm.Session{}) }},
		// condition-free Clauses
		freeCall{Name: `Clauses(Returning{})`, Apply: func(db, _ *gorm.DB, _ modelKind) *gorm.DB { return db.Clauses(clause.Returning{}) }},
		freeCall{Name: `Clauses(Returning{id,mark})`, Apply: func(db, _ *gorm.DB, _ modelKind) *gorm.DB {
			return db.Clauses(clause.Returning{Columns: []clause.Column{{Name: "id"}, {Name: "mark"}}})
		}},
		freeCall{Name: `Clauses(Locking{UPDATE})`, Apply: func(db, _ *gorm.DB, _ modelKind) *gorm.DB {
			return db.Clauses(clause.Locking{Strength: "UPDATE"})
		}},
		freeCall{Name: `Clauses(OrderBy{id})`, Apply: func(db, _ *gorm.DB, _ modelKind) *gorm.DB {
			return db.Clauses(clause.OrderBy{Columns: []clause.OrderByColumn{{Column: clause.Column{Name: "id"}, Desc: true}}})
		}},
		freeCall{Name: `Clauses(Limit{1})`, Apply: func(db, _ *gorm.DB, _ modelKind) *gorm.DB {
			one := 1
			return db.Clauses(clause.Limit{Limit: &one})
		}},
	)
	return a
}()

// weakCalls put an expression-less WHERE clause on the statement. The property
// does not list them among the empty condition forms and the unchanged tree
// answers with the database's syntax error (`... WHERE ` is sent and refused)
// instead of ErrMissingWhereClause, so for chains containing one only this is
// asserted: an error is returned, nothing is committed, no row changes.
var weakCalls = []freeCall{
	{Name: `Clauses(Where{})`, Apply: func(db, _ *gorm.DB, _ modelKind) *gorm.DB { return db.Clauses(clause.Where{}) }},
	{Name: `Clauses(And())`, Apply: func(db, _ *gorm.DB, _ modelKind) *gorm.DB { return db.Clauses(clause.And()) }},
}

// extras: further condition-free calls. They are enumerated alone and next to a
// few partner calls (quick) / every call (thorough) and drawn in the random part,
// instead of multiplying the core alphabet of the full enumeration.
var extras = []freeCall{
	{Name: `Where(nil)`, EmptyCond: true, Apply: func(db, _ *gorm.DB, _ modelKind) *gorm.DB { return db.Where(nil) }},
	{Name: `Not(map[string]string{})`, EmptyCond: true, Apply: func(db, _ *gorm.DB, _ modelKind) *gorm.DB { return db.Not(map[string]string{}) }},
	{Name: `Or(T{})`, EmptyCond: true, Apply: func(db, _ *gorm.DB, m modelKind) *gorm.DB {
		return db.Or(reflect.New(m.Type).Elem().Interface())
	}},
	{Name: `Where([]string{})`, EmptyCond: true, Apply: func(db, _ *gorm.DB, _ modelKind) *gorm.DB { return db.Where([]string{}) }},
	{Name: `Not(&[]T{})`, EmptyCond: true, Apply: func(db, _ *gorm.DB, m modelKind) *gorm.DB { return db.Not(m.EmptySlicePtr()) }},
	{Name: `WithContext(ctx)`, Apply: func(db, _ *gorm.DB, _ modelKind) *gorm.DB { return db.WithContext(context.Background()) }},
	{Name: `Session{NewDB}`, Apply: func(db, _ *gorm.DB, _ modelKind) *gorm.DB { return db.Session(&gorm.Session{NewDB: true}) }},
	{Name: `Session{PrepareStmt}`, Apply: func(db, _ *gorm.DB, _ modelKind) *gorm.DB { return db.Session(&gorm.Session{PrepareStmt: true}) }},
	{Name: `Distinct()`, Apply: func(db, _ *gorm.DB, _ modelKind) *gorm.DB { return db.Distinct() }},
	{Name: `Offset(1)`, Apply: func(db, _ *gorm.DB, _ modelKind) *gorm.DB { return db.Offset(1) }},
	{Name: `Group("id")`, Apply: func(db, _ *gorm.DB, _ modelKind) *gorm.DB { return db.Group("id") }},
	{Name: `Set("k",1)`, Apply: func(db, _ *gorm.DB, _ modelKind) *gorm.DB { return db.Set("k", 1) }},
}

// Blob / Kinds: named slice types (bytes, strings).
type Blob []byte
type Kind string

// emptySlices: every empty slice / array form in every role. All of them are
// condition-free (an empty key list). A representative subset sits in extras
// (enumerated); the full product is drawn in the random part.
var emptySlices = func() []freeCall {
	forms := []struct {
		name string
		v    interface{}
	}{
		{`[]byte{}`, []byte{}}, {`[]byte(nil)`, []byte(nil)}, {`Blob{}`, Blob{}}, {`[]interface{}{}`, []interface{}{}},
		{`[0]int{}`, [0]int{}}, {`[]int64{}`, []int64{}}, {`[]uint{}`, []uint{}}, {`[]Kind{}`, []Kind{}}, {`[]string(nil)`, []string(nil)},
	}
	var out []freeCall
	for _, verb := range []string{"Where", "Not", "Or"} {
		for _, f := range forms {
			verb, f := verb, f
			out = append(out, freeCall{Name: verb + "(" + f.name + ")", EmptyCond: true, Apply: func(db, _ *gorm.DB, _ modelKind) *gorm.DB {
				switch verb {
				case "Where":
					return db.Where(f.v)
				case "Not":
					return db.Not(f.v)
				}
				return db.Or(f.v)
			}})
		}
	}
	return out
}()

func init() {
	// the enumerated representatives: each form once, Not([]byte{}) in addition
	pick := map[string]bool{`Where([]byte{})`: true, `Not([]byte{})`: true, `Or([]byte(nil))`: true, `Not(Blob{})`: true, `Where([]interface{}{})`: true,
		`Or([0]int{})`: true, `Not([]int64{})`: true, `Where([]uint{})`: true, `Or([]Kind{})`: true, `Not([]string(nil))`: true}
	for _, e := range emptySlices {
		if pick[e.Name] {
			extras = append(extras, e)
		}
	}
	allCalls = append(append(append(append([]freeCall{}, alphabet...), weakCalls...), extras...), emptySlices...)
	// open finding scope-session-open-tx: only the witness uses this call
	allCalls = append(allCalls, freeCall{Name: `Scopes(Session{})`, Apply: func(db, _ *gorm.DB, _ modelKind) *gorm.DB {
		return db.Scopes(func(d *gorm.DB) *gorm.DB { return d.Session(&gorm.Session{}) })
	}})
	for i, a := range allCalls {
		if _, ok := alphaIndex[a.Name]; !ok {
			alphaIndex[a.Name] = i
		}
	}
}

// allCalls = alphabet + weakCalls + extras + emptySlices (lookup only; the full enumeration runs over alphabet)
var allCalls []freeCall

var alphaIndex = map[string]int{} // filled by init (name -> index in allCalls)

func isWeak(name string) bool {
	i := alphaIndex[name]
	return i >= len(alphabet) && i < len(alphabet)+len(weakCalls)
}

// ---- finishers ---------------------------------------------------------------------------------------

type finisher struct {
	Name   string
	Delete bool
	// OffOnly: only with AllowGlobalUpdate off and not in the effective-condition
	// part (the update value carries a primary key: executed globally or next to
	// another key it would collide with the table's key constraint)
	OffOnly bool
	// Short: enumerated one call shorter than the others (keeps the quick tier small)
	Short bool
	Run   func(db *gorm.DB, m modelKind, key int) *gorm.DB // key: primary key of the model value (0 = none)
}

var finishers = []finisher{
	{Name: `Update("mark",7)`, Run: func(db *gorm.DB, m modelKind, k int) *gorm.DB { return db.Model(m.Keyed(k)).Update("mark", 7) }},
	{Name: `Updates(map)`, Run: func(db *gorm.DB, m modelKind, k int) *gorm.DB {
		return db.Model(m.Keyed(k)).Updates(map[string]interface{}{"mark": 7})
	}},
	{Name: `Updates(T{Mark:7})`, Run: func(db *gorm.DB, m modelKind, k int) *gorm.DB { return db.Model(m.Keyed(k)).Updates(m.Marked()) }},
	{Name: `UpdateColumn("mark",7)`, Run: func(db *gorm.DB, m modelKind, k int) *gorm.DB { return db.Model(m.Keyed(k)).UpdateColumn("mark", 7) }},
	{Name: `UpdateColumns(map)`, Run: func(db *gorm.DB, m modelKind, k int) *gorm.DB {
		return db.Model(m.Keyed(k)).UpdateColumns(map[string]interface{}{"mark": 7})
	}},
	{Name: `UpdateColumns(T{Mark:7})`, Run: func(db *gorm.DB, m modelKind, k int) *gorm.DB { return db.Model(m.Keyed(k)).UpdateColumns(m.Marked()) }},
	// the update VALUE has a primary key; it is an assignment, not a condition
	{Name: `Updates(T{ID:2,Mark:7})`, OffOnly: true, Run: func(db *gorm.DB, m modelKind, k int) *gorm.DB {
		return db.Model(m.Keyed(k)).Updates(m.MarkedKeyed(2, false))
	}},
	{Name: `Updates(&T{ID:2,Mark:7})`, OffOnly: true, Run: func(db *gorm.DB, m modelKind, k int) *gorm.DB {
		return db.Model(m.Keyed(k)).Updates(m.MarkedKeyed(2, true))
	}},
	{Name: `UpdateColumns(T{ID:2,Mark:7})`, OffOnly: true, Run: func(db *gorm.DB, m modelKind, k int) *gorm.DB {
		return db.Model(m.Keyed(k)).UpdateColumns(m.MarkedKeyed(2, false))
	}},
	// other forms of the model value
	// Model(T{}) (not a pointer): only with AllowGlobalUpdate off - once such a statement
	// executes with a RETURNING clause the update callback panics (ReflectValue.Addr of
	// an unaddressable value, callbacks/update.go), which is not this property's subject
	{Name: `Model(T{}).Update("mark",7)`, Short: true, OffOnly: true, Run: func(db *gorm.DB, m modelKind, k int) *gorm.DB {
		return db.Model(reflect.ValueOf(m.Keyed(k)).Elem().Interface()).Update("mark", 7)
	}},
	{Name: `Model(&[]T{{},{}}).Update("mark",7)`, Short: true, Run: func(db *gorm.DB, m modelKind, k int) *gorm.DB {
		if k != 0 {
			// fully keyed: with only some elements keyed gorm looks at the last element
			// alone to decide whether the slice carries keys (undocumented either way)
			return db.Model(m.Slice(k, k)).Update("mark", 7)
		}
		return db.Model(m.Slice(0, 0)).Update("mark", 7)
	}},
	{Name: `Table(t).Update("mark",7)`, Short: true, OffOnly: true, Run: func(db *gorm.DB, m modelKind, k int) *gorm.DB {
		return db.Session(&gorm.Session{NewDB: true}).Table(m.Spec.Name).Update("mark", 7)
	}},
	// (Delete(T{}) - a non-pointer value - is refused with ErrInvalidValue before anything is built)
	{Name: `Delete(&T{},[]byte{})`, Delete: true, Short: true, Run: func(db *gorm.DB, m modelKind, k int) *gorm.DB { return db.Delete(m.Keyed(k), []byte{}) }},
	{Name: `Delete(&T{},[]interface{}{})`, Delete: true, Short: true, Run: func(db *gorm.DB, m modelKind, k int) *gorm.DB {
		return db.Delete(m.Keyed(k), []interface{}{})
	}},
	{Name: `Delete(&T{},nil)`, Delete: true, Short: true, Run: func(db *gorm.DB, m modelKind, k int) *gorm.DB { return db.Delete(m.Keyed(k), nil) }},
	{Name: `Delete(&T{},&T{})`, Delete: true, Short: true, Run: func(db *gorm.DB, m modelKind, k int) *gorm.DB {
		return db.Delete(m.Keyed(k), m.Zero())
	}},
	{Name: `Delete(&T{})`, Delete: true, Run: func(db *gorm.DB, m modelKind, k int) *gorm.DB { return db.Delete(m.Keyed(k)) }},
	// the key (if any) comes from the Model value only, the deleted value is key-less
	{Name: `Model(&T{}).Delete(&T{})`, Delete: true, Run: func(db *gorm.DB, m modelKind, k int) *gorm.DB {
		return db.Model(m.Keyed(k)).Delete(m.Zero())
	}},
	{Name: `Delete(&T{},"")`, Delete: true, Run: func(db *gorm.DB, m modelKind, k int) *gorm.DB { return db.Delete(m.Keyed(k), "") }},
	{Name: `Delete(&T{},map{})`, Delete: true, Run: func(db *gorm.DB, m modelKind, k int) *gorm.DB {
		return db.Delete(m.Keyed(k), map[string]interface{}{})
	}},
	{Name: `Delete(&T{},[]int{})`, Delete: true, Run: func(db *gorm.DB, m modelKind, k int) *gorm.DB { return db.Delete(m.Keyed(k), []int{}) }},
	{Name: `Delete(&[]T{{},{}})`, Delete: true, Run: func(db *gorm.DB, m modelKind, k int) *gorm.DB {
		if k != 0 {
			return db.Delete(m.Slice(0, k))
		}
		return db.Delete(m.Slice(0, 0))
	}},
	{Name: `Delete(&[]T{})`, Delete: true, Run: func(db *gorm.DB, m modelKind, k int) *gorm.DB {
		if k != 0 {
			return db.Delete(m.Slice(k))
		}
		return db.Delete(m.Slice())
	}},
}

var finIndex = func() map[string]int {
	m := map[string]int{}
	for i, f := range finishers {
		m[f.Name] = i
	}
	return m
}()

// ---- part (i): condition-free chains -------------------------------------------------------------------

// Case is the replayable form of a condition-free chain. With Prime set the
// program is: q := db.Model(&T{}) (a chain value, not a fresh session) . Pre... ;
// q.<Prime> (an operation that neither fails nor adds a condition) ;
// q.<Derive> . Calls... . Fin
type Case struct {
	Model  string   `json:"model"`
	AGU    string   `json:"allow_global_update"`
	SDT    string   `json:"skip_default_transaction,omitempty"`
	Pre    []string `json:"pre,omitempty"`
	Prime  string   `json:"prime,omitempty"`
	Derive string   `json:"derive,omitempty"`
	Calls  []string `json:"calls"`
	Fin    string   `json:"finisher"`
}

func (c Case) String() string {
	chain := strings.Join(append(append([]string{}, c.Calls...), c.Fin), ".")
	agu := c.AGU
	if c.SDT != "" {
		agu += " SkipDefaultTransaction=" + c.SDT
	}
	if c.Prime == "" {
		return fmt.Sprintf("model=%s AllowGlobalUpdate=%s db.%s", c.Model, agu, chain)
	}
	q := strings.Join(append([]string{"Model(&T{})"}, c.Pre...), ".")
	d := ""
	if c.Derive != "" {
		d = c.Derive + "."
	}
	return fmt.Sprintf("model=%s AllowGlobalUpdate=%s q := db.%s; q.%s; q.%s%s", c.Model, agu, q, c.Prime, d, chain)
}

// primes are operations that run on the chain value first: they leave the
// automatic soft-delete filter (and whatever else they build) on its statement,
// add no condition and do not fail.
var primes = []struct {
	Name string
	Run  func(q *gorm.DB, m modelKind) error
}{
	{`Updates(map{})`, func(q *gorm.DB, m modelKind) error { return q.Updates(map[string]interface{}{}).Error }},
	{`Updates(T{})`, func(q *gorm.DB, m modelKind) error { return q.Updates(reflect.New(m.Type).Elem().Interface()).Error }},
	{`Raw(count).Scan`, func(q *gorm.DB, m modelKind) error {
		var n int64
		return q.Raw("SELECT count(*) FROM " + m.Spec.Name).Scan(&n).Error
	}},
	{`Count`, func(q *gorm.DB, m modelKind) error {
		var n int64
		return q.Count(&n).Error
	}},
	{`Find`, func(q *gorm.DB, m modelKind) error { return q.Find(m.EmptySlicePtr()).Error }},
	{`FindInBatches`, func(q *gorm.DB, m modelKind) error {
		return q.FindInBatches(m.EmptySlicePtr(), 2, func(tx *gorm.DB, batch int) error { return nil }).Error
	}},
}

var primeIndex = func() map[string]int {
	m := map[string]int{}
	for i, p := range primes {
		m[p.Name] = i
	}
	return m
}()

// derives turn the used chain value into the handle the finisher runs on.
var derives = []struct {
	Name string
	Run  func(q *gorm.DB) *gorm.DB
}{
	{``, func(q *gorm.DB) *gorm.DB { return q }},
	{`Session{}`, func(q *gorm.DB) *gorm.DB { return q.Session(&gorm.Session{}) }},
	{`WithContext(ctx)`, func(q *gorm.DB) *gorm.DB { return q.WithContext(context.Background()) }},
	{`Session{AllowGlobalUpdate:false}`, func(q *gorm.DB) *gorm.DB { return q.Session(&gorm.Session{AllowGlobalUpdate: false}) }},
	{`Session{SkipHooks}`, func(q *gorm.DB) *gorm.DB { return q.Session(&gorm.Session{SkipHooks: true}) }},
}

var deriveIndex = func() map[string]int {
	m := map[string]int{}
	for i, p := range derives {
		m[p.Name] = i
	}
	return m
}()

func open(m modelKind, agu string, sdt string) (*testdb.DB, *gorm.DB, error) {
	cfg := gorm.Config{AllowGlobalUpdate: agu == "config", SkipDefaultTransaction: sdt == "config", NowFunc: func() time.Time { return testdb.FixedNow },
		PrepareStmt: sdt == "PrepareStmt", QueryFields: sdt == "QueryFields"}
	d := testdb.Open(testdb.Options{Config: cfg, NoReturning: sdt == "NoReturning"})
	if err := m.Spec.Create(d.SQL); err != nil {
		d.Close()
		return nil, nil, fmt.Errorf("create %s: %w", m.Spec.Name, err)
	}
	if err := m.Spec.Insert(d.SQL, baseRows(m)); err != nil {
		d.Close()
		return nil, nil, fmt.Errorf("insert %s: %w", m.Spec.Name, err)
	}
	if m.Poly {
		for _, q := range []string{polyItemsDDL, polyItemsRows} {
			if _, err := d.SQL.Exec(q); err != nil {
				d.Close()
				return nil, nil, fmt.Errorf("polymorphic items: %w", err)
			}
		}
	}
	db := d.DB
	if agu == "session" {
		db = db.Session(&gorm.Session{AllowGlobalUpdate: true})
	}
	switch sdt {
	case "session":
		db = db.Session(&gorm.Session{SkipDefaultTransaction: true})
	case "DryRun":
		db = db.Session(&gorm.Session{DryRun: true})
	}
	d.Rec.Reset()
	return d, db, nil
}

func dumpString(rows []cond.Stored) string {
	parts := make([]string, len(rows))
	for i, r := range rows {
		parts[i] = r.String()
	}
	return strings.Join(parts, " | ")
}

// forbiddenEvents lists what the driver must not see for a rejected statement.
func forbiddenEvents(rec *recdrv.Recorder, callerTx bool) string {
	var bad []string
	for _, e := range rec.Events() {
		switch e.Kind {
		case recdrv.Exec, recdrv.Query, recdrv.Prepare:
			bad = append(bad, e.String())
		case recdrv.Commit:
			if !callerTx {
				bad = append(bad, e.String())
			}
		}
	}
	return strings.Join(bad, "; ")
}

// checkFree runs a condition-free chain and returns a violation text.
func checkFree(c Case) (string, error) {
	m := models[c.Model]
	d, db, err := open(m, c.AGU, c.SDT)
	if err != nil {
		return "", err
	}
	defer d.Close()
	before, err := m.Spec.Dump(d.SQL)
	if err != nil {
		return "", err
	}
	unscoped := false
	var outer *gorm.DB
	if c.SDT == "tx" {
		// a caller transaction that is committed whatever the operation returns
		outer = db.Begin()
		if outer.Error != nil {
			return "", outer.Error
		}
		db = outer
	}
	tx := db
	if c.Prime != "" {
		q := db.Model(m.Zero())
		for _, name := range c.Pre {
			i, ok := alphaIndex[name]
			if !ok {
				return "", fmt.Errorf("unknown call %q", name)
			}
			q = allCalls[i].Apply(q, d.DB, m)
			switch name {
			case "Unscoped()":
				unscoped = true
			case "Session{NewDB}":
				unscoped = false
			}
		}
		pi, ok := primeIndex[c.Prime]
		if !ok {
			return "", fmt.Errorf("unknown priming operation %q", c.Prime)
		}
		if err := primes[pi].Run(q, m); err != nil {
			return fmt.Sprintf("the preparing operation %s failed: %v", c.Prime, err), nil
		}
		mid, err := m.Spec.Dump(d.SQL)
		if err != nil {
			return "", err
		}
		if dumpString(mid) != dumpString(before) {
			return fmt.Sprintf("the preparing operation %s changed the table: %s, was %s", c.Prime, dumpString(mid), dumpString(before)), nil
		}
		di, ok := deriveIndex[c.Derive]
		if !ok {
			return "", fmt.Errorf("unknown derivation %q", c.Derive)
		}
		tx = derives[di].Run(q)
	}
	d.Rec.Reset()
	for _, name := range c.Calls {
		i, ok := alphaIndex[name]
		if !ok {
			return "", fmt.Errorf("unknown call %q", name)
		}
		tx = allCalls[i].Apply(tx, d.DB, m)
		switch name {
		case "Unscoped()":
			unscoped = true
		case "Session{NewDB}":
			unscoped = false
		}
	}
	fi, ok := finIndex[c.Fin]
	if !ok {
		return "", fmt.Errorf("unknown finisher %q", c.Fin)
	}
	fin := finishers[fi]
	res := fin.Run(tx, m, 0)
	events := forbiddenEvents(d.Rec, outer != nil)
	if outer != nil {
		if err := outer.Commit().Error; err != nil {
			return "", fmt.Errorf("commit of the caller transaction: %w", err)
		}
	}
	open := d.Rec.OpenTx()
	after, err := m.Spec.Dump(d.SQL)
	if err != nil {
		return "", err
	}
	weak := false
	for _, name := range append(append([]string{}, c.Pre...), c.Calls...) {
		weak = weak || isWeak(name)
	}
	if weak {
		if res.Error == nil {
			return fmt.Sprintf("no error although the chain has no condition; driver saw: %s; table after: %s", events, dumpString(after)), nil
		}
		for _, e := range d.Rec.Events() {
			if e.Kind == recdrv.Commit && outer == nil {
				return "a statement without condition was committed: " + events, nil
			}
		}
		if open != 0 {
			return fmt.Sprintf("%d transaction(s) left open", open), nil
		}
		if dumpString(before) != dumpString(after) {
			return fmt.Sprintf("table changed: %s, was %s", dumpString(after), dumpString(before)), nil
		}
		return "", nil
	}
	if c.AGU == "off" {
		if !errors.Is(res.Error, gorm.ErrMissingWhereClause) {
			return fmt.Sprintf("error %v, want ErrMissingWhereClause; driver saw: %s; table after: %s", res.Error, events, dumpString(after)), nil
		}
		if events != "" {
			return "rejected statement reached the driver: " + events, nil
		}
		if open != 0 {
			return fmt.Sprintf("%d transaction(s) left open", open), nil
		}
		if dumpString(before) != dumpString(after) {
			return fmt.Sprintf("table changed: %s, was %s", dumpString(after), dumpString(before)), nil
		}
		return "", nil
	}
	// AllowGlobalUpdate: every visible row is affected
	if res.Error != nil {
		return fmt.Sprintf("AllowGlobalUpdate is on but the statement failed: %v", res.Error), nil
	}
	visible := func(s cond.Stored) bool { return !m.soft() || unscoped || m.live(s) }
	idx := map[int]cond.Stored{}
	for _, a := range after {
		idx[a.ID] = a
	}
	var affected int64
	for _, b := range before {
		a, exists := idx[b.ID]
		want := b
		switch {
		case !visible(b):
		case !fin.Delete:
			want.Mark = 7
			affected++
		case m.soft() && !unscoped:
			affected++
			if !exists || m.live(a) {
				return fmt.Sprintf("global soft delete left row id %d live: %s", b.ID, dumpString(after)), nil
			}
			want.DeletedAt = a.DeletedAt
		default:
			affected++
			if exists {
				return fmt.Sprintf("global delete left row id %d: %s", b.ID, dumpString(after)), nil
			}
			continue
		}
		if !exists {
			return fmt.Sprintf("row id %d disappeared: %s", b.ID, dumpString(after)), nil
		}
		if a.String() != want.String() {
			return fmt.Sprintf("row id %d is %s, want %s", b.ID, a, want), nil
		}
	}
	// with a RETURNING clause RowsAffected counts the rows scanned into the
	// (single struct) destination, not the rows changed - not C09's subject
	returning := false
	for _, name := range append(append([]string{}, c.Pre...), c.Calls...) {
		returning = returning || strings.HasPrefix(name, "Clauses(Returning")
	}
	if res.RowsAffected != affected && !returning {
		return fmt.Sprintf("RowsAffected %d, want %d (every visible row)", res.RowsAffected, affected), nil
	}
	return "", nil
}

func freeNontrivial(c Case) bool {
	empty := false
	all := append(append([]string{}, c.Pre...), c.Calls...)
	for _, n := range all {
		if allCalls[alphaIndex[n]].EmptyCond {
			empty = true
		}
	}
	return len(all) >= 2 && empty
}

func freeClasses(c Case) []string {
	cl := []string{"part:condition-free", "model:" + c.Model, "agu:" + c.AGU, "fin:" + c.Fin, fmt.Sprintf("len:%d", len(c.Calls))}
	if c.SDT != "" {
		cl = append(cl, "skip-default-transaction:"+c.SDT)
	}
	for _, n := range append(append([]string{}, c.Pre...), c.Calls...) {
		if isWeak(n) {
			cl = append(cl, "oracle:error-and-unchanged-only")
			break
		}
	}
	if c.Prime != "" {
		cl = append(cl, "shape:used-chain-value", "prime:"+c.Prime, "derive:"+c.Derive)
	}
	seen := map[string]bool{}
	for _, n := range append(append([]string{}, c.Pre...), c.Calls...) {
		if !seen[n] {
			seen[n] = true
			cl = append(cl, "call:"+n)
		}
	}
	return cl
}

func reportFree(c Case) {
	evid.Journal(c.String())
	evid.Case(c.String(), freeNontrivial(c), nil, freeClasses(c)...)
}

// TestC09Exhaustive enumerates every condition-free chain up to VERIF_C09_LEN
// x finisher x model x AllowGlobalUpdate mode (this shard's share).
func TestC09Exhaustive(t *testing.T) {
	evid.Rule(rule)
	if harness.ReplayPath() != "" {
		var c Case
		if err := harness.LoadReplay(&c); err != nil {
			t.Fatalf("cannot load replay: %v", err)
		}
		msg, err := checkFree(c)
		if err != nil {
			t.Fatalf("harness: %v", err)
		}
		if msg != "" {
			t.Fatalf("C09 violated: %s, case: %s", msg, c)
		}
		return
	}
	maxLen := harness.EnvInt("VERIF_C09_LEN", 2)
	shard, shards := harness.Shard(), harness.Shards()
	n, failed := 0, 0
	var rec func(prefix []string)
	rec = func(prefix []string) {
		for _, mn := range modelNames {
			for _, agu := range aguModes {
				// the full length for the two basic models, one call less for the
				// model variants (same guard path; the random part draws longer
				// chains for them) - keeps the enumeration inside the time budget
				// (the session flavour of AllowGlobalUpdate differs from the config
				// flavour only in how the flag reaches the statement: one call shorter too)
				if (!basicModel(mn) || agu == "session") && len(prefix) == maxLen && maxLen > 0 {
					continue
				}
				for _, f := range finishers {
					if f.OffOnly && agu != "off" {
						continue
					}
					if f.Short && len(prefix) == maxLen && maxLen > 0 {
						continue
					}
					n++
					if n%shards != shard {
						continue
					}
					c := Case{Model: mn, AGU: agu, Calls: append([]string{}, prefix...), Fin: f.Name}
					reportFree(c)
					msg, err := checkFree(c)
					if err != nil {
						t.Fatalf("harness: %v, case: %s", err, c)
					}
					if msg != "" {
						failed++
						if failed <= 5 {
							harness.SaveCase("TestC09Exhaustive", c)
							t.Errorf("C09 violated: %s, case: %s", msg, c)
						}
					}
				}
			}
		}
		if len(prefix) == maxLen {
			return
		}
		for _, a := range alphabet {
			rec(append(prefix, a.Name))
		}
	}
	rec(nil)
	// the used-chain-value family: every preparing operation x derivation x
	// one condition-free call before and after (quick: a reduced set of calls)
	// x finisher x model, AllowGlobalUpdate off
	mids := []string{"", `Where("")`, `Unscoped()`, `Session{}`}
	if maxLen >= 3 {
		mids = []string{""}
		for _, a := range alphabet {
			mids = append(mids, a.Name)
		}
	}
	// SkipDefaultTransaction (config / session): chains one call shorter, every
	// model and finisher, AllowGlobalUpdate off - without the implicit transaction
	// nothing would roll a wrongly sent statement back
	var sdtRec func(prefix []string)
	sdtRec = func(prefix []string) {
		for _, mn := range []string{"plain", "soft", "appkey-soft"} {
			for _, sdt := range sdtModes[1:] {
				if sdt == "QueryFields" {
					continue // no bearing on update / delete statements: random part only
				}
				for _, f := range finishers {
					n++
					if n%shards != shard {
						continue
					}
					c := Case{Model: mn, AGU: "off", SDT: sdt, Calls: append([]string{}, prefix...), Fin: f.Name}
					reportFree(c)
					msg, err := checkFree(c)
					if err != nil {
						t.Fatalf("harness: %v, case: %s", err, c)
					}
					if msg != "" {
						failed++
						if failed <= 5 {
							harness.SaveCase("TestC09Exhaustive", c)
							t.Errorf("C09 violated: %s, case: %s", msg, c)
						}
					}
				}
			}
		}
		if len(prefix) >= maxLen-1 {
			return
		}
		for _, a := range alphabet {
			sdtRec(append(prefix, a.Name))
		}
	}
	sdtRec(nil)
	// expression-less WHERE clauses (weakCalls): alone and next to one other call
	partners := []string{`Where("")`, `Not(map{})`, `Or(&T{})`, `Unscoped()`, `Model(&T{})`, `Session{}`, `Clauses(Returning{})`, `Table(t)`}
	if maxLen >= 3 {
		partners = partners[:0]
		for _, a := range alphabet {
			partners = append(partners, a.Name)
		}
	}
	var weakChains [][]string
	for _, wc := range weakCalls {
		weakChains = append(weakChains, []string{wc.Name})
		for _, pn := range partners {
			weakChains = append(weakChains, []string{wc.Name, pn}, []string{pn, wc.Name})
		}
	}
	for _, mn := range modelNames {
		for _, chain := range weakChains {
			for _, f := range finishers {
				n++
				if n%shards != shard {
					continue
				}
				c := Case{Model: mn, AGU: "off", Calls: chain, Fin: f.Name}
				reportFree(c)
				msg, err := checkFree(c)
				if err != nil {
					t.Fatalf("harness: %v, case: %s", err, c)
				}
				if msg != "" {
					failed++
					if failed <= 5 {
						harness.SaveCase("TestC09Exhaustive", c)
						t.Errorf("C09 violated: %s, case: %s", msg, c)
					}
				}
			}
		}
	}
	// the extra condition-free calls: alone and next to one partner call
	var extraChains [][]string
	extraPartners := partners
	if maxLen < 3 {
		extraPartners = []string{`Where("")`, `Unscoped()`, `Model(&T{})`, `Clauses(Returning{})`}
	}
	for _, e := range extras {
		extraChains = append(extraChains, []string{e.Name})
		for _, pn := range extraPartners {
			extraChains = append(extraChains, []string{e.Name, pn}, []string{pn, e.Name})
		}
	}
	for _, mn := range []string{"plain", "soft", "soft2", "appkey"} {
		for _, agu := range []string{"off", "config"} {
			if agu != "off" && (!basicModel(mn) || maxLen < 3) {
				continue
			}
			for _, chain := range extraChains {
				for _, f := range finishers {
					if f.OffOnly && agu != "off" || f.Short && len(chain) > 1 {
						continue
					}
					n++
					if n%shards != shard {
						continue
					}
					c := Case{Model: mn, AGU: agu, Calls: chain, Fin: f.Name}
					reportFree(c)
					msg, err := checkFree(c)
					if err != nil {
						t.Fatalf("harness: %v, case: %s", err, c)
					}
					if msg != "" {
						failed++
						if failed <= 5 {
							harness.SaveCase("TestC09Exhaustive", c)
							t.Errorf("C09 violated: %s, case: %s", msg, c)
						}
					}
				}
			}
		}
	}
	pres := []string{""}
	if maxLen >= 3 {
		pres = []string{"", `Where("")`, `Unscoped()`, `Or(map{})`}
	}
	for _, mn := range []string{"plain", "soft", "soft2", "softemb", "appkey-soft", "compkey", "poly"} {
		for _, pr := range primes {
			for _, dv := range derives {
				for _, pre := range pres {
					for _, mid := range mids {
						for _, f := range finishers {
							n++
							if n%shards != shard {
								continue
							}
							c := Case{Model: mn, AGU: "off", Prime: pr.Name, Derive: dv.Name, Calls: []string{}, Fin: f.Name}
							if pre != "" {
								c.Pre = []string{pre}
							}
							if mid != "" {
								c.Calls = []string{mid}
							}
							reportFree(c)
							msg, err := checkFree(c)
							if err != nil {
								t.Fatalf("harness: %v, case: %s", err, c)
							}
							if msg != "" {
								failed++
								if failed <= 5 {
									harness.SaveCase("TestC09Exhaustive", c)
									t.Errorf("C09 violated: %s, case: %s", msg, c)
								}
							}
						}
					}
				}
			}
		}
	}
	if failed > 5 {
		t.Errorf("C09 violated by %d enumerated chains in this shard (first 5 shown)", failed)
	}
	evid.Exhaustive(true)
	evid.Extra("exhaustive_length", fmt.Sprint(maxLen))
	t.Logf("enumerated %d cases up to chain length %d (all shards)", n, maxLen)
}

// TestC09Random draws longer condition-free chains.
func TestC09Random(t *testing.T) {
	evid.Rule(rule)
	rapid.Check(t, func(rt *rapid.T) {
		x := cond.G(rt)
		c := Case{Model: modelNames[x.N(len(modelNames))], AGU: aguModes[x.N(3)], Fin: finishers[x.N(len(finishers))].Name}
		pool := append(append(append([]freeCall{}, alphabet...), extras...), emptySlices...)
		seenUnscoped := false
		for k := 3 + x.N(5); k > 0; k-- {
			name := pool[x.N(len(pool))].Name
			if name == "Unscoped()" {
				seenUnscoped = true
			}
			if name == "Session{NewDB}" && seenUnscoped {
				// whether Unscoped survives Session{NewDB} depends on the next call (another
				// Session / WithContext turns the handle back into a clone of the unscoped
				// statement): undocumented, not generated
				name = "WithContext(ctx)"
			}
			c.Calls = append(c.Calls, name)
		}
		if finishers[finIndex[c.Fin]].OffOnly {
			c.AGU = "off"
		}
		if x.Pct(40) {
			c.SDT = sdtModes[1+x.N(len(sdtModes)-1)]
			if c.SDT == "DryRun" {
				c.AGU = "off" // with AllowGlobalUpdate a dry run executes nothing either: no row to look at
			}
		}
		if x.Pct(45) && c.SDT != "DryRun" {
			// used chain value (not in a dry run: Raw().Scan() is unsupported there): part of the calls go before the preparing operation
			c.AGU = "off"
			c.Prime = primes[x.N(len(primes))].Name
			c.Derive = derives[x.N(len(derives))].Name
			k := x.N(len(c.Calls) + 1)
			c.Pre, c.Calls = c.Calls[:k:k], c.Calls[k:]
			for i, name := range c.Pre {
				if strings.HasPrefix(name, `Select("Items"`) || strings.HasPrefix(name, `Select(Associations`) {
					c.Pre[i] = `Select("mark")` // a relation name is no column the preparing query could select
				}
				if c.Prime == "FindInBatches" && strings.HasPrefix(c.Pre[i], "Select(") {
					c.Pre[i] = `Where("")` // the batched read needs the primary key among the selected columns
				}
				if name == "Session{NewDB}" {
					c.Pre[i] = "WithContext(ctx)" // a new statement would lose the Model the preparing operation needs
				}
			}
			for _, name := range c.Pre {
				// with Select("mark") an all-zero struct is no longer an empty
				// update (it sets mark = 0): not a condition-free preparation
				if name == `Select("mark")` && c.Prime == `Updates(T{})` {
					c.Prime = `Updates(map{})`
				}
			}
		}
		if x.Pct(15) && c.SDT != "DryRun" {
			// an expression-less WHERE clause somewhere in the chain (behind the preparing operation, which it would make fail)
			c.AGU = "off"
			k := x.N(len(c.Calls) + 1)
			c.Calls = append(c.Calls[:k:k], append([]string{weakCalls[x.N(len(weakCalls))].Name}, c.Calls[k:]...)...)
		}
		reportFree(c)
		msg, err := checkFree(c)
		if err != nil {
			rt.Fatalf("harness: %v, case: %s", err, c)
		}
		if msg != "" {
			rt.Fatalf("C09 violated: %s, case: %s", msg, c)
		}
	})
}

// ---- part (ii): chains with an effective condition ------------------------------------------------------

// step is either a condition call or a condition-free call.
type step struct {
	Call *cond.Call
	Free string
}

type effCase struct {
	Model string
	Steps []step
	Fin   string
	Key   int // primary key of the model value / keyed slice element (0 = none)
	SDT   string
}

func (c effCase) String() string {
	parts := make([]string, len(c.Steps))
	for i, s := range c.Steps {
		if s.Call != nil {
			parts[i] = s.Call.Verb.String() + "(" + s.Call.U.String() + ")"
		} else {
			parts[i] = s.Free
		}
	}
	return fmt.Sprintf("model=%s AllowGlobalUpdate=off SkipDefaultTransaction=%s db.%s key=%d", c.Model, c.SDT, strings.Join(append(parts, c.Fin), "."), c.Key)
}

func (c effCase) calls() []cond.Call {
	var out []cond.Call
	for _, s := range c.Steps {
		if s.Call != nil {
			out = append(out, *s.Call)
		}
	}
	return out
}

func checkEffective(c effCase) (string, error) {
	m := models[c.Model]
	d, db, err := open(m, "off", c.SDT)
	if err != nil {
		return "", err
	}
	defer d.Close()
	env := cond.Env{Base: d.DB, MakeStruct: cond.StructMaker(m.Type)}
	tx := db
	for _, s := range c.Steps {
		if s.Call != nil {
			tx = cond.ApplyCalls(tx, env, []cond.Call{*s.Call})
		} else {
			tx = alphabet[alphaIndex[s.Free]].Apply(tx, d.DB, m)
		}
	}
	res := finishers[finIndex[c.Fin]].Run(tx, m, c.Key)
	if errors.Is(res.Error, gorm.ErrMissingWhereClause) {
		return "a chain with an effective condition was rejected with ErrMissingWhereClause", nil
	}
	if res.Error != nil {
		return fmt.Sprintf("unexpected error %v", res.Error), nil
	}
	executed := false
	for _, e := range d.Rec.Events() {
		if e.Kind == recdrv.Exec || e.Kind == recdrv.Query {
			executed = true
		}
	}
	if !executed {
		return "no error, but the driver saw no statement", nil
	}
	if d.Rec.OpenTx() != 0 {
		return "transaction left open", nil
	}
	return "", nil
}

func TestC09Effective(t *testing.T) {
	evid.Rule(rule)
	rapid.Check(t, func(rt *rapid.T) {
		x := cond.G(rt)
		c := effCase{Model: modelNames[x.N(len(modelNames))], Fin: finishers[x.N(len(finishers))].Name}
		for finishers[finIndex[c.Fin]].OffOnly {
			c.Fin = finishers[x.N(len(finishers))].Name
		}
		if x.Pct(30) {
			c.SDT = sdtModes[1+x.N(2)]
		}
		cfg := cond.Cfg{MaxID: 3, LeadingOr: true, EmptyIn: true, MaxDepth: 2}
		var calls []cond.Call
		// the source of the effective condition: a unit, the key of the model value, or both
		src := x.N(10)
		if src < 8 {
			for len(calls) == 0 || cond.ChainPred(calls) == nil {
				calls = cond.GenCalls(rt, cfg, 1+x.N(3))
			}
		} else {
			calls = cond.GenCalls(rt, cfg, x.N(2))
		}
		if src >= 6 {
			c.Key = 1 + x.N(4)
		}
		for i := range calls {
			for x.Pct(35) {
				c.Steps = append(c.Steps, step{Free: alphabet[x.N(len(alphabet))].Name})
			}
			c.Steps = append(c.Steps, step{Call: &calls[i]})
		}
		for x.Pct(35) {
			c.Steps = append(c.Steps, step{Free: alphabet[x.N(len(alphabet))].Name})
		}
		desc := c.String()
		evid.Journal(desc)
		frees, empty := 0, false
		for _, s := range c.Steps {
			if s.Free != "" {
				frees++
				empty = empty || alphabet[alphaIndex[s.Free]].EmptyCond
			}
		}
		cl := append(cond.Classes(calls, nil), "part:effective-condition", "model:"+c.Model, "fin:"+c.Fin)
		if c.Key != 0 {
			cl = append(cl, "effective:model-key")
		}
		if cond.ChainPred(calls) != nil {
			cl = append(cl, "effective:unit")
		}
		evid.Case(desc, frees >= 2 && empty, nil, cl...)
		msg, err := checkEffective(c)
		if err != nil {
			rt.Fatalf("harness: %v, case: %s", err, desc)
		}
		if msg != "" {
			rt.Fatalf("C09 violated: %s, case: %s", msg, desc)
		}
	})
}

// open finding scope-session-open-tx: db.Scopes(func(d) d.Session(&gorm.Session{})).Delete(&T{}) is
// rejected with ErrMissingWhereClause, but the implicit transaction opened for it is never
// rolled back (the "started transaction" flag is stored on a throw-away statement of the derived
// session). The generator only draws the scope together with SkipDefaultTransaction.
func TestC09WitnessScopeSessionOpenTx(t *testing.T) {
	for _, fin := range []string{`Delete(&T{})`, `Update("mark",7)`} {
		c := Case{Model: "plain", AGU: "off", Calls: []string{`Scopes(Session{})`}, Fin: fin}
		msg, err := checkFree(c)
		if err != nil {
			t.Fatalf("harness: %v", err)
		}
		if msg != "" {
			t.Errorf("C09 violated: %s, case: %s", msg, c)
		}
	}
}
