// C09 — an Update or Delete without any condition never executes.
// See DESIGN.md §3 C09.
package c09

import (
	"errors"
	"fmt"
	"reflect"
	"strings"
	"testing"

	"gorm.io/gorm"
	"pgregory.net/rapid"

	"verif/internal/cond"
	"verif/internal/evid"
	"verif/internal/harness"
	"verif/internal/recdrv"
	"verif/internal/testdb"
)

func TestMain(m *testing.M) { harness.Main(m) }

const rule = "C09: (i) chains made only of condition-free calls - Where/Not/Or with \"\", map{}, &T{}, []int{} or an empty grouped builder; Order, Limit, Scopes(identity), Unscoped, Select, Omit, Table, Model(&T{}), Session{} - ending in Update, Updates(map/struct), UpdateColumn, UpdateColumns(map/struct), Delete(&T{}), Delete(&T{}, empty inline), Delete of a zero-key / empty slice, for a plain and a soft-delete model, with AllowGlobalUpdate off / on in the config / on in a session: enumerated exhaustively to the stated length and drawn at random up to length 7; off: the error is ErrMissingWhereClause, the recording driver saw no prepare/exec/query/commit, the table is unchanged; on: no error and every visible row is affected. (ii) chains mixing such calls with at least one effective condition drawn from the C02 units (also ones matching nothing, e.g. IN (NULL)), a keyed model value or keyed slice element: the error is never ErrMissingWhereClause (nor any other). non-trivial = at least two condition-free calls one of which is an empty condition form; distinct = model + AllowGlobalUpdate mode + chain + finisher"

// ---- models -----------------------------------------------------------------------------------------

type SItem struct {
	ID        int `gorm:"primaryKey"`
	Ca        int
	Cb        int
	Cs        string
	Cn        *int
	Ct        *string
	Mark      int
	DeletedAt gorm.DeletedAt
}

func (SItem) TableName() string { return "s_items" }

type modelKind struct {
	Name   string
	Spec   cond.TableSpec
	Zero   func() interface{}           // &T{}
	Keyed  func(id int) interface{}     // &T{ID: id}
	Slice  func(ids ...int) interface{} // &[]T{{ID: ..}, ...}
	Marked func() interface{}           // T{Mark: 7}
	Type   reflect.Type
}

var models = map[string]modelKind{
	"plain": {
		Name: "plain", Spec: cond.TableSpec{Name: "items"},
		Zero:  func() interface{} { return &cond.Item{} },
		Keyed: func(id int) interface{} { return &cond.Item{ID: id} },
		Slice: func(ids ...int) interface{} {
			s := make([]cond.Item, len(ids))
			for i, id := range ids {
				s[i].ID = id
			}
			return &s
		},
		Marked: func() interface{} { return cond.Item{Mark: 7} },
		Type:   reflect.TypeOf(cond.Item{}),
	},
	"soft": {
		Name: "soft", Spec: cond.TableSpec{Name: "s_items", Soft: true},
		Zero:  func() interface{} { return &SItem{} },
		Keyed: func(id int) interface{} { return &SItem{ID: id} },
		Slice: func(ids ...int) interface{} {
			s := make([]SItem, len(ids))
			for i, id := range ids {
				s[i].ID = id
			}
			return &s
		},
		Marked: func() interface{} { return SItem{Mark: 7} },
		Type:   reflect.TypeOf(SItem{}),
	},
}

var modelNames = []string{"plain", "soft"}

var aguModes = []string{"off", "config", "session"}

// fixed table contents: three live rows, for the soft model two marked ones
func baseRows(soft bool) []cond.InsertRow {
	one, s := 1, "a"
	rows := []cond.InsertRow{
		{Row: cond.Row{ID: 1, Ca: 1, Cb: 0, Cs: "a"}},
		{Row: cond.Row{ID: 2, Ca: 0, Cb: 2, Cs: "b", Cn: &one}},
		{Row: cond.Row{ID: 3, Ca: 3, Cb: 3, Cs: "", Ct: &s}},
	}
	if soft {
		rows = append(rows,
			cond.InsertRow{Row: cond.Row{ID: 101, Ca: 1, Cb: 0, Cs: "a"}, DeletedAt: "2030-01-02 03:04:05+00:00"},
			cond.InsertRow{Row: cond.Row{ID: 102, Ca: 0, Cb: 2, Cs: "b", Cn: &one}, DeletedAt: "2030-01-02 03:04:05+00:00"})
	}
	return rows
}

// ---- condition-free calls ----------------------------------------------------------------------------

type freeCall struct {
	Name      string
	EmptyCond bool // an empty condition form (vs. a non-condition clause)
	Apply     func(db *gorm.DB, base *gorm.DB, m modelKind) *gorm.DB
}

func emptyForms() []struct {
	name string
	arg  func(base *gorm.DB, m modelKind) interface{}
} {
	return []struct {
		name string
		arg  func(base *gorm.DB, m modelKind) interface{}
	}{
		{`""`, func(*gorm.DB, modelKind) interface{} { return "" }},
		{`map{}`, func(*gorm.DB, modelKind) interface{} { return map[string]interface{}{} }},
		{`&T{}`, func(_ *gorm.DB, m modelKind) interface{} { return m.Zero() }},
		{`[]int{}`, func(*gorm.DB, modelKind) interface{} { return []int{} }},
		{`db`, func(base *gorm.DB, _ modelKind) interface{} { return base.Where("").Or(map[string]interface{}{}) }},
	}
}

var alphabet = func() []freeCall {
	var a []freeCall
	for _, verb := range []string{"Where", "Not", "Or"} {
		for _, f := range emptyForms() {
			verb, f := verb, f
			a = append(a, freeCall{Name: verb + "(" + f.name + ")", EmptyCond: true, Apply: func(db, base *gorm.DB, m modelKind) *gorm.DB {
				arg := f.arg(base, m)
				switch verb {
				case "Where":
					return db.Where(arg)
				case "Not":
					return db.Not(arg)
				}
				return db.Or(arg)
			}})
		}
	}
	a = append(a,
		freeCall{Name: `Order("id")`, Apply: func(db, _ *gorm.DB, _ modelKind) *gorm.DB { return db.Order("id") }},
		freeCall{Name: `Limit(1)`, Apply: func(db, _ *gorm.DB, _ modelKind) *gorm.DB { return db.Limit(1) }},
		freeCall{Name: `Scopes(id)`, Apply: func(db, _ *gorm.DB, _ modelKind) *gorm.DB {
			return db.Scopes(func(d *gorm.DB) *gorm.DB { return d })
		}},
		freeCall{Name: `Unscoped()`, Apply: func(db, _ *gorm.DB, _ modelKind) *gorm.DB { return db.Unscoped() }},
		freeCall{Name: `Select("mark")`, Apply: func(db, _ *gorm.DB, _ modelKind) *gorm.DB { return db.Select("mark") }},
		freeCall{Name: `Omit("ca")`, Apply: func(db, _ *gorm.DB, _ modelKind) *gorm.DB { return db.Omit("ca") }},
		freeCall{Name: `Table(t)`, Apply: func(db, _ *gorm.DB, m modelKind) *gorm.DB { return db.Table(m.Spec.Name) }},
		freeCall{Name: `Model(&T{})`, Apply: func(db, _ *gorm.DB, m modelKind) *gorm.DB { return db.Model(m.Zero()) }},
		freeCall{Name: `Session{}`, Apply: func(db, _ *gorm.DB, _ modelKind) *gorm.DB { return db.Session(&gorm.Session{}) }},
	)
	return a
}()

var alphaIndex = func() map[string]int {
	m := map[string]int{}
	for i, a := range alphabet {
		m[a.Name] = i
	}
	return m
}()

// ---- finishers ---------------------------------------------------------------------------------------

type finisher struct {
	Name   string
	Delete bool
	Run    func(db *gorm.DB, m modelKind, key int) *gorm.DB // key: primary key of the model value (0 = none)
}

var finishers = []finisher{
	{Name: `Update("mark",7)`, Run: func(db *gorm.DB, m modelKind, k int) *gorm.DB { return db.Model(m.Keyed(k)).Update("mark", 7) }},
	{Name: `Updates(map)`, Run: func(db *gorm.DB, m modelKind, k int) *gorm.DB {
		return db.Model(m.Keyed(k)).Updates(map[string]interface{}{"mark": 7})
	}},
	{Name: `Updates(T{Mark:7})`, Run: func(db *gorm.DB, m modelKind, k int) *gorm.DB { return db.Model(m.Keyed(k)).Updates(m.Marked()) }},
	{Name: `UpdateColumn("mark",7)`, Run: func(db *gorm.DB, m modelKind, k int) *gorm.DB { return db.Model(m.Keyed(k)).UpdateColumn("mark", 7) }},
	{Name: `UpdateColumns(map)`, Run: func(db *gorm.DB, m modelKind, k int) *gorm.DB {
		return db.Model(m.Keyed(k)).UpdateColumns(map[string]interface{}{"mark": 7})
	}},
	{Name: `UpdateColumns(T{Mark:7})`, Run: func(db *gorm.DB, m modelKind, k int) *gorm.DB { return db.Model(m.Keyed(k)).UpdateColumns(m.Marked()) }},
	{Name: `Delete(&T{})`, Delete: true, Run: func(db *gorm.DB, m modelKind, k int) *gorm.DB { return db.Delete(m.Keyed(k)) }},
	{Name: `Delete(&T{},"")`, Delete: true, Run: func(db *gorm.DB, m modelKind, k int) *gorm.DB { return db.Delete(m.Keyed(k), "") }},
	{Name: `Delete(&T{},map{})`, Delete: true, Run: func(db *gorm.DB, m modelKind, k int) *gorm.DB {
		return db.Delete(m.Keyed(k), map[string]interface{}{})
	}},
	{Name: `Delete(&T{},[]int{})`, Delete: true, Run: func(db *gorm.DB, m modelKind, k int) *gorm.DB { return db.Delete(m.Keyed(k), []int{}) }},
	{Name: `Delete(&[]T{{},{}})`, Delete: true, Run: func(db *gorm.DB, m modelKind, k int) *gorm.DB {
		if k != 0 {
			return db.Delete(m.Slice(0, k))
		}
		return db.Delete(m.Slice(0, 0))
	}},
	{Name: `Delete(&[]T{})`, Delete: true, Run: func(db *gorm.DB, m modelKind, k int) *gorm.DB {
		if k != 0 {
			return db.Delete(m.Slice(k))
		}
		return db.Delete(m.Slice())
	}},
}

var finIndex = func() map[string]int {
	m := map[string]int{}
	for i, f := range finishers {
		m[f.Name] = i
	}
	return m
}()

// ---- part (i): condition-free chains -------------------------------------------------------------------

// Case is the replayable form of a condition-free chain.
type Case struct {
	Model string   `json:"model"`
	AGU   string   `json:"allow_global_update"`
	Calls []string `json:"calls"`
	Fin   string   `json:"finisher"`
}

func (c Case) String() string {
	return fmt.Sprintf("model=%s AllowGlobalUpdate=%s db.%s", c.Model, c.AGU, strings.Join(append(append([]string{}, c.Calls...), c.Fin), "."))
}

func open(m modelKind, agu string) (*testdb.DB, *gorm.DB, error) {
	cfg := gorm.Config{AllowGlobalUpdate: agu == "config"}
	d := testdb.Open(testdb.Options{Config: cfg})
	if err := m.Spec.Create(d.SQL); err != nil {
		d.Close()
		return nil, nil, err
	}
	if err := m.Spec.Insert(d.SQL, baseRows(m.Spec.Soft)); err != nil {
		d.Close()
		return nil, nil, err
	}
	db := d.DB
	if agu == "session" {
		db = db.Session(&gorm.Session{AllowGlobalUpdate: true})
	}
	d.Rec.Reset()
	return d, db, nil
}

func dumpString(rows []cond.Stored) string {
	parts := make([]string, len(rows))
	for i, r := range rows {
		parts[i] = r.String()
	}
	return strings.Join(parts, " | ")
}

// forbiddenEvents lists what the driver must not see for a rejected statement.
func forbiddenEvents(rec *recdrv.Recorder) string {
	var bad []string
	for _, e := range rec.Events() {
		switch e.Kind {
		case recdrv.Exec, recdrv.Query, recdrv.Prepare, recdrv.Commit:
			bad = append(bad, e.String())
		}
	}
	return strings.Join(bad, "; ")
}

// checkFree runs a condition-free chain and returns a violation text.
func checkFree(c Case) (string, error) {
	m := models[c.Model]
	d, db, err := open(m, c.AGU)
	if err != nil {
		return "", err
	}
	defer d.Close()
	before, err := m.Spec.Dump(d.SQL)
	if err != nil {
		return "", err
	}
	d.Rec.Reset()
	unscoped := false
	tx := db
	for _, name := range c.Calls {
		i, ok := alphaIndex[name]
		if !ok {
			return "", fmt.Errorf("unknown call %q", name)
		}
		tx = alphabet[i].Apply(tx, d.DB, m)
		if name == "Unscoped()" {
			unscoped = true
		}
	}
	fi, ok := finIndex[c.Fin]
	if !ok {
		return "", fmt.Errorf("unknown finisher %q", c.Fin)
	}
	fin := finishers[fi]
	res := fin.Run(tx, m, 0)
	events := forbiddenEvents(d.Rec)
	open := d.Rec.OpenTx()
	after, err := m.Spec.Dump(d.SQL)
	if err != nil {
		return "", err
	}
	if c.AGU == "off" {
		if !errors.Is(res.Error, gorm.ErrMissingWhereClause) {
			return fmt.Sprintf("error %v, want ErrMissingWhereClause; driver saw: %s; table after: %s", res.Error, events, dumpString(after)), nil
		}
		if events != "" {
			return "rejected statement reached the driver: " + events, nil
		}
		if open != 0 {
			return fmt.Sprintf("%d transaction(s) left open", open), nil
		}
		if dumpString(before) != dumpString(after) {
			return fmt.Sprintf("table changed: %s, was %s", dumpString(after), dumpString(before)), nil
		}
		return "", nil
	}
	// AllowGlobalUpdate: every visible row is affected
	if res.Error != nil {
		return fmt.Sprintf("AllowGlobalUpdate is on but the statement failed: %v", res.Error), nil
	}
	visible := func(s cond.Stored) bool { return !m.Spec.Soft || unscoped || s.DeletedAt == "NULL" }
	idx := map[int]cond.Stored{}
	for _, a := range after {
		idx[a.ID] = a
	}
	var affected int64
	for _, b := range before {
		a, exists := idx[b.ID]
		want := b
		switch {
		case !visible(b):
		case !fin.Delete:
			want.Mark = 7
			affected++
		case m.Spec.Soft && !unscoped:
			affected++
			if !exists || a.DeletedAt == "NULL" {
				return fmt.Sprintf("global soft delete left row id %d live: %s", b.ID, dumpString(after)), nil
			}
			want.DeletedAt = a.DeletedAt
		default:
			affected++
			if exists {
				return fmt.Sprintf("global delete left row id %d: %s", b.ID, dumpString(after)), nil
			}
			continue
		}
		if !exists {
			return fmt.Sprintf("row id %d disappeared: %s", b.ID, dumpString(after)), nil
		}
		if a.String() != want.String() {
			return fmt.Sprintf("row id %d is %s, want %s", b.ID, a, want), nil
		}
	}
	if res.RowsAffected != affected {
		return fmt.Sprintf("RowsAffected %d, want %d (every visible row)", res.RowsAffected, affected), nil
	}
	return "", nil
}

func freeNontrivial(c Case) bool {
	empty := false
	for _, n := range c.Calls {
		if alphabet[alphaIndex[n]].EmptyCond {
			empty = true
		}
	}
	return len(c.Calls) >= 2 && empty
}

func freeClasses(c Case) []string {
	cl := []string{"part:condition-free", "model:" + c.Model, "agu:" + c.AGU, "fin:" + c.Fin, fmt.Sprintf("len:%d", len(c.Calls))}
	seen := map[string]bool{}
	for _, n := range c.Calls {
		if !seen[n] {
			seen[n] = true
			cl = append(cl, "call:"+n)
		}
	}
	return cl
}

func reportFree(c Case) {
	evid.Journal(c.String())
	evid.Case(c.String(), freeNontrivial(c), nil, freeClasses(c)...)
}

// TestC09Exhaustive enumerates every condition-free chain up to VERIF_C09_LEN
// x finisher x model x AllowGlobalUpdate mode (this shard's share).
func TestC09Exhaustive(t *testing.T) {
	evid.Rule(rule)
	if harness.ReplayPath() != "" {
		var c Case
		if err := harness.LoadReplay(&c); err != nil {
			t.Fatalf("cannot load replay: %v", err)
		}
		msg, err := checkFree(c)
		if err != nil {
			t.Fatalf("harness: %v", err)
		}
		if msg != "" {
			t.Fatalf("C09 violated: %s, case: %s", msg, c)
		}
		return
	}
	maxLen := harness.EnvInt("VERIF_C09_LEN", 2)
	shard, shards := harness.Shard(), harness.Shards()
	n, failed := 0, 0
	var rec func(prefix []string)
	rec = func(prefix []string) {
		for _, mn := range modelNames {
			for _, agu := range aguModes {
				for _, f := range finishers {
					n++
					if n%shards != shard {
						continue
					}
					c := Case{Model: mn, AGU: agu, Calls: append([]string{}, prefix...), Fin: f.Name}
					reportFree(c)
					msg, err := checkFree(c)
					if err != nil {
						t.Fatalf("harness: %v, case: %s", err, c)
					}
					if msg != "" {
						failed++
						if failed <= 5 {
							harness.SaveCase("TestC09Exhaustive", c)
							t.Errorf("C09 violated: %s, case: %s", msg, c)
						}
					}
				}
			}
		}
		if len(prefix) == maxLen {
			return
		}
		for _, a := range alphabet {
			rec(append(prefix, a.Name))
		}
	}
	rec(nil)
	if failed > 5 {
		t.Errorf("C09 violated by %d enumerated chains in this shard (first 5 shown)", failed)
	}
	evid.Exhaustive(true)
	evid.Extra("exhaustive_length", fmt.Sprint(maxLen))
	t.Logf("enumerated %d cases up to chain length %d (all shards)", n, maxLen)
}

// TestC09Random draws longer condition-free chains.
func TestC09Random(t *testing.T) {
	evid.Rule(rule)
	rapid.Check(t, func(rt *rapid.T) {
		x := cond.G(rt)
		c := Case{Model: modelNames[x.N(2)], AGU: aguModes[x.N(3)], Fin: finishers[x.N(len(finishers))].Name}
		for k := 3 + x.N(5); k > 0; k-- {
			c.Calls = append(c.Calls, alphabet[x.N(len(alphabet))].Name)
		}
		reportFree(c)
		msg, err := checkFree(c)
		if err != nil {
			rt.Fatalf("harness: %v, case: %s", err, c)
		}
		if msg != "" {
			rt.Fatalf("C09 violated: %s, case: %s", msg, c)
		}
	})
}

// ---- part (ii): chains with an effective condition ------------------------------------------------------

// step is either a condition call or a condition-free call.
type step struct {
	Call *cond.Call
	Free string
}

type effCase struct {
	Model string
	Steps []step
	Fin   string
	Key   int // primary key of the model value / keyed slice element (0 = none)
}

func (c effCase) String() string {
	parts := make([]string, len(c.Steps))
	for i, s := range c.Steps {
		if s.Call != nil {
			parts[i] = s.Call.Verb.String() + "(" + s.Call.U.String() + ")"
		} else {
			parts[i] = s.Free
		}
	}
	return fmt.Sprintf("model=%s AllowGlobalUpdate=off db.%s key=%d", c.Model, strings.Join(append(parts, c.Fin), "."), c.Key)
}

func (c effCase) calls() []cond.Call {
	var out []cond.Call
	for _, s := range c.Steps {
		if s.Call != nil {
			out = append(out, *s.Call)
		}
	}
	return out
}

func checkEffective(c effCase) (string, error) {
	m := models[c.Model]
	d, db, err := open(m, "off")
	if err != nil {
		return "", err
	}
	defer d.Close()
	env := cond.Env{Base: d.DB, MakeStruct: cond.StructMaker(m.Type)}
	tx := db
	for _, s := range c.Steps {
		if s.Call != nil {
			tx = cond.ApplyCalls(tx, env, []cond.Call{*s.Call})
		} else {
			tx = alphabet[alphaIndex[s.Free]].Apply(tx, d.DB, m)
		}
	}
	res := finishers[finIndex[c.Fin]].Run(tx, m, c.Key)
	if errors.Is(res.Error, gorm.ErrMissingWhereClause) {
		return "a chain with an effective condition was rejected with ErrMissingWhereClause", nil
	}
	if res.Error != nil {
		return fmt.Sprintf("unexpected error %v", res.Error), nil
	}
	executed := false
	for _, e := range d.Rec.Events() {
		if e.Kind == recdrv.Exec || e.Kind == recdrv.Query {
			executed = true
		}
	}
	if !executed {
		return "no error, but the driver saw no statement", nil
	}
	if d.Rec.OpenTx() != 0 {
		return "transaction left open", nil
	}
	return "", nil
}

func TestC09Effective(t *testing.T) {
	evid.Rule(rule)
	rapid.Check(t, func(rt *rapid.T) {
		x := cond.G(rt)
		c := effCase{Model: modelNames[x.N(2)], Fin: finishers[x.N(len(finishers))].Name}
		cfg := cond.Cfg{MaxID: 3, LeadingOr: true, EmptyIn: true, MaxDepth: 2}
		var calls []cond.Call
		// the source of the effective condition: a unit, the key of the model value, or both
		src := x.N(10)
		if src < 8 {
			for len(calls) == 0 || cond.ChainPred(calls) == nil {
				calls = cond.GenCalls(rt, cfg, 1+x.N(3))
			}
		} else {
			calls = cond.GenCalls(rt, cfg, x.N(2))
		}
		if src >= 6 {
			c.Key = 1 + x.N(4)
		}
		for i := range calls {
			for x.Pct(35) {
				c.Steps = append(c.Steps, step{Free: alphabet[x.N(len(alphabet))].Name})
			}
			c.Steps = append(c.Steps, step{Call: &calls[i]})
		}
		for x.Pct(35) {
			c.Steps = append(c.Steps, step{Free: alphabet[x.N(len(alphabet))].Name})
		}
		desc := c.String()
		evid.Journal(desc)
		frees, empty := 0, false
		for _, s := range c.Steps {
			if s.Free != "" {
				frees++
				empty = empty || alphabet[alphaIndex[s.Free]].EmptyCond
			}
		}
		cl := append(cond.Classes(calls, nil), "part:effective-condition", "model:"+c.Model, "fin:"+c.Fin)
		if c.Key != 0 {
			cl = append(cl, "effective:model-key")
		}
		if cond.ChainPred(calls) != nil {
			cl = append(cl, "effective:unit")
		}
		evid.Case(desc, frees >= 2 && empty, nil, cl...)
		msg, err := checkEffective(c)
		if err != nil {
			rt.Fatalf("harness: %v, case: %s", err, desc)
		}
		if msg != "" {
			rt.Fatalf("C09 violated: %s, case: %s", msg, desc)
		}
	})
}
