// C02 — chained conditions select exactly the rows of their logical
// combination. See DESIGN.md §3 C02.
package c02

import (
	"errors"
	"fmt"
	"reflect"
	"sort"
	"strconv"
	"strings"
	"testing"

	"gorm.io/gorm"
	"pgregory.net/rapid"

	"verif/internal/cond"
	"verif/internal/evid"
	"verif/internal/harness"
	"verif/internal/testdb"
)

func TestMain(m *testing.M) { harness.Main(m) }

const rule = "C02: table items(id, ca, cb int; cs text; cn int NULL; ct text NULL; cor int; band text - two column names containing the letters of OR / AND) with 0-12 rows over tiny domains (text values include keyword-bearing data such as or / sand / b and c, compared values also x OR y); a chain of 1-5 Where/Not/Or calls (first effective call not Or) over units = condition tree (atoms = <> < > IN LIKE IS [NOT] NULL, AND/OR/NOT depth <= 3) x rendering (raw ? string with random keyword case / whitespace incl. tab and new line / redundant and adjacent parentheses, literal string, @name template, map, struct or pointer incl. zero fields, clause.Expression tree, grouped db.Where(db.Where(A).Or(B)), primary-key slice, column name + value Where(col, v) with scalar / nil / slice / driver.Valuer slice values; map and clause.Eq/Neq values may be slice types implementing driver.Valuer = one value), optional inline finisher condition and primary key of the model value (also a composite key (id, k2) with only some parts set); finishers Find / Find into keyed struct / Count / Update(marker) / Delete, each on a fresh table; the ids read / counted / updated / deleted must equal the ids on which the three-valued reference predicate is TRUE. non-trivial = at least two effective units, one of them with an inner AND/OR (or several members) or reached through Not/Or, and the selected set is neither empty nor the whole table; distinct = rows + chain + finisher"

var spec = cond.TableSpec{Name: "items", Extra: []string{"k2"}}

// Item2 reads the same table through a composite primary key (id, k2): a model
// value whose key is only partly set adds a condition for the set parts only.
type Item2 struct {
	ID   int `gorm:"primaryKey"`
	K2   int `gorm:"primaryKey"`
	Ca   int
	Cb   int
	Cs   string
	Cn   *int
	Ct   *string
	Cor  int
	Band string
	Mark int
}

func (Item2) TableName() string { return "items" }

// Item3 declares the second key column BEFORE id: a bare key value / key list
// condition (clause.PrimaryKey) still means the prioritized key column id.
type Item3 struct {
	K2   int `gorm:"primaryKey"`
	ID   int `gorm:"primaryKey"`
	Ca   int
	Cb   int
	Cs   string
	Cn   *int
	Ct   *string
	Cor  int
	Band string
	Mark int
}

func (Item3) TableName() string { return "items" }

// fin is the finisher of a chain.
type fin struct {
	Kind       string // find | find-pk | count | update | delete
	PK         int    // primary key of the model value (0 = none)
	ModelFirst bool   // Model() before (true) or after the condition calls
	ViaModel   bool   // delete: key carried by Model(&Item{ID}) instead of the deleted value
	Composite  bool   // find-pk / update: the model value is an Item2 (composite key id, k2)
	K2         int    // second key part of the Item2 value (0 = not set)
	AltKey     bool   // the model value is an Item3 (composite key declared k2, id) - key-less uses only
	PK2        int    // delete via Model: key of the deleted VALUE next to the key of the Model value (0 = none)
	Inline     *cond.Unit
	Variant    string     // find: destination form; first: first|take|last; update: the update method
	Scope      *cond.Unit // db.Scopes(func(d) d.Where(unit)) at the head of the chain: applied last, AND-ed
	Cfg        string     // "" | PrepareStmt | QueryFields | SkipDefaultTransaction | NoReturning | tx
}

func (f fin) String() string {
	in := ""
	if f.Inline != nil {
		in = ", " + f.Inline.String()
	}
	pk := ""
	if f.PK != 0 {
		pk = fmt.Sprintf("ID:%d", f.PK)
	}
	if f.Composite {
		pk = fmt.Sprintf("<Item2 key (id,k2)> ID:%d K2:%d", f.PK, f.K2)
	}
	switch f.Kind {
	case "first":
		return f.Variant + "(&Item{}" + in + ")"
	case "pluck":
		return "Model(&Item{}).Pluck(id)"
	case "count-find":
		return "Model(&Item{}) q.Count(); q.Find(&[]Item)"
	case "find":
		if f.Variant != "" {
			return "Find(" + f.Variant + in + ")"
		}
		return "Find(&[]Item" + in + ")"
	case "find-pk":
		return "Find(&Item{" + pk + "}" + in + ")"
	case "count":
		return "Model(&Item{}).Count()"
	case "update":
		pos := "after"
		if f.ModelFirst {
			pos = "before"
		}
		m := f.Variant
		if m == "" {
			m = "Update(mark,7)"
		}
		return "Model(&Item{" + pk + "})[" + pos + "]." + m
	}
	if f.ViaModel {
		v := ""
		if f.PK2 != 0 {
			v = fmt.Sprintf("ID:%d", f.PK2)
		}
		return "Model(&Item{" + pk + "}).Delete(&Item{" + v + "}" + in + ")"
	}
	return "Delete(&Item{" + pk + "}" + in + ")"
}

type tcase struct {
	Rows  []cond.Row
	Calls []cond.Call
	Fin   fin
}

func (c tcase) String() string {
	k2 := ""
	if c.Fin.Composite {
		k2 = " k2="
		for _, r := range c.Rows {
			k2 += fmt.Sprint(r.FK)
		}
	}
	head := "db"
	if c.Fin.AltKey {
		head = "db<model Item3: key (k2, id)>"
	}
	if c.Fin.Cfg != "" {
		head += "[" + c.Fin.Cfg + "]"
	}
	if c.Fin.Scope != nil {
		head += ".Scopes(Where(" + c.Fin.Scope.String() + "))"
	}
	return "rows=" + cond.RowsString(c.Rows) + k2 + " chain=" + head + cond.CallsString(c.Calls) + "." + c.Fin.String()
}

func (c tcase) pred() *cond.Node {
	var tail []*cond.Node
	if c.Fin.Inline != nil {
		tail = append(tail, c.Fin.Inline.Pred())
	}
	if c.Fin.PK != 0 {
		tail = append(tail, cond.Atom("id", cond.OpEq, cond.IntV(c.Fin.PK)))
	}
	if c.Fin.PK2 != 0 {
		tail = append(tail, cond.Atom("id", cond.OpEq, cond.IntV(c.Fin.PK2)))
	}
	if c.Fin.Scope != nil {
		tail = append(tail, c.Fin.Scope.Pred())
	}
	if c.Fin.K2 != 0 {
		tail = append(tail, cond.Atom("fk", cond.OpEq, cond.IntV(c.Fin.K2)))
	}
	return cond.ChainPred(c.Calls, tail...)
}

func genCfg() cond.Cfg {
	return cond.Cfg{
		MaxID:      12,
		SkipClass:  func(cl string) bool { return harness.OpenClass("C02", cl) },
		OnExcluded: func(cl string) { evid.Excluded(cl) },
	}
}

func genCase(rt *rapid.T) tcase {
	cfg := genCfg()
	var c tcase
	c.Rows = cond.GenRows(rt, 12)
	x := cond.G(rt)
	n := []int{1, 1, 2, 2, 2, 3, 3, 3, 4, 5}[x.N(10)]
	c.Calls = cond.GenCalls(rt, cfg, n)
	kind := []string{"find", "find", "find", "find-pk", "count", "count", "update", "update", "delete", "delete", "first", "pluck", "count-find"}[x.N(13)]
	c.Fin.Kind = kind
	pk := func() int { return 1 + x.N(13) }
	for i := range c.Rows {
		c.Rows[i].FK = x.N(3) // column k2
	}
	composite := func() {
		if x.Pct(35) {
			c.Fin.Composite = true
			switch x.N(3) {
			case 0: // only the first part set
			case 1: // only the second part set
				c.Fin.PK, c.Fin.K2 = 0, 1+x.N(2)
			default:
				c.Fin.K2 = 1 + x.N(2)
			}
		}
	}
	if x.Pct(30) {
		c.Fin.Cfg = []string{"PrepareStmt", "QueryFields", "SkipDefaultTransaction", "NoReturning", "tx"}[x.N(5)]
	}
	if x.Pct(12) {
		scfg := cfg
		scfg.NoGroup = true
		c.Fin.Scope = cond.GenUnit(rt, scfg, 0)
	}
	switch kind {
	case "first":
		c.Fin.Variant = []string{"First", "Take", "Last"}[x.N(3)]
		if x.Pct(30) {
			c.Fin.Inline = cond.GenInline(rt, cfg)
		}
	case "find":
		c.Fin.Variant = []string{"", "", "&[]*Item", "&[]map"}[x.N(4)]
		if x.Pct(35) {
			c.Fin.Inline = cond.GenInline(rt, cfg)
		}
	case "find-pk":
		c.Fin.PK = pk()
		composite()
		if x.Pct(25) {
			c.Fin.Inline = cond.GenInline(rt, cfg)
		}
	case "update":
		c.Fin.ModelFirst = x.Pct(50)
		c.Fin.Variant = []string{"", "", "Updates(map)", "Updates(Item{Mark:7})", "UpdateColumn(mark,7)", "UpdateColumns(map)"}[x.N(6)]
		if x.Pct(20) {
			c.Fin.PK = pk()
			composite()
		}
	case "delete":
		if x.Pct(30) {
			c.Fin.PK = pk()
			c.Fin.ViaModel = x.Pct(60)
			if c.Fin.ViaModel {
				// keys on the Model value, on the deleted value, or on both (AND-ed)
				switch x.N(3) {
				case 0:
					c.Fin.PK2 = pk()
				case 1:
					c.Fin.PK, c.Fin.PK2 = 0, pk()
				}
			}
		}
		if x.Pct(30) {
			c.Fin.Inline = cond.GenInline(rt, cfg)
		}
	}
	// key-less uses of a model whose composite key lists id second
	keyless := c.Fin.PK == 0 && c.Fin.PK2 == 0 && c.Fin.K2 == 0 && !c.Fin.Composite
	switch {
	case !keyless:
	case kind == "count", kind == "pluck", kind == "update", kind == "delete", kind == "find" && c.Fin.Variant == "&[]map":
		c.Fin.AltKey = x.Pct(30)
	}
	return c
}

// modelZero is the key-less model value of the case.
func (c tcase) modelZero() interface{} {
	if c.Fin.AltKey {
		return &Item3{}
	}
	return &cond.Item{}
}

func insertRows(rows []cond.Row) []cond.InsertRow {
	out := cond.Plain(rows)
	for i := range out {
		out[i].Extra = []int{rows[i].FK}
	}
	return out
}

// outcome of running a chain.
type outcome struct {
	ids      []int // ids read / updated / deleted (nil for count)
	count    int64
	affected int64
	err      error
	notFound bool
	after    []cond.Stored
}

func run(c tcase) (outcome, error) {
	d := testdb.Open(testdb.Options{NoReturning: c.Fin.Cfg == "NoReturning", Config: gorm.Config{
		PrepareStmt: c.Fin.Cfg == "PrepareStmt", QueryFields: c.Fin.Cfg == "QueryFields", SkipDefaultTransaction: c.Fin.Cfg == "SkipDefaultTransaction"}})
	defer d.Close()
	if err := spec.Create(d.SQL); err != nil {
		return outcome{}, fmt.Errorf("create: %w", err)
	}
	if err := spec.Insert(d.SQL, insertRows(c.Rows)); err != nil {
		return outcome{}, fmt.Errorf("insert: %w", err)
	}
	root := d.DB
	if c.Fin.Cfg == "tx" {
		root = d.DB.Begin()
		if root.Error != nil {
			return outcome{}, fmt.Errorf("begin: %w", root.Error)
		}
	}
	env := cond.Env{Base: root, MakeStruct: cond.StructMaker(reflect.TypeOf(cond.Item{}))}
	start := root
	if c.Fin.Scope != nil {
		q, a := c.Fin.Scope.QueryArgs(env)
		start = root.Scopes(func(d *gorm.DB) *gorm.DB { return d.Where(q, a...) })
	}
	var inline []interface{}
	if c.Fin.Inline != nil {
		inline = c.Fin.Inline.Inline(env)
	}
	var o outcome
	switch c.Fin.Kind {
	case "find":
		o.ids = []int{}
		switch c.Fin.Variant {
		case "&[]*Item":
			var items []*cond.Item
			tx := cond.ApplyCalls(start, env, c.Calls).Find(&items, inline...)
			o.err, o.affected = tx.Error, tx.RowsAffected
			for _, it := range items {
				o.ids = append(o.ids, it.ID)
			}
		case "&[]map":
			var items []map[string]interface{}
			tx := cond.ApplyCalls(start.Model(c.modelZero()), env, c.Calls).Find(&items, inline...)
			o.err, o.affected = tx.Error, tx.RowsAffected
			for _, it := range items {
				id, err := strconv.Atoi(fmt.Sprint(it["id"]))
				if err != nil {
					return o, fmt.Errorf("map destination: id %v (%T)", it["id"], it["id"])
				}
				o.ids = append(o.ids, id)
			}
		default:
			var items []cond.Item
			tx := cond.ApplyCalls(start, env, c.Calls).Find(&items, inline...)
			o.err, o.affected = tx.Error, tx.RowsAffected
			for _, it := range items {
				o.ids = append(o.ids, it.ID)
			}
		}
	case "first":
		var it cond.Item
		tx := cond.ApplyCalls(start, env, c.Calls)
		switch c.Fin.Variant {
		case "First":
			tx = tx.First(&it, inline...)
		case "Take":
			tx = tx.Take(&it, inline...)
		default:
			tx = tx.Last(&it, inline...)
		}
		o.ids = []int{}
		if errors.Is(tx.Error, gorm.ErrRecordNotFound) {
			o.notFound = true
		} else {
			o.err = tx.Error
			o.ids = append(o.ids, it.ID)
		}
	case "pluck":
		o.ids = []int{}
		tx := cond.ApplyCalls(start.Model(c.modelZero()), env, c.Calls).Pluck("id", &o.ids)
		o.err, o.affected = tx.Error, tx.RowsAffected
	case "count-find":
		// one chain value, counted and then read
		q := cond.ApplyCalls(start.Model(&cond.Item{}), env, c.Calls)
		o.err = q.Count(&o.count).Error
		var items []cond.Item
		if o.err == nil {
			tx := q.Find(&items)
			o.err, o.affected = tx.Error, tx.RowsAffected
		}
		o.ids = []int{}
		for _, it := range items {
			o.ids = append(o.ids, it.ID)
		}
	case "find-pk":
		o.ids = []int{}
		if c.Fin.Composite {
			it := Item2{ID: c.Fin.PK, K2: c.Fin.K2}
			tx := cond.ApplyCalls(start, env, c.Calls).Find(&it, inline...)
			o.err, o.affected = tx.Error, tx.RowsAffected
			if tx.RowsAffected > 0 {
				o.ids = append(o.ids, it.ID)
			}
			break
		}
		it := cond.Item{ID: c.Fin.PK}
		tx := cond.ApplyCalls(start, env, c.Calls).Find(&it, inline...)
		o.err, o.affected = tx.Error, tx.RowsAffected
		if tx.RowsAffected > 0 {
			o.ids = append(o.ids, it.ID)
		}
	case "count":
		tx := cond.ApplyCalls(start.Model(c.modelZero()), env, c.Calls).Count(&o.count)
		o.err = tx.Error
	case "update":
		var tx *gorm.DB
		var model interface{} = &cond.Item{ID: c.Fin.PK}
		if c.Fin.AltKey {
			model = &Item3{}
		}
		if c.Fin.Composite {
			model = &Item2{ID: c.Fin.PK, K2: c.Fin.K2}
		}
		if c.Fin.ModelFirst {
			tx = cond.ApplyCalls(start.Model(model), env, c.Calls)
		} else {
			tx = cond.ApplyCalls(start, env, c.Calls).Model(model)
		}
		switch c.Fin.Variant {
		case "Updates(map)":
			tx = tx.Updates(map[string]interface{}{"mark": 7})
		case "Updates(Item{Mark:7})":
			tx = tx.Updates(cond.Item{Mark: 7})
		case "UpdateColumn(mark,7)":
			tx = tx.UpdateColumn("mark", 7)
		case "UpdateColumns(map)":
			tx = tx.UpdateColumns(map[string]interface{}{"mark": 7})
		default:
			tx = tx.Update("mark", 7)
		}
		o.err, o.affected = tx.Error, tx.RowsAffected
	case "delete":
		tx := cond.ApplyCalls(start, env, c.Calls)
		if c.Fin.AltKey {
			tx = tx.Delete(&Item3{}, inline...)
			o.err, o.affected = tx.Error, tx.RowsAffected
			break
		}
		if c.Fin.ViaModel {
			tx = tx.Model(&cond.Item{ID: c.Fin.PK}).Delete(&cond.Item{ID: c.Fin.PK2}, inline...)
		} else {
			tx = tx.Delete(&cond.Item{ID: c.Fin.PK}, inline...)
		}
		o.err, o.affected = tx.Error, tx.RowsAffected
	}
	if c.Fin.Cfg == "tx" {
		if err := root.Commit().Error; err != nil && o.err == nil {
			return o, fmt.Errorf("commit: %w", err)
		}
	}
	after, err := spec.Dump(d.SQL)
	if err != nil {
		return o, fmt.Errorf("dump: %w", err)
	}
	o.after = after
	if o.ids != nil {
		sort.Ints(o.ids)
	}
	return o, nil
}

// check returns "" or the description of the violation.
func check(c tcase) (string, error) {
	o, herr := run(c)
	if herr != nil {
		return "", herr
	}
	pred := c.pred()
	want := cond.Select(c.Rows, pred)
	write := c.Fin.Kind == "update" || c.Fin.Kind == "delete"
	if pred == nil && write {
		// no effective condition at all: the guard of C09 applies
		if !errors.Is(o.err, gorm.ErrMissingWhereClause) {
			return fmt.Sprintf("chain without any effective condition: error %v, want ErrMissingWhereClause", o.err), nil
		}
		if msg := unchanged(c.Rows, o.after, nil, false); msg != "" {
			return "rejected chain changed the table: " + msg, nil
		}
		return "", nil
	}
	if o.err != nil {
		return fmt.Sprintf("unexpected error %v (reference predicate %s selects ids %v)", o.err, pred, want), nil
	}
	switch c.Fin.Kind {
	case "find-pk":
		// a struct destination receives one row only: it must be one of the selected ones
		if len(want) == 0 && len(o.ids) != 0 || len(want) != 0 && len(o.ids) != 1 {
			return fmt.Sprintf("read ids %v into the keyed struct, want one of %v (reference predicate %s)", o.ids, want, pred), nil
		}
		for _, id := range o.ids {
			if i := sort.SearchInts(want, id); i == len(want) || want[i] != id {
				return fmt.Sprintf("read id %d into the keyed struct, want one of %v (reference predicate %s)", id, want, pred), nil
			}
		}
		return unchanged(c.Rows, o.after, nil, false), nil
	case "first":
		switch {
		case len(want) == 0 && !o.notFound:
			return fmt.Sprintf("%s returned id %v, want ErrRecordNotFound (reference predicate %s)", c.Fin.Variant, o.ids, pred), nil
		case len(want) == 0:
			return unchanged(c.Rows, o.after, nil, false), nil
		case o.notFound:
			return fmt.Sprintf("%s returned ErrRecordNotFound, want one of %v (reference predicate %s)", c.Fin.Variant, want, pred), nil
		}
		ok := false
		switch c.Fin.Variant {
		case "First":
			ok = o.ids[0] == want[0]
		case "Last":
			ok = o.ids[0] == want[len(want)-1]
		default:
			for _, id := range want {
				ok = ok || id == o.ids[0]
			}
		}
		if !ok {
			return fmt.Sprintf("%s returned id %d, candidates %v (reference predicate %s)", c.Fin.Variant, o.ids[0], want, pred), nil
		}
		return unchanged(c.Rows, o.after, nil, false), nil
	case "count-find":
		if o.count != int64(len(want)) {
			return fmt.Sprintf("counted %d, want %d = ids %v (reference predicate %s)", o.count, len(want), want, pred), nil
		}
		if !cond.SameIDs(o.ids, want) {
			return fmt.Sprintf("Find after Count on the same chain value read ids %v, want %v (reference predicate %s)", o.ids, want, pred), nil
		}
		return unchanged(c.Rows, o.after, nil, false), nil
	case "find", "pluck":
		if !cond.SameIDs(o.ids, want) {
			return fmt.Sprintf("read ids %v, want %v (reference predicate %s)", o.ids, want, pred), nil
		}
		if o.affected != int64(len(want)) {
			return fmt.Sprintf("RowsAffected %d, want %d", o.affected, len(want)), nil
		}
		return unchanged(c.Rows, o.after, nil, false), nil
	case "count":
		if o.count != int64(len(want)) {
			return fmt.Sprintf("counted %d, want %d = ids %v (reference predicate %s)", o.count, len(want), want, pred), nil
		}
		return unchanged(c.Rows, o.after, nil, false), nil
	case "update":
		var got []int
		for _, s := range o.after {
			if s.Mark == 7 {
				got = append(got, s.ID)
			}
		}
		if got == nil {
			got = []int{}
		}
		if !cond.SameIDs(got, want) {
			return fmt.Sprintf("updated ids %v, want %v (reference predicate %s)", got, want, pred), nil
		}
		if o.affected != int64(len(want)) {
			return fmt.Sprintf("RowsAffected %d, want %d", o.affected, len(want)), nil
		}
		return unchanged(c.Rows, o.after, nil, true), nil
	case "delete":
		gone := map[int]bool{}
		for _, id := range want {
			gone[id] = true
		}
		left := map[int]bool{}
		for _, s := range o.after {
			left[s.ID] = true
		}
		var got []int
		for _, r := range c.Rows {
			if !left[r.ID] {
				got = append(got, r.ID)
			}
		}
		if got == nil {
			got = []int{}
		}
		sort.Ints(got)
		if !cond.SameIDs(got, want) {
			return fmt.Sprintf("deleted ids %v, want %v (reference predicate %s)", got, want, pred), nil
		}
		if o.affected != int64(len(want)) {
			return fmt.Sprintf("RowsAffected %d, want %d", o.affected, len(want)), nil
		}
		return unchanged(c.Rows, o.after, gone, false), nil
	}
	return "", fmt.Errorf("bad finisher %q", c.Fin.Kind)
}

// unchanged compares the stored rows with the original ones (ignoring rows in
// gone and, if markFree, the marker column).
func unchanged(rows []cond.Row, after []cond.Stored, gone map[int]bool, markFree bool) string {
	idx := map[int]cond.Stored{}
	for _, s := range after {
		idx[s.ID] = s
	}
	n := 0
	for _, r := range rows {
		if gone[r.ID] {
			continue
		}
		n++
		s, ok := idx[r.ID]
		if !ok {
			return fmt.Sprintf("row id %d disappeared", r.ID)
		}
		if s.Row.String() != r.String() {
			return fmt.Sprintf("row id %d changed: %s, was %s", r.ID, s.Row, r)
		}
		if !markFree && s.Mark != 0 {
			return fmt.Sprintf("row id %d: marker column changed to %d", r.ID, s.Mark)
		}
	}
	if n != len(after) {
		return fmt.Sprintf("table has %d rows, want %d", len(after), n)
	}
	return ""
}

// nontrivial implements the NT rule.
func nontrivial(c tcase, selected int) bool {
	units, hard := 0, false
	count := func(verb cond.Verb, u *cond.Unit, depth int) {
		if u.Form == cond.FGroup || u.Empty() {
			return
		}
		units++
		if verb != cond.VWhere || u.Tree.HasConnective() || len(u.Members) >= 2 {
			hard = true
		}
	}
	for _, cl := range c.Calls {
		cl.U.Walk(cl.Verb, 0, count)
	}
	if c.Fin.Inline != nil {
		c.Fin.Inline.Walk(cond.VWhere, 0, count)
	}
	if c.Fin.PK != 0 || c.Fin.K2 != 0 || c.Fin.PK2 != 0 {
		units++
	}
	return units >= 2 && hard && selected > 0 && selected < len(c.Rows)
}

func classes(c tcase) []string {
	cl := cond.Classes(c.Calls, c.Fin.Inline)
	cl = append(cl, "fin:"+c.Fin.Kind, fmt.Sprintf("calls:%d", len(c.Calls)))
	if c.Fin.Variant != "" {
		cl = append(cl, "fin:"+c.Fin.Kind+"/"+c.Fin.Variant)
	}
	if c.Fin.Cfg != "" {
		cl = append(cl, "config:"+c.Fin.Cfg)
	}
	if c.Fin.AltKey {
		cl = append(cl, "pk:composite-id-declared-second")
	}
	if c.Fin.Scope != nil {
		cl = append(cl, "scope:where-in-Scopes")
	}
	if c.Fin.PK != 0 || c.Fin.K2 != 0 || c.Fin.PK2 != 0 {
		cl = append(cl, "pk:model-value")
	}
	if c.Fin.Kind == "delete" && c.Fin.ViaModel {
		cl = append(cl, fmt.Sprintf("delete:model-key-%v/value-key-%v", c.Fin.PK != 0, c.Fin.PK2 != 0))
	}
	if c.Fin.Composite {
		cl = append(cl, "pk:composite", fmt.Sprintf("pk:composite-parts-%v-%v", c.Fin.PK != 0, c.Fin.K2 != 0))
	}
	switch n := len(c.Rows); {
	case n == 0:
		cl = append(cl, "rows:0")
	case n <= 4:
		cl = append(cl, "rows:1-4")
	default:
		cl = append(cl, "rows:5-12")
	}
	return cl
}

func TestC02(t *testing.T) {
	evid.Rule(rule)
	rapid.Check(t, func(rt *rapid.T) {
		c := genCase(rt)
		desc := c.String()
		evid.Journal(desc)
		sel := len(cond.Select(c.Rows, c.pred()))
		cl := classes(c)
		if c.pred() == nil {
			cl = append(cl, "chain:no-effective-condition")
		}
		switch {
		case sel == 0:
			cl = append(cl, "selected:none")
		case sel == len(c.Rows):
			cl = append(cl, "selected:all")
		default:
			cl = append(cl, "selected:some")
		}
		evid.Case(desc, nontrivial(c, sel), nil, cl...)
		msg, herr := check(c)
		if herr != nil {
			rt.Fatalf("harness: %v, case: %s", herr, desc)
		}
		if msg != "" {
			rt.Fatalf("C02 violated: %s, case: %s", msg, desc)
		}
	})
}

// ---- witnesses -----------------------------------------------------------------------------------

func rawUnit(sql string, tree *cond.Node, args ...interface{}) *cond.Unit {
	return &cond.Unit{Form: cond.FRawQ, Tree: tree, Query: sql, Args: args, Desc: fmt.Sprintf("%q %v", sql, args)}
}

func iv(i int) cond.Val { return cond.IntV(i) }

// Where("ca = 1 OR<nl>cb = 2").Where("cs = 'a'"): an OR delimited by a new
// line, a tab or parentheses used not to be parenthesised (fixed by 56a8a25).
func TestC02WitnessKeywordDelimiter(t *testing.T) {
	one, two := 1, 2
	_ = two
	rows := []cond.Row{
		{ID: 1, Ca: 1, Cb: 0, Cs: "b"}, // ca = 1 but cs <> 'a': must not be selected
		{ID: 2, Ca: 1, Cb: 0, Cs: "a"},
		{ID: 3, Ca: 0, Cb: 2, Cs: "a", Cn: &one},
		{ID: 4, Ca: 0, Cb: 2, Cs: "b"},
		{ID: 5, Ca: 3, Cb: 3, Cs: "a"},
	}
	or := cond.Or(cond.Atom("ca", cond.OpEq, iv(1)), cond.Atom("cb", cond.OpEq, iv(2)))
	and := cond.And(cond.Atom("ca", cond.OpEq, iv(1)), cond.Atom("cb", cond.OpEq, iv(0)))
	cs := cond.Atom("cs", cond.OpEq, cond.StrV("a"))
	for _, w := range []struct {
		sql  string
		tree *cond.Node
	}{
		{"ca = 1 OR\ncb = 2", or},
		{"ca = 1\tOR\tcb = 2", or},
		{"ca = 1\nor\ncb = 2", or},
		{"(ca = 1)OR(cb = 2)", or},
		{"(ca = 1)or(cb = 2)", or},
		{"ca = 1 Or\t(cb = 2)", or},
		{"ca = 1 OR cb = 2", or},
	} {
		for _, kind := range []string{"find", "count", "update", "delete"} {
			c := tcase{Rows: rows, Fin: fin{Kind: kind, ModelFirst: true}, Calls: []cond.Call{
				{Verb: cond.VWhere, U: rawUnit(w.sql, w.tree)},
				{Verb: cond.VWhere, U: rawUnit("cs = 'a'", cs)},
			}}
			msg, err := check(c)
			if err != nil {
				t.Fatalf("harness: %v", err)
			}
			if msg != "" {
				t.Errorf("C02 violated: %s, case: %s", msg, c)
			}
			// the same unit behind an Or call and below Not
			c.Calls = []cond.Call{
				{Verb: cond.VWhere, U: rawUnit("cs = 'a'", cs)},
				{Verb: cond.VNot, U: rawUnit(w.sql, w.tree)},
			}
			if msg, _ := check(c); msg != "" {
				t.Errorf("C02 violated: %s, case: %s", msg, c)
			}
		}
	}
	// AND delimited by new lines inside an Or call followed by Where
	c := tcase{Rows: rows, Fin: fin{Kind: "find"}, Calls: []cond.Call{
		{Verb: cond.VWhere, U: rawUnit("ca = 3", cond.Atom("ca", cond.OpEq, iv(3)))},
		{Verb: cond.VOr, U: rawUnit("ca = 1\nAND\ncb = 0", and)},
		{Verb: cond.VWhere, U: rawUnit("cs = 'a'", cs)},
	}}
	if msg, _ := check(c); msg != "" {
		t.Errorf("C02 violated: %s, case: %s", msg, c)
	}
	if !strings.Contains(c.String(), "Or(") {
		t.Fatalf("descriptor lost the chain: %s", c)
	}
}

func namedUnit(sql string, tree *cond.Node, args map[string]interface{}) *cond.Unit {
	return &cond.Unit{Form: cond.FNamed, Tree: tree, Query: sql, Args: []interface{}{args}, Desc: fmt.Sprintf("%q %v", sql, args)}
}

var witnessRows = func() []cond.Row {
	one := 1
	return []cond.Row{
		{ID: 1, Ca: 1, Cb: 0, Cs: "b"},
		{ID: 2, Ca: 1, Cb: 0, Cs: "a"},
		{ID: 3, Ca: 0, Cb: 2, Cs: "a", Cn: &one},
		{ID: 4, Ca: 0, Cb: 2, Cs: "b"},
		{ID: 5, Ca: 3, Cb: 3, Cs: "a"},
		{ID: 6, Ca: 3, Cb: 3, Cs: "b"},
	}
}()

func runWitness(t *testing.T, calls ...cond.Call) {
	t.Helper()
	for _, kind := range []string{"find", "count", "update", "delete"} {
		c := tcase{Rows: witnessRows, Fin: fin{Kind: kind, ModelFirst: true}, Calls: calls}
		msg, err := check(c)
		if err != nil {
			t.Fatalf("harness: %v", err)
		}
		if msg != "" {
			t.Errorf("C02 violated: %s, case: %s", msg, c)
		}
	}
}

// open finding named-under-not: Not("ca = @x OR cb = @y", args) renders
// `NOT ca = 1 OR cb = 2`: the NOT covers the first member only.
func TestC02WitnessNamedUnderNot(t *testing.T) {
	or := cond.Or(cond.Atom("ca", cond.OpEq, iv(1)), cond.Atom("cb", cond.OpEq, iv(2)))
	and := cond.And(cond.Atom("ca", cond.OpEq, iv(1)), cond.Atom("cs", cond.OpEq, cond.StrV("a")))
	runWitness(t, cond.Call{Verb: cond.VNot, U: namedUnit("ca = @x OR cb = @y", or, map[string]interface{}{"x": 1, "y": 2})})
	runWitness(t, cond.Call{Verb: cond.VNot, U: namedUnit("ca = @x AND cs = @y", and, map[string]interface{}{"x": 1, "y": "a"})})
}

// open finding named-or-under-or: Where(A).Or("ca = @x OR cb = @y", args).Where(B)
// renders `A OR ca = 1 OR cb = 2 AND B`: the Or unit is split by the AND.
func TestC02WitnessNamedOrUnderOr(t *testing.T) {
	or := cond.Or(cond.Atom("ca", cond.OpEq, iv(1)), cond.Atom("cb", cond.OpEq, iv(2)))
	runWitness(t,
		cond.Call{Verb: cond.VWhere, U: rawUnit("ca = 3 AND cs = 'b'", cond.And(cond.Atom("ca", cond.OpEq, iv(3)), cond.Atom("cs", cond.OpEq, cond.StrV("b"))))},
		cond.Call{Verb: cond.VOr, U: namedUnit("ca = @x OR cb = @y", or, map[string]interface{}{"x": 1, "y": 2})},
		cond.Call{Verb: cond.VWhere, U: rawUnit("cs = 'a'", cond.Atom("cs", cond.OpEq, cond.StrV("a")))},
	)
}

// open finding not-group-cmp-or-raw: Not(db.Where(map{cb:1}).Or("ca = ? AND cs = ?", 1, "a"))
// renders `(cb <> 1 AND NOT ca = 1 AND cs = 'a')`: the raw Or member is negated without parentheses.
func TestC02WitnessNotGroupCmpOrRaw(t *testing.T) {
	and := cond.And(cond.Atom("ca", cond.OpEq, iv(1)), cond.Atom("cs", cond.OpEq, cond.StrV("a")))
	cb := cond.Atom("cb", cond.OpEq, iv(2))
	group := &cond.Unit{Form: cond.FGroup, Group: []cond.Call{
		{Verb: cond.VWhere, U: &cond.Unit{Form: cond.FMap, Tree: cb, Members: []*cond.Node{cb}, Query: map[string]interface{}{"cb": 2}, Desc: "map{cb:2}"}},
		{Verb: cond.VOr, U: rawUnit("ca = ? AND cs = ?", and, 1, "a")},
	}}
	runWitness(t, cond.Call{Verb: cond.VNot, U: group})
}
