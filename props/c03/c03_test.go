// C03 — what Create stores is what queries load back, for every field kind and
// schema. See DESIGN.md §3 C03; grammar and oracle live in internal/schemagen.
package c03

import (
	"fmt"
	"os"
	"reflect"
	"sort"
	"strings"
	"testing"
	"time"

	"gorm.io/gorm"
	"gorm.io/gorm/schema"
	"pgregory.net/rapid"

	"verif/internal/evid"
	"verif/internal/harness"
	sg "verif/internal/schemagen"
	"verif/internal/testdb"
)

func TestMain(m *testing.M) { harness.Main(m) }

const rule = "C03: model types built with reflect.StructOf from the schemagen grammar (2-10 payload fields over all int/uint widths, floats, bool, string, []byte, time.Time, pointers to those, sql.Null*, scanner/valuer types (string-, struct-, map-, slice-, byte-array-, int- and time-backed, one written through GormValue), named basic types, gorm.Model / gorm.DeletedAt, `-` fields, serializer json/gob/unixtime fields (json also over map[string]interface{}, []interface{}, interface{} with numbers), field types implementing SerializerInterface themselves (SerDoc with optional members, SerList), embedded / embeddedPrefix structs incl. pointer, anonymous, nested and twice-embedded ones, outer fields shadowing a field of an embedded struct; tags column (incl. column names spelled like another field's Go name, chains of those and case variants), default literal / expression / null, autoCreateTime/autoUpdateTime[:milli|nano] and by field name; eight primary-key modes) x 1-8 records of boundary-biased values x create path (value, slice, pointer slice, array, batches, map / []map with and without model) x key fill (auto, supplied, mixed with RETURNING, explicit-keys-first-then-generated) x handle (fresh chain, one Session handle, WithContext, inside Transaction) x Config (CreateBatchSize, SkipDefaultTransaction, PrepareStmt, QueryFields, DisableNestedTransaction, NamingStrategy.NoLowerCase) x RETURNING on/off (also explicit clause.Returning) x read paths (Find, First, Take into structs, pointers, maps, []map, by marker, key and inline key; plus one Find whose condition fails on a later row and must report the error); non-trivial = at least 3 columns, at least one pointer / nullable / serializer / custom / embedded column, at least one boundary value and, for slice-like paths, at least 2 records; distinct = schema + values + paths"

// kindsForTier lets development widen the grammar kind by kind (VERIF_C03_KINDS=scalars|...); default all.
func excluded(rt *rapid.T) map[string]bool {
	ex := map[string]bool{}
	if harness.OpenClass("C03", "unixtime-uint") {
		for _, k := range sg.UnixtimeUnsigned {
			ex[k.Name] = true
		}
	}
	return ex
}

// devKinds narrows the grammar during development (VERIF_C03_GROUPS=int,uint,…); unset = every kind.
func devKinds() []*sg.Kind {
	g := os.Getenv("VERIF_C03_GROUPS")
	if g == "" {
		return nil
	}
	var out []*sg.Kind
	for _, k := range sg.AllKinds() {
		for _, x := range strings.Split(g, ",") {
			if k.Group == x {
				out = append(out, k)
			}
		}
	}
	return out
}

type caseT struct {
	spec      *sg.StructSpec
	pk        string
	m         *sg.Model
	recs      *sg.Records
	plan      sg.CreatePlan
	fill      sg.KeyFill
	returning bool
	reads     []string
	now       time.Time
	excl      []string
	handle    string // how operations obtain their handle (sg.Handles)
	cfg       cfgT
}

// cfgT: the gorm.Config switches a case runs under
type cfgT struct {
	CreateBatchSize        int
	SkipDefaultTransaction bool
	PrepareStmt            bool
	QueryFields            bool
	DisableNestedTx        bool
}

func (c cfgT) String() string {
	var p []string
	if c.CreateBatchSize > 0 {
		p = append(p, fmt.Sprintf("CreateBatchSize:%d", c.CreateBatchSize))
	}
	if c.SkipDefaultTransaction {
		p = append(p, "SkipDefaultTransaction")
	}
	if c.PrepareStmt {
		p = append(p, "PrepareStmt")
	}
	if c.QueryFields {
		p = append(p, "QueryFields")
	}
	if c.DisableNestedTx {
		p = append(p, "DisableNestedTransaction")
	}
	return "Config{" + strings.Join(p, ",") + "}"
}

func hasDBDefault(m *sg.Model) bool {
	if m.AutoKey() != nil {
		return true
	}
	for _, l := range m.Leaves {
		if l.Spec.Default != nil && l.Spec.Default.DB {
			return true
		}
	}
	return false
}

func hasSerializer(m *sg.Model) bool {
	for _, l := range m.Leaves {
		if strings.HasPrefix(l.Kind.Group, "serializer") {
			return true
		}
	}
	return false
}

func genCase(rt *rapid.T) *caseT {
	c := &caseT{}
	ex := excluded(rt)
	c.spec, c.pk = sg.GenModel(rt, sg.GenOptions{NamingVariants: true, NoIgnoredNameAsColumn: harness.OpenClass("C03", "ignored-field-named-like-column"),
		OnExcludeTag: func(cl string) { c.excl = append(c.excl, cl) }, Kinds: devKinds(), NoEmbedded: os.Getenv("VERIF_C03_NOEMBED") != "", Exclude: ex, OnExclude: func(k *sg.Kind) { c.excl = append(c.excl, "unixtime-uint") }})
	c.m = sg.Build(c.spec)
	if harness.OpenClass("C03", "nil-embedded-gob-unixtime") {
		c.m.KeepGroups = map[string]bool{}
		for _, l := range c.m.Leaves {
			if strings.HasPrefix(l.Kind.Name, "gob:") || strings.HasPrefix(l.Kind.Name, "unixtime:") {
				for _, k := range l.GroupKeys() {
					c.m.KeepGroups[k] = true
				}
			}
		}
		c.m.OnKeptGroup = func() { c.excl = append(c.excl, "nil-embedded-gob-unixtime") }
	}
	c.returning = rapid.Bool().Draw(rt, "returning")
	n := rapid.IntRange(1, 8).Draw(rt, "n")
	if rapid.IntRange(0, 24).Draw(rt, "many") == 0 {
		n = rapid.IntRange(21, 30).Draw(rt, "n.many") // beyond the 20-element slice gorm.Scan starts with
	}
	paths := append(append([]string{}, sg.StructPaths...), sg.StructPaths...)
	paths = append(paths, sg.MapPaths...)
	c.plan.Path = rapid.SampledFrom(paths).Draw(rt, "create")
	if strings.HasPrefix(c.plan.Path, "batches") {
		c.plan.Batch = rapid.IntRange(1, 5).Draw(rt, "batch")
	}
	if c.plan.WithModel() {
		c.plan.KeysByName = rapid.Bool().Draw(rt, "fieldnames")
	}
	// listed findings: creating from a slice of maps with the model named on a RETURNING dialect
	if c.returning && hasDBDefault(c.m) {
		if c.plan.Path == "maps-model" && harness.OpenClass("C03", "maps-byvalue-model-returning") {
			c.excl = append(c.excl, "maps-byvalue-model-returning")
			c.plan.Path = "maps"
			c.plan.KeysByName = false
		}
		if c.plan.Path == "maps-ptr-model" && harness.OpenClass("C03", "maps-pointer-model-returning") {
			c.excl = append(c.excl, "maps-pointer-model-returning")
			c.plan.Path = "maps-ptr"
			c.plan.KeysByName = false
		}
	}
	c.fill = sg.KeyAuto
	if c.m.AutoKey() != nil {
		fills := []sg.KeyFill{sg.KeyAuto, sg.KeyAuto, sg.KeyAuto, sg.KeySupplied}
		// several generated keys in one statement are reported back correctly only when
		// no record of the statement supplies its own (create.go: "the @id value is
		// correct, when: 1. without setting auto-increment primary key"); with RETURNING
		// every row reports its own key
		if c.returning && !c.plan.IsMap() {
			fills = append(fills, sg.KeyMixed)
		}
		// explicit keys first (ascending, above everything in the table), generated keys last: the
		// last generated id belongs to the last zero-key element and the ids before it to the zero-key
		// elements before it, which is what the back-fill (forward with RETURNING, backwards from
		// LastInsertId without) hands out; zero-key elements before or between explicit ones stay
		// excluded (create.go: "the @id value is correct, when: 1. without setting auto-increment primary key")
		if !c.plan.IsMap() && n >= 2 {
			fills = append(fills, sg.KeyLeading, sg.KeyLeading)
		}
		c.fill = rapid.SampledFrom(fills).Draw(rt, "keyfill")
	}
	c.recs = sg.GenRecords(rt, c.m, n, c.fill, 1)
	// handle history and Config switches
	c.handle = rapid.SampledFrom([]string{"fresh", "fresh", "fresh", "session", "context", "tx"}).Draw(rt, "handle")
	if rapid.IntRange(0, 2).Draw(rt, "cfg") == 0 {
		c.cfg.SkipDefaultTransaction = rapid.Bool().Draw(rt, "cfg.skiptx")
		c.cfg.PrepareStmt = rapid.Bool().Draw(rt, "cfg.prepare")
		c.cfg.QueryFields = rapid.Bool().Draw(rt, "cfg.queryfields")
		c.cfg.DisableNestedTx = rapid.Bool().Draw(rt, "cfg.nonested")
	}
	sliceStruct := !c.plan.IsMap() && c.plan.Path != "value"
	if sliceStruct && !strings.HasPrefix(c.plan.Path, "batches") {
		// Create of a slice is split into batches by Config.CreateBatchSize / Session.CreateBatchSize
		switch rapid.IntRange(0, 5).Draw(rt, "batchsize") {
		case 0:
			c.cfg.CreateBatchSize = rapid.IntRange(1, 4).Draw(rt, "cfg.batch")
		case 1:
			c.plan.SessionBatch = rapid.IntRange(1, 4).Draw(rt, "session.batch")
		}
	}
	if c.returning && !c.plan.IsMap() && !strings.HasSuffix(c.plan.Path, "-byvalue") {
		switch rapid.IntRange(0, 7).Draw(rt, "explicit-returning") {
		case 0:
			if c.plan.Path == "value" {
				c.plan.Returning = "all"
			}
		case 1:
			c.plan.Returning = "columns"
		}
	}
	if c.plan.IsMap() {
		c.plan.ExprValues = rapid.IntRange(0, 3).Draw(rt, "exprvalues") == 0
		// a nil map inside the slice (not at its end): an all-NULL row that takes a key of its own
		if strings.HasPrefix(c.plan.Path, "maps") && c.m.AutoKey() != nil && c.fill == sg.KeyAuto && rapid.IntRange(0, 2).Draw(rt, "nilmap") == 0 {
			c.plan.NilMapAt = rapid.IntRange(1, n).Draw(rt, "nilmap.at")
		}
		// a slice of maps is split by Config.CreateBatchSize as well
		if strings.HasPrefix(c.plan.Path, "maps") && rapid.IntRange(0, 4).Draw(rt, "maps.batchsize") == 0 {
			c.cfg.CreateBatchSize = rapid.IntRange(1, 4).Draw(rt, "cfg.batch.maps")
		}
	}
	nr := rapid.IntRange(1, 3).Draw(rt, "nreads")
	for i := 0; i < nr; i++ {
		p := rapid.SampledFrom(sg.ReadPaths).Draw(rt, fmt.Sprintf("read%d", i))
		if sg.ModelMapRead(p) && hasSerializer(c.m) && harness.OpenClass("C03", "map-read-serializer") {
			c.excl = append(c.excl, "map-read-serializer")
			p = strings.TrimSuffix(strings.Replace(p, "first-map", "take-map", 1), "-model")
		}
		c.reads = append(c.reads, p)
	}
	zone := rapid.SampledFrom([]*time.Location{time.UTC, time.FixedZone("", 3600), time.FixedZone("", -7*3600)}).Draw(rt, "nowzone")
	c.now = testdb.FixedNow.Add(time.Duration(rapid.Int64Range(0, 3_000_000_000).Draw(rt, "nowstep"))).In(zone)
	return c
}

func (c *caseT) header() string {
	ret := "returning"
	if !c.returning {
		ret = "no-returning"
	}
	naming := ""
	if c.spec.NoLowerCase {
		naming = " NamingStrategy{NoLowerCase}"
	}
	return fmt.Sprintf("%s pk=%s create=%s fill=%s %s reads=%v n=%d handle=%s %s%s now=%s", c.spec, c.pk, c.plan, c.fill, ret, c.reads, len(c.recs.Vals), c.handle, c.cfg, naming, c.now.Format(time.RFC3339Nano))
}

func (c *caseT) desc() string {
	canon, _ := c.recs.Snapshot()
	return c.header() + " records: " + sg.DescribeRecords(c.m, canon)
}

func (c *caseT) nontrivial() bool {
	special := false
	for _, l := range c.m.Leaves {
		if l.Kind.Special || len(l.Path) > 1 {
			special = true
		}
	}
	sliceLike := c.plan.Path != "value" && c.plan.Path != "map" && c.plan.Path != "map-ptr" && c.plan.Path != "map-model"
	return len(c.m.Leaves) >= 3 && special && c.recs.Boundary && (!sliceLike || len(c.recs.Vals) >= 2)
}

func (c *caseT) classes() []string {
	set := map[string]bool{}
	var walk func(s *sg.StructSpec, depth int)
	seenEmb := map[*sg.StructSpec]bool{}
	walk = func(s *sg.StructSpec, depth int) {
		for _, f := range s.Fields {
			if f.Embedded != nil {
				set["tag:embedded"] = true
				if f.Prefix != "" {
					set["tag:embeddedPrefix"] = true
				}
				if f.Ptr {
					set["tag:embedded-pointer"] = true
				}
				if f.Anonymous {
					set["tag:embedded-anonymous"] = true
				}
				if depth > 0 {
					set["tag:embedded-nested"] = true
				}
				if seenEmb[f.Embedded] {
					set["tag:embedded-twice"] = true
				}
				seenEmb[f.Embedded] = true
				walk(f.Embedded, depth+1)
				continue
			}
			set["kind:"+f.Kind.Name] = true
			set["group:"+f.Kind.Group] = true
			if f.Column != "" {
				set["tag:column"] = true
			}
			if f.Default != nil {
				if f.Default.DB {
					set["tag:default-db:"+f.Default.Tag] = true
				} else {
					set["tag:default-literal"] = true
				}
			}
			if f.AutoTime != "" {
				set["tag:"+f.AutoTime] = true
			}
		}
	}
	walk(c.spec, 0)
	for _, l := range c.m.Shadowed {
		if l.Spec.Shadowed {
			set["tag:embedded-field-shadowed-by-outer-field"] = true
		}
	}
	if exact, caseOnly := c.m.HasCrossName(); exact || caseOnly {
		if exact {
			set["tag:column=other-field-name"] = true
		}
		if caseOnly {
			set["tag:column=other-field-name-other-case"] = true
		}
	}
	set["handle:"+c.handle] = true
	if c.cfg.CreateBatchSize > 0 {
		set["config:CreateBatchSize"] = true
	}
	if c.cfg.SkipDefaultTransaction {
		set["config:SkipDefaultTransaction"] = true
	}
	if c.cfg.PrepareStmt {
		set["config:PrepareStmt"] = true
	}
	if c.cfg.QueryFields {
		set["config:QueryFields"] = true
	}
	if c.cfg.DisableNestedTx {
		set["config:DisableNestedTransaction"] = true
	}
	if c.spec.NoLowerCase {
		set["config:NamingStrategy.NoLowerCase"] = true
	}
	if c.plan.SessionBatch > 0 {
		set["create:Session.CreateBatchSize"] = true
	}
	if c.plan.Returning != "" {
		set["create:explicit-Returning-"+c.plan.Returning] = true
	}
	if c.plan.ExprValues {
		set["create:map-values-as-clause.Expr"] = true
	}
	if c.plan.NilMapAt > 0 {
		set["create:nil-map-inside-the-slice"] = true
	}
	for _, l := range c.m.Shadowed {
		if l.Spec.Ignored {
			set["tag:-(ignored field)"] = true
		}
	}
	for _, l := range c.m.Leaves {
		if l.Spec.TagSpace > 0 && l.Spec.Tag() != "" {
			set["tag:spacing"] = true
		}
	}
	styles := map[int]string{1: "tag-keys-upper-case", 2: "tag-primary_key-alias"}
	for _, l := range c.m.Leaves {
		if st, ok := styles[l.Spec.TagStyle]; ok && l.Spec.Tag() != "" {
			set["tag:"+st] = true
		}
	}
	if len(c.recs.Vals) > 20 {
		set["records:>20"] = true
	}
	set["pk:"+c.pk] = true
	set["create:"+c.plan.Path] = true
	if c.plan.KeysByName {
		set["create:map-keys-by-field-name"] = true
	}
	for _, r := range c.reads {
		set["read:"+r] = true
	}
	if c.returning {
		set["returning:on"] = true
	} else {
		set["returning:off"] = true
	}
	set["keyfill:"+string(c.fill)] = true
	if len(c.recs.Vals) <= 8 {
		set[fmt.Sprintf("records:%d", len(c.recs.Vals))] = true
	}
	out := make([]string, 0, len(set))
	for k := range set {
		out = append(out, k)
	}
	sort.Strings(out)
	return out
}

// run executes the case on a fresh database and returns the violation ("" = held).
func (c *caseT) run() string {
	cfg := gorm.Config{NowFunc: sg.FixedClock(c.now), CreateBatchSize: c.cfg.CreateBatchSize, SkipDefaultTransaction: c.cfg.SkipDefaultTransaction,
		PrepareStmt: c.cfg.PrepareStmt, QueryFields: c.cfg.QueryFields, DisableNestedTransaction: c.cfg.DisableNestedTx}
	if c.spec.NoLowerCase {
		cfg.NamingStrategy = schema.NamingStrategy{NoLowerCase: true}
	}
	d := testdb.Open(testdb.Options{NoReturning: !c.returning, Config: cfg})
	defer d.Close()
	env := &sg.Env{DB: d, Table: "t_c03", M: c.m, Returning: c.returning, Now: c.now, Handle: c.handle}
	if err := env.Migrate(); err != nil {
		return "AutoMigrate of the generated model failed: " + err.Error()
	}
	created, err := env.Create(c.recs, c.plan)
	if err != nil {
		return fmt.Sprintf("Create (%s) failed: %v", c.plan, err)
	}
	if err := env.Check(created, c.reads); err != nil {
		return err.Error()
	}
	return ""
}

func TestC03(t *testing.T) {
	evid.Rule(rule)
	rapid.Check(t, func(rt *rapid.T) {
		c := genCase(rt)
		for _, e := range c.excl {
			evid.Excluded(e)
		}
		desc := c.desc()
		evid.Journal(desc)
		evid.Case(desc, c.nontrivial(), c.header(), c.classes()...)
		if msg := c.run(); msg != "" {
			rt.Fatalf("C03 violated: %s\n  case: %s", msg, desc)
		}
	})
}

// ---- witnesses of listed findings (plain tests, no generator) -------------------------------

// witness runs one hand-written case through the same Create + oracle code.
func witness(t *testing.T, spec *sg.StructSpec, plan sg.CreatePlan, returning bool, reads []string, n int, fillRec func(i int, m *sg.Model, rec reflect.Value)) {
	t.Helper()
	m := sg.Build(spec)
	var vals []reflect.Value
	for i := 0; i < n; i++ {
		rec := reflect.New(m.Type).Elem()
		m.MarkerLeaf().Set(rec, reflect.ValueOf(int64(1001+i)))
		if fillRec != nil {
			fillRec(i, m, rec)
		}
		vals = append(vals, rec)
	}
	c := &caseT{spec: spec, pk: "id-name", m: m, recs: sg.NewRecords(m, vals), plan: plan, fill: sg.KeyAuto, returning: returning, reads: reads, now: testdb.FixedNow}
	if msg := c.run(); msg != "" {
		t.Errorf("C03 violated: %s\n  case: %s", msg, c.desc())
	}
}

func idMarker(extra ...*sg.FieldSpec) *sg.StructSpec {
	fs := []*sg.FieldSpec{{Name: "ID", Kind: sg.KUint, PrimaryKey: true, DistinctValue: true}, {Name: "Marker", Kind: sg.KInt64, Marker: true}}
	return &sg.StructSpec{Fields: append(fs, extra...)}
}

// `serializer:unixtime` on an unsigned integer field: UnixSecondSerializer.Value lists
// uint, uint64, uint32, uint16 as supported and then calls reflect.Value.Int() on them.
func TestC03WitnessUnixtimeUint(t *testing.T) {
	for _, k := range sg.UnixtimeUnsigned {
		spec := idMarker(&sg.FieldSpec{Name: "LastSeen", Kind: k})
		witness(t, spec, sg.CreatePlan{Path: "value"}, true, []string{"first"}, 1, func(i int, m *sg.Model, rec reflect.Value) {
			m.Leaves[2].Set(rec, k.Distinct(1700000000))
		})
	}
}

// Model(&T{}).Create([]map[string]interface{}{…}) (the documented form) on a dialect
// with RETURNING and a model with an auto-increment key.
func TestC03WitnessMapsByValueModelReturning(t *testing.T) {
	witness(t, idMarker(&sg.FieldSpec{Name: "Age", Kind: sg.KInt}), sg.CreatePlan{Path: "maps-model"}, true, nil, 2, nil)
	witness(t, idMarker(&sg.FieldSpec{Name: "Age", Kind: sg.KInt, Default: &sg.Default{Tag: "(1+1)", Canon: "i:2", DB: true}}), sg.CreatePlan{Path: "maps-model"}, true, nil, 2,
		func(i int, m *sg.Model, rec reflect.Value) { m.Leaves[2].Set(rec, reflect.ValueOf(5)) })
}

// Model(&T{}).Create(&[]map[string]interface{}{…}) on a RETURNING dialect: the maps must
// carry the generated keys (as they do without RETURNING) and the slice must keep its length.
func TestC03WitnessMapsPointerModelReturning(t *testing.T) {
	witness(t, idMarker(&sg.FieldSpec{Name: "Age", Kind: sg.KInt}), sg.CreatePlan{Path: "maps-ptr-model"}, true, nil, 2, nil)
}

// Model(&T{}).Take(&map) for a model with a serializer field.
func TestC03WitnessMapReadSerializer(t *testing.T) {
	for _, k := range []*sg.Kind{sg.KJSONStrings, sg.KGob, sg.KUnixInt64} {
		spec := idMarker(&sg.FieldSpec{Name: "Payload", Kind: k})
		witness(t, spec, sg.CreatePlan{Path: "value"}, true, []string{"take-map-model", "find-maps-model"}, 1, func(i int, m *sg.Model, rec reflect.Value) {
			switch k {
			case sg.KJSONStrings:
				m.Leaves[2].Set(rec, reflect.ValueOf([]string{"a", "b"}))
			case sg.KGob:
				m.Leaves[2].Set(rec, reflect.ValueOf(sg.GobDoc{Name: "n", N: 7}))
			default:
				m.Leaves[2].Set(rec, reflect.ValueOf(int64(1700000000)))
			}
		})
	}
}

// a gob / unixtime serialized field inside a pointer-embedded struct that is nil.
func TestC03WitnessNilEmbeddedGobUnixtime(t *testing.T) {
	for _, k := range []*sg.Kind{sg.KGob, sg.KUnixInt64} {
		spec := idMarker(&sg.FieldSpec{Name: "Extra", Ptr: true, Embedded: &sg.StructSpec{Fields: []*sg.FieldSpec{{Name: "Payload", Kind: k}, {Name: "Level", Kind: sg.KInt}}}})
		witness(t, spec, sg.CreatePlan{Path: "value"}, true, []string{"first"}, 1, nil)
	}
}

// a `gorm:"-"` field whose Go name is the column name of another field: SelectAndOmitColumns marks
// the ignored field's NAME as not creatable, which removes the other field's column from the INSERT.
func TestC03WitnessIgnoredFieldNamedLikeColumn(t *testing.T) {
	spec := idMarker(&sg.FieldSpec{Name: "Alpha", Kind: sg.KInt, Column: "Delta"}, &sg.FieldSpec{Name: "Delta", Kind: sg.KString, Ignored: true})
	witness(t, spec, sg.CreatePlan{Path: "value"}, true, []string{"first"}, 1, func(i int, m *sg.Model, rec reflect.Value) {
		m.Leaves[2].Set(rec, reflect.ValueOf(5))
	})
}
