package c03

import (
	"database/sql"
	"fmt"
	"reflect"
	"testing"
	"time"

	"gorm.io/gorm"
	"verif/internal/testdb"
)

type Point struct{ X, Y int }

func TestProbe(t *testing.T) {
	nested := reflect.StructOf([]reflect.StructField{
		{Name: "City", Type: reflect.TypeOf(""), Tag: `gorm:"column:town"`},
		{Name: "Zip", Type: reflect.TypeOf(int32(0))},
	})
	typ := reflect.StructOf([]reflect.StructField{
		{Name: "ID", Type: reflect.TypeOf(uint(0))},
		{Name: "Marker", Type: reflect.TypeOf(int64(0))},
		{Name: "U8", Type: reflect.TypeOf(uint8(0))},
		{Name: "PS", Type: reflect.TypeOf((*string)(nil))},
		{Name: "NS", Type: reflect.TypeOf(sql.NullString{})},
		{Name: "Js", Type: reflect.TypeOf([]string(nil)), Tag: `gorm:"serializer:json"`},
		{Name: "Gb", Type: reflect.TypeOf(Point{}), Tag: `gorm:"serializer:gob"`},
		{Name: "Ut", Type: reflect.TypeOf(int64(0)), Tag: `gorm:"serializer:unixtime;type:datetime"`},
		{Name: "Home", Type: nested, Tag: `gorm:"embedded;embeddedPrefix:home_"`},
		{Name: "Work", Type: reflect.PointerTo(nested), Tag: `gorm:"embedded;embeddedPrefix:work_"`},
		{Name: "Dx", Type: reflect.TypeOf(int(0)), Tag: `gorm:"default:(1+1)"`},
		{Name: "Dl", Type: reflect.TypeOf(int(0)), Tag: `gorm:"default:42"`},
		{Name: "Ct", Type: reflect.TypeOf(int64(0)), Tag: `gorm:"autoCreateTime:milli"`},
		{Name: "T", Type: reflect.TypeOf(time.Time{})},
	})
	for _, noret := range []bool{false, true} {
		d := testdb.Open(testdb.Options{NoReturning: noret, Config: gorm.Config{NowFunc: func() time.Time { return testdb.FixedNow }}})
		db := d.DB.Table("t1")
		_ = db
		tbl := func() *gorm.DB { return d.DB.Table("t1") }
		if err := db.AutoMigrate(reflect.New(typ).Interface()); err != nil {
			t.Fatal(err)
		}
		var ddl string
		d.SQL.QueryRow("select sql from sqlite_master where name='t1'").Scan(&ddl)
		fmt.Println(ddl)
		func() {
			defer func() {
				if r := recover(); r != nil {
					fmt.Println("PANIC:", r)
				}
			}()
			sl := reflect.New(reflect.SliceOf(typ))
			sl.Elem().Set(reflect.MakeSlice(reflect.SliceOf(typ), 3, 3))
			for i := 0; i < 3; i++ {
				sl.Elem().Index(i).FieldByName("Marker").SetInt(int64(100 + i))
				sl.Elem().Index(i).FieldByName("Ut").SetInt(int64(100 + i))
				sl.Elem().Index(i).FieldByName("T").Set(reflect.ValueOf(time.Date(2020, 1, 2, 3, 4, 5, 123456789, time.FixedZone("x", 3600*5+1800))))
			}
			err := tbl().Create(sl.Interface()).Error
			fmt.Printf("noret=%v create err=%v\n%+v\n", noret, err, sl.Elem().Interface())
			for _, e := range d.Rec.Statements() {
				fmt.Println("  ", e.String())
			}
			out := reflect.New(reflect.SliceOf(typ))
			err = tbl().Order("marker").Find(out.Interface()).Error
			fmt.Printf("find err=%v\n%+v\n", err, out.Elem().Interface())
			var m map[string]interface{}
			err = tbl().Take(&m).Error
			fmt.Printf("take map (no model) err=%v\n%#v\n", err, m)
			var m2 map[string]interface{}
			err = d.DB.Model(reflect.New(typ).Interface()).Table("t1").Take(&m2).Error
			fmt.Printf("take map (model) err=%v\n%#v\n", err, m2)
			var m3 map[string]interface{}
			err = tbl().First(&m3).Error
			fmt.Printf("first map (no model) err=%v\n", err)
			var ms []map[string]interface{}
			err = tbl().Find(&ms).Error
			fmt.Printf("find maps err=%v n=%d %#v\n", err, len(ms), ms)
		}()
		d.Close()
	}
}
