// C12 — association mode keeps stored links, counts and the in-memory value in
// agreement. See DESIGN.md §3 C12 (and its domain notes D1–D3, which the
// generator below implements).
package c12

import (
	"context"
	"fmt"
	"reflect"
	"sort"
	"strings"
	"testing"

	"gorm.io/gorm"
	"gorm.io/gorm/clause"
	"pgregory.net/rapid"

	"verif/internal/evid"
	"verif/internal/harness"
	"verif/internal/recdrv"
	"verif/internal/testdb"
)

func TestMain(m *testing.M) { harness.Main(m) }

type ctxKey struct{}

// ---- models ---------------------------------------------------------------------------------

// One owner type carries every relation kind, so that a history can stay on one
// relation (the per-kind state machines) or mix them on the same owner object.
type Owner struct {
	ID     uint `gorm:"primaryKey"`
	Name   string
	One    *One   `gorm:"foreignKey:OwnerID"` // has one
	Many   []Many `gorm:"foreignKey:OwnerID"` // has many
	Notes  []Note `gorm:"polymorphic:Holder"` // polymorphic has many (holder_type = "owners")
	BossID *int   // belongs to (signed integer key)
	Boss   *Boss
	// belongs to, second flavour: value foreign key and value field
	ChiefID uint
	Chief   Chief
	// composite-keyed targets (ID, Rev): Rev = 0 is a legitimate key part
	Docs []*Doc `gorm:"foreignKey:OwnerID"`   // has many, pointer elements
	Refs []Ref  `gorm:"many2many:owner_refs"` // many to many, value elements
	// polymorphic has one with a custom type value (seals.holder_type = "master")
	Seal *Seal `gorm:"polymorphic:Holder;polymorphicValue:master"`
	// many to many whose join table refers to the target by a unique NON-primary column (owner_clubs.club_slug)
	Clubs []*Club `gorm:"many2many:owner_clubs;references:Slug"`
	// relations over a unique NON-primary column (references:Code)
	Code      string `gorm:"uniqueIndex"` // "oc<ID>"
	GuildCode *string
	Guild     *Guild  `gorm:"foreignKey:GuildCode;references:Code"` // belongs to
	Badges    []Badge `gorm:"foreignKey:OwnerCode;references:Code"` // has many
	// string-keyed targets: keys that differ only in letter case are different records
	Parts []Part  `gorm:"foreignKey:OwnerID"`                                                 // has many, children with a string primary key
	Langs []*Lang `gorm:"many2many:owner_langs"`                                              // many to many, string primary key
	Tags  []*Tag  `gorm:"many2many:owner_tags;joinForeignKey:OwnerKey;joinReferences:TagKey"` // many to many, renamed join columns
}

type One struct {
	ID      uint `gorm:"primaryKey"`
	Name    string
	OwnerID *uint
	Owner   *Owner // back reference: the inverse belongs-to over the same foreign key
}

type Many struct {
	ID        uint `gorm:"primaryKey"`
	Name      string
	OwnerID   *uint
	Owner     *Owner         // back reference: the inverse belongs-to over the same foreign key
	DeletedAt gorm.DeletedAt // soft delete: Unscoped() association calls soft-delete, db.Unscoped() + Unscoped() delete
}

type Seal struct {
	ID         uint `gorm:"primaryKey"`
	Name       string
	HolderID   *uint
	HolderType string
}

type Note struct {
	ID         uint `gorm:"primaryKey"`
	Name       string
	HolderID   *uint
	HolderType string
}

type Boss struct {
	ID   int `gorm:"primaryKey"` // signed key: utils.ToStringKey's fmt.Sprint arm
	Name string
}

type Chief struct {
	ID   uint `gorm:"primaryKey"`
	Name string
}

type Part struct {
	Code    string `gorm:"primaryKey"`
	Name    string
	OwnerID uint // value foreign key: NULL in the database reads as 0
}

type Lang struct {
	Code string `gorm:"primaryKey"`
	Name string
}

type Doc struct {
	ID      uint `gorm:"primaryKey;autoIncrement:false"`
	Rev     uint `gorm:"primaryKey;autoIncrement:false"`
	Name    string
	OwnerID *uint
}

type Ref struct {
	ID   uint `gorm:"primaryKey;autoIncrement:false"`
	Rev  uint `gorm:"primaryKey;autoIncrement:false"`
	Name string
}

type Guild struct {
	ID   uint   `gorm:"primaryKey"`
	Code string `gorm:"uniqueIndex"` // "c-" + Name
	Name string
}

type Club struct {
	ID   uint   `gorm:"primaryKey"`
	Slug string `gorm:"uniqueIndex"` // "c-" + Name
	Name string
}

type Badge struct {
	ID        uint `gorm:"primaryKey"`
	Name      string
	OwnerCode *string
}

type Tag struct {
	ID   uint `gorm:"primaryKey"`
	Name string
}

func (Owner) TableName() string { return "owners" }
func (One) TableName() string   { return "ones" }
func (Many) TableName() string  { return "manies" }
func (Note) TableName() string  { return "notes" }
func (Boss) TableName() string  { return "bosses" }
func (Tag) TableName() string   { return "tags" }
func (Chief) TableName() string { return "chiefs" }
func (Part) TableName() string  { return "parts" }
func (Lang) TableName() string  { return "langs" }
func (Doc) TableName() string   { return "docs" }
func (Ref) TableName() string   { return "refs" }
func (Guild) TableName() string { return "guilds" }
func (Badge) TableName() string { return "badges" }
func (Seal) TableName() string  { return "seals" }
func (Club) TableName() string  { return "clubs" }

const (
	hasOne    = "has-one"
	hasMany   = "has-many"
	poly      = "polymorphic"
	belongsTo = "belongs-to"
	m2m       = "many-to-many"
)

type relSpec struct {
	Name  string // field of Owner
	Kind  string
	Table string
	Elem  reflect.Type
	Str   bool   // string primary key "Code" instead of the integer "ID"
	Comp  bool   // composite primary key (ID, Rev)
	PtrFK bool   // belongs-to whose foreign key field is a pointer
	Ref   bool   // the foreign key refers to a unique non-primary column ("Code")
	Poly  string // polymorphic: the holder_type value that means "owners"
	ByVal bool   // the relation field is a slice of VALUES ([]T): its elements can be handed back by sub-slice or pointer
	Back  bool   // the target type declares the inverse belongs-to "Owner" over the same foreign key
	Join  string // join table (many to many)
	JoinC string // target column of the join table
}

var rels = []relSpec{
	{Name: "One", Kind: hasOne, Table: "ones", Elem: reflect.TypeOf(One{}), Back: true},
	{Name: "Many", Kind: hasMany, Table: "manies", Elem: reflect.TypeOf(Many{}), ByVal: true, Back: true},
	{Name: "Notes", Kind: poly, Table: "notes", Elem: reflect.TypeOf(Note{}), Poly: "owners", ByVal: true},
	{Name: "Boss", Kind: belongsTo, Table: "bosses", Elem: reflect.TypeOf(Boss{}), PtrFK: true},
	{Name: "Tags", Kind: m2m, Table: "tags", Elem: reflect.TypeOf(Tag{}), Join: "owner_tags", JoinC: "tag_id"},
	{Name: "Chief", Kind: belongsTo, Table: "chiefs", Elem: reflect.TypeOf(Chief{})},
	{Name: "Parts", Kind: hasMany, Table: "parts", Elem: reflect.TypeOf(Part{}), Str: true, ByVal: true},
	{Name: "Langs", Kind: m2m, Table: "langs", Elem: reflect.TypeOf(Lang{}), Str: true, Join: "owner_langs", JoinC: "lang_code"},
	{Name: "Docs", Kind: hasMany, Table: "docs", Elem: reflect.TypeOf(Doc{}), Comp: true},
	{Name: "Refs", Kind: m2m, Table: "refs", Elem: reflect.TypeOf(Ref{}), Comp: true, Join: "owner_refs", ByVal: true},
	{Name: "Guild", Kind: belongsTo, Table: "guilds", Elem: reflect.TypeOf(Guild{}), PtrFK: true, Ref: true},
	{Name: "Badges", Kind: hasMany, Table: "badges", Elem: reflect.TypeOf(Badge{}), Ref: true, ByVal: true},
	{Name: "Seal", Kind: hasOne, Table: "seals", Elem: reflect.TypeOf(Seal{}), Poly: "master"},
	{Name: "Clubs", Kind: m2m, Table: "clubs", Elem: reflect.TypeOf(Club{}), Ref: true, Join: "owner_clubs"},
}

func relByName(n string) relSpec {
	for _, r := range rels {
		if r.Name == n {
			return r
		}
	}
	panic("harness: unknown relation " + n)
}

func (r relSpec) fkFamily() bool { return r.Kind == hasOne || r.Kind == hasMany || r.Kind == poly }
func (r relSpec) single() bool   { return r.Kind == hasOne || r.Kind == belongsTo }

// ---- history description --------------------------------------------------------------------------

const poolSize = 4 // saved targets per table at the start (keys 1..4)

// String-keyed relations: the model works with integer handles; codeOf(handle) is the
// stored key. Handles 1..4 are the seeded rows, later handles are the keys new targets
// get, in this order: first the ones that differ from an existing key only in letter case.
var strCodes = func() []string {
	c := []string{"go", "GO", "a_b", "nil", "Go", "gO", "A_B", "NIL", "Nil", "a_B", "nIL"}
	for i := 1; i <= 40; i++ {
		c = append(c, fmt.Sprintf("kz%d", i), fmt.Sprintf("KZ%d", i), fmt.Sprintf("Kz%d", i))
	}
	return c
}()

var strHandles = func() map[string]uint {
	m := map[string]uint{}
	for i, c := range strCodes {
		m[c] = uint(i + 1)
	}
	return m
}()

func codeOf(h uint) string { return strCodes[h-1] }

// keyText renders a target handle the way the database dump shows the key.
func (r relSpec) keyText(h uint) string {
	if r.Str {
		return codeOf(h)
	}
	if r.Comp {
		id, rev := compKey(h)
		return fmt.Sprintf("%d.%d", id, rev)
	}
	return fmt.Sprint(h)
}

// textKey: the caller chooses the key of a new target (no auto increment) and the dump
// shows the key as text.
func (r relSpec) textKey() bool { return r.Str || r.Comp }

// Composite keys: handle h <-> (ID, Rev) = ((h+1)/2, (h+1)%2): 1 = (1,0), 2 = (1,1), 3 = (2,0), ...
// Every second key has the legitimate zero part Rev = 0.
func compKey(h uint) (id, rev uint) { return (h + 1) / 2, (h + 1) % 2 }

func compHandle(id, rev uint) uint {
	if id == 0 {
		return 0
	}
	return (id-1)*2 + rev + 1
}

var belongsToRels = []string{"Boss", "Chief", "Guild"}
var m2mRels = []string{"Tags", "Langs", "Refs", "Clubs"}

// guildCode is the referenced (non-primary) column value of a Guild: derived from its unique name.
func guildCode(name string) string { return "c-" + name }

// Setup is everything fixed before the first operation.
type Setup struct {
	Kind     string // relation name the history stays on, or "mixed"
	NOwners  int    // saved owners 1..NOwners
	Mem      []uint // owners held in memory: one (single mode) or the slice given to Model(&owners)
	Slice    bool   // operations go through db.Model(&owners)
	PtrElems bool   // the slice is []*Owner instead of []Owner
	Preload  bool   // in-memory owners start with seeded links, loaded with Preload
	ByValue  bool   // slice mode: db.Model(owners) instead of db.Model(&owners)
	PtrPtr   bool   // single mode: owner := &Owner{..}; db.Model(&owner) - a pointer to the pointer variable (**Owner)
	Cfg      Cfg    // gorm.Config / dialector switches of the handle
	// seeded links (plain SQL, before the first operation)
	FK    map[string][]string  // relation -> holder of target 1..poolSize ("" | "owners/2" | "others/1")
	BT    map[string][]uint    // belongs-to relation -> target of owner 1..NOwners (0 = none)
	Pairs map[string][][2]uint // many-to-many relation -> (owner, target)
}

// Cfg are the Config / dialector switches that reach the association code.
type Cfg struct {
	SkipTx      bool // Config.SkipDefaultTransaction
	Batch       int  // Config.CreateBatchSize (targets of one call are inserted in batches)
	QueryFields bool // Config.QueryFields
	NoReturning bool // dialector without RETURNING (keys of new targets come from LastInsertId)
	FullSave    bool // Config.FullSaveAssociations
}

func (c Cfg) String() string {
	return fmt.Sprintf("cfg{skiptx=%v batch=%d queryfields=%v noreturning=%v fullsave=%v}", c.SkipTx, c.Batch, c.QueryFields, c.NoReturning, c.FullSave)
}

// Val names one value handed to gorm: a fresh copy of a saved target, or a new unsaved one.
type Val struct {
	ID     uint
	New    string
	Code   string // key of a new string-keyed target
	Key    uint   // handle of the key of a new composite-keyed target
	Back   bool   // the value carries its back reference: a saved target is loaded with Preload("Owner")
	BackID uint   // ... a new target is built with Owner: &<fresh copy of this owner>
}

func (v Val) String() string {
	if v.New != "" {
		if v.Code != "" {
			return "new(" + v.New + " key " + v.Code + ")"
		}
		if v.Key != 0 {
			ki, kr := compKey(v.Key)
			return fmt.Sprintf("new(%s key %d.%d)", v.New, ki, kr)
		}
		if v.BackID != 0 {
			return fmt.Sprintf("new(%s Owner:&o%d)", v.New, v.BackID)
		}
		return "new(" + v.New + ")"
	}
	if v.Back {
		return fmt.Sprintf("#%d+Preload(Owner)", v.ID)
	}
	return fmt.Sprintf("#%d", v.ID)
}

// Step is one association-mode call.
type Step struct {
	Rel      string
	Act      string // append | replace | delete | clear | count | find
	Unscoped bool
	Args     [][]Val  // append/replace: one entry per in-memory owner; delete: one entry
	Forms    []string // how each entry is passed: ptrs | slice | ptrslice | sliceptr | mixed | ptrarray | value | own-field
	// how the call is reached
	Handle     string  // "" db | ctx | session | newdb | prepared | tx (Begin..Commit) | txfunc (db.Transaction)
	DBUnscoped bool    // db.Unscoped().Model(..).Association(..).Unscoped(): permanent delete
	Omit       bool    // db.Omit("<Rel>.*"): do not upsert the (saved) many-to-many targets, only join rows
	Own        int     // own-* forms of Delete: index of the in-memory owner whose own relation field is used
	OwnIdx     [][]int // own-subslice / own-pointers: per Args entry, the indices into the owner's own field
	Fault      int     // k > 0: the k-th driver call (begin/commit/prepare/exec/query) of this call fails (injected)
}

func (s Step) String() string {
	u := ""
	if s.Unscoped {
		u = ".Unscoped()"
	}
	var a []string
	for i, vs := range s.Args {
		var x []string
		for _, v := range vs {
			x = append(x, v.String())
		}
		f := s.Forms[i]
		if i < len(s.OwnIdx) && s.OwnIdx[i] != nil {
			f += fmt.Sprint(s.OwnIdx[i])
		}
		a = append(a, f+"["+strings.Join(x, ",")+"]")
	}
	pre := ""
	if s.Fault > 0 {
		pre += fmt.Sprintf("fault@%d:", s.Fault)
	}
	if s.Handle != "" {
		pre += s.Handle + ":"
	}
	if s.DBUnscoped {
		pre += "db.Unscoped():"
	}
	if s.Omit {
		pre += "Omit(" + s.Rel + ".*):"
	}
	if len(s.Forms) == 1 && strings.HasPrefix(s.Forms[0], "own-") && s.Act == "delete" {
		pre += fmt.Sprintf("own%d:", s.Own)
	}
	return fmt.Sprintf("%s%s%s.%s(%s)", pre, s.Rel, u, s.Act, strings.Join(a, "; "))
}

func (s Step) mutating() bool { return s.Act != "count" && s.Act != "find" }

func (su Setup) String() string {
	mode := "single"
	if su.Slice {
		mode = "slice[]Owner"
		if su.PtrElems {
			mode = "slice[]*Owner"
		}
	}
	var fk []string
	for _, r := range rels {
		if r.fkFamily() {
			fk = append(fk, r.Name+"="+strings.Join(su.FK[r.Name], "|"))
		}
	}
	if su.ByValue {
		mode += "(by value)"
	}
	if su.PtrPtr {
		mode += "(**Owner)"
	}
	mode += " " + su.Cfg.String()
	return fmt.Sprintf("kind=%s owners=%d mem=%v mode=%s preload=%v seed{%s boss=%v chief=%v guild=%v tags=%v langs=%v refs=%v clubs=%v}",
		su.Kind, su.NOwners, su.Mem, mode, su.Preload, strings.Join(fk, " "), su.BT["Boss"], su.BT["Chief"], su.BT["Guild"], su.Pairs["Tags"], su.Pairs["Langs"], su.Pairs["Refs"], su.Pairs["Clubs"])
}

// ---- reference model ------------------------------------------------------------------------------

type model struct {
	nOwners int
	rows    map[string]map[uint]string  // relation -> target key -> name (rows that exist)
	holder  map[string]map[uint]string  // fk-family relation -> target key -> holder ("" = no link)
	boss    map[string]map[uint]uint    // belongs-to relation -> owner -> target (0 = none)
	pairs   map[string]map[[2]uint]bool // many-to-many relation -> (owner, target)
	gcodes  map[uint]string             // guild handle -> its code (kept when the row is deleted)
	soft    map[uint][2]string          // soft-deleted rows of manies: key -> {name, holder still stored in owner_id}
}

func ownersHolder(o uint) string { return fmt.Sprintf("owners/%d", o) }

func newModel(su Setup) *model {
	m := &model{nOwners: su.NOwners, rows: map[string]map[uint]string{}, holder: map[string]map[uint]string{},
		boss: map[string]map[uint]uint{"Boss": {}, "Chief": {}, "Guild": {}}, pairs: map[string]map[[2]uint]bool{"Tags": {}, "Langs": {}, "Refs": {}, "Clubs": {}},
		gcodes: map[uint]string{}, soft: map[uint][2]string{}}
	for _, r := range rels {
		m.rows[r.Name] = map[uint]string{}
		if r.fkFamily() {
			m.holder[r.Name] = map[uint]string{}
		}
		for id := uint(1); id <= poolSize; id++ {
			m.rows[r.Name][id] = fmt.Sprintf("%s%d", strings.ToLower(r.Name), id)
			if r.fkFamily() {
				m.holder[r.Name][id] = su.FK[r.Name][id-1]
			}
		}
	}
	for _, rn := range belongsToRels {
		for i, b := range su.BT[rn] {
			m.boss[rn][uint(i+1)] = b
		}
	}
	for id, n := range m.rows["Guild"] {
		m.gcodes[id] = guildCode(n)
	}
	for rn, ps := range su.Pairs {
		for _, p := range ps {
			m.pairs[rn][p] = true
		}
	}
	return m
}

func sortedKeys(m map[uint]string) []uint {
	out := make([]uint, 0, len(m))
	for k := range m {
		out = append(out, k)
	}
	sort.Slice(out, func(i, j int) bool { return out[i] < out[j] })
	return out
}

// linked returns the targets linked to any of the owners (sorted, one entry per link).
func (m *model) linked(r relSpec, owners []uint) []uint {
	var out []uint
	switch {
	case r.fkFamily():
		for _, t := range sortedKeys(m.rows[r.Name]) {
			for _, o := range owners {
				if m.holder[r.Name][t] == ownersHolder(o) {
					out = append(out, t)
				}
			}
		}
	case r.Kind == belongsTo:
		for _, o := range owners {
			if b := m.boss[r.Name][o]; b != 0 {
				out = append(out, b)
			}
		}
	default:
		for p := range m.pairs[r.Name] {
			for _, o := range owners {
				if p[0] == o {
					out = append(out, p[1])
				}
			}
		}
	}
	sort.Slice(out, func(i, j int) bool { return out[i] < out[j] })
	return out
}

func distinct(in []uint) []uint {
	var out []uint
	for i, v := range in {
		if i == 0 || v != in[i-1] {
			out = append(out, v)
		}
	}
	return out
}

func contains(xs []uint, x uint) bool {
	for _, v := range xs {
		if v == x {
			return true
		}
	}
	return false
}

// unlink removes the link of target t (fk family): the foreign key becomes NULL,
// or with Unscoped the row is deleted.
func (m *model) unlink(r relSpec, t uint, unscoped, hard bool) {
	if unscoped && !hard && r.Name == "Many" { // soft delete: the row stays, flagged, owner_id untouched
		m.soft[t] = [2]string{m.rows[r.Name][t], m.holder[r.Name][t]}
	}
	if unscoped {
		delete(m.rows[r.Name], t)
		delete(m.holder[r.Name], t)
		return
	}
	m.holder[r.Name][t] = ""
}

// apply performs the step on the model. args carry resolved keys (new targets
// already have the key the database gave them).
func (m *model) apply(s Step, mem []uint, args [][]uint) {
	r := relByName(s.Rel)
	switch {
	case r.fkFamily():
		switch s.Act {
		case "append", "replace":
			for i, o := range mem {
				keep := map[uint]bool{}
				for _, t := range args[i] {
					m.holder[r.Name][t] = ownersHolder(o)
					keep[t] = true
				}
				if r.Kind == hasOne { // a has-one owner keeps only the value set last
					keep = map[uint]bool{args[i][len(args[i])-1]: true}
				}
				if s.Act == "replace" || r.Kind == hasOne {
					for _, t := range sortedKeys(m.rows[r.Name]) {
						if m.holder[r.Name][t] == ownersHolder(o) && !keep[t] {
							m.unlink(r, t, s.Unscoped, s.DBUnscoped)
						}
					}
				}
			}
		case "delete":
			for _, t := range args[0] {
				for _, o := range mem {
					if _, ok := m.rows[r.Name][t]; ok && m.holder[r.Name][t] == ownersHolder(o) {
						m.unlink(r, t, s.Unscoped, s.DBUnscoped)
					}
				}
			}
		case "clear":
			for _, t := range sortedKeys(m.rows[r.Name]) {
				for _, o := range mem {
					if m.holder[r.Name][t] == ownersHolder(o) {
						m.unlink(r, t, s.Unscoped, s.DBUnscoped)
					}
				}
			}
		}
		if r.Name == "Many" && s.Unscoped && s.DBUnscoped && (s.Act == "clear" || s.Act == "replace") {
			// the permanent delete has no deleted_at filter: soft-deleted rows that still carry the owner's key go too
			for t, v := range m.soft {
				for _, o := range mem {
					if v[1] == ownersHolder(o) {
						delete(m.soft, t)
					}
				}
			}
		}
	case r.Kind == belongsTo:
		var removed []uint
		switch s.Act {
		case "append", "replace":
			for i, o := range mem {
				nb := args[i][len(args[i])-1]
				if old := m.boss[r.Name][o]; old != 0 && old != nb {
					removed = append(removed, old)
				}
				m.boss[r.Name][o] = nb
			}
		case "delete":
			for _, o := range mem {
				if b := m.boss[r.Name][o]; b != 0 && contains(args[0], b) {
					removed = append(removed, b)
					m.boss[r.Name][o] = 0
				}
			}
		case "clear":
			for _, o := range mem {
				if b := m.boss[r.Name][o]; b != 0 {
					removed = append(removed, b)
					m.boss[r.Name][o] = 0
				}
			}
		}
		if s.Unscoped {
			// the records whose links were removed are deleted - except a record one of the operated
			// owners points at after the call (the call itself set that link)
			still := map[uint]bool{}
			for _, o := range mem {
				if b := m.boss[r.Name][o]; b != 0 {
					still[b] = true
				}
			}
			for _, b := range removed {
				if !still[b] {
					delete(m.rows[r.Name], b)
				}
			}
		}
	default: // many to many: Unscoped has no meaning for join rows (documented), targets always survive
		switch s.Act {
		case "append", "replace":
			for i, o := range mem {
				keep := map[uint]bool{}
				for _, t := range args[i] {
					m.pairs[r.Name][[2]uint{o, t}] = true
					keep[t] = true
				}
				if s.Act == "replace" {
					for p := range m.pairs[r.Name] {
						if p[0] == o && !keep[p[1]] {
							delete(m.pairs[r.Name], p)
						}
					}
				}
			}
		case "delete":
			for _, t := range args[0] {
				for _, o := range mem {
					delete(m.pairs[r.Name], [2]uint{o, t})
				}
			}
		case "clear":
			for p := range m.pairs[r.Name] {
				if contains(mem, p[0]) {
					delete(m.pairs[r.Name], p)
				}
			}
		}
	}
}

// render is the canonical text of everything the model says the database holds.
func (m *model) render() string {
	var b strings.Builder
	for _, r := range rels {
		var es []string
		for _, t := range sortedKeys(m.rows[r.Name]) {
			if r.fkFamily() {
				h := m.holder[r.Name][t]
				if h == "" {
					h = "-"
				}
				es = append(es, fmt.Sprintf(" %s=%s>%s", r.keyText(t), m.rows[r.Name][t], h))
			} else {
				es = append(es, fmt.Sprintf(" %s=%s", r.keyText(t), m.rows[r.Name][t]))
			}
		}
		if r.textKey() {
			sort.Strings(es)
		}
		if r.Name == "Many" && len(m.soft) > 0 { // soft-deleted rows, merged in key order
			type ent struct {
				id uint
				e  string
			}
			var all []ent
			for i, t := range sortedKeys(m.rows[r.Name]) {
				all = append(all, ent{t, es[i]})
			}
			for t, v := range m.soft {
				all = append(all, ent{t, fmt.Sprintf(" %d=%s>DELETED", t, v[0])})
			}
			sort.Slice(all, func(i, j int) bool { return all[i].id < all[j].id })
			es = nil
			for _, x := range all {
				es = append(es, x.e)
			}
		}
		b.WriteString(r.Table + ":" + strings.Join(es, "") + "\n")
	}
	b.WriteString("owners:")
	for o := uint(1); o <= uint(m.nOwners); o++ {
		g := "-"
		if h := m.boss["Guild"][o]; h != 0 {
			g = m.gcodes[h]
		}
		fmt.Fprintf(&b, " %d=o%d>boss/%d>chief/%d>guild/%s", o, o, m.boss["Boss"][o], m.boss["Chief"][o], g)
	}
	b.WriteString("\n")
	for _, r := range rels {
		if r.Kind != m2m {
			continue
		}
		var ps [][2]uint
		for p := range m.pairs[r.Name] {
			ps = append(ps, p)
		}
		sort.Slice(ps, func(i, j int) bool { return ps[i][0] < ps[j][0] || ps[i][0] == ps[j][0] && ps[i][1] < ps[j][1] })
		var es []string
		for _, p := range ps {
			if r.Ref { // the join row holds the referenced column value
				es = append(es, fmt.Sprintf(" %d-%s", p[0], guildCode(m.rows[r.Name][p[1]])))
			} else {
				es = append(es, fmt.Sprintf(" %d-%s", p[0], r.keyText(p[1])))
			}
		}
		if r.textKey() || r.Ref {
			sort.Strings(es)
		}
		b.WriteString(r.Join + ":" + strings.Join(es, "") + "\n")
	}
	return b.String()
}

// ---- database plumbing ----------------------------------------------------------------------------

var ddlCache []string

func openDB(su Setup) *testdb.DB {
	d := testdb.Open(testdb.Options{NoReturning: su.Cfg.NoReturning, Config: gorm.Config{DisableForeignKeyConstraintWhenMigrating: true,
		SkipDefaultTransaction: su.Cfg.SkipTx, CreateBatchSize: su.Cfg.Batch, QueryFields: su.Cfg.QueryFields, FullSaveAssociations: su.Cfg.FullSave}})
	if ddlCache == nil {
		if err := d.AutoMigrate(&Owner{}, &One{}, &Many{}, &Note{}, &Boss{}, &Tag{}, &Chief{}, &Part{}, &Lang{}, &Doc{}, &Ref{}, &Guild{}, &Badge{}, &Seal{}, &Club{}); err != nil {
			panic("harness: migrate: " + err.Error())
		}
		var stmts []string
		if err := d.Raw("SELECT sql FROM sqlite_master WHERE sql IS NOT NULL AND name NOT LIKE 'sqlite_%' ORDER BY rowid").Scan(&stmts).Error; err != nil || len(stmts) < 17 {
			panic(fmt.Sprintf("harness: capture ddl: %v %v", err, stmts))
		}
		ddlCache = stmts
	} else {
		if _, err := d.SQL.Exec(strings.Join(ddlCache, ";\n")); err != nil {
			panic("harness: ddl: " + err.Error())
		}
	}
	// seed rows and links with plain SQL (domain note D2)
	var q strings.Builder
	for o := 1; o <= su.NOwners; o++ {
		b, c, g := "NULL", "NULL", "NULL"
		if su.BT["Boss"][o-1] != 0 {
			b = fmt.Sprint(su.BT["Boss"][o-1])
		}
		if su.BT["Chief"][o-1] != 0 {
			c = fmt.Sprint(su.BT["Chief"][o-1])
		}
		if su.BT["Guild"][o-1] != 0 {
			g = fmt.Sprintf("'%s'", guildCode(fmt.Sprintf("guild%d", su.BT["Guild"][o-1])))
		}
		fmt.Fprintf(&q, "INSERT INTO owners (id, name, code, boss_id, chief_id, guild_code) VALUES (%d, 'o%d', 'oc%d', %s, %s, %s);\n", o, o, o, b, c, g)
	}
	for _, r := range rels {
		for id := 1; id <= poolSize; id++ {
			name := fmt.Sprintf("%s%d", strings.ToLower(r.Name), id)
			switch {
			case r.Poly != "":
				h := su.FK[r.Name][id-1]
				if h == "" {
					fmt.Fprintf(&q, "INSERT INTO %s (id, name, holder_id, holder_type) VALUES (%d, '%s', NULL, '');\n", r.Table, id, name)
				} else {
					p := strings.Split(h, "/")
					if p[0] == "owners" {
						p[0] = r.Poly
					}
					fmt.Fprintf(&q, "INSERT INTO %s (id, name, holder_id, holder_type) VALUES (%d, '%s', %s, '%s');\n", r.Table, id, name, p[1], p[0])
				}
			case r.fkFamily():
				h := su.FK[r.Name][id-1]
				fk := "NULL"
				if h != "" {
					fk = strings.Split(h, "/")[1]
				}
				if r.Str {
					fmt.Fprintf(&q, "INSERT INTO %s (code, name, owner_id) VALUES ('%s', '%s', %s);\n", r.Table, codeOf(uint(id)), name, fk)
				} else if r.Comp {
					ki, kr := compKey(uint(id))
					fmt.Fprintf(&q, "INSERT INTO %s (id, rev, name, owner_id) VALUES (%d, %d, '%s', %s);\n", r.Table, ki, kr, name, fk)
				} else if r.Ref {
					if fk != "NULL" {
						fk = "'oc" + fk + "'"
					}
					fmt.Fprintf(&q, "INSERT INTO %s (id, name, owner_code) VALUES (%d, '%s', %s);\n", r.Table, id, name, fk)
				} else {
					fmt.Fprintf(&q, "INSERT INTO %s (id, name, owner_id) VALUES (%d, '%s', %s);\n", r.Table, id, name, fk)
				}
			case r.Str:
				fmt.Fprintf(&q, "INSERT INTO %s (code, name) VALUES ('%s', '%s');\n", r.Table, codeOf(uint(id)), name)
			case r.Comp:
				ki, kr := compKey(uint(id))
				fmt.Fprintf(&q, "INSERT INTO %s (id, rev, name) VALUES (%d, %d, '%s');\n", r.Table, ki, kr, name)
			case r.Ref: // guilds (code), clubs (slug): the referenced non-primary column
				col := "code"
				if r.Name == "Clubs" {
					col = "slug"
				}
				fmt.Fprintf(&q, "INSERT INTO %s (id, name, %s) VALUES (%d, '%s', '%s');\n", r.Table, col, id, name, guildCode(name))
			default:
				fmt.Fprintf(&q, "INSERT INTO %s (id, name) VALUES (%d, '%s');\n", r.Table, id, name)
			}
		}
	}
	for _, p := range su.Pairs["Tags"] {
		fmt.Fprintf(&q, "INSERT INTO owner_tags (owner_key, tag_key) VALUES (%d, %d);\n", p[0], p[1])
	}
	for _, p := range su.Pairs["Langs"] {
		fmt.Fprintf(&q, "INSERT INTO owner_langs (owner_id, lang_code) VALUES (%d, '%s');\n", p[0], codeOf(p[1]))
	}
	for _, p := range su.Pairs["Clubs"] {
		fmt.Fprintf(&q, "INSERT INTO owner_clubs (owner_id, club_slug) VALUES (%d, '%s');\n", p[0], guildCode(fmt.Sprintf("clubs%d", p[1])))
	}
	for _, p := range su.Pairs["Refs"] {
		ki, kr := compKey(p[1])
		fmt.Fprintf(&q, "INSERT INTO owner_refs (owner_id, ref_id, ref_rev) VALUES (%d, %d, %d);\n", p[0], ki, kr)
	}
	if _, err := d.SQL.Exec(q.String()); err != nil {
		panic("harness: seed: " + err.Error() + "\n" + q.String())
	}
	d.Rec.Reset()
	return d
}

const dumpSQL = `SELECT 0, id, name, coalesce(owner_id, 0), '' FROM ones
UNION ALL SELECT 1, id, name, coalesce(owner_id, 0), CASE WHEN deleted_at IS NULL THEN '' ELSE 'D' END FROM manies
UNION ALL SELECT 2, id, name, coalesce(holder_id, 0), holder_type FROM notes
UNION ALL SELECT 3, id, name, 0, '' FROM bosses
UNION ALL SELECT 4, id, name, 0, '' FROM tags
UNION ALL SELECT 5, id, name, 0, '' FROM chiefs
UNION ALL SELECT 6, id, name, coalesce(boss_id, 0), cast(coalesce(chief_id, 0) AS text) || '>guild/' || coalesce(guild_code, '-') FROM owners
UNION ALL SELECT 7, owner_key, '', tag_key, '' FROM owner_tags
UNION ALL SELECT 8, 0, name, coalesce(owner_id, 0), code FROM parts
UNION ALL SELECT 9, 0, name, 0, code FROM langs
UNION ALL SELECT 10, owner_id, '', 0, lang_code FROM owner_langs
UNION ALL SELECT 11, 0, name, coalesce(owner_id, 0), id || '.' || rev FROM docs
UNION ALL SELECT 12, 0, name, 0, id || '.' || rev FROM refs
UNION ALL SELECT 13, owner_id, '', 0, ref_id || '.' || ref_rev FROM owner_refs
UNION ALL SELECT 14, id, name, 0, '' FROM guilds
UNION ALL SELECT 15, id, name, 0, coalesce(owner_code, '') FROM badges
UNION ALL SELECT 16, id, name, coalesce(holder_id, 0), CASE holder_type WHEN 'master' THEN 'owners' ELSE holder_type END FROM seals
UNION ALL SELECT 17, id, name, 0, '' FROM clubs
UNION ALL SELECT 18, owner_id, '', 0, club_slug FROM owner_clubs
ORDER BY 1, 2, 4`

// dump reads every table with plain SQL (a fresh query, never through the operated
// objects) and renders it like model.render.
func dump(d *testdb.DB) string {
	d.Rec.Pause()
	defer d.Rec.Resume()
	rows, err := d.SQL.Query(dumpSQL)
	if err != nil {
		panic("harness: dump: " + err.Error())
	}
	defer rows.Close()
	ent := make([][]string, 19)
	for rows.Next() {
		var tbl int
		var id, fk uint
		var name, typ string
		if err := rows.Scan(&tbl, &id, &name, &fk, &typ); err != nil {
			panic("harness: dump scan: " + err.Error())
		}
		e := ""
		switch tbl {
		case 0, 1:
			switch {
			case typ == "D":
				e = fmt.Sprintf(" %d=%s>DELETED", id, name)
			case fk == 0:
				e = fmt.Sprintf(" %d=%s>-", id, name)
			default:
				e = fmt.Sprintf(" %d=%s>owners/%d", id, name, fk)
			}
		case 2, 16:
			if fk == 0 {
				e = fmt.Sprintf(" %d=%s>-", id, name)
			} else {
				e = fmt.Sprintf(" %d=%s>%s/%d", id, name, typ, fk)
			}
		case 3, 4, 5, 14, 17:
			e = fmt.Sprintf(" %d=%s", id, name)
		case 6:
			e = fmt.Sprintf(" %d=%s>boss/%d>chief/%s", id, name, fk, typ)
		case 7:
			e = fmt.Sprintf(" %d-%d", id, fk)
		case 8, 11: // text-keyed children
			if fk == 0 {
				e = fmt.Sprintf(" %s=%s>-", typ, name)
			} else {
				e = fmt.Sprintf(" %s=%s>owners/%d", typ, name, fk)
			}
		case 9, 12:
			e = fmt.Sprintf(" %s=%s", typ, name)
		case 10, 13, 18:
			e = fmt.Sprintf(" %d-%s", id, typ)
		case 15: // children linked through the owner's code column "oc<ID>"
			switch {
			case typ == "":
				e = fmt.Sprintf(" %d=%s>-", id, name)
			case strings.HasPrefix(typ, "oc"):
				e = fmt.Sprintf(" %d=%s>owners/%s", id, name, typ[2:])
			default:
				e = fmt.Sprintf(" %d=%s>?%s", id, name, typ)
			}
		}
		ent[tbl] = append(ent[tbl], e)
	}
	var out strings.Builder
	for _, t := range []struct {
		n    string
		i    int
		text bool
	}{{"ones", 0, false}, {"manies", 1, false}, {"notes", 2, false}, {"bosses", 3, false}, {"tags", 4, false}, {"chiefs", 5, false},
		{"parts", 8, true}, {"langs", 9, true}, {"docs", 11, true}, {"refs", 12, true}, {"guilds", 14, false}, {"badges", 15, false}, {"seals", 16, false}, {"clubs", 17, false},
		{"owners", 6, false}, {"owner_tags", 7, false}, {"owner_langs", 10, true}, {"owner_refs", 13, true}, {"owner_clubs", 18, true}} {
		if t.text { // text keys: sorted as text, like model.render does
			sort.Strings(ent[t.i])
		}
		out.WriteString(t.n + ":" + strings.Join(ent[t.i], "") + "\n")
	}
	return out.String()
}

// ---- executing a history ----------------------------------------------------------------------------

type hist struct {
	d       *testdb.DB
	su      Setup
	m       *model
	single  *Owner   // single mode: the one owner object that receives every operation
	vals    []Owner  // slice mode, []Owner
	ptrs    []*Owner // slice mode, []*Owner
	newSeq  int
	nextStr map[string]uint // next unused handle of a string-keyed relation
	// oneUnlinked: the last has-one call of the history was a Delete or Clear (mixed histories
	// then try a belongs-to Clear more often: the shape of the repaired hasone-zero-pointer finding)
	oneUnlinked  bool
	noExclusions bool // witness runs: open classes are not excluded
	stepNo       int
}

func start(su Setup) *hist {
	h := &hist{su: su, m: newModel(su), nextStr: map[string]uint{"Parts": poolSize + 1, "Langs": poolSize + 1, "Docs": poolSize + 1, "Refs": poolSize + 1}}
	h.d = openDB(su)
	load := func(id uint) *Owner {
		o := &Owner{}
		tx := h.d.DB
		if su.Preload {
			tx = tx.Preload(clause.Associations)
		}
		if err := tx.First(o, id).Error; err != nil {
			panic("harness: load owner: " + err.Error())
		}
		return o
	}
	if !su.Slice {
		h.single = load(su.Mem[0])
	} else {
		for _, id := range su.Mem {
			o := load(id)
			if su.PtrElems {
				h.ptrs = append(h.ptrs, o)
			} else {
				h.vals = append(h.vals, *o)
			}
		}
	}
	h.d.Rec.Reset()
	return h
}

func (h *hist) close() { h.d.Close() }

// modelArg is what goes into db.Model(...): always the same object(s) (domain note D1).
func (h *hist) modelArg() interface{} {
	switch {
	case !h.su.Slice && h.su.PtrPtr:
		return &h.single // **Owner: Create/First/Updates accept it, Association dereferences every level
	case !h.su.Slice:
		return h.single
	case h.su.PtrElems && h.su.ByValue:
		return h.ptrs
	case h.su.PtrElems:
		return &h.ptrs
	case h.su.ByValue:
		return h.vals
	default:
		return &h.vals
	}
}

func (h *hist) memOwner(i int) *Owner {
	switch {
	case !h.su.Slice:
		return h.single
	case h.su.PtrElems:
		return h.ptrs[i]
	default:
		return &h.vals[i]
	}
}

// fresh builds the object handed to gorm for v: a fresh copy loaded by key, or
// a new unsaved value (domain note D3; the harness never reads it again).
func (h *hist) fresh(r relSpec, v Val) reflect.Value {
	p := reflect.New(r.Elem)
	if v.New != "" {
		p.Elem().FieldByName("Name").SetString(v.New)
		if v.Code != "" {
			p.Elem().FieldByName("Code").SetString(v.Code)
		}
		if v.Key != 0 { // composite key chosen by the caller
			ki, kr := compKey(v.Key)
			p.Elem().FieldByName("ID").SetUint(uint64(ki))
			p.Elem().FieldByName("Rev").SetUint(uint64(kr))
		}
		if r.Name == "Guild" {
			p.Elem().FieldByName("Code").SetString(guildCode(v.New))
		}
		if r.Name == "Clubs" {
			p.Elem().FieldByName("Slug").SetString(guildCode(v.New))
		}
		if v.BackID != 0 { // built like Many{Name: .., Owner: &other}
			o := &Owner{}
			h.d.Rec.Pause()
			err := h.d.First(o, v.BackID).Error
			h.d.Rec.Resume()
			if err != nil {
				panic("harness: load back reference: " + err.Error())
			}
			p.Elem().FieldByName("Owner").Set(reflect.ValueOf(o))
		}
		return p
	}
	h.d.Rec.Pause()
	var err error
	if v.Back {
		err = h.d.Preload("Owner").First(p.Interface(), v.ID).Error
	} else if r.Str {
		err = h.d.First(p.Interface(), "code = ?", codeOf(v.ID)).Error
	} else if r.Comp {
		ki, kr := compKey(v.ID)
		err = h.d.First(p.Interface(), "id = ? AND rev = ?", ki, kr).Error
	} else {
		err = h.d.First(p.Interface(), v.ID).Error
	}
	h.d.Rec.Resume()
	if err != nil {
		panic(fmt.Sprintf("harness: load %s %s: %v", r.Table, r.keyText(v.ID), err))
	}
	return p
}

// pack turns the values of one Args entry into call arguments of the given form.
func (h *hist) pack(r relSpec, vs []Val, form string) []interface{} {
	var ps []reflect.Value
	for i, v := range vs {
		// on even calls a duplicate of a saved target in a pointer form is the SAME pointer again
		// (GetIdentityFieldValuesMap skips an element it has already seen), else another fresh copy
		if h.stepNo%2 == 0 && v.ID != 0 && (form == "ptrs" || form == "sliceptr") {
			same := -1
			for j := 0; j < i; j++ {
				if vs[j].ID == v.ID {
					same = j
				}
			}
			if same >= 0 {
				ps = append(ps, ps[same])
				continue
			}
		}
		ps = append(ps, h.fresh(r, v))
	}
	switch form {
	case "ptrs":
		out := make([]interface{}, len(ps))
		for i, p := range ps {
			out[i] = p.Interface()
		}
		return out
	case "value": // Delete(T{...}, T{...}): plain struct values
		out := make([]interface{}, len(ps))
		for i, p := range ps {
			out[i] = p.Elem().Interface()
		}
		return out
	case "mixed": // Append(&a, []T{b, c}): a pointer followed by a slice
		if len(ps) < 2 {
			return []interface{}{ps[0].Interface()}
		}
		sl := reflect.MakeSlice(reflect.SliceOf(r.Elem), 0, len(ps))
		for _, p := range ps[1:] {
			sl = reflect.Append(sl, p.Elem())
		}
		return []interface{}{ps[0].Interface(), sl.Interface()}
	case "ptrarray": // *[n]T
		arr := reflect.New(reflect.ArrayOf(len(ps), r.Elem))
		for i, p := range ps {
			arr.Elem().Index(i).Set(p.Elem())
		}
		return []interface{}{arr.Interface()}
	case "sliceptr":
		s := reflect.MakeSlice(reflect.SliceOf(reflect.PointerTo(r.Elem)), 0, len(ps))
		for _, p := range ps {
			s = reflect.Append(s, p)
		}
		return []interface{}{s.Interface()}
	default: // slice | ptrslice
		s := reflect.MakeSlice(reflect.SliceOf(r.Elem), 0, len(ps))
		for _, p := range ps {
			s = reflect.Append(s, p.Elem())
		}
		if form == "ptrslice" {
			sp := reflect.New(s.Type())
			sp.Elem().Set(s)
			return []interface{}{sp.Interface()}
		}
		return []interface{}{s.Interface()}
	}
}

// handleOf reads the key of a target struct (0 = zero key; an unknown string key gets a
// handle no model entry has).
func handleOf(v reflect.Value, r relSpec) uint {
	if r.Comp {
		return compHandle(uint(v.FieldByName("ID").Uint()), uint(v.FieldByName("Rev").Uint()))
	}
	if !r.Str {
		if f := v.FieldByName("ID"); f.Kind() == reflect.Int {
			return uint(f.Int())
		}
		return uint(v.FieldByName("ID").Uint())
	}
	c := v.FieldByName("Code").String()
	if c == "" {
		return 0
	}
	if h, ok := strHandles[c]; ok {
		return h
	}
	return 999999
}

// fieldKeys: the distinct non-zero keys of the records the owner's in-memory relation field holds.
func fieldKeys(o *Owner, r relSpec) []uint {
	f := reflect.ValueOf(o).Elem().FieldByName(r.Name)
	var out []uint
	add := func(v reflect.Value) {
		for v.Kind() == reflect.Ptr {
			if v.IsNil() {
				return
			}
			v = v.Elem()
		}
		if id := handleOf(v, r); id != 0 {
			out = append(out, id)
		}
	}
	if f.Kind() == reflect.Slice {
		for i := 0; i < f.Len(); i++ {
			add(f.Index(i))
		}
	} else {
		add(f)
	}
	sort.Slice(out, func(i, j int) bool { return out[i] < out[j] })
	return distinct(out)
}

// knownClass returns the open known-finding class the step falls in ("" = none).
// The predicates are exact: see the witness tests at the end of the file.
func (h *hist) knownClass(s Step) string {
	r := relByName(s.Rel)
	if r.Kind == m2m && s.Act == "replace" && len(h.su.Mem) > 1 {
		// an owner keeps a link that Replace should remove because the target is among
		// the new values of another owner of the slice
		for i, o := range h.su.Mem {
			for j := range h.su.Mem {
				for _, v := range s.Args[j] {
					if j == i || v.ID == 0 || !h.m.pairs[r.Name][[2]uint{o, v.ID}] {
						continue
					}
					own := false
					for _, w := range s.Args[i] {
						own = own || w.ID == v.ID
					}
					if !own {
						return "m2m-slice-replace-union"
					}
				}
			}
		}
	}
	if r.Kind == belongsTo && s.Act == "clear" {
		// slice of owners whose other belongs-to relations differ: the Clear's unrestricted
		// UpdateColumns(map) writes one owner's other foreign key to every owner of the slice
		for _, other := range belongsToRels {
			for _, o := range h.su.Mem {
				if other != s.Rel && h.m.boss[other][o] != h.m.boss[other][h.su.Mem[0]] {
					return "belongsto-clear-slice-other-fk"
				}
			}
		}
	}
	// (the classes hasone-zero-pointer and belongsto-unscoped-{replace, replace-newtarget, replace-same,
	// delete-unnamed, references-nonprimary} are repaired in gorm: nothing is excluded for them, their
	// witnesses below are regression tests, and Unscoped belongs-to calls are fully inside the domain)
	return ""
}

// step executes one call and compares everything with the model. It returns a
// description of the first disagreement ("" = the property held for this step).
func (h *hist) step(s Step) string {
	r := relByName(s.Rel)
	mem := h.su.Mem
	before := h.m.render()
	h.d.Rec.Reset()

	h.stepNo++
	var callArgs []interface{}
	if len(s.Forms) == 1 && s.Forms[0] == "own-field" {
		// Delete(&owner.Rel): the owner's own relation field (pointer fields are passed as they are)
		f := reflect.ValueOf(h.memOwner(s.Own)).Elem().FieldByName(r.Name)
		if f.Kind() == reflect.Ptr {
			callArgs = []interface{}{f.Interface()}
		} else {
			callArgs = []interface{}{f.Addr().Interface()}
		}
	}
	for i, vs := range s.Args {
		if s.Forms[i] == "own-field" {
			break
		}
		if s.Forms[i] == "own-subslice" || s.Forms[i] == "own-pointers" {
			// elements of the owner's OWN by-value relation field are handed back:
			// owner.Rel[lo:hi] (aliasing its backing array) or &owner.Rel[k] in any order
			oi := i
			if s.Act == "delete" {
				oi = s.Own
			}
			f := reflect.ValueOf(h.memOwner(oi)).Elem().FieldByName(r.Name)
			idx := s.OwnIdx[i]
			if len(idx) == 0 || idx[len(idx)-1] >= f.Len() && s.Forms[i] == "own-subslice" {
				panic("harness: own-field indices out of range")
			}
			if s.Forms[i] == "own-subslice" {
				callArgs = append(callArgs, f.Slice(idx[0], idx[len(idx)-1]+1).Interface())
			} else {
				for _, k := range idx {
					callArgs = append(callArgs, f.Index(k).Addr().Interface())
				}
			}
			continue
		}
		a := h.pack(r, vs, s.Forms[i])
		if h.su.Slice && (s.Act == "append" || s.Act == "replace") {
			if len(a) != 1 {
				panic("harness: slice mode needs one argument per owner")
			}
		}
		callArgs = append(callArgs, a...)
	}
	call := func(db *gorm.DB) error {
		if s.DBUnscoped {
			db = db.Unscoped()
		}
		if s.Omit {
			db = db.Omit(s.Rel + ".*")
		}
		assoc := db.Model(h.modelArg()).Association(s.Rel)
		if s.Unscoped {
			assoc = assoc.Unscoped()
		}
		switch s.Act {
		case "append":
			return assoc.Append(callArgs...)
		case "replace":
			return assoc.Replace(callArgs...)
		case "delete":
			return assoc.Delete(callArgs...)
		case "clear":
			return assoc.Clear()
		}
		return nil // count, find: checked below for every step
	}
	var err error
	if s.Fault > 0 {
		h.d.Rec.SetFault(recdrv.FailNth(s.Fault-1, recdrv.ErrInjected))
	}
	switch s.Handle {
	case "tx":
		tx := h.d.Begin()
		err = call(tx)
		if e := tx.Commit().Error; err == nil {
			err = e
		}
	case "txfunc":
		err = h.d.Transaction(func(tx *gorm.DB) error { return call(tx) })
	case "ctx":
		err = call(h.d.WithContext(context.WithValue(context.Background(), ctxKey{}, "c12")))
	case "session":
		err = call(h.d.Session(&gorm.Session{}))
	case "newdb":
		err = call(h.d.Session(&gorm.Session{NewDB: true}))
	case "prepared":
		err = call(h.d.Session(&gorm.Session{PrepareStmt: true}))
	case "skiphooks":
		err = call(h.d.Session(&gorm.Session{SkipHooks: true}))
	default:
		err = call(h.d.DB)
	}
	fail := func(format string, a ...interface{}) string {
		var st []string
		for _, e := range h.d.Rec.Statements() {
			st = append(st, "      "+e.String())
		}
		return fmt.Sprintf("%s\n    step: %s\n    database before (model):\n%s    database after:\n%s    model after:\n%s    statements of the step:\n%s",
			fmt.Sprintf(format, a...), s, indent(before), indent(dump(h.d)), indent(h.m.render()), strings.Join(st, "\n"))
	}
	if s.Fault > 0 {
		h.d.Rec.SetFault(nil)
		fired := false
		for _, e := range h.d.Rec.Events() {
			fired = fired || e.Err == recdrv.ErrInjected
		}
		if fired {
			// a driver call of this association call failed: the call must say so. What is stored after a
			// failed call is C05's subject; the owner object is in no defined state, the history ends here.
			if err == nil {
				// open class slice-save-error-overwritten: Append/Replace on a slice of two or more owners saves
				// owner by owner and keeps only the error of the LAST save. Exactly the swallowed faults of
				// that path are excluded (the history ends); everywhere else a swallowed fault is a violation.
				if len(h.su.Mem) > 1 && (s.Act == "append" || s.Act == "replace") && !h.noExclusions && harness.OpenClass("C12", "slice-save-error-overwritten") {
					evid.Excluded("slice-save-error-overwritten")
					return faultEnd
				}
				return fail("driver call %d of %s failed (injected fault) but the call returned no error", s.Fault, s.Act)
			}
			return faultEnd
		}
	}
	if err != nil {
		return fail("%s returned an error: %v", s.Act, err)
	}

	// resolve the keys of new targets (unique names) and apply the step to the model
	resolved := make([][]uint, len(s.Args))
	for i, vs := range s.Args {
		for _, v := range vs {
			id := v.ID
			if v.New != "" {
				var ids []uint
				h.d.Rec.Pause()
				if r.Str {
					var codes []string
					h.d.Raw("SELECT code FROM "+r.Table+" WHERE name = ?", v.New).Scan(&codes)
					for _, c := range codes {
						ids = append(ids, strHandles[c]) // 0 for a key nobody chose
					}
				} else if r.Comp {
					var ks []struct{ ID, Rev uint }
					h.d.Raw("SELECT id, rev FROM "+r.Table+" WHERE name = ?", v.New).Scan(&ks)
					for _, k := range ks {
						ids = append(ids, compHandle(k.ID, k.Rev))
					}
				} else {
					h.d.Raw("SELECT id FROM "+r.Table+" WHERE name = ?", v.New).Scan(&ids)
				}
				h.d.Rec.Resume()
				if s.Act == "delete" {
					if len(ids) != 0 {
						return fail("Delete stored the unsaved value %s", v.New)
					}
					continue
				}
				if len(ids) != 1 {
					return fail("new target %s is stored %d times", v.New, len(ids))
				}
				if _, ok := h.m.rows[r.Name][ids[0]]; ok {
					return fail("new target %s took the key %s of an existing row", v.New, r.keyText(ids[0]))
				}
				if r.Str && codeOf(ids[0]) != v.Code {
					return fail("new target %s is stored under key %q instead of %q", v.New, codeOf(ids[0]), v.Code)
				}
				if r.Comp && ids[0] != v.Key {
					return fail("new target %s is stored under key %s instead of %s", v.New, r.keyText(ids[0]), r.keyText(v.Key))
				}
				if r.Name == "Guild" {
					h.m.gcodes[ids[0]] = guildCode(v.New)
				}
				id = ids[0]
				h.m.rows[r.Name][id] = v.New
				if r.fkFamily() {
					h.m.holder[r.Name][id] = ""
				}
			}
			resolved[i] = append(resolved[i], id)
		}
	}
	h.m.apply(s, mem, resolved)
	// (a) + (c): foreign keys, join rows and surviving target rows, read with plain SQL
	if got, want := dump(h.d), h.m.render(); got != want {
		return fail("stored links/records differ from the model")
	}

	// (b) Count and Find through the same owner object(s)
	links := h.m.linked(r, mem)
	var existing []uint
	for _, t := range links {
		if _, ok := h.m.rows[r.Name][t]; ok {
			existing = append(existing, t)
		}
	}
	// many-to-many links are (owner, target) pairs = join rows and has-one/has-many links are target rows:
	// Count and Find report every one of them. Only for belongs-to is a record shared by two owners of the
	// slice read either way (two links, one associated record) - and Count and Find must agree in any case.
	okCounts := map[int]bool{len(existing): true}
	if h.su.Slice && r.Kind == belongsTo {
		okCounts[len(distinct(existing))] = true
	}
	if h.su.Slice && r.Kind == m2m && len(existing) != len(distinct(existing)) {
		evid.Class("count/find:slice-many-to-many-target-shared-by-two-owners")
	}
	a2 := h.d.Model(h.modelArg()).Association(s.Rel)
	if s.Unscoped {
		a2 = a2.Unscoped()
	}
	cnt := a2.Count()
	if a2.Error != nil {
		return fail("Count returned an error: %v", a2.Error)
	}
	if !okCounts[int(cnt)] {
		return fail("Count() = %d, the model has %d link(s) %v", cnt, len(existing), existing)
	}
	a3 := h.d.Model(h.modelArg()).Association(s.Rel)
	if s.Unscoped {
		a3 = a3.Unscoped()
	}
	// destination alternates between *[]T and *[]*T
	newDest := func() reflect.Value {
		if h.stepNo%2 == 1 {
			return reflect.New(reflect.SliceOf(reflect.PointerTo(r.Elem)))
		}
		return reflect.New(reflect.SliceOf(r.Elem))
	}
	keysOf := func(out reflect.Value) []uint {
		var found []uint
		for i := 0; i < out.Elem().Len(); i++ {
			found = append(found, handleOf(reflect.Indirect(out.Elem().Index(i)), r))
		}
		sort.Slice(found, func(i, j int) bool { return found[i] < found[j] })
		return found
	}
	out := newDest()
	if err := a3.Find(out.Interface()); err != nil {
		return fail("Find returned an error: %v", err)
	}
	found := keysOf(out)
	if !okCounts[len(found)] || fmt.Sprint(distinct(found)) != fmt.Sprint(distinct(existing)) {
		return fail("Find() returned keys %v, the model links %v", found, existing)
	}
	if int(cnt) != len(found) {
		return fail("Count() = %d but Find() returned %d records %v (model links %v)", cnt, len(found), found, existing)
	}
	// Find/Count with conditions (documented: db.Model(&o).Where(..).Association(..).Find / Find(&out, conds)):
	// the linked targets whose name is in a given set
	if h.stepNo%2 == 0 && len(existing) > 0 {
		var names []string
		var want []uint
		for i, t := range distinct(existing) {
			if i%2 == 0 {
				names = append(names, h.m.rows[r.Name][t])
			}
		}
		for _, t := range existing {
			for _, n := range names {
				if h.m.rows[r.Name][t] == n {
					want = append(want, t)
				}
			}
		}
		okN := map[int]bool{len(want): true}
		if h.su.Slice && r.Kind == belongsTo {
			okN[len(distinct(want))] = true
		}
		a4 := h.d.Where("name IN ?", names).Model(h.modelArg()).Association(s.Rel)
		if c := a4.Count(); a4.Error != nil || !okN[int(c)] {
			return fail("Where(name IN %v)...Count() = %d (error %v), the model has %v", names, c, a4.Error, want)
		}
		o1 := newDest()
		if err := h.d.Model(h.modelArg()).Where("name IN ?", names).Association(s.Rel).Find(o1.Interface()); err != nil {
			return fail("Where(..)...Find returned an error: %v", err)
		}
		if f := keysOf(o1); !okN[len(f)] || fmt.Sprint(distinct(f)) != fmt.Sprint(distinct(want)) {
			return fail("Where(name IN %v)...Find() returned keys %v, the model has %v", names, f, want)
		}
		o2 := newDest()
		if err := h.d.Model(h.modelArg()).Association(s.Rel).Find(o2.Interface(), "name IN ?", names); err != nil {
			return fail("Find(out, conds) returned an error: %v", err)
		}
		if f := keysOf(o2); !okN[len(f)] || fmt.Sprint(distinct(f)) != fmt.Sprint(distinct(want)) {
			return fail("Find(out, name IN %v) returned keys %v, the model has %v", names, f, want)
		}
	}
	if got := dump(h.d); got != h.m.render() {
		return fail("Count/Find changed the database")
	}

	// (d) the in-memory relation fields of the owner object(s) that received every operation
	for i, o := range mem {
		for _, rr := range rels {
			got := fieldKeys(h.memOwner(i), rr)
			want := distinct(h.m.linked(rr, []uint{o}))
			if fmt.Sprint(got) != fmt.Sprint(want) {
				return fail("in-memory field %s of owner %d holds keys %v, the model links %v", rr.Name, o, got, want)
			}
		}
	}
	return ""
}

// faultEnd is returned by step when an injected fault was reported as an error: the history ends.
const faultEnd = "\x00fault reported"

func indent(s string) string {
	return "      " + strings.ReplaceAll(strings.TrimRight(s, "\n"), "\n", "\n      ") + "\n"
}

// ---- generators -----------------------------------------------------------------------------------

func genSetup(rt *rapid.T) Setup {
	su := Setup{}
	su.Kind = rapid.SampledFrom([]string{"One", "Many", "Notes", "Boss", "Chief", "Tags", "Parts", "Langs", "Docs", "Refs", "Guild", "Badges", "Seal", "Clubs", "mixed", "mixed"}).Draw(rt, "kind")
	su.NOwners = rapid.IntRange(1, 3).Draw(rt, "owners")
	su.Slice = rapid.IntRange(0, 2).Draw(rt, "mode") == 0
	if su.Slice {
		su.PtrElems = rapid.Bool().Draw(rt, "ptrElems")
		n := rapid.IntRange(1, su.NOwners).Draw(rt, "sliceLen")
		perm := rapid.Permutation([]uint{1, 2, 3}[:su.NOwners]).Draw(rt, "sliceOrder")
		su.Mem = perm[:n]
	} else {
		su.Mem = []uint{uint(rapid.IntRange(1, su.NOwners).Draw(rt, "owner"))}
	}
	su.Preload = rapid.IntRange(0, 3).Draw(rt, "preload") == 0
	if su.Slice {
		su.ByValue = rapid.IntRange(0, 2).Draw(rt, "byValue") == 0
	} else {
		su.PtrPtr = rapid.IntRange(0, 3).Draw(rt, "ptrptr") == 0
	}
	su.Cfg = Cfg{
		SkipTx:      rapid.IntRange(0, 3).Draw(rt, "cfg.skiptx") == 0,
		Batch:       rapid.SampledFrom([]int{0, 0, 0, 1, 2}).Draw(rt, "cfg.batch"),
		QueryFields: rapid.IntRange(0, 3).Draw(rt, "cfg.queryfields") == 0,
		NoReturning: rapid.IntRange(0, 3).Draw(rt, "cfg.noreturning") == 0,
		FullSave:    rapid.IntRange(0, 3).Draw(rt, "cfg.fullsave") == 0,
	}
	inMem := func(o uint) bool { return contains(su.Mem, o) }
	// holders that may own seeded links: database-only owners (always), in-memory owners only when preloaded
	var holders []uint
	for o := uint(1); o <= uint(su.NOwners); o++ {
		if !inMem(o) || su.Preload {
			holders = append(holders, o)
		}
	}
	su.FK = map[string][]string{}
	for _, r := range rels {
		if !r.fkFamily() {
			continue
		}
		hasOneTaken := map[uint]bool{}
		for id := 1; id <= poolSize; id++ {
			h := ""
			c := rapid.IntRange(0, 3).Draw(rt, fmt.Sprintf("seed.%s.%d", r.Name, id))
			switch {
			case c <= 1 && len(holders) > 0:
				o := rapid.SampledFrom(holders).Draw(rt, "seed.holder")
				if r.Kind != hasOne || !hasOneTaken[o] {
					h = ownersHolder(o)
					hasOneTaken[o] = true
				}
			case c == 2 && r.Poly != "":
				h = fmt.Sprintf("others/%d", rapid.IntRange(1, 3).Draw(rt, "seed.other"))
			}
			su.FK[r.Name] = append(su.FK[r.Name], h)
		}
	}
	su.BT = map[string][]uint{}
	for _, rn := range belongsToRels {
		for o := uint(1); o <= uint(su.NOwners); o++ {
			b := uint(0)
			if (!inMem(o) || su.Preload) && rapid.Bool().Draw(rt, "seed.hasBoss") {
				b = uint(rapid.IntRange(1, poolSize).Draw(rt, "seed.boss"))
			}
			su.BT[rn] = append(su.BT[rn], b)
		}
	}
	su.Pairs = map[string][][2]uint{}
	for _, rn := range m2mRels {
		for _, o := range holders {
			for t := uint(1); t <= poolSize; t++ {
				if rapid.IntRange(0, 3).Draw(rt, "seed.pair") == 0 {
					su.Pairs[rn] = append(su.Pairs[rn], [2]uint{o, t})
				}
			}
		}
	}
	return su
}

type stepInfo struct { // what the drawn values were, for NT and the class histogram
	classes []string
	linked  bool // an already linked target was handed over
	dup     bool // the same target twice in one call
}

var formsMulti = []string{"ptrs", "slice", "ptrslice", "sliceptr", "mixed", "ptrarray"}

// genStep draws the next call from the current model state.
func (h *hist) genStep(rt *rapid.T, allowUnscoped bool) (Step, stepInfo) {
	s := Step{}
	info := stepInfo{}
	if h.su.Kind == "mixed" {
		s.Rel = rapid.SampledFrom([]string{"One", "Many", "Notes", "Boss", "Chief", "Tags", "Parts", "Langs", "Docs", "Refs", "Guild", "Badges", "Seal", "Clubs"}).Draw(rt, "rel")
	} else {
		s.Rel = h.su.Kind
	}
	r := relByName(s.Rel)
	s.Act = rapid.SampledFrom([]string{"append", "append", "append", "append", "replace", "replace", "delete", "delete", "delete", "clear", "count", "find"}).Draw(rt, "act")
	if h.su.Kind == "mixed" && h.oneUnlinked && rapid.IntRange(0, 2).Draw(rt, "afterHasOneUnlink") == 0 {
		s.Rel = rapid.SampledFrom(belongsToRels).Draw(rt, "clearRel")
		s.Act = "clear"
		r = relByName(s.Rel)
	}
	if allowUnscoped {
		s.Unscoped = rapid.IntRange(0, 2).Draw(rt, "unscoped") == 0
	}
	mem := h.su.Mem
	usedBy := map[uint]uint{} // target -> owner it was given to in this call

	// draw one value for owner o (o == 0: Delete, any in-memory owner)
	draw := func(o uint, already []Val) Val {
		type cand struct {
			v   Val
			cls string
		}
		var cs []cand
		if s.Act != "delete" {
			cs = append(cs, cand{Val{New: "?"}, "val:new"})
		} else if len(already) > 0 {
			cs = append(cs, cand{Val{New: "?"}, "val:unsaved-in-delete"}) // names no link: must change nothing
		}
		for _, t := range sortedKeys(h.m.rows[r.Name]) {
			holders := []uint{}
			switch {
			case r.fkFamily():
				hd := h.m.holder[r.Name][t]
				for _, x := range []uint{1, 2, 3} {
					if hd == ownersHolder(x) {
						holders = append(holders, x)
					}
				}
				if strings.HasPrefix(hd, "others/") {
					holders = append(holders, 99)
				}
			case r.Kind == belongsTo:
				for x, b := range h.m.boss[r.Name] {
					if b == t {
						holders = append(holders, x)
					}
				}
			default:
				for p := range h.m.pairs[r.Name] {
					if p[1] == t {
						holders = append(holders, p[0])
					}
				}
			}
			cls := "val:unlinked"
			self := false
			if o != 0 {
				self = contains(holders, o)
			} else {
				for _, x := range mem {
					self = self || contains(holders, x)
				}
			}
			if self {
				cls = "val:linked-self"
			} else if len(holders) > 0 {
				cls = "val:linked-other"
			}
			if s.Act != "delete" && r.fkFamily() && h.su.Slice {
				// D1/D3 in slice mode: a has-one/has-many target never goes to two owners in one
				// call, and a target another in-memory owner object still holds is not moved
				// to this one (that object would re-assert its stale link on its next save)
				if g, ok := usedBy[t]; ok && g != o {
					continue
				}
				stale := false
				for _, x := range mem {
					if x != o && contains(holders, x) {
						stale = true
					}
				}
				if stale {
					continue
				}
			}
			for _, a := range already {
				if a.ID == t {
					cls = "val:dup"
				}
			}
			cs = append(cs, cand{Val{ID: t}, cls})
		}
		// pick a class first (so rare classes are not drowned), then a member
		var names []string
		seen := map[string]bool{}
		for _, c := range cs {
			if !seen[c.cls] {
				seen[c.cls] = true
				names = append(names, c.cls)
			}
		}
		sort.Strings(names)
		if len(names) == 0 {
			return Val{}
		}
		cls := rapid.SampledFrom(names).Draw(rt, "valClass")
		var members []Val
		for _, c := range cs {
			if c.cls == cls {
				members = append(members, c.v)
			}
		}
		v := members[rapid.IntRange(0, len(members)-1).Draw(rt, "val")]
		if v.New != "" {
			h.newSeq++
			v.New = fmt.Sprintf("n%d", h.newSeq)
			if r.textKey() && s.Act != "delete" { // the caller chooses the key of a new string-/composite-keyed target
				if r.Str {
					v.Code = codeOf(h.nextStr[r.Name])
				} else {
					v.Key = h.nextStr[r.Name]
				}
				h.nextStr[r.Name]++
			}
		} else {
			usedBy[v.ID] = o
		}
		// a target type with the inverse belongs-to: the value may carry that back reference populated
		// (read with Preload, or built with Owner: &other) - with FullSaveAssociations the nested
		// relation is saved by contract, so the back reference would be a second instruction
		if r.Back && !h.su.Cfg.FullSave && s.Act != "delete" && rapid.IntRange(0, 2).Draw(rt, "backref") == 0 {
			if v.New != "" {
				v.BackID = uint(rapid.IntRange(1, h.su.NOwners).Draw(rt, "backOwner"))
				info.classes = append(info.classes, "val:back-reference/built")
			} else {
				v.Back = true
				info.classes = append(info.classes, "val:back-reference/preloaded")
				if cls == "val:linked-other" {
					info.classes = append(info.classes, "val:back-reference/preloaded-points-at-another-owner")
				}
			}
		}
		info.classes = append(info.classes, cls)
		if cls == "val:linked-self" || cls == "val:linked-other" {
			info.linked = true
		}
		if cls == "val:dup" {
			info.dup = true
		}
		return v
	}
	form := func() string {
		if r.single() {
			return rapid.SampledFrom([]string{"ptrs", "ptrs", "ptrs", "slice", "ptrarray"}).Draw(rt, "form")
		}
		return rapid.SampledFrom(formsMulti).Draw(rt, "form")
	}
	s.Handle = rapid.SampledFrom([]string{"", "", "", "ctx", "session", "newdb", "prepared", "skiphooks", "tx", "txfunc"}).Draw(rt, "handle")
	if s.Unscoped {
		s.DBUnscoped = rapid.Bool().Draw(rt, "dbUnscoped")
	}
	// ownDraw: hand back elements of the owner's own by-value relation field (ordinary use:
	// "keep these, drop the rest"): a sub-slice owner.Rel[lo:hi] or pointers &owner.Rel[k], any order
	ownDraw := func(oi int, subsliceOnly bool) ([]Val, []int, string, bool) {
		if !r.ByVal {
			return nil, nil, "", false
		}
		f := reflect.ValueOf(h.memOwner(oi)).Elem().FieldByName(r.Name)
		var keys []uint
		for k := 0; k < f.Len(); k++ {
			id := handleOf(f.Index(k), r)
			if id == 0 {
				return nil, nil, "", false
			}
			keys = append(keys, id)
		}
		if len(keys) == 0 {
			return nil, nil, "", false
		}
		fm := "own-subslice"
		if !subsliceOnly {
			fm = rapid.SampledFrom([]string{"own-subslice", "own-pointers"}).Draw(rt, "ownForm")
		}
		var idx []int
		if fm == "own-subslice" {
			lo := rapid.IntRange(0, len(keys)-1).Draw(rt, "ownLo")
			hi := rapid.IntRange(lo+1, len(keys)).Draw(rt, "ownHi")
			for k := lo; k < hi; k++ {
				idx = append(idx, k)
			}
		} else {
			all := make([]int, len(keys))
			for k := range all {
				all[k] = k
			}
			perm := rapid.Permutation(all).Draw(rt, "ownPerm")
			n := rapid.IntRange(1, len(perm)).Draw(rt, "ownN")
			if n > 4 {
				n = 4
			}
			idx = perm[:n]
		}
		var vs []Val
		seen := map[uint]bool{}
		for _, k := range idx {
			vs = append(vs, Val{ID: keys[k]})
			if seen[keys[k]] {
				info.dup = true
			}
			seen[keys[k]] = true
		}
		info.classes = append(info.classes, "val:linked-self")
		info.linked = true
		return vs, idx, fm, true
	}
	switch s.Act {
	case "append", "replace":
		s.OwnIdx = make([][]int, len(mem))
		for oi, o := range mem {
			if r.ByVal && rapid.IntRange(0, 4).Draw(rt, "own") == 0 {
				if vs, idx, fm, ok := ownDraw(oi, h.su.Slice); ok {
					s.Args = append(s.Args, vs)
					s.Forms = append(s.Forms, fm)
					s.OwnIdx[oi] = idx
					continue
				}
			}
			n := 1
			if !r.single() {
				n = rapid.IntRange(1, 3).Draw(rt, "nvals")
				// now and then more values than the capacity (10) the save callbacks start their slices with
				if h.nextStr["Parts"]+h.nextStr["Langs"] < 80 && rapid.IntRange(0, 19).Draw(rt, "bulk") == 0 {
					n = rapid.IntRange(11, 13).Draw(rt, "nbulk")
					info.classes = append(info.classes, "size:11-13-values")
				}
			}
			var vs []Val
			for i := 0; i < n; i++ {
				vs = append(vs, draw(o, vs))
			}
			f := form()
			if h.su.Slice && (f == "ptrs" || f == "mixed") && len(vs) > 1 {
				f = "slice" // one argument per owner
			}
			s.Args = append(s.Args, vs)
			s.Forms = append(s.Forms, f)
		}
	case "delete":
		n := rapid.IntRange(1, 3).Draw(rt, "nvals")
		var vs []Val
		for i := 0; i < n; i++ {
			if v := draw(0, vs); v.ID != 0 || v.New != "" {
				vs = append(vs, v)
			}
		}
		s.Args = [][]Val{vs}
		f := rapid.SampledFrom([]string{"ptrs", "slice", "ptrslice", "sliceptr", "mixed", "ptrarray", "value", "own-field", "own-elements"}).Draw(rt, "form")
		if f == "own-elements" {
			f = "ptrs"
			var cands []int
			for i, o := range mem {
				if r.ByVal && len(h.m.linked(r, []uint{o})) > 0 {
					cands = append(cands, i)
				}
			}
			if len(cands) > 0 {
				oi := cands[rapid.IntRange(0, len(cands)-1).Draw(rt, "own")]
				if ovs, idx, fm, ok := ownDraw(oi, false); ok {
					s.Own, vs, f = oi, ovs, fm
					s.Args = [][]Val{vs}
					s.OwnIdx = [][]int{idx}
				}
			}
		}
		if f == "own-field" {
			// Delete(&owner.Rel): what the owner object holds, i.e. (memory = model) its links
			var cands []int
			for i, o := range mem {
				if len(h.m.linked(r, []uint{o})) > 0 {
					cands = append(cands, i)
				}
			}
			if len(cands) == 0 {
				f = "ptrs"
			} else {
				s.Own = cands[rapid.IntRange(0, len(cands)-1).Draw(rt, "own")]
				vs = nil
				for _, t := range distinct(h.m.linked(r, []uint{mem[s.Own]})) {
					vs = append(vs, Val{ID: t})
				}
				s.Args = [][]Val{vs}
				info.classes = []string{"val:linked-self"}
				info.linked = true
			}
		}
		if len(vs) == 0 && (f == "ptrarray" || f == "mixed") {
			f = "ptrs"
		}
		s.Forms = []string{f}
	}
	if s.mutating() && rapid.IntRange(0, 9).Draw(rt, "fault") == 0 {
		s.Fault = rapid.IntRange(1, 8).Draw(rt, "faultAt")
	}
	if r.Kind == m2m && (s.Act == "append" || s.Act == "replace") {
		saved := true
		for _, vs := range s.Args {
			for _, v := range vs {
				saved = saved && v.New == ""
			}
		}
		if saved {
			s.Omit = rapid.IntRange(0, 2).Draw(rt, "omit") == 0
		}
	}
	return s, info
}

// ---- the property ---------------------------------------------------------------------------------

const ruleText = "C12: one history = saved owners 1..3 of one owner type carrying has-one (*T), has-many ([]T), polymorphic has-many, belongs-to (pointer key + *T, and value key + T) and many-to-many ([]*T) relations, plus a has-many and a many-to-many whose targets have a STRING primary key (seeded keys go, GO, a_b, nil; new targets take Go, gO, A_B, NIL, ... so that keys differing only in letter case meet); " +
	"4 saved targets per relation; links of database-only owners (and of Preload-ed in-memory owners) seeded with plain SQL before the first call; " +
	"1-8 calls Append/Replace/Delete/Clear/Count/Find on db.Model(&owner).Association(rel) (single mode) or db.Model(&owners) (slice of 1-3 owner objects, []Owner or []*Owner, one argument per owner for Append/Replace), " +
	"scoped or .Unscoped(), the history staying on one relation kind or mixing the five on the same object(s); values are fresh copies of saved targets (unlinked, linked to this owner, linked to another owner, twice in one call) or new unsaved targets (in Delete: an unsaved value that names no link), " +
	"passed as pointers, []T, *[]T, []*T, a pointer followed by a slice, *[n]T, and for Delete also plain struct values or the owner's own relation field (&owner.Rel); now and then 11-13 values in one call; the same pointer twice; " +
	"further relation shapes: composite keys (ID, Rev) with a zero part (has-many []*T, many-to-many []T), `references:` over a unique non-primary column (belongs-to, has-many), polymorphic has-one with polymorphicValue, renamed join columns, a soft-delete target (has-many), value and signed-integer foreign keys; " +
	"each call goes through db, db.WithContext, Session{}, Session{NewDB}, Session{PrepareStmt}, Session{SkipHooks}, Begin..Commit or db.Transaction(func); Unscoped calls also as db.Unscoped()...Unscoped() (permanent delete of soft-delete targets); many-to-many Append/Replace of saved targets also behind Omit(\"Rel.*\"); " +
	"per history Config.SkipDefaultTransaction, CreateBatchSize 1/2, QueryFields, FullSaveAssociations and a dialector without RETURNING; the owners slice also by value; Find into *[]T and *[]*T, and Count/Find with Where(..) on the chain and Find(out, conds); " +
	"has-one/belongs-to calls take one value per owner; in slice mode a has-one/has-many target is never given to two owners in one call nor moved between two in-memory owner objects. " +
	"After every call: all tables read with plain SQL equal a link-set model (cardinality per kind, targets survive unless Unscoped), Count() and Find() through the same object(s) equal the model, " +
	"and the distinct non-zero keys in every in-memory relation field of every in-memory owner equal the model. " +
	"non-trivial = at least 3 mutating calls, a Delete/Replace after an Append, and an already-linked or duplicate target handed over; distinct = setup + call list"

func TestC12(t *testing.T) {
	evid.Rule(ruleText)
	evid.Assume("many-to-many Unscoped removes join rows only (documented: Unscoped 'has nothing to do with ManyToMany'); for belongs-to on a slice of owners Count/len(Find) may count a record shared by two owners per link or once (they must agree); many-to-many links are join rows and are all counted")
	rapid.Check(t, func(rt *rapid.T) {
		su := genSetup(rt)
		allowUnscoped := rapid.Bool().Draw(rt, "allowUnscoped")
		h := start(su)
		defer h.close()
		var desc strings.Builder
		desc.WriteString(su.String() + " steps: ")
		nSteps := rapid.IntRange(1, 8).Draw(rt, "nsteps")
		classes := map[string]bool{}
		mutating, sawAppend, afterAppend, linkedOrDup := 0, false, false, false
		for i := 0; i < nSteps; i++ {
			s, info := h.genStep(rt, allowUnscoped)
			if cls := h.knownClass(s); cls != "" && harness.OpenClass("C12", cls) {
				evid.Excluded(cls)
				continue
			}
			desc.WriteString(s.String() + "; ")
			evid.Journal(desc.String())
			r := relByName(s.Rel)
			scope := "scoped"
			if s.Unscoped {
				scope = "unscoped"
			}
			mode := "single"
			if su.Slice {
				mode = "slice"
			}
			classes["kind:"+r.Kind] = true
			classes["rel:"+r.Name] = true
			// the shape of the (repaired) hasone-zero-pointer finding must keep being generated
			if r.Kind == hasOne && (s.Act == "delete" || s.Act == "clear") {
				h.oneUnlinked = true
			}
			if r.Kind == hasOne && (s.Act == "append" || s.Act == "replace") {
				h.oneUnlinked = false
			}
			if r.Kind == belongsTo && s.Act == "clear" && h.oneUnlinked {
				classes["shape:has-one-delete/clear-then-belongs-to-clear"] = true
			}
			if r.Str {
				classes["key:string"] = true
				classes["key:string/"+r.Kind+"/"+s.Act+"/"+mode] = true
			}
			if r.Comp {
				classes["key:composite"] = true
				classes["key:composite/"+r.Kind+"/"+s.Act+"/"+mode] = true
			}
			if r.Ref {
				classes["references:non-primary"] = true
				classes["references:non-primary/"+r.Kind+"/"+s.Act+"/"+scope+"/"+mode] = true
			}
			classes["act:"+s.Act] = true
			classes["scope:"+scope] = true
			classes[r.Kind+"/"+s.Act+"/"+scope+"/"+mode] = true
			for _, c := range info.classes {
				classes[c] = true
			}
			for _, f := range s.Forms {
				classes["form:"+f] = true
			}
			for i, idx := range s.OwnIdx {
				if idx == nil {
					continue
				}
				classes["own-elements/"+s.Act+"/"+s.Forms[i]] = true
				outOfOrder := false
				for k := 1; k < len(idx); k++ {
					outOfOrder = outOfOrder || idx[k] < idx[k-1]
				}
				if s.Act == "replace" && ((s.Forms[i] == "own-subslice" && idx[0] >= 1 && len(idx) >= 2) || (s.Forms[i] == "own-pointers" && outOfOrder)) {
					classes["own-elements/replace/aliasing-shift (sub-slice from index>=1, or pointers out of order)"] = true
				}
			}
			if s.Handle != "" {
				classes["handle:"+s.Handle] = true
			}
			if info.dup && h.stepNo%2 == 1 { // step() increments stepNo first: this call runs with an even number
				for _, f := range s.Forms {
					if f == "ptrs" || f == "sliceptr" {
						classes["val:dup-same-pointer"] = true
					}
				}
			}
			if s.DBUnscoped {
				classes["opt:db.Unscoped+Unscoped/"+r.Kind+"/"+s.Act] = true
			}
			if s.Omit {
				classes["opt:Omit(rel.*)/"+s.Act] = true
			}
			if s.Unscoped && r.Name == "Many" {
				classes["shape:soft-delete-target/"+s.Act] = true
			}
			if s.mutating() {
				mutating++
				if (s.Act == "delete" || s.Act == "replace") && sawAppend {
					afterAppend = true
				}
				if s.Act == "append" {
					sawAppend = true
				}
				linkedOrDup = linkedOrDup || info.linked || info.dup
			}
			msg := h.step(s)
			if msg == faultEnd {
				classes["fault:reported-as-error/"+r.Kind+"/"+s.Act] = true
				break
			}
			if msg != "" {
				rt.Fatalf("C12 violated: %s\n  case: %s", msg, desc.String())
			}
			if s.Fault > 0 {
				classes["fault:not-reached"] = true
			}
		}
		var cl []string
		for k := range classes {
			cl = append(cl, k)
		}
		sort.Strings(cl)
		if su.Slice {
			cl = append(cl, "mode:slice")
		} else {
			cl = append(cl, "mode:single")
		}
		if su.Kind == "mixed" {
			cl = append(cl, "history:mixed")
		} else {
			if rk := relByName(su.Kind); rk.Str {
				cl = append(cl, "history:"+rk.Kind+"+string-key")
			} else if rk.Comp {
				cl = append(cl, "history:"+rk.Kind+"+composite-key")
			} else if rk.Ref {
				cl = append(cl, "history:"+rk.Kind+"+references-non-primary")
			} else {
				cl = append(cl, "history:"+relByName(su.Kind).Kind)
			}
		}
		if su.Preload {
			cl = append(cl, "owner:preloaded")
		}
		if su.ByValue {
			cl = append(cl, "owners:slice-by-value")
		}
		if su.PtrPtr {
			cl = append(cl, "owner:pointer-to-pointer(**T)")
		}
		if su.Cfg.SkipTx {
			cl = append(cl, "cfg:SkipDefaultTransaction")
		}
		if su.Cfg.Batch > 0 {
			cl = append(cl, fmt.Sprintf("cfg:CreateBatchSize=%d", su.Cfg.Batch))
		}
		if su.Cfg.QueryFields {
			cl = append(cl, "cfg:QueryFields")
		}
		if su.Cfg.NoReturning {
			cl = append(cl, "cfg:no-RETURNING")
		}
		if su.Cfg.FullSave {
			cl = append(cl, "cfg:FullSaveAssociations")
		}
		if h.stepNo >= 1 {
			cl = append(cl, "find:dest=*[]*T")
		}
		if h.stepNo >= 2 {
			cl = append(cl, "find:dest=*[]T", "find:Where+Count/Find,Find(conds)")
		}
		evid.Case(desc.String(), mutating >= 3 && afterAppend && linkedOrDup, nil, cl...)
	})
}

// ---- witnesses of known findings (open: fail while the defect exists; fixed: regression tests) ----------

func sliceSetup(kind string, n int) Setup {
	su := plainSetup(kind)
	su.NOwners, su.Slice, su.Mem, su.BT = n, true, nil, map[string][]uint{"Boss": make([]uint, n), "Chief": make([]uint, n), "Guild": make([]uint, n)}
	for o := 1; o <= n; o++ {
		su.Mem = append(su.Mem, uint(o))
	}
	return su
}

func per(rel, act string, unscoped bool, ids ...[]uint) Step {
	s := Step{Rel: rel, Act: act, Unscoped: unscoped}
	for _, l := range ids {
		var vs []Val
		for _, id := range l {
			vs = append(vs, Val{ID: id})
		}
		f := "slice"
		if len(vs) == 1 {
			f = "ptrs"
		}
		s.Args, s.Forms = append(s.Args, vs), append(s.Forms, f)
	}
	return s
}

func plainSetup(kind string) Setup {
	su := Setup{Kind: kind, NOwners: 1, Mem: []uint{1}, FK: map[string][]string{}, BT: map[string][]uint{"Boss": {0}, "Chief": {0}, "Guild": {0}}}
	for _, r := range rels {
		if r.fkFamily() {
			su.FK[r.Name] = make([]string, poolSize)
		}
	}
	return su
}

func one(rel, act string, unscoped bool, ids ...uint) Step {
	s := Step{Rel: rel, Act: act, Unscoped: unscoped}
	if len(ids) > 0 {
		var vs []Val
		for _, id := range ids {
			vs = append(vs, Val{ID: id})
		}
		s.Args, s.Forms = [][]Val{vs}, []string{"ptrs"}
	}
	return s
}

func witness(t *testing.T, su Setup, steps ...Step) {
	t.Helper()
	h := start(su)
	h.noExclusions = true
	defer h.close()
	var desc []string
	for _, s := range steps {
		desc = append(desc, s.String())
		if msg := h.step(s); msg == faultEnd {
			return
		} else if msg != "" {
			t.Errorf("C12 violated: %s\n  case: %s steps: %s", msg, su, strings.Join(desc, "; "))
			return
		}
	}
}

// One.Append(a); One.Delete(a); Boss.Clear(): the has-one Delete leaves the pointer field
// pointing at a zeroed struct, the belongs-to Clear then stores it as a new has-one row.
func TestC12WitnessHasOneZeroPointer(t *testing.T) {
	witness(t, plainSetup("mixed"), one("One", "append", false, 1), one("One", "delete", false, 1), one("Boss", "clear", false))
	witness(t, plainSetup("mixed"), one("One", "clear", false), one("Boss", "clear", false))
}

// Boss.Append(b1); Boss.Unscoped().Clear(): DELETE FROM owners WHERE id = ? AND bosses.id = ?
func TestC12WitnessBelongsToUnscoped(t *testing.T) {
	witness(t, plainSetup("Boss"), one("Boss", "append", false, 1), one("Boss", "clear", true))
}

// Boss.Append(b1); Boss.Unscoped().Replace(b2): deletes b2 (the new target) and keeps b1.
func TestC12WitnessBelongsToUnscopedNewTarget(t *testing.T) {
	witness(t, plainSetup("Boss"), one("Boss", "append", false, 1), one("Boss", "replace", true, 2))
}

// Boss.Append(b1); Boss.Unscoped().Delete(b2): deletes b1, which was not named, and keeps the link to it.
func TestC12WitnessBelongsToUnscopedDeleteUnnamed(t *testing.T) {
	witness(t, plainSetup("Boss"), one("Boss", "append", false, 1), one("Boss", "delete", true, 2))
}

// db.Model(&owners).Association("Tags"): Append([t1,t2]; [t1,t2]); Replace([t1]; [t2]) must leave
// owner 1 with t1 and owner 2 with t2, but the join rows are deleted with
// `owner_id IN (1,2) AND tag_id NOT IN (1,2)`: both owners keep both tags.
func TestC12WitnessM2MSliceReplace(t *testing.T) {
	witness(t, sliceSetup("Tags", 2), per("Tags", "append", false, []uint{1, 2}, []uint{1, 2}), per("Tags", "replace", false, []uint{1}, []uint{2}))
}

// Chief.Append(c1); Chief.Unscoped().Replace(c1) (value foreign key): re-setting the current
// target deletes it and leaves the owner pointing at the deleted row.
func TestC12WitnessBelongsToUnscopedSameTarget(t *testing.T) {
	witness(t, plainSetup("Chief"), one("Chief", "append", false, 1), one("Chief", "replace", true, 1))
}

// db.Model(&[]Owner{o1,o2}): Chief.Append(c1; c2); Boss.Clear() must only clear boss_id, but
// runs `UPDATE owners SET boss_id = NULL, chief_id = 2 WHERE id IN (1,2)`: owner 1 loses chief c1.
func TestC12WitnessBelongsToClearSliceOtherFK(t *testing.T) {
	witness(t, sliceSetup("mixed", 2), per("Chief", "append", false, []uint{1}, []uint{2}), one("Boss", "clear", false))
}

// Guild is declared `foreignKey:GuildCode;references:Code`. Guild.Append(g1); Guild.Unscoped().Delete(g1)
// must delete record g1, but runs `DELETE FROM guilds WHERE guilds.id = 'c-guild1'`: the value of the
// foreign key is compared with the primary key column, g1 survives.
func TestC12WitnessBelongsToUnscopedReferences(t *testing.T) {
	witness(t, plainSetup("Guild"), one("Guild", "append", false, 1), one("Guild", "delete", true, 1))
}

// ---- documented error returns ---------------------------------------------------------------------------

// The documented failure modes of association mode: each must return an error and define
// no link (the database stays as it was).
func TestC12Errors(t *testing.T) {
	type ecase struct {
		name  string
		slice bool
		call  func(h *hist) error
	}
	cases := []ecase{
		{"unknown relation name", false, func(h *hist) error {
			return h.d.Model(h.modelArg()).Association("Nope").Append(&Many{Name: "x"})
		}},
		{"slice of 2 owners, Append with 1 value", true, func(h *hist) error {
			return h.d.Model(h.modelArg()).Association("Many").Append(&Many{Name: "x"})
		}},
		{"slice of 2 owners, Replace with 3 values", true, func(h *hist) error {
			return h.d.Model(h.modelArg()).Association("Tags").Replace(&Tag{Name: "x"}, &Tag{Name: "y"}, &Tag{Name: "z"})
		}},
		{"Append of a non-addressable struct value", false, func(h *hist) error {
			return h.d.Model(h.modelArg()).Association("Many").Append(Many{Name: "x"})
		}},
		{"Append of a value of another type", false, func(h *hist) error {
			return h.d.Model(h.modelArg()).Association("Many").Append(&Tag{Name: "x"})
		}},
		{"Delete on an unsaved owner", false, func(h *hist) error {
			return h.d.Model(&Owner{Name: "unsaved"}).Association("Many").Delete(&Many{ID: 1})
		}},
		{"many-to-many Replace on an unsaved owner", false, func(h *hist) error {
			return h.d.Model(&Owner{Name: "unsaved"}).Association("Tags").Replace()
		}},
	}
	evid.Rule("C12 errors: unknown relation, argument count not equal to the number of owners, non-addressable value, value of another type, unsaved owner: an error is returned and no link or record is stored")
	for _, c := range cases {
		su := plainSetup("Many")
		if c.slice {
			su = sliceSetup("Many", 2)
		}
		su.FK["Many"] = []string{"owners/1", "", "", ""}
		su.Pairs = map[string][][2]uint{"Tags": {{1, 1}}}
		h := start(su)
		before := dump(h.d)
		err := c.call(h)
		after := dump(h.d)
		h.close()
		evid.Case("error: "+c.name, false, nil, "error:"+c.name)
		if err == nil {
			t.Errorf("C12 violated: %s returned no error", c.name)
		}
		if before != after {
			t.Errorf("C12 violated: %s (error %v) changed the database\n  before:\n%s  after:\n%s", c.name, err, indent(before), indent(after))
		}
	}
}

// db.Model(&[]Owner{o1,o2}).Association("One").Append(&a, &b) while the first driver call (the save of o1)
// fails: saveAssociation's loop stores each owner's Updates error in association.Error and the next
// iteration overwrites it, so the call returns nil although o1's link was not stored.
func TestC12WitnessSliceSaveErrorOverwritten(t *testing.T) {
	su := sliceSetup("One", 2)
	su.Cfg.SkipTx = true
	s := Step{Rel: "One", Act: "append", Args: [][]Val{{{New: "n1"}}, {{New: "n2"}}}, Forms: []string{"ptrs", "ptrs"}, Fault: 1}
	witness(t, su, s)
}
