// C12, self-referential has-many: the record itself can be a target of its own relation
// (the handed-over value IS the owner object - no second in-memory copy, domain note D1 holds).
package c12

import (
	"fmt"
	"reflect"
	"sort"
	"strings"
	"testing"

	"gorm.io/gorm"
	"pgregory.net/rapid"

	"verif/internal/evid"
	"verif/internal/harness"
	"verif/internal/testdb"
)

// Node: children held as pointers - the relation field can hold the owner object itself.
type Node struct {
	ID       uint `gorm:"primaryKey"`
	Name     string
	ParentID *uint
	Children []*Node `gorm:"foreignKey:ParentID"`
}

// NodeV: children held by value (like User.Team in gorm's own test models) - the field holds a copy.
type NodeV struct {
	ID       uint `gorm:"primaryKey"`
	Name     string
	ParentID *uint
	Children []NodeV `gorm:"foreignKey:ParentID"`
}

func (Node) TableName() string  { return "nodes" }
func (NodeV) TableName() string { return "nodes" }

// SVal is one value of a self-history call: the owner object itself, a fresh copy of another
// saved node, or a new unsaved node.
type SVal struct {
	Self bool
	ID   uint
	New  string
}

func (v SVal) String() string {
	switch {
	case v.Self:
		return "&self"
	case v.New != "":
		return "new(" + v.New + ")"
	}
	return fmt.Sprintf("#%d", v.ID)
}

type SStep struct {
	Act  string // append | replace | delete | clear | count | find
	Vals []SVal
}

func (s SStep) String() string {
	var x []string
	for _, v := range s.Vals {
		x = append(x, v.String())
	}
	return s.Act + "(" + strings.Join(x, ",") + ")"
}

type selfHist struct {
	d       *testdb.DB
	byValue bool
	elem    reflect.Type
	owner   reflect.Value // *Node / *NodeV: the one object that receives every call
	ownerID uint
	parent  map[uint]uint // model: node -> parent (0 = none); every key is a stored row
	names   map[uint]string
}

var selfDDL []string

func startSelf(byValue bool, n int, ownerID uint, parents []uint) *selfHist {
	h := &selfHist{byValue: byValue, ownerID: ownerID, parent: map[uint]uint{}, names: map[uint]string{}, elem: reflect.TypeOf(Node{})}
	if byValue {
		h.elem = reflect.TypeOf(NodeV{})
	}
	h.d = testdb.Open(testdb.Options{Config: gorm.Config{DisableForeignKeyConstraintWhenMigrating: true}})
	if selfDDL == nil {
		if err := h.d.AutoMigrate(&Node{}); err != nil {
			panic("harness: migrate: " + err.Error())
		}
		if err := h.d.Raw("SELECT sql FROM sqlite_master WHERE sql IS NOT NULL AND name NOT LIKE 'sqlite_%' ORDER BY rowid").Scan(&selfDDL).Error; err != nil || len(selfDDL) == 0 {
			panic("harness: capture ddl")
		}
	} else if _, err := h.d.SQL.Exec(strings.Join(selfDDL, ";\n")); err != nil {
		panic("harness: ddl: " + err.Error())
	}
	var q strings.Builder
	for i := 1; i <= n; i++ {
		p := "NULL"
		if parents[i-1] != 0 {
			p = fmt.Sprint(parents[i-1])
		}
		fmt.Fprintf(&q, "INSERT INTO nodes (id, name, parent_id) VALUES (%d, 'node%d', %s);\n", i, i, p)
		h.parent[uint(i)] = parents[i-1]
		h.names[uint(i)] = fmt.Sprintf("node%d", i)
	}
	if _, err := h.d.SQL.Exec(q.String()); err != nil {
		panic("harness: seed: " + err.Error())
	}
	h.owner = reflect.New(h.elem)
	if err := h.d.First(h.owner.Interface(), ownerID).Error; err != nil {
		panic("harness: load owner: " + err.Error())
	}
	h.d.Rec.Reset()
	return h
}

func (h *selfHist) render() string {
	var ids []uint
	for id := range h.parent {
		ids = append(ids, id)
	}
	sort.Slice(ids, func(i, j int) bool { return ids[i] < ids[j] })
	var b strings.Builder
	for _, id := range ids {
		fmt.Fprintf(&b, " %d=%s>%d", id, h.names[id], h.parent[id])
	}
	return b.String()
}

func (h *selfHist) dump() string {
	h.d.Rec.Pause()
	defer h.d.Rec.Resume()
	rows, err := h.d.SQL.Query("SELECT id, name, coalesce(parent_id, 0) FROM nodes ORDER BY id")
	if err != nil {
		panic("harness: dump: " + err.Error())
	}
	defer rows.Close()
	var b strings.Builder
	for rows.Next() {
		var id, p uint
		var name string
		rows.Scan(&id, &name, &p)
		fmt.Fprintf(&b, " %d=%s>%d", id, name, p)
	}
	return b.String()
}

func (h *selfHist) children() []uint {
	var out []uint
	for id, p := range h.parent {
		if p == h.ownerID {
			out = append(out, id)
		}
	}
	sort.Slice(out, func(i, j int) bool { return out[i] < out[j] })
	return out
}

// step runs one call on db.Model(owner).Association("Children") and compares with the model.
func (h *selfHist) step(s SStep) string {
	before := h.render()
	h.d.Rec.Reset()
	var args []interface{}
	for _, v := range s.Vals {
		switch {
		case v.Self:
			args = append(args, h.owner.Interface()) // the owner object itself
		case v.New != "":
			p := reflect.New(h.elem)
			p.Elem().FieldByName("Name").SetString(v.New)
			args = append(args, p.Interface())
		default:
			p := reflect.New(h.elem)
			h.d.Rec.Pause()
			err := h.d.First(p.Interface(), v.ID).Error
			h.d.Rec.Resume()
			if err != nil {
				panic("harness: load node: " + err.Error())
			}
			args = append(args, p.Interface())
		}
	}
	assoc := h.d.Model(h.owner.Interface()).Association("Children")
	var err error
	switch s.Act {
	case "append":
		err = assoc.Append(args...)
	case "replace":
		err = assoc.Replace(args...)
	case "delete":
		err = assoc.Delete(args...)
	case "clear":
		err = assoc.Clear()
	}
	fail := func(format string, a ...interface{}) string {
		var st []string
		for _, e := range h.d.Rec.Statements() {
			st = append(st, "      "+e.String())
		}
		return fmt.Sprintf("%s\n    step: %s (owner = node %d)\n    nodes before (id=name>parent):%s\n    nodes after:                  %s\n    model after:                  %s\n    statements of the step:\n%s",
			fmt.Sprintf(format, a...), s, h.ownerID, before, h.dump(), h.render(), strings.Join(st, "\n"))
	}
	if err != nil {
		return fail("%s returned an error: %v", s.Act, err)
	}
	// resolve values, apply to the model
	var keys []uint
	for _, v := range s.Vals {
		switch {
		case v.Self:
			keys = append(keys, h.ownerID)
		case v.New != "":
			var ids []uint
			h.d.Rec.Pause()
			h.d.Raw("SELECT id FROM nodes WHERE name = ?", v.New).Scan(&ids)
			h.d.Rec.Resume()
			if s.Act == "delete" {
				if len(ids) != 0 {
					return fail("Delete stored the unsaved value %s", v.New)
				}
				continue
			}
			if len(ids) != 1 {
				return fail("new node %s is stored %d times", v.New, len(ids))
			}
			if _, ok := h.parent[ids[0]]; ok {
				return fail("new node %s took the key of an existing row", v.New)
			}
			h.parent[ids[0]], h.names[ids[0]] = 0, v.New
			keys = append(keys, ids[0])
		default:
			keys = append(keys, v.ID)
		}
	}
	switch s.Act {
	case "append", "replace":
		keep := map[uint]bool{}
		for _, k := range keys {
			h.parent[k] = h.ownerID
			keep[k] = true
		}
		if s.Act == "replace" {
			for id, p := range h.parent {
				if p == h.ownerID && !keep[id] {
					h.parent[id] = 0
				}
			}
		}
	case "delete":
		for _, k := range keys {
			if h.parent[k] == h.ownerID {
				h.parent[k] = 0
			}
		}
	case "clear":
		for id, p := range h.parent {
			if p == h.ownerID {
				h.parent[id] = 0
			}
		}
	}
	if got, want := h.dump(), h.render(); got != want {
		return fail("stored links differ from the model")
	}
	want := h.children()
	a2 := h.d.Model(h.owner.Interface()).Association("Children")
	if c := a2.Count(); a2.Error != nil || int(c) != len(want) {
		return fail("Count() = %d (error %v), the model links %v", c, a2.Error, want)
	}
	out := reflect.New(reflect.SliceOf(h.elem))
	if err := h.d.Model(h.owner.Interface()).Association("Children").Find(out.Interface()); err != nil {
		return fail("Find returned an error: %v", err)
	}
	var found []uint
	for i := 0; i < out.Elem().Len(); i++ {
		found = append(found, uint(out.Elem().Index(i).FieldByName("ID").Uint()))
	}
	sort.Slice(found, func(i, j int) bool { return found[i] < found[j] })
	if fmt.Sprint(found) != fmt.Sprint(want) {
		return fail("Find() returned keys %v, the model links %v", found, want)
	}
	// the in-memory relation field of the owner object
	f := h.owner.Elem().FieldByName("Children")
	var held []uint
	for i := 0; i < f.Len(); i++ {
		if id := uint(reflect.Indirect(f.Index(i)).FieldByName("ID").Uint()); id != 0 {
			held = append(held, id)
		}
	}
	sort.Slice(held, func(i, j int) bool { return held[i] < held[j] })
	if fmt.Sprint(distinct(held)) != fmt.Sprint(want) {
		return fail("in-memory field Children of the owner holds keys %v, the model links %v", distinct(held), want)
	}
	if id := uint(h.owner.Elem().FieldByName("ID").Uint()); id != h.ownerID {
		return fail("the owner object's key changed to %d", id)
	}
	return ""
}

// selfKnownClass: by-value children, Append/Replace naming the owner object itself.
func (h *selfHist) knownClass(s SStep) string {
	if !h.byValue || (s.Act != "append" && s.Act != "replace") {
		return ""
	}
	for _, v := range s.Vals {
		if v.Self {
			return "selfappend-byvalue-assignback"
		}
	}
	return ""
}

func TestC12Self(t *testing.T) {
	evid.Rule("C12 self-referential has-many (nodes.parent_id): 2-4 saved nodes, one in-memory owner object, links of the other nodes seeded with SQL; 1-6 calls Append/Replace/Delete/Clear/Count/Find on db.Model(&n).Association(\"Children\") whose values are the owner object itself (&n), fresh copies of other nodes and new nodes, in any order, &n possibly alone or twice; children held as []*Node or by value []NodeV; " +
		"after every call parent_id of every row (plain SQL), Count, Find and the keys in n.Children equal the model; non-trivial = at least 2 mutating calls and the owner itself handed over; distinct = flavour + seed + calls")
	rapid.Check(t, func(rt *rapid.T) {
		byValue := rapid.IntRange(0, 2).Draw(rt, "byValue") == 0
		n := rapid.IntRange(2, 4).Draw(rt, "nodes")
		ownerID := uint(rapid.IntRange(1, n).Draw(rt, "owner"))
		parents := make([]uint, n)
		for i := range parents {
			// no seeded child of the in-memory owner (its field starts empty), any other parent is fine
			if p := uint(rapid.IntRange(0, n).Draw(rt, "parent")); p != ownerID {
				parents[i] = p
			}
		}
		h := startSelf(byValue, n, ownerID, parents)
		defer h.d.Close()
		desc := fmt.Sprintf("self byValue=%v nodes=%d owner=%d parents=%v steps: ", byValue, n, ownerID, parents)
		classes := map[string]bool{}
		mutating, selfGiven, newSeq := 0, false, 0
		for i, steps := 0, rapid.IntRange(1, 6).Draw(rt, "nsteps"); i < steps; i++ {
			s := SStep{Act: rapid.SampledFrom([]string{"append", "append", "append", "replace", "replace", "delete", "delete", "clear", "count", "find"}).Draw(rt, "act")}
			if s.Act == "append" || s.Act == "replace" || s.Act == "delete" {
				shape := rapid.SampledFrom([]string{"self", "self", "self+others", "others+self", "others", "self,self"}).Draw(rt, "shape")
				others := func() {
					for k, m := 0, rapid.IntRange(1, 2).Draw(rt, "nothers"); k < m; k++ {
						var ids []uint
						for id := range h.parent {
							if id != ownerID {
								ids = append(ids, id)
							}
						}
						sort.Slice(ids, func(a, b int) bool { return ids[a] < ids[b] })
						if s.Act != "delete" && (len(ids) == 0 || rapid.IntRange(0, 2).Draw(rt, "new") == 0) {
							newSeq++
							s.Vals = append(s.Vals, SVal{New: fmt.Sprintf("n%d", newSeq)})
						} else if len(ids) > 0 {
							s.Vals = append(s.Vals, SVal{ID: rapid.SampledFrom(ids).Draw(rt, "other")})
						}
					}
				}
				switch shape {
				case "self":
					s.Vals = []SVal{{Self: true}}
				case "self,self":
					s.Vals = []SVal{{Self: true}, {Self: true}}
				case "self+others":
					s.Vals = []SVal{{Self: true}}
					others()
				case "others+self":
					others()
					s.Vals = append(s.Vals, SVal{Self: true})
				default:
					others()
				}
				classes["self/"+s.Act+"/"+shape] = true
			}
			if cls := h.knownClass(s); cls != "" && harness.OpenClass("C12", cls) {
				evid.Excluded(cls)
				continue
			}
			desc += s.String() + "; "
			evid.Journal(desc)
			classes["self/act:"+s.Act] = true
			if s.Act != "count" && s.Act != "find" {
				mutating++
			}
			for _, v := range s.Vals {
				selfGiven = selfGiven || v.Self
			}
			if msg := h.step(s); msg != "" {
				rt.Fatalf("C12 violated: %s\n  case: %s", msg, desc)
			}
		}
		var cl []string
		for k := range classes {
			cl = append(cl, k)
		}
		sort.Strings(cl)
		if byValue {
			cl = append(cl, "self/children:[]T")
		} else {
			cl = append(cl, "self/children:[]*T")
		}
		evid.Case(desc, mutating >= 2 && selfGiven, nil, cl...)
	})
}

func selfWitness(t *testing.T, byValue bool, steps ...SStep) {
	t.Helper()
	h := startSelf(byValue, 2, 1, []uint{0, 0})
	defer h.d.Close()
	var desc []string
	for _, s := range steps {
		desc = append(desc, s.String())
		if msg := h.step(s); msg != "" {
			t.Errorf("C12 violated: %s\n  case: self byValue=%v steps: %s", msg, byValue, strings.Join(desc, "; "))
			return
		}
	}
}

// Children []NodeV (by value): Append(&other); Append(&n): the link n -> n is stored and counted, but the
// owner object loses it in memory: the assign-back after the save copies the appended ELEMENT (a copy of n
// taken before the relation field was set) over the argument - which is n itself.
func TestC12WitnessSelfAppendByValue(t *testing.T) {
	selfWitness(t, true, SStep{Act: "append", Vals: []SVal{{ID: 2}}}, SStep{Act: "append", Vals: []SVal{{Self: true}}})
}
